#!/usr/bin/env python3
"""entry point:  check.py <Cxx> [--tier quick|thorough] [--replay file]      (env: VERIF_SEED, VERIF_TIER)"""
import sys, os, importlib, argparse
sys.path.insert(0, os.path.dirname(os.path.abspath(__file__)))

def main():
    ap = argparse.ArgumentParser()
    ap.add_argument('prop'); ap.add_argument('--tier', default=os.environ.get('VERIF_TIER') or 'quick'); ap.add_argument('--replay')
    a = ap.parse_args()
    seed = int(os.environ.get('VERIF_SEED', '1') or 1)
    tier = a.tier if a.tier in ('quick', 'thorough') else 'quick'
    mod = importlib.import_module('checks.' + a.prop.lower())
    sys.exit(mod.run(tier, seed, a.replay))

if __name__ == '__main__':
    main()
