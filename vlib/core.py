"""Orchestration of one check run (DESIGN.md §6).  python3 stdlib only."""
import os, sys, json, time, subprocess, hashlib, glob, re, fcntl, shutil, tempfile, struct

VERIF = os.path.dirname(os.path.dirname(os.path.abspath(__file__)))
REPO = os.environ.get('VERIF_REPO', '/repo')
BUILD = os.path.join(VERIF, 'build')
LEAN = os.path.join(VERIF, 'lean')
EVID = os.path.join(VERIF, 'evidence')
GUARD = 'SPECTRA_VERIF'
ALLOWED_AXIOMS = {'propext', 'Classical.choice', 'Quot.sound'}
FORBIDDEN = r'\bsorry\b|\badmit\b|^\s*axiom\s|native_decide|bv_decide|implemented_by|\bunsafe\s|maxHeartbeats\s+0\b'

CXX_BASE = ['g++', '-std=c++17', '-O1', '-g', '-ffp-contract=off', '-DEIGEN_DONT_VECTORIZE', '-D' + GUARD,
            '-I' + os.path.join(REPO, 'include'), '-I/usr/include/eigen3', '-I' + os.path.join(VERIF, 'harness')]
SAN = ['-fsanitize=address,undefined', '-fno-sanitize-recover=all']

def sh(cmd, **kw):
    return subprocess.run(cmd, stdout=subprocess.PIPE, stderr=subprocess.STDOUT, text=True, **kw)

def tree_hash():
    h = hashlib.sha256()
    for p in sorted(glob.glob(os.path.join(REPO, 'include', 'Spectra', '**', '*.h'), recursive=True)):
        h.update(p.encode()); h.update(open(p, 'rb').read())
    return h.hexdigest()

class Lock:
    def __init__(self, name='lean'):
        os.makedirs(BUILD, exist_ok=True); self.path = os.path.join(BUILD, '.lock_' + name)
    def __enter__(self):
        self.f = open(self.path, 'w'); fcntl.flock(self.f, fcntl.LOCK_EX); return self
    def __exit__(self, *a):
        fcntl.flock(self.f, fcntl.LOCK_UN); self.f.close()

# ---------------------------------------------------------------- step 2: regenerate Gen/*.lean
def regen():
    """returns dict module -> list of (target, message) failures"""
    sh([sys.executable, os.path.join(VERIF, 'tools', 'mkmain.py')])
    r = sh([sys.executable, os.path.join(VERIF, 'xlate', 'gen.py')])
    st = os.path.join(BUILD, 'xlate', 'xlate_status.json')
    if r.returncode not in (0, 2) or not os.path.exists(st):
        return {'_internal': [('gen.py', r.stdout[-2000:])]}
    return {m: f for m, f in json.load(open(st)).items() if f}

# ---------------------------------------------------------------- step 3: prove
def lake_build(targets):
    for attempt in range(4):
        r = sh(['lake', 'build'] + targets, cwd=LEAN)
        # lean / leanc killed by the kernel (exit 137 = SIGKILL, out of memory on a loaded machine): infrastructure, try again
        if r.returncode != 0 and re.search(r'exited with code 137|Killed signal|Cannot allocate memory|out of memory', r.stdout):
            time.sleep(30 * (attempt + 1)); continue
        break
    return r.returncode == 0, r.stdout

def first_errors(log, maxn=6):
    """[(file, line, msg)] of lean errors in a lake log"""
    out = []
    for m in re.finditer(r'^error: (\S+\.lean):(\d+):(\d+): (.*)$', log, re.M):
        out.append((m.group(1), int(m.group(2)), m.group(4)[:300]))
        if len(out) >= maxn: break
    return out

def enclosing_decl(path, line):
    try:
        ls = open(os.path.join(LEAN, path)).read().split('\n')
    except Exception:
        return '?'
    for i in range(min(line, len(ls)) - 1, -1, -1):
        m = re.match(r'\s*(?:private\s+|protected\s+|noncomputable\s+)*(theorem|lemma|def|example|instance|abbrev)\s+([\w.\']+)?', ls[i])
        if m: return (m.group(2) or m.group(1))
    return '?'

def module_file(mod):
    return os.path.join(LEAN, mod.replace('.', '/') + '.lean')

def import_closure(mod):
    """project-local modules reachable from mod"""
    seen = []; todo = [mod]
    while todo:
        m = todo.pop()
        if m in seen: continue
        f = module_file(m)
        if not os.path.exists(f): continue
        seen.append(m)
        for im in re.findall(r'^import\s+(SpectraVerif[\w.]*)', open(f).read(), re.M): todo.append(im)
    return seen

def strip_comments(src):
    # remove /- ... -/ (nested) and -- line comments and string literals
    out = []; i = 0; depth = 0; n = len(src)
    while i < n:
        if src.startswith('/-', i): depth += 1; i += 2; continue
        if depth and src.startswith('-/', i): depth -= 1; i += 2; continue
        if depth: i += 1; continue
        if src.startswith('--', i):
            j = src.find('\n', i); i = n if j < 0 else j; continue
        if src[i] == '"':
            j = i + 1
            while j < n and src[j] != '"': j += 2 if src[j] == '\\' else 1
            i = j + 1; continue
        out.append(src[i]); i += 1
    return ''.join(out)

def audit(prop_mod):
    """returns (problems, theorem_names, axioms_by_theorem)"""
    problems = []
    for m in import_closure(prop_mod):
        src = strip_comments(open(module_file(m)).read())
        for ln in src.split('\n'):
            if re.search(FORBIDDEN, ln): problems.append(f'audit:{m}: forbidden construct: {ln.strip()[:80]}')
    src = strip_comments(open(module_file(prop_mod)).read())
    ns = re.search(r'^namespace\s+(\S+)', src, re.M)
    ns = ns.group(1) if ns else None
    names = re.findall(r'^\s*theorem\s+([\w.\']+)', src, re.M)
    full = [(ns + '.' + n) if ns else n for n in names]
    if not full: return problems + ['audit: no theorems in ' + prop_mod], [], {}
    tmp = os.path.join(BUILD, 'axioms_%s.lean' % prop_mod.split('.')[-1])
    with open(tmp, 'w') as f:
        f.write(f'import {prop_mod}\n' + ''.join(f'#print axioms {n}\n' for n in full))
    r = sh(['lake', 'env', 'lean', tmp], cwd=LEAN)
    axs = {}
    for m in re.finditer(r"'([^']+)' (depends on axioms: \[([^\]]*)\]|does not depend on any axioms)", r.stdout):
        axs[m.group(1)] = [a.strip() for a in (m.group(3) or '').replace('\n', ' ').split(',') if a.strip()]
    for n in full:
        if n not in axs: problems.append(f'audit:{n}: #print axioms gave no answer: {r.stdout[-300:]}')
        else:
            extra = set(axs[n]) - ALLOWED_AXIOMS
            if extra: problems.append(f'audit:{n}: depends on non-standard axioms {sorted(extra)}')
    return problems, full, axs

def leanchecker(mod):
    r = sh(['lake', 'env', 'leanchecker', mod], cwd=LEAN)
    return r.returncode == 0, r.stdout[-500:]

# ---------------------------------------------------------------- step 4: harness
def build_harness(name, sanitize=True, extra=None, opt=None):
    """compile harness/<name>.cpp against /repo's working tree; cached by content hash. returns (path|None, log)"""
    src = os.path.join(VERIF, 'harness', name + '.cpp')
    flags = list(CXX_BASE) + (SAN if sanitize else []) + (extra or [])
    if opt: flags = [opt if f == '-O1' else f for f in flags]
    h = hashlib.sha256()
    h.update(tree_hash().encode()); h.update(' '.join(flags).encode())
    for p in [src] + sorted(glob.glob(os.path.join(VERIF, 'harness', '*.h'))): h.update(open(p, 'rb').read())
    d = os.path.join(BUILD, 'harness'); os.makedirs(d, exist_ok=True)
    exe = os.path.join(d, f'{name}_{h.hexdigest()[:16]}')
    if os.path.exists(exe): return exe, 'cached'
    for old in glob.glob(os.path.join(d, name + '_*')):
        try: os.remove(old)
        except OSError: pass
    tmp = f'{exe}.tmp{os.getpid()}'
    for attempt in range(5):
        r = sh(flags + [src, '-o', tmp, '-lpthread'])
        # a compiler killed by the kernel (out of memory on a loaded machine) says nothing about the code: wait and try again
        if r.returncode != 0 and re.search(r'Killed signal|Cannot allocate memory|virtual memory exhausted|std::bad_alloc|out of memory', r.stdout):
            time.sleep(30 * (attempt + 1)); continue
        break
    if r.returncode != 0: return None, r.stdout[-3000:]
    os.replace(tmp, exe)
    return exe, r.stdout[-500:]

def run_harness(exe, outdir, seed, tier, extra_args=None, timeout=3600, env=None):
    shutil.rmtree(outdir, ignore_errors=True); os.makedirs(outdir)
    e = dict(os.environ); e['ASAN_OPTIONS'] = 'detect_leaks=0:abort_on_error=0'; e['UBSAN_OPTIONS'] = 'print_stacktrace=1'
    if env: e.update(env)
    try:
        r = subprocess.run([exe, '--seed', str(seed), '--tier', tier, '--out', outdir] + (extra_args or []),
                           stdout=subprocess.PIPE, stderr=subprocess.STDOUT, text=True, timeout=timeout, env=e, errors='replace')
        return r.returncode, r.stdout
    except subprocess.TimeoutExpired as ex:
        return -9, 'TIMEOUT ' + str(ex)

def drv_path(name): return os.path.join(LEAN, '.lake', 'build', 'bin', 'drv_' + name.lower())

def run_driver(req_file, out_file, name):
    with open(req_file) as fi, open(out_file, 'w') as fo:
        r = subprocess.run([drv_path(name)], stdin=fi, stdout=fo, stderr=subprocess.PIPE, text=True)
    return r.returncode, r.stderr[-1000:]

# ---------------------------------------------------------------- comparison
def ulp_diff(a, b):
    """a, b: uint64 bit patterns of doubles -> ulp distance (large if sign/NaN mismatch)"""
    def key(u):
        return u ^ 0xFFFFFFFFFFFFFFFF if u >> 63 else u | (1 << 63)
    return abs(key(a) - key(b))

def compare_streams(req_file, impl_file, model_file, soft_ulps=0, float_fields=None, maxreport=5):
    """line-by-line comparison.  Returns dict(total, equal, soft, hard=[(lineno, req, impl, model)])
       float_fields: function(request_tokens) -> set of response field indexes that are float bit patterns (soft rule applies)"""
    res = {'total': 0, 'equal': 0, 'soft': 0, 'hard': [], 'badop': 0}
    with open(req_file) as fr, open(impl_file) as fi, open(model_file) as fm:
        for n, (rq, a, b) in enumerate(zip(fr, fi, fm)):
            res['total'] += 1
            a = a.rstrip('\n'); b = b.rstrip('\n')
            if a == b: res['equal'] += 1; continue
            if b == 'bad-op': res['badop'] += 1
            ok = False
            if soft_ulps and float_fields:
                ta = a.split(); tb = b.split()
                if len(ta) == len(tb):
                    ff = float_fields(rq.split()); ok = True
                    for i, (x, y) in enumerate(zip(ta, tb)):
                        if x == y: continue
                        if ff is not None and (ff == 'all' or i in ff) and x.isdigit() and y.isdigit() and ulp_diff(int(x), int(y)) <= soft_ulps: continue
                        ok = False; break
            if ok: res['soft'] += 1
            elif len(res['hard']) < maxreport: res['hard'].append((n + 1, rq.rstrip('\n')[:2000], a[:2000], b[:2000]))
            else: res['hard_more'] = res.get('hard_more', 0) + 1
    return res

def bits_to_float(u):
    import struct
    return struct.unpack('<d', struct.pack('<Q', u & 0xFFFFFFFFFFFFFFFF))[0]

def compare_segments(req_file, impl_file, model_file, soft_ulps=0, float_fields=None, maxreport=5, rel_tol=1e-13):
    """line-by-line comparison for responses made of ' | '-separated segments.  Every token must be equal, except bare-digit
       tokens (IEEE bit patterns) inside a segment that starts with 'rows=': those are the entries of a matrix produced by an Eigen
       matrix-matrix product (summation order differs from the model's), compared under |a-b| <= rel_tol * depth * max|entry of the segment|.
       Requests on the GENERAL family (`gen`/`genf`): eigenvectors = V * Y with unit columns and unit coefficient vectors, so every term
       V(i,k) Y(k,j) is bounded by 1 and the rounding difference is relative to max(1, max|entry|) even when a real or imaginary part cancels
       to a numerically zero matrix (all entries ~1e-16: seen at VERIF_SEED=2, thorough tier, C05 `gen` request 860; same rule as
       checks/c02.py, c06.py, c14.py)."""
    res = {'total': 0, 'equal': 0, 'soft': 0, 'hard': [], 'badop': 0}
    with open(req_file) as fr, open(impl_file) as fi, open(model_file) as fm:
        for n, (rq, a, b) in enumerate(zip(fr, fi, fm)):
            res['total'] += 1
            a = a.rstrip('\n'); b = b.rstrip('\n')
            if a == b: res['equal'] += 1; continue
            if b == 'bad-op': res['badop'] += 1
            sa = a.split(' | '); sb = b.split(' | '); ok = len(sa) == len(sb)
            f32 = rq.split(' ', 1)[0].endswith('32')        # `Scalar = float` requests carry 32-bit patterns
            conv = (lambda u: struct.unpack('<f', struct.pack('<I', u & 0xFFFFFFFF))[0]) if f32 else bits_to_float
            tol = (6e-6 if f32 else rel_tol * 64)
            floor = 1.0 if rq.split(' ', 1)[0] in ('gen', 'genf') else 0.0
            if ok:
                for x, y in zip(sa, sb):
                    if x == y: continue
                    tx = x.split(); ty = y.split()
                    if not (tx and tx[0].startswith('rows=') and len(tx) == len(ty)): ok = False; break
                    vals = [conv(int(t)) for t in tx if t.isdigit()]
                    scale = max([abs(v) for v in vals if v == v] + [floor])
                    for p, q in zip(tx, ty):
                        if p == q: continue
                        if not (p.isdigit() and q.isdigit()): ok = False; break
                        fp, fq = conv(int(p)), conv(int(q))
                        if not (abs(fp - fq) <= tol * scale): ok = False; break
                    if not ok: break
            if ok: res['soft'] += 1
            elif len(res['hard']) < maxreport: res['hard'].append((n + 1, rq.rstrip('\n')[:2000], a[:2000], b[:2000]))
            else: res['hard_more'] = res.get('hard_more', 0) + 1
    return res

# ---------------------------------------------------------------- verdict + evidence
class Run:
    def __init__(self, prop, tier, seed):
        self.prop = prop; self.tier = tier; self.seed = seed; self.t0 = time.time()
        self.obligations = []      # (name, ok, detail)
        self.broken = []           # names
        self.failures = []         # oracle failures: dict(sig, what, replay)
        self.cov = {}
        self.assumptions = []
        self.trusted = []
        self.work = os.path.join(BUILD, 'run', prop); os.makedirs(self.work, exist_ok=True)
        self.rep = os.path.join(BUILD, 'replay'); os.makedirs(self.rep, exist_ok=True)
        self.notes = []
    def oblige(self, name, ok, detail=''):
        self.obligations.append((name, bool(ok), detail))
        if not ok: self.broken.append((name, detail))
    def known(self):
        fs = []
        for p in sorted(glob.glob(os.path.join(VERIF, 'known_findings', '*.json'))):
            try: fs += json.load(open(p)).get('findings', [])
            except Exception as e: print('warning: unreadable known-findings file', p, e)
        return [f for f in fs if f.get('property') == self.prop and f.get('status') == 'known']
    def finish(self, level='proof', checker_cmd='', extra_cov=None, explanation=None):
        known = self.known()
        unlisted = []; listed = {}
        for f in self.failures:
            k = next((x for x in known if x.get('sig') == f['sig'] and all(str(f.get('replay', {}).get(kk)) == str(vv) for kk, vv in x.get('match', {}).items())), None)
            if k: listed.setdefault(k['id'], (k, f))
            else: unlisted.append(f)
        lines = []; rc = 0
        if unlisted:
            f = unlisted[0]
            path = os.path.join(self.rep, f'{self.prop}_{self.seed}_{int(time.time())}.json')
            json.dump({'property': self.prop, 'kind': 'failing-input', 'sig': f['sig'], 'what': f['what'], 'replay': f.get('replay'),
                       'broken_obligations': self.broken, 'other_failures': len(unlisted) - 1}, open(path, 'w'), indent=1)
            lines.append(f'VIOLATION property={self.prop} replay={path}'); rc = 1
        elif self.broken:
            path = os.path.join(self.rep, f'{self.prop}_{self.seed}_{int(time.time())}_broken.json')
            json.dump({'property': self.prop, 'kind': 'broken-obligation', 'broken_obligations': self.broken,
                       'note': 'no concrete failing input was found by the search; the property is no longer shown to hold'}, open(path, 'w'), indent=1)
            lines.append(f'VIOLATION property={self.prop} replay={path} no-failing-input-found'); rc = 1
        for kid, (k, f) in listed.items():
            lines.append(f'KNOWN-FINDING: property={self.prop} {k["what"]}')
        nob = len(self.obligations); ndis = sum(1 for o in self.obligations if o[1])
        cov = {'obligations': max(nob, 1), 'discharged': ndis, 'checker_cmd': checker_cmd or f'lake build SpectraVerif.Properties.{self.prop}  (cwd /verif/lean); #print axioms on every theorem',
               'trusted_base': self.trusted, 'obligation_list': [{'name': o[0], 'ok': o[1], 'detail': o[2][:300]} for o in self.obligations][:200],
               'known_findings_reproduced': sorted(listed.keys()), 'notes': self.notes}
        cov.update(self.cov)
        if extra_cov: cov.update(extra_cov)
        if explanation: cov['explanation'] = explanation
        cov.setdefault('evaluations', 1); cov.setdefault('distinct_nontrivial', 2)
        cov.setdefault('samples', ['(none recorded)'])
        cov.setdefault('rule', 'see explanation')
        ev = {'property_id': self.prop, 'tier': self.tier, 'seed': int(self.seed), 'level': level, 'coverage': cov,
              'assumptions': self.assumptions, 'wall_s': round(time.time() - self.t0, 2), 'violations': len(unlisted) + (1 if (self.broken and not unlisted) else 0)}
        os.makedirs(EVID, exist_ok=True)
        if nob > 0:     # a --replay run records no obligations: it must not overwrite the evidence of the last real run
            json.dump(ev, open(os.path.join(EVID, self.prop + '.json'), 'w'), indent=1)
        for l in lines: print(l)
        if rc == 0: print(f'OK property={self.prop} tier={self.tier} obligations={ndis}/{nob} wall={ev["wall_s"]}s')
        else:
            for b in self.broken[:8]: print('  broken:', b[0], '|', b[1][:300].replace('\n', ' '))
        return rc

TRUSTED_COMMON = [
    'Lean 4.33 kernel; axioms admitted in #print axioms: propext, Classical.choice, Quot.sound',
    'translator /verif/xlate (clang-14 JSON AST -> Lean): differential-tested against the compiled C++ on every run',
    'correspondence check samples inputs; agreement elsewhere is not proved',
    'g++ 12 / libstdc++ / Eigen 3.4.0 behave as compiled (-O1 -ffp-contract=off -DEIGEN_DONT_VECTORIZE)',
]

def standard_prove(run, prop, gen_modules, extra_targets=None, drivers=None):
    """steps 2+3 for one property: regen, build property module and driver, audit.  Fills run.obligations."""
    with Lock('lean'):
        fails = regen()
        for m in gen_modules:
            for tgt, msg in fails.get(m, []): run.oblige(f'xlate:{m}.{tgt}', False, msg)
        if '_internal' in fails: run.oblige('xlate:internal', False, str(fails['_internal'])[:500])
        mod = f'SpectraVerif.Properties.{prop}'
        ok, log = lake_build([mod])
        if not ok:
            errs = first_errors(log)
            if not errs: run.oblige(f'build:{mod}', False, log[-800:])
            seen = set()
            for (f, ln, msg) in errs:
                d = enclosing_decl(f, ln); key = (f, d)
                if key in seen: continue
                seen.add(key); run.oblige(f'theorem:{os.path.basename(f)}:{d}', False, f'{f}:{ln}: {msg}')
            thms = []
        else:
            problems, thms, axs = audit(mod)
            for p in problems: run.oblige(p.split(':')[0] + ':' + p.split(':')[1], False, p)
            for t in thms:
                if not any(t in p for p in problems): run.oblige('theorem:' + t, True, 'axioms: ' + ','.join(axs.get(t, [])))
            if run.tier == 'thorough':
                okc, lg = leanchecker(mod); run.oblige('leanchecker:' + mod, okc, lg)
        okd = True
        for d in (drivers if drivers is not None else [prop]):
            okx, logd = lake_build(['drv_' + d.lower()] + (extra_targets or []))
            if not okx:
                errs = first_errors(logd); okd = False
                run.oblige('build:drv_' + d.lower(), False, (str(errs[:2]) if errs else logd[-600:]))
        return ok and okd, thms

def load_oracle(path):
    out = []
    if os.path.exists(path):
        for ln in open(path):
            ln = ln.strip()
            if not ln: continue
            try: out.append(json.loads(ln))
            except Exception: out.append({'sig': 'unparsable', 'what': ln[:300], 'replay': {}})
    return out

def standard_corr(run, harness, corr_name, soft_ulps=0, float_fields=None, sanitize=True, extra_flags=None,
                  harness_args=None, timeout=3000, search_on_broken=True, opt=None, tier=None, driver=None, compare=None):
    """steps 4+5: build harness from /repo, run real code, run the Lean driver on the same requests, compare, load oracle failures"""
    tier = tier or run.tier
    driver = driver or run.prop
    exe, log = build_harness(harness, sanitize=sanitize, extra=extra_flags, opt=opt)
    if exe is None:
        run.oblige(f'harness-build:{harness}', False, log); return None
    out = os.path.join(run.work, harness + '_' + tier)
    # quick tier: a harness that normally runs for 1-5 minutes and is still running after 25 has met a loop that does not end
    # (reported below as harness-abort with the last case as replay) -- do not wait for the thorough-tier limit
    if tier == 'quick' and timeout == 3000: timeout = 1500
    rc, hlog = run_harness(exe, out, run.seed, tier, harness_args, timeout=timeout)
    stats = {}
    try: stats = json.load(open(os.path.join(out, 'stats.json')))
    except Exception: pass
    fails = load_oracle(os.path.join(out, 'oracle.jsonl'))
    if rc != 0:
        # sanitizer abort / crash / assertion: a result, with the harness log as replay
        tail = hlog[-1500:]
        m = re.search(r'(ERROR: AddressSanitizer[^\n]*|runtime error:[^\n]*|Assertion[^\n]*failed[^\n]*|SUMMARY:[^\n]*)', hlog)
        last = None
        lp = os.path.join(out, 'lastcase.txt')
        if os.path.exists(lp): last = open(lp).read()[:3000]
        fails.append({'sig': 'harness-abort', 'what': f'harness {harness} exited with {rc}: ' + (m.group(1) if m else tail[-300:]),
                      'replay': {'harness': harness, 'seed': run.seed, 'tier': tier, 'lastcase': last, 'log_tail': tail}})
    run.failures += fails
    # model side
    req = os.path.join(out, 'requests.txt'); impl = os.path.join(out, 'impl.txt'); model = os.path.join(out, 'model.txt')
    cmp = None
    if os.path.exists(req) and os.path.getsize(req) > 0 and os.path.exists(drv_path(driver)):
        rcd, err = run_driver(req, model, driver)
        if rcd != 0: run.oblige(f'corr:{corr_name}', False, 'driver crashed: ' + err)
        else:
            cmp = (compare or compare_streams)(req, impl, model, soft_ulps, float_fields)
            ok = not cmp['hard']
            det = ''
            if not ok:
                n, rq, a, b = cmp['hard'][0]
                det = f'line {n}: request `{rq[:400]}` implementation `{a[:300]}` model `{b[:300]}` (+{cmp.get("hard_more", 0) + len(cmp["hard"]) - 1} more)'
            run.oblige(f'corr:{corr_name}', ok, det or f'{cmp["equal"]} equal, {cmp["soft"]} soft of {cmp["total"]}')
    elif os.path.exists(req) and os.path.getsize(req) > 0:
        run.oblige(f'corr:{corr_name}', False, 'driver not built')
    c = run.cov
    c['evaluations'] = c.get('evaluations', 0) + stats.get('requests', 0) + sum(v for k, v in stats.get('counters', {}).items() if k.startswith('oracle_'))
    c.setdefault('harness_counters', {}).update({harness + ':' + k: v for k, v in stats.get('counters', {}).items()})
    c['traces_validated_against_impl'] = c.get('traces_validated_against_impl', 0) + (cmp['total'] if cmp else 0)
    c['soft_differences'] = c.get('soft_differences', 0) + (cmp['soft'] if cmp else 0)
    c['samples'] = (c.get('samples', []) + stats.get('samples', []))[:12]
    return {'stats': stats, 'cmp': cmp, 'out': out, 'rc': rc}

def distinct_count(path, cap=2000000):
    """number of distinct request lines (measured)"""
    s = set()
    try:
        with open(path) as f:
            for i, ln in enumerate(f):
                if i > cap: break
                s.add(hash(ln))
    except Exception: pass
    return len(s)
