#!/usr/bin/env python3
"""MANIFEST.setup_cmd: build the framework from files on disk (offline): regenerate Gen/*.lean from /repo,
lake build (library + property proofs + driver), pre-compile the harnesses (16 cores)."""
import sys, os, json, glob, concurrent.futures as cf
sys.path.insert(0, os.path.dirname(os.path.abspath(__file__)))
from vlib.core import *

def main():
    os.makedirs(BUILD, exist_ok=True)
    with Lock('lean'):
        fails = regen()
        if fails: print('xlate failures:', json.dumps(fails)[:2000])
        ok, log = lake_build([])
        print(log[-3000:] if not ok else 'lake build ok')
        sys.path.insert(0, os.path.join(VERIF, 'tools'))
        import mkmain
        drvs = ['drv_' + h.lower() for h in mkmain.handlers()]
        okd, logd = lake_build(drvs)
        print(logd[-3000:] if not okd else 'drivers ok: ' + ' '.join(drvs))
        if not (ok and okd):
            # isolate: a module of an unclaimed / in-progress property must not take the claimed checks down
            man0 = json.load(open(os.path.join(VERIF, 'MANIFEST.json')))
            ok = True
            for c in man0.get('checks', []):
                pid = c['property_id']
                o1, l1 = lake_build(['SpectraVerif.Properties.' + pid])
                if not o1: ok = False; print('FAILED to build claimed property', pid, l1[-1500:])
            for d in drvs:
                o2, l2 = lake_build([d])
                if not o2: print('driver failed:', d, l2[-800:])
    man = json.load(open(os.path.join(VERIF, 'MANIFEST.json')))
    hs = man.get('x_harnesses', [])
    def b(h):
        name, san, extra = h.get('name'), h.get('sanitize', True), h.get('extra')
        exe, lg = build_harness(name, sanitize=san, extra=extra, opt=h.get('opt'))
        return name, exe is not None, lg[-500:]
    with cf.ThreadPoolExecutor(max_workers=8) as ex:
        for name, okh, lg in ex.map(b, hs):
            print('harness', name, 'ok' if okh else 'FAILED ' + lg)
    # Setup only warms the caches: every check rebuilds what it needs from /repo's working tree and reports its own state
    # (a property module that does not build is a broken proof obligation of THAT property, reported by its check as a VIOLATION),
    # so a failure here must not keep the other checks from running.
    print('setup: ' + ('all claimed property modules built' if ok else 'SOME CLAIMED PROPERTY MODULES DID NOT BUILD (see above); their checks will report it'))
    return 0

if __name__ == '__main__':
    sys.exit(main())
