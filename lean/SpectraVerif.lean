import SpectraVerif.Prelude.Sc
import SpectraVerif.Gen.Rand
