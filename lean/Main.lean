import SpectraVerif.Driver.Util
import SpectraVerif.Driver.C19

/-- dispatch: the first handler that recognises the request answers it -/
def handlers : List (List String → Option String) := [Drv.C19.handle]

def step (line : String) : String :=
  let t := Drv.toks line
  match handlers.findSome? (fun h => h t) with
  | some r => r
  | none => "bad-op"

partial def loop (h : IO.FS.Stream) (out : IO.FS.Stream) : IO Unit := do
  let line ← h.getLine
  if line.isEmpty then return ()
  out.putStrLn (step line)
  loop h out

def main : IO Unit := do
  let out ← IO.getStdout
  loop (← IO.getStdin) out
  out.flush
