/-
  Executable model of `Spectra::UpperHessenbergEigen<Scalar>` (include/Spectra/LinAlg/UpperHessenbergEigen.h):
  scaling, real Schur form (`Model/HessSchur.lean`), eigenvalue extraction from the 1x1 / 2x2 diagonal blocks,
  back-substitution (`doComputeEigenvectors`), back-transformation, and `eigenvectors()` (pairing + normalisation).

  `std::complex<Scalar>` is a pair.  Complex division is what g++ emits for `std::complex<double>::operator/`: libgcc's
  `__divdc3` (GCC 12, libgcc2.c, Baudin–Smith scaling) re-implemented below as `cdiv` and validated by its own `cdiv`
  correspondence stream; complex `*=` by a real goes through `complex * complex(s, 0)` (Eigen's `operator*=(const Scalar&)`).
  Core Lean only.  Entry points: `HessEigen.compute`, `.eigenvalues`, `.eigenvectors`.
-/
import SpectraVerif.Model.HessSchur

namespace HessEigen
open Lin EigenPrims
variable {α : Type} [Add α] [Sub α] [Mul α] [Div α] [Neg α] [Sc α]

/-- `(std::max)(a, b)` = `(a < b) ? b : a` -/
@[inline] def smax (a b : α) : α := if Sc.lt a b then b else a

/-- libgcc `__divdc3(a, b, c, d)` = `(a + ib) / (c + id)` (finite path; the NaN-recovery epilogue is not modelled) -/
def cdiv (a b c d : α) : α × α :=
  let two : α := Sc.ofInt 2
  let rmin : α := Sc.minPos
  let rmin2 : α := Sc.eps
  let rminscal : α := one / Sc.eps
  let rbig : α := (two - Sc.eps) * (one / Sc.minPos)      -- DBL_MAX / 2
  let rmax2 : α := rbig * rmin2
  if Sc.lt (Sc.abs c) (Sc.abs d) then
    let big := Sc.ge (Sc.abs d) rbig
    let a := if big then a / two else a
    let b := if big then b / two else b
    let c := if big then c / two else c
    let d := if big then d / two else d
    let sc := if Sc.lt (Sc.abs d) rmin2 then true
              else (Sc.lt (Sc.abs a) rmin && Sc.lt (Sc.abs b) rmax2 && Sc.lt (Sc.abs d) rmax2)
                || (Sc.lt (Sc.abs b) rmin && Sc.lt (Sc.abs a) rmax2 && Sc.lt (Sc.abs d) rmax2)
    let a := if sc then a * rminscal else a
    let b := if sc then b * rminscal else b
    let c := if sc then c * rminscal else c
    let d := if sc then d * rminscal else d
    let ratio := c / d
    let denom := (c * ratio) + d
    if Sc.gt (Sc.abs ratio) rmin then (((a * ratio) + b) / denom, ((b * ratio) - a) / denom)
    else (((c * (a / d)) + b) / denom, ((c * (b / d)) - a) / denom)
  else
    let big := Sc.ge (Sc.abs c) rbig
    let a := if big then a / two else a
    let b := if big then b / two else b
    let c := if big then c / two else c
    let d := if big then d / two else d
    let sc := if Sc.lt (Sc.abs c) rmin2 then true
              else (Sc.lt (Sc.abs a) rmin && Sc.lt (Sc.abs b) rmax2 && Sc.lt (Sc.abs c) rmax2)
                || (Sc.lt (Sc.abs b) rmin && Sc.lt (Sc.abs a) rmax2 && Sc.lt (Sc.abs c) rmax2)
    let a := if sc then a * rminscal else a
    let b := if sc then b * rminscal else b
    let c := if sc then c * rminscal else c
    let d := if sc then d * rminscal else d
    let ratio := d / c
    let denom := (d * ratio) + c
    if Sc.gt (Sc.abs ratio) rmin then (((b * ratio) + a) / denom, (b - (a * ratio)) / denom)
    else (((d * (b / c)) + a) / denom, (b - (d * (a / c))) / denom)

/-- `z * std::complex(s, 0)` as g++ expands it: `(x s − y·0, x·0 + y s)` -/
@[inline] def cmulReal (z : α × α) (s : α) : α × α := (z.1 * s - z.2 * zero, z.1 * zero + z.2 * s)

/-- one step of the eigenvalue extraction (UpperHessenbergEigen.h:236-260): the value(s) emitted for the block starting at `i` -/
def block2 (tii ti1i1 t0 t1 : α) : (α × α) × (α × α) :=
  let p : α := TridiagEigen.half * (tii - ti1i1)
  let maxval := smax (Sc.abs p) (smax (Sc.abs t0) (Sc.abs t1))
  let t0 := t0 / maxval
  let t1 := t1 / maxval
  let p0 := p / maxval
  let z := maxval * Sc.sqrt (Sc.abs (p0 * p0 + t0 * t1))
  -- an unsplit 2x2 block must stay flagged as a complex pair: `if (!(z > 0)) z = maxval * epsilon()`
  let z := if Sc.gt z zero then z else maxval * Sc.eps
  ((ti1i1 + p, z), (ti1i1 + p, -z))

/-- `while (i < m_n)` eigenvalue extraction, as the list of emitted values from position `i` on -/
def extract (n : Nat) (t : Mat α) : Nat → Nat → List (α × α)
  | 0, _ => []
  | f + 1, i =>
    if n ≤ i then []
    else if i + 1 = n || Sc.eq (t.get (i + 1) i) zero then (t.get i i, zero) :: extract n t f (i + 1)
    else
      let b := block2 (t.get i i) (t.get (i + 1) (i + 1)) (t.get (i + 1) i) (t.get i (i + 1))
      b.1 :: b.2 :: extract n t f (i + 2)

def evalsOf (n : Nat) (t : Mat α) : Vec (α × α) := (extract n t n 0).toArray

@[inline] def evGet (ev : Vec (α × α)) (i : Nat) : α × α := ev.getD i (zero, zero)

/-- `M.col(c).tail(size - i) /= t` -/
def divColTail (m : Mat α) (c i size : Nat) (t : α) : Mat α :=
  (List.range (size - i)).foldl (fun acc k => acc.set (i + k) c (acc.get (i + k) c / t)) m

/-- `row(i).segment(l, len).dot(col(c).segment(l, len))` -/
@[inline] def rowColDot (t : Mat α) (i c l len : Nat) : α := sumFrom0 len (fun k => t.get i (l + k) * t.get (l + k) c)

structure RealSt (α : Type) where
  lastr : α
  lastw : α
  l : Nat
  t : Mat α

/-- `for (i = n-1; i >= 0; i--)` of the real-eigenvalue branch; first argument = `i + 1` -/
def realInner (size n : Nat) (p norm : α) (ev : Vec (α × α)) : Nat → RealSt α → RealSt α
  | 0, st => st
  | i + 1, st =>
    let t := st.t
    let w := t.get i i - p
    let r := rowColDot t i n st.l (n - st.l + 1)
    let evi := evGet ev i
    let st' : RealSt α :=
      if Sc.lt evi.2 zero then ⟨r, w, st.l, t⟩
      else
        let t :=
          if Sc.eq evi.2 zero then
            if Sc.ne w zero then t.set i n ((-r) / w) else t.set i n ((-r) / (Sc.eps * norm))
          else
            let x := t.get i (i + 1)
            let y := t.get (i + 1) i
            let denom := (evi.1 - p) * (evi.1 - p) + evi.2 * evi.2
            let tt := (x * st.lastr - st.lastw * r) / denom
            let t := t.set i n tt
            if Sc.gt (Sc.abs x) (Sc.abs st.lastw) then t.set (i + 1) n (((-r) - w * tt) / x)
            else t.set (i + 1) n (((-st.lastr) - y * tt) / st.lastw)
        let tt := Sc.abs (t.get i n)
        let t := if Sc.gt ((Sc.eps * tt) * tt) one then divColTail t n i size tt else t
        ⟨st.lastr, st.lastw, i, t⟩
    realInner size n p norm ev i st'

structure CplxSt (α : Type) where
  lastra : α
  lastsa : α
  lastw : α
  l : Nat
  t : Mat α

/-- `for (i = n-2; i >= 0; i--)` of the complex-pair branch; first argument = `i + 1` -/
def cplxInner (size n : Nat) (p q norm : α) (ev : Vec (α × α)) : Nat → CplxSt α → CplxSt α
  | 0, st => st
  | i + 1, st =>
    let t := st.t
    let ra := rowColDot t i (n - 1) st.l (n - st.l + 1)
    let sa := rowColDot t i n st.l (n - st.l + 1)
    let w := t.get i i - p
    let evi := evGet ev i
    let st' : CplxSt α :=
      if Sc.lt evi.2 zero then ⟨ra, sa, w, st.l, t⟩
      else
        let t :=
          if Sc.eq evi.2 zero then
            let cc := cdiv (-ra) (-sa) w q
            (t.set i (n - 1) cc.1).set i n cc.2
          else
            let x := t.get i (i + 1)
            let y := t.get (i + 1) i
            let vr := (evi.1 - p) * (evi.1 - p) + evi.2 * evi.2 - q * q
            let vi := (evi.1 - p) * Sc.ofInt 2 * q
            let vr := if Sc.eq vr zero && Sc.eq vi zero then
                        Sc.eps * norm * (Sc.abs w + Sc.abs q + Sc.abs x + Sc.abs y + Sc.abs st.lastw) else vr
            let cc := cdiv (x * st.lastra - st.lastw * ra + q * sa) (x * st.lastsa - st.lastw * sa - q * ra) vr vi
            let t := (t.set i (n - 1) cc.1).set i n cc.2
            if Sc.gt (Sc.abs x) (Sc.abs st.lastw + Sc.abs q) then
              let a := ((-ra) - w * t.get i (n - 1) + q * t.get i n) / x
              let t := t.set (i + 1) (n - 1) a
              t.set (i + 1) n (((-sa) - w * t.get i n - q * t.get i (n - 1)) / x)
            else
              let cc := cdiv ((-st.lastra) - y * t.get i (n - 1)) ((-st.lastsa) - y * t.get i n) st.lastw q
              (t.set (i + 1) (n - 1) cc.1).set (i + 1) n cc.2
        let tt := smax (Sc.abs (t.get i (n - 1))) (Sc.abs (t.get i n))
        let t := if Sc.gt ((Sc.eps * tt) * tt) one then divColTail (divColTail t (n - 1) i size tt) n i size tt else t
        ⟨st.lastra, st.lastsa, st.lastw, i, t⟩
    cplxInner size n p q norm ev i st'

/-- the `for (n = size-1; n >= 0; n--)` back-substitution loop; second argument = `n + 1` -/
def backSub (size : Nat) (norm : α) (ev : Vec (α × α)) : Nat → Nat → Mat α → Mat α
  | 0, _, t => t
  | _, 0, t => t
  | f + 1, n + 1, t =>
    let p := (evGet ev n).1
    let q := (evGet ev n).2
    if Sc.eq q zero then
      let t := t.set n n one
      backSub size norm ev f n (realInner size n p norm ev n ⟨zero, zero, n, t⟩).t
    else if Sc.lt q zero && 0 < n then
      let t :=
        if Sc.gt (Sc.abs (t.get n (n - 1))) (Sc.abs (t.get (n - 1) n)) then
          let t' := t.set (n - 1) (n - 1) (q / t.get n (n - 1))
          t'.set (n - 1) n ((-(t'.get n n - p)) / t'.get n (n - 1))
        else
          let cc := cdiv zero (-(t.get (n - 1) n)) (t.get (n - 1) (n - 1) - p) q
          (t.set (n - 1) (n - 1) cc.1).set (n - 1) n cc.2
      let t := t.set n (n - 1) zero
      let t := t.set n n one
      backSub size norm ev f (n - 1) (cplxInner size n p q norm ev (n - 1) ⟨zero, zero, zero, n - 1, t⟩).t
    else backSub size norm ev f n t

/-- the `norm` of `doComputeEigenvectors`: `norm += row(j).segment(max(j-1,0), size - max(j-1,0)).cwiseAbs().sum()` -/
def tnorm (size : Nat) (t : Mat α) : α :=
  (List.range size).foldl (fun acc j => let s := j - 1; acc + sumFrom0 (size - s) (fun k => Sc.abs (t.get j (s + k)))) zero

/-- back transformation: `for j = size-1 … 0: eivec.col(j) = eivec.leftCols(j+1) * matT.col(j).head(j+1)` -/
def backTransform (size : Nat) (u t : Mat α) : Mat α :=
  (List.range size).foldl (fun acc jj =>
      let j := size - 1 - jj
      acc.setCol j (vofFn size (fun i => sumFrom0 (j + 1) (fun k => acc.get i k * t.get k j)))) u

/-- `doComputeEigenvectors()`: returns the new `m_eivec` -/
def doComputeEigenvectors (size : Nat) (t u : Mat α) (ev : Vec (α × α)) : Mat α :=
  let norm := tnorm size t
  if Sc.eq norm zero then u
  else backTransform size u (backSub size norm ev size size t)

/-- the object after `compute` -/
structure Decomp (α : Type) where
  n : Nat
  evals : Vec (α × α)      -- m_eivalues (scaled back)
  eivec : Mat α            -- m_eivec (real storage of the vectors)

/-- `UpperHessenbergEigen::compute(mat)` -/
def compute (n : Nat) (h : Mat α) : Res (Decomp α) :=
  let scale := TridiagEigen.maxAbs1 h.d
  -- zero matrix: eigenvalues zero, eigenvectors the identity (`m_eivalues.setZero(m_n); m_eivec.setIdentity(m_n, m_n)`)
  if Sc.eq scale zero then Res.ok ⟨n, Array.replicate n (zero, zero), Mat.identity n⟩ else
  match HessSchur.compute n ⟨h.rows, h.cols, vdivs h.d scale⟩ with
  | Res.throw e => Res.throw e
  | Res.ok s =>
    let ev := evalsOf n s.t
    let eivec := doComputeEigenvectors n s.t s.u ev
    Res.ok ⟨n, ev.map (fun z => cmulReal z scale), eivec⟩

def eigenvalues (r : Decomp α) : Vec (α × α) := r.evals

/-- `squaredNorm()` of a complex column: `Σ (re² + im²)`, first term first -/
def csqNorm (c : Vec (α × α)) : α := sumFrom0 c.size (fun i => let z := c.getD i (zero, zero); z.1 * z.1 + z.2 * z.2)

/-- `col.normalize()`: `if (z > 0) col /= complex(sqrt(z), 0)` -/
def cnormalize (c : Vec (α × α)) : Vec (α × α) :=
  let z := csqNorm c
  if Sc.gt z zero then let s := Sc.sqrt z; c.map (fun w => cdiv w.1 w.2 s zero) else c

def vofFnC (n : Nat) (f : Nat → α × α) : Vec (α × α) := Array.ofFn (n := n) (fun i => f i.val)

/-- `eigenvectors()`: the list of complex columns -/
def eigvecCols (r : Decomp α) : Nat → Nat → List (Vec (α × α))
  | 0, _ => []
  | f + 1, j =>
    if r.n ≤ j then []
    else if Sc.eq (evGet r.evals j).2 zero || j + 1 = r.n then
      cnormalize (vofFnC r.n (fun i => (r.eivec.get i j, zero))) :: eigvecCols r f (j + 1)
    else
      cnormalize (vofFnC r.n (fun i => (r.eivec.get i j, r.eivec.get i (j + 1))))
        :: cnormalize (vofFnC r.n (fun i => (r.eivec.get i j, -(r.eivec.get i (j + 1)))))
        :: eigvecCols r f (j + 2)

def eigenvectors (r : Decomp α) : List (Vec (α × α)) := eigvecCols r r.n 0

end HessEigen
