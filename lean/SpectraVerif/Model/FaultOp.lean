/-
  C14, kernel level: the Arnoldi / Lanczos factorization models with an operator that can FAIL.

  `Prog α β` is a computation that may hand a vector to the user's operator (`app x k`: "call `perform_op(x, y)`, continue with
  `k y`").  The fault-aware kernels (`initF`, `expand_basisF`, `factorizeF` for Arnoldi and Lanczos, `restartFacF`) are written
  ONCE as such computations, by threading `app` through the SAME step structure as `Model/Arnoldi.lean` / `Model/Lanczos.lean`:
  every kernel is  <pure prefix of the original> ; app ; <pure rest of the original>  (the pure pieces are literal copies, and
  `Proofs/C14Kernel.lean` proves the composition equal to the original total model, so a change of either breaks the proof).

  Two interpretations of one and the same `Prog`:
    * `evalT A`  — total operator `A` (value), `count A` (number of applications), `log A` (the vectors handed to the operator);
    * `runF opF c` — operator `opF : Nat → Vec α → Except Exn (Vec α)` that is told the 1-based index of the application
      (the harness's `OpLog.count`) and may fail; `c` = applications completed so far (the C++ `op_counter`, which is incremented
      AFTER `perform_op` returns: at a throw inside application `k` it holds `k - 1`).
  No `Prog` constructor catches: an error ends the run (`runF` makes no further application).

  The B operator (inner product of the generalized solvers) is a pure parameter here, as in `Arnoldi.Op`; B-operator faults are
  covered by the orchestration theorems (all kernels universally quantified) and by the exhaustive sweep on the real classes.
  Core Lean only (the driver links this file).
-/
import SpectraVerif.Model.HermSolver

namespace FaultOp
open Lin Arnoldi Orch

/-- a computation over the user's operator: free monad on "apply the operator" -/
inductive Prog (α : Type) (β : Type) where
  | ret : β → Prog α β
  | app : Vec α → (Vec α → Prog α β) → Prog α β

namespace Prog
variable {α β γ : Type}

def bind : Prog α β → (β → Prog α γ) → Prog α γ
  | .ret b, f => f b
  | .app x k, f => .app x (fun y => bind (k y) f)

instance : Monad (Prog α) where
  pure := Prog.ret
  bind := Prog.bind

/-- value under a total operator -/
def evalT (A : Vec α → Vec α) : Prog α β → β
  | .ret b => b
  | .app x k => evalT A (k (A x))

/-- number of operator applications under a total operator -/
def count (A : Vec α → Vec α) : Prog α β → Nat
  | .ret _ => 0
  | .app x k => count A (k (A x)) + 1

/-- the vectors handed to the operator, in order, under a total operator -/
def log (A : Vec α → Vec α) : Prog α β → List (Vec α)
  | .ret _ => []
  | .app x k => x :: log A (k (A x))

/-- outcome of a run with a fallible operator -/
structure Res (α β : Type) where
  out : Except Exn β
  /-- applications COMPLETED (what `op_counter` holds when the call is left, normally or by the exception) -/
  cnt : Nat
  /-- vectors handed to the operator, including the one whose application failed -/
  entered : List (Vec α)

/-- run with an operator that sees the 1-based index of the application and may fail; nothing is caught -/
def runF (opF : Nat → Vec α → Except Exn (Vec α)) : Prog α β → Nat → Res α β
  | .ret b, c => ⟨.ok b, c, []⟩
  | .app x k, c =>
    match opF (c + 1) x with
    | .error e => ⟨.error e, c, [x]⟩
    | .ok y => let r := runF opF (k y) (c + 1); ⟨r.out, r.cnt, x :: r.entered⟩

end Prog

/-- an operator that never fails -/
def never {α : Type} (A : Vec α → Vec α) : Nat → Vec α → Except Exn (Vec α) := fun _ x => .ok (A x)
/-- the operator `A` whose `k`-th application (counted from the last `init()`) throws `e` -/
def faultAt {α : Type} (A : Vec α → Vec α) (k : Nat) (e : Exn) : Nat → Vec α → Except Exn (Vec α) :=
  fun i x => if i = k then .error e else .ok (A x)

section
variable {α : Type} [Add α] [Sub α] [Mul α] [Div α] [Neg α] [Sc α]

/-! ### `Arnoldi::init` -/

/-- `Arnoldi::init` after its second `perform_op` (`v` normalised, `w = A v`) -/
def initK (op : Op α) (s : State α) (v w : Vec α) : State α :=
  let h00 := op.inner v w
  let f := vofFn s.n (fun i => vget w i - vget v i * h00)
  let H := (Mat.zeros s.m s.m).set 0 0 h00
  let V := (Mat.zeros s.n s.m).setCol 0 v
  let (f, beta) :=
    if Sc.lt (maxAbs f) (s.eps * Sc.abs h00) then (vzero s.n, zero) else (f, op.norm f)
  { s with V := V, H := H, f := f, beta := beta, k := 1, ops := s.ops + 2 }

/-- `Arnoldi::init(v0, op_counter)`; `none` = throws `invalid_argument` (before any application) -/
def initF (op : Op α) (s : State α) (v0 : Vec α) : Prog α (Option (State α)) :=
  let v0norm := op.norm v0
  if Sc.lt v0norm s.near0 then .ret none else
  .app v0 (fun v =>
    let vnorm := op.norm v
    let v := vdivs v vnorm
    .app v (fun w => .ret (some (initK op s v w))))

/-! ### `Arnoldi::expand_basis` -/

/-- one pass of the `for (iter = 0; iter < 5; iter++)` loop of `expand_basis` after `f` has been produced -/
def expandGoF (op : Op α) (eps : α) (V : Mat α) (i : Nat) (seed : Int) :
    Nat → Nat → Vec α → α → Nat → Prog α (Vec α × α × Nat × Bool)
  | 0, _, f, fnorm, ops => .ret (f, fnorm, ops, false)
  | fuel + 1, iter, _f, _fnorm, ops =>
    let sd := seed + 123 * (iter : Int)
    let rest : Vec α × Nat → Prog α (Vec α × α × Nat × Bool) := fun p =>
      let (f, ops) := p
      let Vf := op.adjoint V i f
      let f := subMulVecK0 f V i Vf
      let fnorm := op.norm f
      let Vf := op.adjoint V i f
      let oerr := maxAbs Vf
      let (f, fnorm, _, oerr) := expandRefine op eps V i 3 0 f fnorm Vf oerr
      if Sc.lt oerr (eps * fnorm) then .ret (f, fnorm, ops, true)
      else expandGoF op eps V i seed fuel (iter + 1) f fnorm ops
    if iter == 0 then .app (randomVec (α := α) op.n sd) (fun y => rest (y, ops + 1))
    else rest (randomVec (α := α) op.n sd, ops)

/-- `Arnoldi::expand_basis(V.leftCols(i), seed, f, fnorm, op_counter)` -/
def expand_basisF (op : Op α) (eps : α) (V : Mat α) (i : Nat) (seed : Int) (f0 : Vec α) (fnorm0 : α) (ops0 : Nat) :
    Prog α (Vec α × α × Nat × Bool) :=
  expandGoF op eps V i seed 5 0 f0 fnorm0 ops0

/-! ### `Arnoldi::factorize_from` -/

/-- `Arnoldi::factorize_from`, loop body after `w = A v` -/
def stepCoreK (op : Op α) (betaThresh : α) (s : State α) (i : Nat) (f : Vec α) (beta : α) (restart : Bool)
    (ops nexp : Nat) (w : Vec α) : State α :=
  let vi := vdivs f beta
  let V := withCol s.V i vi
  let sub : α := if restart then zero else beta
  let ops := ops + 1
  let i1 := i + 1
  let h := op.adjoint V i1 w
  let f := subMulVecK0 w V i1 h
  let beta := op.norm f
  if Sc.gt beta (Sc.lit 717 (-3) * Lin.norm h) then
    { s with V := V, H := withHcol s.H i sub h, f := f, beta := beta, ops := ops, nexpand := nexp }
  else
    let Vf := op.adjoint V i1 f
    let oerr := maxAbs Vf
    let (f, h, beta, np) := reorth op s.eps betaThresh V i1 s.n 5 0 f h beta Vf oerr s.nreorth
    { s with V := V, H := withHcol s.H i sub h, f := f, beta := beta, ops := ops, nexpand := nexp, nreorth := np }

def stepCoreF (op : Op α) (betaThresh : α) (s : State α) (i : Nat) (f : Vec α) (beta : α) (restart : Bool)
    (ops nexp : Nat) : Prog α (State α) :=
  .app (vdivs f beta) (fun w => .ret (stepCoreK op betaThresh s i f beta restart ops nexp w))

/-- one pass of the loop of `Arnoldi::factorize_from` -/
def factorStepF (op : Op α) (betaThresh : α) (s : State α) (i : Nat) : Prog α (State α) :=
  if Sc.lt s.beta s.near0 then
    (expand_basisF op s.eps s.V i (2 * (i : Int)) s.f s.beta s.ops).bind (fun r =>
      stepCoreF op betaThresh s i r.1 r.2.1 true r.2.2.1 (if r.2.2.2 then s.nexpand + 1 else s.nexpand))
  else stepCoreF op betaThresh s i s.f s.beta false s.ops s.nexpand

/-- the `for (i = from_k; i <= to_m - 1; i++)` loop with a body that may apply the operator -/
def foldF (step : State α → Nat → Prog α (State α)) : List Nat → State α → Prog α (State α)
  | [], s => .ret s
  | d :: ds, s => (step s d).bind (fun s' => foldF step ds s')

/-- `Arnoldi::factorize_from(from_k, to_m, op_counter)`; `none` = throws `invalid_argument` (before any application) -/
def arnoldiFactorizeF (op : Op α) (s : State α) (from_k to_m : Nat) : Prog α (Option (State α)) :=
  if to_m ≤ from_k then .ret (some s)
  else if from_k > s.k then .ret none
  else
    let betaThresh := s.eps * Sc.sqrt (Sc.ofInt (s.n : Int))
    let s := { s with H := keepTopLeft s.H from_k }
    (foldF (fun st d => factorStepF op betaThresh st (from_k + d)) (List.range (to_m - from_k)) s).bind
      (fun s => .ret (some { s with k := to_m }))

/-! ### `Lanczos::factorize_from` -/

/-- the part of the loop body before `expand_basis` / `perform_op`: `(V, restart)` -/
def lanczosPre (op : Op α) (epsSqrt : α) (s : State α) (i : Nat) : Mat α × Bool :=
  let restart0 := Sc.lt s.beta s.near0
  if !restart0 then
    let v := vdivs s.f s.beta
    let V := s.V.setCol i v
    if Sc.lt s.beta epsSqrt then
      let viv := op.inner (V.col (i - 1)) v
      (V, Sc.gt (Sc.abs viv) epsSqrt)
    else (V, false)
  else (s.V, true)

/-- the loop body after `w = A v` (`beta`, `ops`, `nexp` are the values after the optional `expand_basis`) -/
def lanczosK (op : Op α) (betaThresh : α) (s : State α) (i : Nat) (V : Mat α) (restart : Bool) (beta : α)
    (ops nexp : Nat) (w : Vec α) : State α :=
  let v := V.col i
  let hsub : α := if restart then zero else beta
  let H := (s.H.set i (i - 1) hsub).set (i - 1) i hsub
  let ops := ops + 1
  let w := if !restart then
      let c := V.col (i - 1)
      vofFn s.n (fun j => vget w j - hsub * vget c j)
    else w
  let hii := op.inner v w
  let H := H.set i i hii
  let f := vofFn s.n (fun j => vget w j - hii * vget v j)
  let beta := op.norm f
  let Vf := op.adjoint V (i + 1) f
  let oerr := maxAbs Vf
  let (f, H, beta, np) := Lanczos.reorth op s.eps betaThresh V i s.n 5 0 f H beta Vf oerr s.nreorth
  { s with V := V, H := H, f := f, beta := beta, ops := ops, nexpand := nexp, nreorth := np }

/-- one pass of the loop of `Lanczos::factorize_from` -/
def lanczosStepF (op : Op α) (betaThresh epsSqrt : α) (s : State α) (i : Nat) : Prog α (State α) :=
  let p := lanczosPre op epsSqrt s i
  if p.2 then
    (expand_basisF op s.eps p.1 i (2 * (i : Int)) s.f s.beta s.ops).bind (fun r =>
      let V := p.1.setCol i (vdivs r.1 r.2.1)
      .app (V.col i) (fun w => .ret (lanczosK op betaThresh s i V true r.2.1 r.2.2.1
        (if r.2.2.2 then s.nexpand + 1 else s.nexpand) w)))
  else .app (p.1.col i) (fun w => .ret (lanczosK op betaThresh s i p.1 false s.beta s.ops s.nexpand w))

/-- `Lanczos::factorize_from(from_k, to_m, op_counter)` -/
def lanczosFactorizeF (op : Op α) (s : State α) (from_k to_m : Nat) : Prog α (Option (State α)) :=
  if to_m ≤ from_k then .ret (some s)
  else if from_k > s.k then .ret none
  else
    let betaThresh := s.eps * Sc.sqrt (Sc.ofInt (s.n : Int))
    let epsSqrt := Sc.sqrt s.eps
    let s := { s with H := keepTopLeft s.H from_k }
    (foldF (fun st d => lanczosStepF op betaThresh epsSqrt st (from_k + d)) (List.range (to_m - from_k)) s).bind
      (fun s => .ret (some { s with k := to_m }))

/-! ### `HermEigsBase::restart` (between the guard and `retrieve_ritzpair`) -/

/-- shifts, QR sweeps, `compress_H`, `compress_V`: no operator application -/
def restartPre (op : Op α) (ncv k : Nat) (ritzVal : List α) (s : State α) : State α :=
  let shifts := HermSolver.restartShifts ncv k ritzVal
  let (s1, Q) := shifts.foldl (fun (acc : Arnoldi.State α × Mat α) mu =>
      let decomp := QRModel.TridiagQR.compute acc.1.H mu
      let Q := decomp.apply_YQ acc.2
      (Arnoldi.compress_H acc.1 decomp.matrix_QtHQ 1, Q)) (s, Mat.identity ncv)
  Arnoldi.compress_V op s1 Q

/-- the re-factorization of a restart -/
def restartFacF (op : Op α) (ncv k : Nat) (ritzVal : List α) (s : State α) : Prog α (Option (State α)) :=
  lanczosFactorizeF op (restartPre op ncv k ritzVal s) k ncv

/-! ### the symmetric solver's kernels with a fallible operator -/

/-- what a kernel call leaves behind: on a normal return exactly what `HermSolver.hermKern` reports; on an exception the
    factorization object of before the call with the operation counter at the throw point (the half-updated numeric members
    are not modelled field by field: nothing reads them before the next `init()`, which is what `c14_recover` is about),
    the number of applications counted into `m_nmatop`, and the exception itself -/
def facRes (s sOld : State α) (msg : String) (r : Prog.Res α (Option (State α))) : FacRes (State α) :=
  match r.out with
  | .ok (some s') => ⟨s', s'.ops - s.ops, none⟩
  | .ok none => ⟨sOld, 0, some (.invalidArgument msg)⟩
  | .error e => ⟨{ s with ops := r.cnt }, r.cnt - s.ops, some e⟩

/-- `HermSolver.hermKern` with an operator that can fail: `op.A` is NOT used, every application goes through `opF`, which is
    told the index of the application since the last `init()` (the state's `ops` field is that counter) -/
def hermKernF (op : Op α) (opF : Nat → Vec α → Except Exn (Vec α)) (c : Cfg) (eps23 : α) (back : α → α) :
    Kern (State α) α α (Vec α) (Vec α) α (Vec α) :=
  { HermSolver.hermKern op c eps23 back with
    facInit := fun v0 s =>
      facRes { s with ops := 0 } s "initial residual vector cannot be zero"
        ((initF op { s with ops := 0 } v0).runF opF 0),
    factorize := fun a b s =>
      facRes s s "Arnoldi: from_k is larger than the current subspace dimension"
        ((lanczosFactorizeF op s a b).runF opF s.ops),
    restartFac := fun k ritzVal s =>
      facRes s (restartPre op c.ncv k ritzVal s) "Arnoldi: from_k is larger than the current subspace dimension"
        ((restartFacF op c.ncv k ritzVal s).runF opF s.ops) }

end
end FaultOp
