/-
  Operator-side state of the shift-and-invert solvers: the shift installed in the USER'S operator object.

  The solvers touch the operator through exactly two members, `set_shift(...)` and `perform_op(x, y)`.  The model is the sequence
  of those events that one public call produces (`Ev`), run on the operator's installed shift (`exec`); a `perform_op` may throw
  (the user's code), which ends the call at that point — C++ unwinding runs no `set_shift` (there is no guard object).

    SymEigsShiftSolver, GenEigsRealShiftSolver   constructor body: `op.set_shift(m_sigma)`; nothing else ever calls `set_shift`
    SymGEigsShiftSolver (3 modes)                `set_shift_and_move` in the constructor's initialiser list; nothing else
    GenEigsComplexShiftSolver                    constructor body: `op.set_shift(m_sigmar, m_sigmai)`;
                                                 `sort_ritzpair` (end of `compute`): `m_op.set_shift(shiftr, 0)` with the probe shift
                                                 `shiftr = rng.random() * m_sigmar + rng.random()`, `rng = SimpleRandom(0)`;
                                                 up to `2 * nev` applications; `m_op.set_shift(m_sigmar, m_sigmai)`   (as the code is NOW;
                                                 before commit ddaf8d1 the last statement was missing: `computeComplexOld`)

  Generic in the shift type `σ` (a real, or a pair).  Core Lean only.
-/
import SpectraVerif.Prelude.Sc
import SpectraVerif.Gen.Rand

namespace OpShift

/-- what a solver does to the operator object -/
inductive Ev (σ : Type) where
  | setShift (s : σ)
  | performOp
  deriving Repr

/-- run events on the installed shift; `throwAt = some k`: the application with 0-based index `k` (counted within this call)
    throws.  Result: installed shift afterwards, and whether the call ended by the exception. -/
def exec {σ : Type} : List (Ev σ) → Option Nat → σ → σ × Bool
  | [], _, s => (s, false)
  | .setShift t :: r, th, _ => exec r th t
  | .performOp :: _, some 0, s => (s, true)
  | .performOp :: r, some (k + 1), s => exec r (some k) s
  | .performOp :: r, none, s => exec r none s

/-- a public call: its events and where (if anywhere) the user's operator throws -/
structure CallEv (σ : Type) where
  evs : List (Ev σ)
  throwAt : Option Nat

/-- run a history of calls (an exception ends one call, the caller catches it and goes on using the objects) -/
def runCalls {σ : Type} (h : List (CallEv σ)) (s : σ) : σ := h.foldl (fun s c => (exec c.evs c.throwAt s).1) s

/-- `n` operator applications and nothing else: `init()` (two applications, fewer if one throws), every `factorize_from`, every
    `restart`, hence the whole of `compute()` for the real-shift classes -/
def applications {σ : Type} (n : Nat) : List (Ev σ) := List.replicate n .performOp

/-- constructor of every shift solver -/
def ctor {σ : Type} (sigma : σ) : List (Ev σ) := [.setShift sigma]

/-- `init(...)` of every class -/
def initEv {σ : Type} (napps : Nat) : List (Ev σ) := applications napps

/-- `compute(...)` of SymEigsShiftSolver / GenEigsRealShiftSolver / SymGEigsShiftSolver -/
def computeReal {σ : Type} (nIter : Nat) : List (Ev σ) := applications nIter

/-- `compute(...)` of GenEigsComplexShiftSolver as the code is now.  `reachedSort = false`: an exception of the iteration itself
    (not of the operator) ended the call before `sort_ritzpair`. -/
def computeComplex {σ : Type} (sigma probe : σ) (nIter nProbe : Nat) (reachedSort : Bool) : List (Ev σ) :=
  applications nIter ++ (if reachedSort then Ev.setShift probe :: (applications nProbe ++ [Ev.setShift sigma]) else [])

/-- the same before the repair (no restore) -/
def computeComplexOld {σ : Type} (probe : σ) (nIter nProbe : Nat) (reachedSort : Bool) : List (Ev σ) :=
  applications nIter ++ (if reachedSort then Ev.setShift probe :: applications nProbe else [])

/-- the probe shift of `GenEigsComplexShiftSolver::sort_ritzpair`: `rng.random() * m_sigmar + rng.random()` with `rng(0)`;
    the first draw is the factor (g++ evaluates the operands of `+` left to right here; validated bit for bit by the correspondence) -/
def probeShift {α : Type} [Add α] [Sub α] [Mul α] [Div α] [Neg α] [Sc α] (sigmar : α) : α :=
  let s0 := Gen.Rand.seed_norm 0
  let (s1, r1) := Gen.Rand.draw (α := α) s0
  let (_, r2) := Gen.Rand.draw (α := α) s1
  r1 * sigmar + r2

/-- compressed rendering of an event list for the correspondence: `S<shift>` and `P<count>` tokens -/
def render {σ : Type} (sh : σ → String) : List (Ev σ) → Nat → List String
  | [], 0 => []
  | [], n + 1 => [s!"P{n + 1}"]
  | .performOp :: r, n => render sh r (n + 1)
  | .setShift t :: r, 0 => s!"S{sh t}" :: render sh r 0
  | .setShift t :: r, n + 1 => s!"P{n + 1}" :: s!"S{sh t}" :: render sh r 0

/-- the events that actually happen when the `k`-th application throws -/
def truncate {σ : Type} : List (Ev σ) → Option Nat → List (Ev σ)
  | [], _ => []
  | .setShift t :: r, th => .setShift t :: truncate r th
  | .performOp :: _, some 0 => [.performOp]
  | .performOp :: r, some (k + 1) => .performOp :: truncate r (some k)
  | .performOp :: r, none => .performOp :: truncate r none

end OpShift
