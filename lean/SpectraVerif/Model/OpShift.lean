/-
  Operator-side state of the shift-and-invert solvers: the shift installed in the USER'S operator object.

  The solvers touch the operator through exactly two members, `set_shift(...)` and `perform_op(x, y)`.  The model is the sequence
  of those events that one public call produces (`Ev`), run on the operator's installed shift (`exec`); a `perform_op` may throw
  (the user's code), which ends the call at that point — C++ unwinding runs no `set_shift`, EXCEPT inside a
  `try { … } catch (...) { m_op.set_shift(r); throw; }` region (`tryRestore r … endTry`), whose handler installs `r` and rethrows.

    SymEigsShiftSolver, GenEigsRealShiftSolver   constructor body: `op.set_shift(m_sigma)`; nothing else ever calls `set_shift`
    SymGEigsShiftSolver (3 modes)                `set_shift_and_move` in the constructor's initialiser list; nothing else
    GenEigsComplexShiftSolver                    constructor body: `op.set_shift(m_sigmar, m_sigmai)`;
                                                 `sort_ritzpair` (end of `compute`): `m_op.set_shift(shiftr, 0)` with the probe shift
                                                 `shiftr = rng.random() * m_sigmar + rng.random()`, `rng = SimpleRandom(0)`;
                                                 up to `2 * nev` applications inside `try { … } catch (...) { m_op.set_shift(m_sigmar,
                                                 m_sigmai); throw; }`; `m_op.set_shift(m_sigmar, m_sigmai)`   (as the code is NOW;
                                                 before the catch-restore was added: `computeComplexUnguarded` (finding F3b);
                                                 before commit ddaf8d1 the final restore was missing too: `computeComplexOld` (F3))

  Generic in the shift type `σ` (a real, or a pair).  Core Lean only.
-/
import SpectraVerif.Prelude.Sc
import SpectraVerif.Gen.Rand

namespace OpShift

/-- what a solver does to the operator object -/
inductive Ev (σ : Type) where
  | setShift (s : σ)
  | performOp
  /-- entry of a `try` block whose `catch (...)` handler is `set_shift(r); throw;` -/
  | tryRestore (r : σ)
  /-- normal exit of that block -/
  | endTry
  deriving Repr

/-- run events on the installed shift; `throwAt = some k`: the application with 0-based index `k` (counted within this call)
    throws; `h` = the restoring handler in force (`none` outside any `try`).  Result: installed shift afterwards, and whether the
    call ended by the exception. -/
def execH {σ : Type} : List (Ev σ) → Option Nat → Option σ → σ → σ × Bool
  | [], _, _, s => (s, false)
  | .setShift t :: r, th, h, _ => execH r th h t
  | .tryRestore x :: r, th, _, s => execH r th (some x) s
  | .endTry :: r, th, _, s => execH r th none s
  | .performOp :: _, some 0, h, s => (h.getD s, true)
  | .performOp :: r, some (k + 1), h, s => execH r (some k) h s
  | .performOp :: r, none, h, s => execH r none h s

/-- a public call starts outside any `try` -/
def exec {σ : Type} (evs : List (Ev σ)) (th : Option Nat) (s : σ) : σ × Bool := execH evs th none s

/-- a public call: its events and where (if anywhere) the user's operator throws -/
structure CallEv (σ : Type) where
  evs : List (Ev σ)
  throwAt : Option Nat

/-- run a history of calls (an exception ends one call, the caller catches it and goes on using the objects) -/
def runCalls {σ : Type} (h : List (CallEv σ)) (s : σ) : σ := h.foldl (fun s c => (exec c.evs c.throwAt s).1) s

/-- `n` operator applications and nothing else: `init()` (two applications, fewer if one throws), every `factorize_from`, every
    `restart`, hence the whole of `compute()` for the real-shift classes -/
def applications {σ : Type} (n : Nat) : List (Ev σ) := List.replicate n .performOp

/-- constructor of every shift solver -/
def ctor {σ : Type} (sigma : σ) : List (Ev σ) := [.setShift sigma]

/-- `init(...)` of every class -/
def initEv {σ : Type} (napps : Nat) : List (Ev σ) := applications napps

/-- `compute(...)` of SymEigsShiftSolver / GenEigsRealShiftSolver / SymGEigsShiftSolver -/
def computeReal {σ : Type} (nIter : Nat) : List (Ev σ) := applications nIter

/-- `compute(...)` of GenEigsComplexShiftSolver as the code is now.  `reachedSort = false`: an exception of the iteration itself
    (not of the operator) ended the call before `sort_ritzpair`. -/
def computeComplex {σ : Type} (sigma probe : σ) (nIter nProbe : Nat) (reachedSort : Bool) : List (Ev σ) :=
  applications nIter ++ (if reachedSort then
    Ev.setShift probe :: Ev.tryRestore sigma :: (applications nProbe ++ [Ev.endTry, Ev.setShift sigma]) else [])

/-- the same before the probe loop was wrapped in `try/catch` (restore on the normal path only): finding F3b -/
def computeComplexUnguarded {σ : Type} (sigma probe : σ) (nIter nProbe : Nat) (reachedSort : Bool) : List (Ev σ) :=
  applications nIter ++ (if reachedSort then Ev.setShift probe :: (applications nProbe ++ [Ev.setShift sigma]) else [])

/-- the same before the first repair (no restore at all): finding F3 -/
def computeComplexOld {σ : Type} (probe : σ) (nIter nProbe : Nat) (reachedSort : Bool) : List (Ev σ) :=
  applications nIter ++ (if reachedSort then Ev.setShift probe :: applications nProbe else [])

/-- the probe shift of `GenEigsComplexShiftSolver::sort_ritzpair`: `rng.random() * m_sigmar + rng.random()` with `rng(0)`;
    the first draw is the factor (g++ evaluates the operands of `+` left to right here; validated bit for bit by the correspondence) -/
def probeShift {α : Type} [Add α] [Sub α] [Mul α] [Div α] [Neg α] [Sc α] (sigmar : α) : α :=
  let s0 := Gen.Rand.seed_norm 0
  let (s1, r1) := Gen.Rand.draw (α := α) s0
  let (_, r2) := Gen.Rand.draw (α := α) s1
  r1 * sigmar + r2

/-- compressed rendering of an event list for the correspondence: `S<shift>` and `P<count>` tokens (`try` markers are not
    observable on the operator) -/
def render {σ : Type} (sh : σ → String) : List (Ev σ) → Nat → List String
  | [], 0 => []
  | [], n + 1 => [s!"P{n + 1}"]
  | .performOp :: r, n => render sh r (n + 1)
  | .tryRestore _ :: r, n => render sh r n
  | .endTry :: r, n => render sh r n
  | .setShift t :: r, 0 => s!"S{sh t}" :: render sh r 0
  | .setShift t :: r, n + 1 => s!"P{n + 1}" :: s!"S{sh t}" :: render sh r 0

/-- the operator events that actually happen when the `k`-th application throws (the handler's `set_shift` included) -/
def truncateH {σ : Type} : List (Ev σ) → Option Nat → Option σ → List (Ev σ)
  | [], _, _ => []
  | .setShift t :: r, th, h => .setShift t :: truncateH r th h
  | .tryRestore x :: r, th, _ => truncateH r th (some x)
  | .endTry :: r, th, _ => truncateH r th none
  | .performOp :: _, some 0, h => .performOp :: (match h with | some x => [.setShift x] | none => [])
  | .performOp :: r, some (k + 1), h => .performOp :: truncateH r (some k) h
  | .performOp :: r, none, h => .performOp :: truncateH r none h

def truncate {σ : Type} (evs : List (Ev σ)) (th : Option Nat) : List (Ev σ) := truncateH evs th none

end OpShift
