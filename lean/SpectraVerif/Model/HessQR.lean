/-
  Executable model of `Spectra::UpperHessenbergQR<Scalar>` (include/Spectra/LinAlg/UpperHessenbergQR.h), statement by statement.

  * the Givens kernel is NOT re-implemented here: `compute` calls `Gen.Givens.compute_rotation`, which the translator regenerates
    from the header on every run;
  * every loop of the C++ is a `List.foldl` over `List.range`, every raw-pointer access `Rii[k]`, `ptr[0/1]`, `Yi[j]` is the
    corresponding `(row, col)` access of the column-major `Lin.Mat`;
  * the floating-point expression trees (association, the place of the unary minus) are those of the source, so that the
    `Float` instance is bit-exact against the harness build; at a field instance the same text is the exact-arithmetic algorithm.

  Entry points (named after the C++ methods): `UpperHessenbergQR.compute`, `.matrix_R`, `.matrix_QtHQ`, `.apply_QY`, `.apply_QtY`
  (vector overloads), `.apply_QY_mat`, `.apply_QtY_mat`, `.apply_YQ`, `.apply_YQt` (matrix overloads), `.recompute` (`compute` on an
  object that already holds a factorization).
  Core Lean only.
-/
import SpectraVerif.Model.Lin
import SpectraVerif.Gen.Givens

namespace QRModel
open Lin

section
variable {α : Type} [Add α] [Sub α] [Mul α] [Div α] [Neg α] [Sc α]

/-- `Gi' * (x, y)ᵀ` as every loop of the class writes it: `(c*x - s*y, s*x + c*y)`, where `Gi = [c s; -s c]` -/
@[inline] def rotT (c s x y : α) : α × α := (c * x - s * y, s * x + c * y)
/-- `Gi * (x, y)ᵀ`: `(c*x + s*y, -s*x + c*y)` -/
@[inline] def rotG (c s x y : α) : α × α := (c * x + s * y, (-s) * x + c * y)

/-- apply `f` to the pairs `(Y(i,j), Y(i+1,j))`, `j = j0 … j0+cnt-1` (two adjacent rows) -/
def rowsPair (f : α → α → α × α) (Y : Mat α) (i j0 cnt : Nat) : Mat α :=
  (List.range cnt).foldl (fun Y k =>
    let j := j0 + k
    let p := f (Y.get i j) (Y.get (i + 1) j)
    (Y.set i j p.1).set (i + 1) j p.2) Y

/-- apply `f` to the pairs `(Y(j,i), Y(j,i+1))`, `j = 0 … cnt-1` (two adjacent columns) -/
def colsPair (f : α → α → α × α) (Y : Mat α) (i cnt : Nat) : Mat α :=
  (List.range cnt).foldl (fun Y j =>
    let p := f (Y.get j i) (Y.get j (i + 1))
    (Y.set j i p.1).set j (i + 1) p.2) Y

/-- the same on a vector: entries `i`, `i+1` -/
def vecPair (f : α → α → α × α) (y : Vec α) (i : Nat) : Vec α :=
  let p := f (vget y i) (vget y (i + 1))
  vset (vset y i p.1) (i + 1) p.2

/-- `M.diagonal().array() += d` -/
def addDiag (M : Mat α) (n : Nat) (d : α) : Mat α :=
  (List.range n).foldl (fun M i => M.set i i (M.get i i + d)) M
def subDiag (M : Mat α) (n : Nat) (d : α) : Mat α :=
  (List.range n).foldl (fun M i => M.set i i (M.get i i - d)) M

/-- Eigen `v.resize(k)` on a dynamically sized vector: the storage and its contents are kept when the size does not change,
    otherwise the storage is reallocated and the contents are unspecified (every entry `junk`) -/
def vresize (v : Vec α) (k : Nat) (junk : α) : Vec α := if v.size = k then v else Array.replicate k junk

/-- data members of `UpperHessenbergQR` (`m_computed` is implied: a value of this type exists only after `compute`) -/
structure UpperHessenbergQR (α : Type) where
  n : Nat
  R : Mat α          -- m_mat_R
  shift : α          -- m_shift
  cos : Vec α        -- m_rot_cos
  sin : Vec α        -- m_rot_sin

namespace UpperHessenbergQR

/-- `std::fill(Rii + 2, Rii + m_n - i, 0)`: zero `R(i+2 … n-1, i)` -/
def zeroBelow (R : Mat α) (n i : Nat) : Mat α :=
  (List.range (n - i - 2)).foldl (fun R k => R.set (i + 2 + k) i zero) R

/-- body of the main loop of `compute` for one `i` -/
def computeStep (n : Nat) (st : Mat α × Vec α × Vec α) (i : Nat) : Mat α × Vec α × Vec α :=
  let R := zeroBelow st.1 n i
  let xi := R.get i i
  let xj := R.get (i + 1) i
  let rcs := Gen.Givens.compute_rotation xi xj
  let r := rcs.1; let c := rcs.2.1; let s := rcs.2.2
  let R := (R.set i i r).set (i + 1) i zero
  let R := rowsPair (rotT c s) R i (i + 1) (n - i - 1)
  (R, st.2.1.push c, st.2.2.push s)

/-- `compute(mat, shift)`; `mat` must be square (the C++ throws otherwise: not modelled) -/
def compute (mat : Mat α) (shift : α) : UpperHessenbergQR α :=
  let n := mat.rows
  let R0 := subDiag (Mat.ofFn n n (fun i j => mat.get i j)) n shift
  let st := (List.range (n - 1)).foldl (computeStep n) (R0, (#[] : Vec α), (#[] : Vec α))
  ⟨n, st.1, shift, st.2.1, st.2.2⟩

def matrix_R (q : UpperHessenbergQR α) : Mat α := q.R

/-- one column-pair step of `matrix_QtHQ`: `RQ[0..i+1, i:(i+1)] *= Gi` -/
def rqStep (q : UpperHessenbergQR α) (D : Mat α) (i : Nat) : Mat α :=
  colsPair (rotT (vget q.cos i) (vget q.sin i)) D i (i + 2)

/-- `matrix_QtHQ(dest)`: `R Q + s I` -/
def matrix_QtHQ (q : UpperHessenbergQR α) : Mat α :=
  let D := (List.range (q.n - 1)).foldl (rqStep q) q.R
  addDiag D q.n q.shift

/-- indices `n-2, n-3, …, 0` (the descending loops) -/
def downFrom (n : Nat) : List Nat := (List.range (n - 1)).reverse

/-- `apply_QY(Vector&)`: `Y ← G1 G2 … Y` -/
def apply_QY (q : UpperHessenbergQR α) (y : Vec α) : Vec α :=
  (downFrom q.n).foldl (fun y i => vecPair (rotG (vget q.cos i) (vget q.sin i)) y i) y
/-- `apply_QtY(Vector&)` -/
def apply_QtY (q : UpperHessenbergQR α) (y : Vec α) : Vec α :=
  (List.range (q.n - 1)).foldl (fun y i => vecPair (rotT (vget q.cos i) (vget q.sin i)) y i) y
/-- `apply_QY(GenericMatrix)` -/
def apply_QY_mat (q : UpperHessenbergQR α) (Y : Mat α) : Mat α :=
  (downFrom q.n).foldl (fun Y i => rowsPair (rotG (vget q.cos i) (vget q.sin i)) Y i 0 Y.cols) Y
/-- `apply_QtY(GenericMatrix)` -/
def apply_QtY_mat (q : UpperHessenbergQR α) (Y : Mat α) : Mat α :=
  (List.range (q.n - 1)).foldl (fun Y i => rowsPair (rotT (vget q.cos i) (vget q.sin i)) Y i 0 Y.cols) Y
/-- `apply_YQ(GenericMatrix)` -/
def apply_YQ (q : UpperHessenbergQR α) (Y : Mat α) : Mat α :=
  (List.range (q.n - 1)).foldl (fun Y i => colsPair (rotT (vget q.cos i) (vget q.sin i)) Y i Y.rows) Y
/-- `apply_YQt(GenericMatrix)` -/
def apply_YQt (q : UpperHessenbergQR α) (Y : Mat α) : Mat α :=
  (downFrom q.n).foldl (fun Y i => colsPair (rotG (vget q.cos i) (vget q.sin i)) Y i Y.rows) Y

/-! ### `compute` called on an object that already holds a factorization (the solvers' restart loops reuse one object per shift) -/

/-- body of the main loop of `compute` on an EXISTING object: the same statements as `computeStep`, the rotation is stored by
    `m_rot_cos.coeffRef(i) = c` into the (resized) arrays the object already owns -/
def recomputeStep (n : Nat) (st : Mat α × Vec α × Vec α) (i : Nat) : Mat α × Vec α × Vec α :=
  let R := zeroBelow st.1 n i
  let xi := R.get i i
  let xj := R.get (i + 1) i
  let rcs := Gen.Givens.compute_rotation xi xj
  let r := rcs.1; let c := rcs.2.1; let s := rcs.2.2
  let R := (R.set i i r).set (i + 1) i zero
  let R := rowsPair (rotT c s) R i (i + 1) (n - i - 1)
  (R, vset st.2.1 i c, vset st.2.2 i s)

/-- `old.compute(mat, shift)`: `m_n`, `m_shift` assigned; `m_mat_R.resize(n, n)` followed by the whole-matrix assignment
    `m_mat_R.noalias() = mat`; `m_rot_cos/sin.resize(n - 1)` (`vresize`: contents kept when the size is unchanged, `junk` otherwise)
    and then written entry by entry.  `c08_hqr_recompute` proves that nothing of `old` / `junk` survives. -/
def recompute (old : UpperHessenbergQR α) (junk : α) (mat : Mat α) (shift : α) : UpperHessenbergQR α :=
  let n := mat.rows
  let R0 := subDiag (Mat.ofFn n n (fun i j => mat.get i j)) n shift
  let st := (List.range (n - 1)).foldl (recomputeStep n) (R0, vresize old.cos (n - 1) junk, vresize old.sin (n - 1) junk)
  ⟨n, st.1, shift, st.2.1, st.2.2⟩

end UpperHessenbergQR
end

end QRModel
