/-
  Hand-written executable model of `Spectra::BKLDLT<Scalar>` (include/Spectra/LinAlg/BKLDLT.h), real scalars.
  Core Lean only (the driver links it).  Generic in the scalar: executable at `Float`, theorems at a field / for every `Sc` instance.

  * Packed lower-triangular storage: `m_data` is an `Array α` of `n(n+1)/2` entries; `coeff(i,j)` is the entry at offset
    `colptr n j + (i - j)` with `colptr n j = j·n − j(j−1)/2` (what `compute_pointer` builds by `head += n − i`).
  * EVERY access to the packed array, to `m_perm` and to the right-hand side goes through `get/wr/wrAt/getPerm/setPerm/xget/xset`,
    which record in the flag `ok` whether the index was legal (`0 ≤ j ≤ i < n`, resp. `0 ≤ i < n`, and for the running `dest`
    pointer of `copy_data`: that it equals the address of `coeff(i,j)`).  `c10_index_safe` proves `ok` stays `true` for every
    input, every scalar type and every comparison outcome.  One-past-the-end addresses that the C++ only *forms*
    (`&coeff(r+1,k)` with `r = n−1`, `&coeff(k+2,k)` with `k+2 = n`) belong to empty ranges and are not accesses.
  * The status logic, the 2x2 solve, the permutation compression and `ScalarOp::conj/real` are NOT written here: they are the
    definitions of `Gen.BK`, regenerated from the header on every run.
  * Eigen expressions are element-wise (`dst -= s*v`, `l /= akk`, `(c2 - fac*c1).array()/d`), the two `dot`s of the backward
    substitution are left-to-right sums starting from the first product (Eigen scalar redux, EIGEN_DONT_VECTORIZE).
-/
import SpectraVerif.Prelude.Sc
import SpectraVerif.Gen.BK

namespace BKLDLT
open Gen.BK

/-- `m_colptr[j] - m_data.data()` -/
def colptr (n j : Int) : Int := j * n - j * (j - 1) / 2
/-- offset of `coeff(i, j)` = `m_colptr[j][i - j]` -/
def off (n i j : Int) : Int := colptr n j + (i - j)
/-- length of `m_data` -/
def packedSize (n : Int) : Int := n * (n + 1) / 2
/-- legal lower-triangular index pair -/
def inb (n i j : Int) : Bool := decide (0 ≤ j) && decide (j ≤ i) && decide (i < n)
def inr (n i : Int) : Bool := decide (0 ≤ i) && decide (i < n)

/-- CompInfo values (Util/CompInfo.h) -/
def Successful : Int := 0
def NotComputed : Int := 1
def NumericalIssue : Int := 3

structure St (α : Type) where
  n : Int
  data : Array α
  perm : Array Int
  ok : Bool

section
variable {α : Type} [Add α] [Sub α] [Mul α] [Div α] [Neg α] [Sc α]

@[inline] def zero : α := Sc.ofInt 0

namespace St
@[inline] def rd (s : St α) (i j : Int) : α := s.data.getD (off s.n i j).toNat zero
@[inline] def chk (s : St α) (i j : Int) : St α := { s with ok := s.ok && inb s.n i j }
/-- read `coeff(i,j)` -/
@[inline] def get (s : St α) (i j : Int) : α × St α := (s.rd i j, s.chk i j)
/-- write `coeff(i,j)` -/
@[inline] def wr (s : St α) (i j : Int) (v : α) : St α :=
  { s with data := s.data.setIfInBounds (off s.n i j).toNat v, ok := s.ok && inb s.n i j }
/-- write through the running pointer `dest` of `copy_data`, which is claimed to address `coeff(i,j)` -/
@[inline] def wrAt (s : St α) (d : Int) (i j : Int) (v : α) : St α :=
  { s with data := s.data.setIfInBounds d.toNat v, ok := s.ok && inb s.n i j && decide (d = off s.n i j) }
/-- `std::swap(coeff(i1,j1), coeff(i2,j2))` -/
@[inline] def swap (s : St α) (i1 j1 i2 j2 : Int) : St α :=
  let (a, s) := s.get i1 j1
  let (b, s) := s.get i2 j2
  (s.wr i1 j1 b).wr i2 j2 a
@[inline] def getPerm (s : St α) (i : Int) : Int × St α := (s.perm.getD i.toNat 0, { s with ok := s.ok && inr s.n i })
@[inline] def setPerm (s : St α) (i : Int) (v : Int) : St α :=
  { s with perm := s.perm.setIfInBounds i.toNat v, ok := s.ok && inr s.n i }
end St

/-! ### copy_data -/

/-- memory index of `src.coeff(i, j)` in the n×n input (outer stride n) -/
def srcIdx (rowMajor : Bool) (n i j : Int) : Int := if rowMajor then i * n + j else j * n + i
def srcCoeff (src : Array α) (rowMajor : Bool) (n i j : Int) : α := src.getD (srcIdx rowMajor n i j).toNat zero

/-- `diag_coeff(j) -= Scalar(shift)` -/
def shift_diag (s : St α) (j : Int) (shift : α) : St α :=
  let (d, s) := s.get j j
  s.wr j j (d - shift)

/-- fast path, column j: `std::copy(&src.coeffRef(j,j), … + (n-j), col_pointer(j))` (contiguous memory of a column-major matrix) -/
def copy_col_fast (n : Int) (src : Array α) (j : Int) (s : St α) : St α :=
  (intRange 0 (n - j)).foldl (fun s t => s.wr (j + t) j (src.getD (srcIdx false n j j + t).toNat zero)) s

/-- general path, column j: `for (i = j; i < n; i++, dest++) *dest = Lower ? src.coeff(i,j) : conj(src.coeff(j,i))` -/
def copy_col_gen (n : Int) (src : Array α) (rowMajor : Bool) (uplo : Int) (j : Int) (acc : Int × St α) : Int × St α :=
  (intRange j n).foldl (fun (acc : Int × St α) i =>
    let v := if decide (uplo = 1) then srcCoeff src rowMajor n i j else scalarop_conj (srcCoeff src rowMajor n j i)
    (acc.1 + 1, acc.2.wrAt acc.1 i j v)) acc

/-- `copy_data`: `uplo` is Eigen's enum (Lower = 1, Upper = 2) -/
def copy_data (s : St α) (src : Array α) (rowMajor : Bool) (uplo : Int) (shift : α) : St α :=
  let n := s.n
  if (!rowMajor) && decide (uplo = 1) then
    (intRange 0 n).foldl (fun s j => shift_diag (copy_col_fast n src j s) j shift) s
  else
    ((intRange 0 n).foldl (fun (acc : Int × St α) j =>
      let acc := copy_col_gen n src rowMajor uplo j acc
      (acc.1, shift_diag acc.2 j shift)) ((0 : Int), s)).2

/-! ### pivoting -/

/-- `pivoting_1x1(k, r)` (real scalars: the `std::is_same<Scalar, RealScalar>` branches) -/
def pivoting_1x1 (s : St α) (k r : Int) : St α :=
  let s := s.setPerm k r
  if k = r then s else
  let s := s.swap k k r r
  -- std::swap_ranges(&coeff(r+1,k), col_pointer(k+1), &coeff(r+1,r))
  let s := (intRange (r + 1) s.n).foldl (fun s i => s.swap i k i r) s
  -- A[(k+1):(r-1), k] <-> A[r, (k+1):(r-1)]
  (intRange (k + 1) r).foldl (fun s j => s.swap j k r j) s

def pivoting_2x2 (s : St α) (k r p : Int) : St α :=
  let s := pivoting_1x1 s k p
  let s := pivoting_1x1 s (k + 1) r
  let s := s.swap (k + 1) k r k
  let (pk, s) := s.getPerm k
  let s := s.setPerm k (-pk - 1)
  let (pk1, s) := s.getPerm (k + 1)
  s.setPerm (k + 1) (-pk1 - 1)

def interchange_rows (s : St α) (r1 r2 c1 c2 : Int) : St α :=
  if r1 = r2 then s else
  (intRange c1 (c2 + 1)).foldl (fun s j => s.swap r1 j r2 j) s

/-- returns `(lambda, r, state)` -/
def find_lambda (s : St α) (k : Int) : α × Int × St α :=
  let (h1, s) := s.get (k + 1) k
  (intRange (k + 2) s.n).foldl (fun (acc : α × Int × St α) i =>
    let (lambda, r, s) := acc
    let (e, s) := s.get i k
    let abs_elem := Sc.abs e
    if Sc.lt lambda abs_elem then (abs_elem, i, s) else (lambda, r, s)) (Sc.abs h1, k + 1, s)

/-- returns `(sigma, p, state)`; `p` is the in/out argument -/
def find_sigma (s : St α) (k r p : Int) : α × Int × St α :=
  let (sigma, p, s) : α × Int × St α := if r < s.n - 1 then find_lambda s r else (Sc.ofInt (-1), p, s)
  (intRange k r).foldl (fun (acc : α × Int × St α) j =>
    let (sigma, p, s) := acc
    let (e, s) := s.get r j
    let abs_elem := Sc.abs e
    if Sc.lt sigma abs_elem then (abs_elem, j, s) else (sigma, p, s)) (sigma, p, s)

/-- returns `(is_1x1, branch tag, state)`; tags: 0 lambda=0, 1 |akk| ≥ α λ, 2 σ|akk| ≥ α λ², 3 1x1 with interchange k↔r, 4 2x2 -/
def permutate_mat (s : St α) (k : Int) (alpha : α) : Bool × Nat × St α :=
  let (lambda, r, s) := find_lambda s k
  if Sc.gt lambda (zero : α) then
    let (akk, s) := s.get k k
    let abs_akk := Sc.abs akk
    if Sc.lt abs_akk (alpha * lambda) then
      let (sigma, _p, s) := find_sigma s k r k
      if Sc.lt (sigma * abs_akk) (alpha * lambda * lambda) then
        let (arr, s) := s.get r r
        if Sc.ge (Sc.abs arr) (alpha * sigma) then
          let s := pivoting_1x1 s k r
          let s := interchange_rows s k r 0 (k - 1)
          (true, 3, s)
        else
          let p := k
          let s := pivoting_2x2 s k r p
          let s := interchange_rows s k p 0 (k - 1)
          let s := interchange_rows s (k + 1) r 0 (k - 1)
          (false, 4, s)
      else (true, 2, s)
    else (true, 1, s)
  else (true, 0, s)

/-! ### eliminations -/

/-- one entry of `solve_left_2x2`: `(x.col(0)[t], x.col(1)[t])` from `(c1[t], c2[t])` -/
def solve_left_2x2 (e11 e21 e22 c1 c2 : α) : α × α :=
  let e12 := scalarop_conj e21
  if Sc.ge (Sc.abs e11) (Sc.abs e12) then
    let fac := e12 / e11
    let x2 := (c2 - fac * c1) / (e22 - fac * e21)
    let x1 := (c1 - e21 * x2) / e11
    (x1, x2)
  else
    let fac := e11 / e12
    let x2 := (c1 - fac * c2) / (e21 - fac * e22)
    let x1 := (c2 - e22 * x2) / e12
    (x1, x2)

/-- `B -= l * l^H / A[k, k]` -/
def ge1_update (s : St α) (k : Int) (akk : α) (ldim : Int) : St α :=
  (intRange 0 ldim).foldl (fun s j =>
    let (lj, s) := s.get (k + 1 + j) k
    let c := scalarop_conj lj / akk
    (intRange 0 (ldim - j)).foldl (fun s t =>
      let (lv, s) := s.get (k + 1 + j + t) k
      let (bv, s) := s.get (j + k + 1 + t) (j + k + 1)
      s.wr (j + k + 1 + t) (j + k + 1) (bv - c * lv)) s) s

/-- `l /= A[k, k]` -/
def ge1_scale (s : St α) (k : Int) (akk : α) (ldim : Int) : St α :=
  (intRange 0 ldim).foldl (fun s t =>
    let (lv, s) := s.get (k + 1 + t) k
    s.wr (k + 1 + t) k (lv / akk)) s

def gaussian_elimination_1x1 (s : St α) (k : Int) : Int × St α :=
  let (d, s) := s.get k k
  let akk := scalarop_real d
  let s := s.wr k k akk
  let st := ge1_status akk
  if st ≠ Successful then (st, s) else
  let ldim := s.n - k - 1
  let s := ge1_update s k akk ldim
  let s := ge1_scale s k akk ldim
  (st, s)

/-- `X = l * inv(E)`: returns `(X.col(0), X.col(1), state)` -/
def ge2_X (s : St α) (k : Int) (e11 e21 e22 : α) (ldim : Int) : Array α × Array α × St α :=
  (intRange 0 ldim).foldl (fun (acc : Array α × Array α × St α) t =>
    let (x0, x1, s) := acc
    let (c1, s) := s.get (k + 2 + t) k
    let (c2, s) := s.get (k + 2 + t) (k + 1)
    let (a, b) := solve_left_2x2 e11 e21 e22 c1 c2
    (x0.push a, x1.push b, s)) ((#[] : Array α), (#[] : Array α), s)

/-- `B -= X * l^H` -/
def ge2_update (s : St α) (k : Int) (ldim : Int) (x0 x1 : Array α) : St α :=
  (intRange 0 ldim).foldl (fun s j =>
    let (l1j, s) := s.get (k + 2 + j) k
    let (l2j, s) := s.get (k + 2 + j) (k + 1)
    let l1j_conj := scalarop_conj l1j
    let l2j_conj := scalarop_conj l2j
    (intRange 0 (ldim - j)).foldl (fun s t =>
      let (bv, s) := s.get (j + k + 2 + t) (j + k + 2)
      s.wr (j + k + 2 + t) (j + k + 2) (bv - (x0.getD (j + t).toNat zero * l1j_conj + x1.getD (j + t).toNat zero * l2j_conj))) s) s

/-- `l1 = X.col(0); l2 = X.col(1)` -/
def ge2_store (s : St α) (k : Int) (ldim : Int) (x0 x1 : Array α) : St α :=
  let s := (intRange 0 ldim).foldl (fun s t => s.wr (k + 2 + t) k (x0.getD t.toNat zero)) s
  (intRange 0 ldim).foldl (fun s t => s.wr (k + 2 + t) (k + 1) (x1.getD t.toNat zero)) s

def gaussian_elimination_2x2 (s : St α) (k : Int) : Int × St α :=
  let (e11, s) := s.get k k
  let (e22, s) := s.get (k + 1) (k + 1)
  let e11 := scalarop_real e11
  let e22 := scalarop_real e22
  let s := s.wr k k e11
  let s := s.wr (k + 1) (k + 1) e22
  let (e21, s) := s.get (k + 1) k
  let st := ge2_status e11 e21 e22
  if st ≠ Successful then (st, s) else
  let ldim := s.n - k - 2
  let (x0, x1, s) := ge2_X s k e11 e21 e22 ldim
  let s := ge2_update s k ldim x0 x1
  let s := ge2_store s k ldim x0 x1
  (st, s)

/-! ### compute -/

/-- the pivot loop `for (k = 0; k < n-1; k++)`; returns `(k, m_info, state, branch-tag counts)` at loop exit (after `break` or normally) -/
def computeLoop (alpha : α) : Nat → Int → Int → St α → List Nat → Int × Int × St α × List Nat
  | 0, k, info, s, tags => (k, info, s, tags)
  | fuel + 1, k, info, s, tags =>
    if k < s.n - 1 then
      let (is1, tag, s) := permutate_mat s k alpha
      let (info, k, s) : Int × Int × St α :=
        if is1 then
          let (i, s) := gaussian_elimination_1x1 s k
          (i, k, s)
        else
          let (i, s) := gaussian_elimination_2x2 s k
          (i, k + 1, s)
      if compute_break info then (k, info, s, tag :: tags) else computeLoop alpha fuel (k + 1) info s (tag :: tags)
    else (k, info, s, tags)

/-- result of `compute`: the private members afterwards -/
structure Fact (α : Type) where
  s : St α
  info : Int
  permc : List (Int × Int)
  tags : List Nat

def initSt (n : Int) : St α :=
  { n := n, data := Array.replicate (packedSize n).toNat zero, perm := (Array.range n.toNat).map (fun (i : Nat) => (i : Int)), ok := true }

/-- `compute(mat, uplo, shift)`; `src` is the raw memory of the n×n Eigen matrix in its own storage order.
    `alpha` is `(1 + sqrt 17)/8` as the compiled code has it (an input: compile-time folding vs libm). -/
def compute (src : Array α) (rowMajor : Bool) (n : Int) (uplo : Int) (shift alpha : α) : Fact α :=
  let s := copy_data (initSt n) src rowMajor uplo shift
  let info := compute_init_info NotComputed
  let (k, info, s, tags) := computeLoop alpha n.toNat 0 info s []
  -- Invert the last 1x1 block if it exists
  let (akk, s) : α × St α :=
    if k = n - 1 then
      let (d, s) := s.get k k
      let a := scalarop_real d
      (a, s.wr k k a)
    else (zero, s)
  let info := compute_final_info n k info akk
  let permc := compress_permutation (fun i => s.perm.getD i.toNat 0) n
  { s := s, info := info, permc := permc, tags := tags }

def Fact.info' (f : Fact α) : Int := f.info

/-! ### object reuse: `compute` on an object that already went through any history

  What `BKLDLT::compute` does to the members before `copy_data` (BKLDLT.h, top of `compute`), statement by statement:
    `m_n = mat.rows()`                        overwritten;
    `m_perm.setLinSpaced(m_n, 0, m_n - 1)`    overwritten, ALL `m_n` entries (unconditionally: the no-interchange 1x1 path and the
                                              last 1x1 block never write `m_perm[k]` and rely on this identity);
    `m_permc.clear()`                         emptied (the translated `compress_permutation` appends to `[]`);
    `m_data.resize(m_n (m_n + 1) / 2)`        NOT cleared: Eigen keeps the buffer, with its stale contents, when the size is
                                              unchanged and hands out indeterminate memory otherwise;
    `compute_pointer()`                       `m_colptr` rebuilt from `m_n` (the model's `colptr n j` is a function of `n`);
    `m_info = Successful`                     overwritten (translated `compute_init_info`); `m_computed = true`.
  `computeFrom prev` is `compute` started from exactly that: everything reset except the packed array, which is the previous
  object's array (same size) resp. its stale prefix (size changed; any other content is covered by `copy_data_overwrites`).
  `C10.c10_compute_history_independent` proves that the result does not depend on `prev`: `copy_data` overwrites every entry. -/

/-- the members of a default-constructed object `BKLDLT()` -/
def freshFact : Fact α := { s := { n := 0, data := #[], perm := #[], ok := true }, info := NotComputed, permc := [], tags := [] }

/-- `m_data.resize(size)` on a dynamic Eigen vector: same size -> the old buffer with its old contents; otherwise new memory,
    modelled with the worst plausible content (the stale prefix of the old buffer, zero beyond) -/
def resizeData (old : Array α) (size : Nat) : Array α :=
  if old.size = size then old else (Array.range size).map (fun (i : Nat) => old.getD i zero)

/-- `m_perm.setLinSpaced(n, 0, n - 1)` -/
def linSpaced (n : Int) : Array Int := (Array.range n.toNat).map (fun (i : Nat) => (i : Int))

/-- the storage of the object when `compute(mat, uplo, shift)` reaches `copy_data`, `prev` being the storage left by whatever
    was done with the object before; `ok` is the per-call access flag of the model (a ghost, restarted with the call) -/
def enterSt (prev : St α) (n : Int) : St α :=
  { n := n, data := resizeData prev.data (packedSize n).toNat, perm := linSpaced n, ok := true }

/-- `compute(mat, uplo, shift)` called on an object in state `prev` (the statements after the resets are those of `compute`) -/
def computeFrom (prev : Fact α) (src : Array α) (rowMajor : Bool) (n : Int) (uplo : Int) (shift alpha : α) : Fact α :=
  let s := copy_data (enterSt prev.s n) src rowMajor uplo shift
  let info := compute_init_info prev.info
  let (k, info, s, tags) := computeLoop alpha n.toNat 0 info s []
  let (akk, s) : α × St α :=
    if k = n - 1 then
      let (d, s) := s.get k k
      let a := scalarop_real d
      (a, s.wr k k a)
    else (zero, s)
  let info := compute_final_info n k info akk
  let permc := compress_permutation (fun i => s.perm.getD i.toNat 0) n
  { s := s, info := info, permc := permc, tags := tags }

/-! ### solve_inplace -/

structure Sv (α : Type) where
  x : Array α
  s : St α

namespace Sv
@[inline] def xget (v : Sv α) (i : Int) : α × Sv α := (v.x.getD i.toNat zero, { v with s := { v.s with ok := v.s.ok && inr v.s.n i } })
@[inline] def xset (v : Sv α) (i : Int) (a : α) : Sv α :=
  { x := v.x.setIfInBounds i.toNat a, s := { v.s with ok := v.s.ok && inr v.s.n i } }
@[inline] def cget (v : Sv α) (i j : Int) : α × Sv α := (v.s.rd i j, { v with s := v.s.chk i j })
@[inline] def pget (v : Sv α) (i : Int) : Int × Sv α := let (p, s) := v.s.getPerm i; (p, { v with s := s })
@[inline] def xswap (v : Sv α) (a b : Int) : Sv α :=
  let (xa, v) := v.xget a
  let (xb, v) := v.xget b
  (v.xset a xb).xset b xa
end Sv

/-- steps 1 / 5: apply the compressed permutation (in the given order) -/
def applyPermc (v : Sv α) (pc : List (Int × Int)) : Sv α := pc.foldl (fun v ab => v.xswap ab.1 ab.2) v

/-- step 2: `L z = P b` -/
def fwdLoop : Nat → Int → Int → Sv α → Sv α
  | 0, _, _, v => v
  | fuel + 1, i, e, v =>
    if i ≤ e then
      let n := v.s.n
      let b1size := n - i - 1
      let b2size := b1size - 1
      let (pi, v) := v.pget i
      if pi ≥ 0 then
        let (xi, v) := v.xget i
        let v := (intRange 0 b1size).foldl (fun v t =>
          let (l, v) := v.cget (i + 1 + t) i
          let (r, v) := v.xget (i + 1 + t)
          v.xset (i + 1 + t) (r - l * xi)) v
        fwdLoop fuel (i + 1) e v
      else
        let (xi, v) := v.xget i
        let (xi1, v) := v.xget (i + 1)
        let v := (intRange 0 b2size).foldl (fun v t =>
          let (l1, v) := v.cget (i + 2 + t) i
          let (l2, v) := v.cget (i + 2 + t) (i + 1)
          let (r, v) := v.xget (i + 2 + t)
          v.xset (i + 2 + t) (r - (l1 * xi + l2 * xi1))) v
        fwdLoop fuel (i + 2) e v
    else v

/-- step 3: `D w = z` -/
def diagLoop : Nat → Int → Sv α → Sv α
  | 0, _, v => v
  | fuel + 1, i, v =>
    if i < v.s.n then
      let (e11, v) := v.cget i i
      let (pi, v) := v.pget i
      if pi ≥ 0 then
        let (xi, v) := v.xget i
        diagLoop fuel (i + 1) (v.xset i (xi / e11))
      else
        let (e21, v) := v.cget (i + 1) i
        let (e22, v) := v.cget (i + 1) (i + 1)
        let (xi, v) := v.xget i
        let (xi1, v) := v.xget (i + 1)
        let (y1, y2) := solve_inplace_2x2 e11 e21 e22 xi xi1
        diagLoop fuel (i + 2) ((v.xset i y1).xset (i + 1) y2)
    else v

/-- `l.dot(res.segment(i+1, ldim))` with `l = coeff(i+1 .. , j)`: left-to-right from the first product (0 if empty) -/
def colDot (v : Sv α) (i j ldim : Int) : α × Sv α :=
  if ldim ≤ 0 then (zero, v) else
  let (l0, v) := v.cget (i + 1) j
  let (r0, v) := v.xget (i + 1)
  (intRange 1 ldim).foldl (fun (acc : α × Sv α) t =>
    let (sum, v) := acc
    let (l, v) := v.cget (i + 1 + t) j
    let (r, v) := v.xget (i + 1 + t)
    (sum + scalarop_conj l * r, v)) (scalarop_conj l0 * r0, v)

/-- step 4: `L^H y = w` -/
def bwdLoop : Nat → Int → Sv α → Sv α
  | 0, _, v => v
  | fuel + 1, i, v =>
    if i ≥ 0 then
      let ldim := v.s.n - i - 1
      let (d, v) := colDot v i i ldim
      let (xi, v) := v.xget i
      let v := v.xset i (xi - d)
      let (pi, v) := v.pget i
      if pi < 0 then
        let (d2, v) := colDot v i (i - 1) ldim
        let (xm, v) := v.xget (i - 1)
        let v := v.xset (i - 1) (xm - d2)
        bwdLoop fuel (i - 2) v
      else bwdLoop fuel (i - 1) v
    else v

/-- `solve_inplace(b)`; returns the vector and the state carrying the access flag -/
def solve_inplace (f : Fact α) (b : Array α) : Sv α :=
  let n := f.s.n
  let v : Sv α := { x := b, s := f.s }
  let v := applyPermc v f.permc
  let (pl, v) := v.pget (n - 1)
  let e := if pl < 0 then n - 3 else n - 2
  let v := fwdLoop n.toNat 0 e v
  let v := diagLoop n.toNat 0 v
  let (pl, v) := v.pget (n - 1)
  let i0 := if pl < 0 then n - 3 else n - 2
  let v := bwdLoop n.toNat i0 v
  applyPermc v f.permc.reverse

def solve (f : Fact α) (b : Array α) : Array α := (solve_inplace f b).x

/-! ### `DenseSymShiftSolve` (MatOp/DenseSymShiftSolve.h) as an object with a history

  Members: the referenced matrix (`m_mat`, a `Ref`: the memory of the caller's matrix), `m_n`, `m_solver`.  There is NO other
  state: in particular nothing remembers which shifts were asked for before or how those attempts ended. -/
structure DenseShift (α : Type) where
  n : Int
  mat : Array α
  rowMajor : Bool
  uplo : Int
  solver : Fact α

/-- the constructor: `m_solver` is default-constructed -/
def DenseShift.ctor (mat : Array α) (rowMajor : Bool) (n uplo : Int) : DenseShift α :=
  { n := n, mat := mat, rowMajor := rowMajor, uplo := uplo, solver := freshFact }

/-- `set_shift(sigma)`: `m_solver.compute(m_mat, Uplo, sigma)` on the SAME `m_solver` object, then the translated throwing check
    (`Gen.BK.dense_set_shift_guard`).  The factorization is stored before the check, so the object holds the failed one after a throw.
    `SymEigsShiftSolver`'s constructor is this call with its `sigma` argument. -/
def DenseShift.set_shift (w : DenseShift α) (sigma alpha : α) : Res Unit × DenseShift α :=
  let f := computeFrom w.solver w.mat w.rowMajor w.n w.uplo sigma alpha
  (dense_set_shift_guard f.info, { w with solver := f })

/-- `perform_op(x, y)`: `y = m_solver.solve(x)` -/
def DenseShift.perform_op (w : DenseShift α) (x : Array α) : Array α := solve w.solver x

end
end BKLDLT
