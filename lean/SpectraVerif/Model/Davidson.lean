/-
  Model of the Davidson family: `SearchSpace`, `RitzPairs`, `JDSymEigsBase::compute_with_guess` / `compute`,
  `DavidsonSymEigsSolver` (initial space from the sorted diagonal, DPR correction).

  Layer 1 (`namespace Dav`, abstract): the orchestration written ONCE, generic in
      σ  the scalar type         ν  the type of a column (a vector of length n)
  and in a record `Kern σ ν` holding the vector primitives (`add sub smul dot norm lt`), the user operator `apply`,
  and the kernels that are third-party or CRTP-derived code in the C++:
      eig      Eigen::SelfAdjointEigenSolver on the small matrix  (status flag, eigenvalues, eigenvector columns)
      orth     twice_is_enough_orthogonalisation(basis, left_cols_to_skip)  (HouseholderQR inside)
      argsort  Spectra::argsort(selection, values)
      corr     Derived::calculate_correction_vector()
  Matrices are lists of columns.  The four parallel arrays of `RitzPairs` (`m_values`, `m_small_vectors`, `m_vectors`,
  `m_residues`), which the C++ always permutes in lock-step, are one list of records `Pair`.
  Theorems (Properties/C15.lean) quantify over ALL kernels; the same definitions instantiated with the executable
  kernels of layer 2 are what the correspondence check runs.

  Layer 2 (`namespace Dav.Exec`, Sc-generic, run at Float): columns are `Lin.Vec α`; the model's own cyclic-Jacobi
  eigen-solver and project + Gram-Schmidt (twice) orthogonalisation; `argsort` is the translated `Gen.Sort.argsort`;
  sizes come from the translated `Gen.JD.jd_ctor_sizes` / `Gen.JD.jd_initialize`.
  Core Lean only (the driver links this file).
-/
import SpectraVerif.Prelude.Sc
import SpectraVerif.Model.Lin
import SpectraVerif.Gen.Sort
import SpectraVerif.Gen.JD

namespace Dav

/-- `Spectra::CompInfo` in declaration order -/
inductive Info where
  | successful | notComputed | notConverging | numericalIssue
  deriving DecidableEq, Repr, Inhabited

def Info.code : Info → Nat
  | .successful => 0 | .notComputed => 1 | .notConverging => 2 | .numericalIssue => 3

/-- vector primitives, user operator, third-party / derived-class kernels -/
structure Kern (σ ν : Type) where
  zero : ν
  add : ν → ν → ν
  sub : ν → ν → ν
  /-- `v * c` -/
  smul : σ → ν → ν
  dot : ν → ν → σ
  norm : ν → σ
  /-- `a < b` on scalars (the convergence test) -/
  lt : σ → σ → Bool
  /-- one column of `op * M` -/
  apply : ν → ν
  /-- `SelfAdjointEigenSolver(small_matrix)`: `info() == Success`, `eigenvalues()`, columns of `eigenvectors()`;
      the argument is the list of columns of the small matrix -/
  eig : List (List σ) → Bool × List σ × List (List σ)
  /-- `twice_is_enough_orthogonalisation(in_output, left_cols_to_skip)` -/
  orth : List ν → Nat → List ν
  /-- `argsort(selection, values)` -/
  argsort : Int → List σ → List Nat

/-- one Ritz pair: `m_values[j]`, `m_small_vectors.col(j)`, `m_vectors.col(j)`, `m_residues.col(j)` -/
structure Pair (σ ν : Type) where
  value : σ
  small : List σ
  vector : ν
  residue : ν

/-- constants of a solver object after the constructor (`check_argument(); initialize();`) -/
structure Cfg where
  nev : Nat
  maxSize : Nat
  initSize : Nat
  corrSize : Nat
  deriving Repr, DecidableEq

/-- the non-constant data members of `JDSymEigsBase` (with `SearchSpace` and `RitzPairs` flattened) -/
structure St (σ ν : Type) where
  /-- `m_search_space.m_basis_vectors` (columns) -/
  basis : List ν
  /-- `m_search_space.m_op_basis_product` (columns) -/
  opBasis : List ν
  /-- `m_ritz_pairs` -/
  pairs : List (Pair σ ν)
  /-- `m_ritz_pairs.m_root_converged` -/
  conv : List Bool
  niter : Nat
  info : Info
  /-- bookkeeping for theorems / correspondence (not a C++ member): `m_search_space.size()` at each Rayleigh–Ritz step -/
  sizes : List Nat

section
variable {σ ν : Type} (K : Kern σ ν)

/-- state right after the constructor -/
def construct : St σ ν := { basis := [], opBasis := [], pairs := [], conv := [], niter := 0, info := .notComputed, sizes := [] }

/-- `M * y` for a matrix given by its columns: `Σ yᵢ vᵢ` -/
def lincomb (cs : List σ) (vs : List ν) : ν :=
  (List.zip cs vs).foldl (fun acc cv => K.add acc (K.smul cv.1 cv.2)) K.zero

/-- `SearchSpace::initialize_search_space` -/
def initializeSearchSpace (guess : List ν) (s : St σ ν) : St σ ν := { s with basis := guess, opBasis := [] }

/-- `SearchSpace::update_operator_basis_product`: only the columns not yet multiplied are multiplied -/
def updateOperatorBasisProduct (s : St σ ν) : St σ ν :=
  { s with opBasis := s.opBasis ++ (s.basis.drop s.opBasis.length).map K.apply }

/-- `SearchSpace::restart(ritz_pairs, size)` -/
def restart (size : Nat) (s : St σ ν) : St σ ν :=
  { s with basis := (s.pairs.take size).map (fun p => p.vector),
           opBasis := (s.pairs.take size).map (fun p => lincomb K p.small s.opBasis) }

/-- `SearchSpace::extend_basis(new_vect)`: append, then orthogonalise skipping the old columns -/
def extendBasis (newv : List ν) (s : St σ ν) : St σ ν :=
  { s with basis := K.orth (s.basis ++ newv) s.basis.length }

/-- `basis_vectors.transpose() * op_basis_prod`, as a list of columns -/
def smallMatrix (s : St σ ν) : List (List σ) := s.opBasis.map (fun w => s.basis.map (fun v => K.dot v w))

/-- the pair built from one eigenpair of the small problem: Ritz vector `V y`, residue `(A V) y - (V y) θ` -/
def mkPair (s : St σ ν) (θ : σ) (y : List σ) : Pair σ ν :=
  let x := lincomb K y s.basis
  { value := θ, small := y, vector := x, residue := K.sub (lincomb K y s.opBasis) (K.smul θ x) }

/-- `RitzPairs::compute_eigen_pairs(search_space)`; the flag is `eigen_solver.info() == Success` -/
def computeEigenPairs (s : St σ ν) : Bool × St σ ν :=
  let r := K.eig (smallMatrix K s)
  (r.1, { s with pairs := List.zipWith (mkPair K s) r.2.1 r.2.2 })

/-- `RitzPairs::sort(selection)` -/
def sortPairs (sel : Int) (s : St σ ν) : St σ ν :=
  { s with pairs := (K.argsort sel (s.pairs.map (fun p => p.value))).filterMap (fun i => s.pairs[i]?) }

/-- the flags `check_convergence` stores: `norms[j] < tol` for every pair -/
def convFlags (tol : σ) (s : St σ ν) : List Bool := s.pairs.map (fun p => K.lt (K.norm p.residue) tol)

/-- `RitzPairs::check_convergence(tol, number_eigenvalues)`: `converged` starts as `size() >= nev` and is and-ed with the
    tests of the pairs `j < min(nev, size())` -/
def checkConvergence (tol : σ) (nev : Nat) (s : St σ ν) : Bool × St σ ν :=
  let f := convFlags K tol s
  (decide (nev ≤ f.length) && (f.take nev).all id, { s with conv := f })

/-- first half of the loop body: restart if the space exceeds its maximum, multiply the new columns, Rayleigh–Ritz, sort,
    convergence test.  Result: `none` = small eigenproblem failed, `some converged` otherwise. -/
def iterHead (c : Cfg) (sel : Int) (tol : σ) (s : St σ ν) : Option Bool × St σ ν :=
  let s := if s.basis.length > c.maxSize then restart K c.initSize s else s
  let s := updateOperatorBasisProduct K s
  let s := { s with sizes := s.sizes ++ [s.basis.length] }
  let r := computeEigenPairs K s
  if !r.1 then (none, r.2) else
  let s := sortPairs K sel r.2
  let t := checkConvergence K tol c.nev s
  (some t.1, t.2)

/-- the loop of `compute_with_guess`; `corr` is `Derived::calculate_correction_vector()` (a function of the Ritz pairs).
    `fuel` = iterations the `for` header still allows (`maxit - niter_`). -/
def loop (c : Cfg) (corr : List (Pair σ ν) → List ν) (sel : Int) (tol : σ) (maxit : Nat) : Nat → St σ ν → St σ ν
  | 0, s => s
  | fuel + 1, s =>
    match iterHead K c sel tol s with
    | (none, s1) => { s1 with info := .numericalIssue }
    | (some true, s1) => { s1 with info := .successful }
    | (some false, s1) =>
      if s1.niter + 1 = maxit then { s1 with info := .notConverging } else
      let s2 := extendBasis K (corr s1.pairs) s1
      loop c corr sel tol maxit fuel { s2 with niter := s2.niter + 1 }

/-- the return expression `converged_eigenvalues().cast<Index>().head(min(nev, size)).sum()` -/
def returnValue (c : Cfg) (s : St σ ν) : Nat := (s.conv.take c.nev).count true

/-- the first two statements of `compute_with_guess`: `m_ritz_pairs = RitzPairs<Scalar>(); m_info = CompInfo::NotComputed;`.
    A default-constructed `RitzPairs` (`RitzPairs() = default`, no member has an initialiser) holds five EMPTY members:
    `m_values` (size 0), `m_small_vectors`, `m_vectors`, `m_residues` (0 × 0) — no pair — and `m_root_converged` (size 0) — no flag. -/
def resetResults (s : St σ ν) : St σ ν := { s with pairs := [], conv := [], info := .notComputed }

/-- `compute_with_guess(initial_space, selection, maxit, tol)`: the statements before the loop, in source order, are
    `m_ritz_pairs = RitzPairs<Scalar>(); m_info = CompInfo::NotComputed; m_search_space.initialize_search_space(initial_space);
    niter_ = 0;` — every result member is reset before the first trip round the loop -/
def computeWithGuess (c : Cfg) (corr : List (Pair σ ν) → List ν) (guess : List ν) (sel : Int) (maxit : Nat) (tol : σ)
    (s : St σ ν) : St σ ν × Nat :=
  let s0 := { initializeSearchSpace guess (resetResults s) with niter := 0, sizes := [] }
  let s1 := loop K c corr sel tol maxit maxit s0
  (s1, returnValue c s1)

/-- `eigenvalues()` = `ritz_values().head(min(nev, size()))` -/
def eigenvalues (c : Cfg) (s : St σ ν) : List σ := (s.pairs.take c.nev).map (fun p => p.value)
/-- `eigenvectors()` = `ritz_vectors().leftCols(min(nev, size()))` -/
def eigenvectors (c : Cfg) (s : St σ ν) : List ν := (s.pairs.take c.nev).map (fun p => p.vector)

end

/-- sizes after the constructor, from the translated member initialisers and `initialize()` -/
def cfgOf (nev nvecInit nvecMax n : Int) : Cfg :=
  let c := Gen.JD.jd_ctor_sizes nev nvecInit nvecMax n
  let i := Gen.JD.jd_initialize c.1 c.2.1 c.2.2 nev n
  { nev := nev.toNat, maxSize := i.1.toNat, initSize := i.2.1.toNat, corrSize := i.2.2.toNat }

/-! ### DavidsonSymEigsSolver: coordinate-level pieces (Sc-generic) -/
namespace Exec
open Lin

section
variable {α : Type} [Add α] [Sub α] [Mul α] [Div α] [Neg α] [Sc α]

/-- one column of `calculate_correction_vector`: `(tmp == 0).select(0, residue / tmp)` with `tmp = theta - diagonal`,
    coefficient-wise: the DPR quotient, and 0 in the rows where the preconditioner `D - theta I` is singular -/
def dprColumn (diag : Vec α) (θ : α) (r : Vec α) : Vec α :=
  vofFn diag.size (fun i => if Sc.eq (θ - vget diag i) zero then zero else vget r i / (θ - vget diag i))

/-- `DavidsonSymEigsSolver::calculate_correction_vector` -/
def dprCorrection (diag : Vec α) (corrSize : Nat) (pairs : List (Pair α (Vec α))) : List (Vec α) :=
  (pairs.take corrSize).map (fun p => dprColumn diag p.value p.residue)

/-- `argsort(selection, values)` through the translated `Gen.Sort.argsort` -/
def argsortList (sel : Int) (vals : List α) : List Nat :=
  let a := vals.toArray
  match Gen.Sort.argsort sel (fun i => if i < 0 then zero else a.getD i.toNat zero) vals.length with
  | Res.ok ind => (List.range vals.length).map (fun (i : Nat) => (ind (i : Int)).toNat)
  | Res.throw _ => []

def unitVec (n i : Nat) : Vec α := vofFn n (fun k => if k = i then one else zero)

/-- `DavidsonSymEigsSolver::setup_initial_search_space(selection)` -/
def setupInitialSearchSpace (diag : Vec α) (initSize : Nat) (sel : Int) : List (Vec α) :=
  ((argsortList sel diag.toList).take initSize).map (fun row => unitVec diag.size row)

/-! #### the model's own kernels (stand-ins for Eigen's, same specification) -/

/-- symmetric matrix from the lower triangle of a list of columns (what `SelfAdjointEigenSolver` reads) -/
def symLower (cols : List (List α)) : Array (Array α) :=
  let k := cols.length
  let g := fun (i j : Nat) => ((cols.getD j []).getD i zero)
  Array.ofFn (n := k) (fun i => Array.ofFn (n := k) (fun j => if j.val ≤ i.val then g i.val j.val else g j.val i.val))

@[inline] def mget (a : Array (Array α)) (i j : Nat) : α := (a.getD i #[]).getD j zero
@[inline] def mset (a : Array (Array α)) (i j : Nat) (x : α) : Array (Array α) := a.modify i (fun r => r.setIfInBounds j x)

/-- one Jacobi rotation annihilating `a[p][q]`; `v` accumulates the eigenvectors (rows of `v` = coordinates) -/
def jacobiRotate (k p q : Nat) (av : Array (Array α) × Array (Array α)) : Array (Array α) × Array (Array α) :=
  let a := av.1; let v := av.2
  let apq := mget a p q
  if Sc.eq apq zero then av else
  let app := mget a p p; let aqq := mget a q q
  let τ := (aqq - app) / ((Sc.ofInt 2 : α) * apq)
  let t := (if Sc.lt τ zero then -one else one) / (Sc.abs τ + Sc.sqrt (one + τ * τ))
  let c := one / Sc.sqrt (one + t * t)
  let s := t * c
  -- A <- Jᵀ A J on rows/cols p, q
  let a := (List.range k).foldl (fun a i =>
    let aip := mget a i p; let aiq := mget a i q
    mset (mset a i p (c * aip - s * aiq)) i q (s * aip + c * aiq)) a
  let a := (List.range k).foldl (fun a j =>
    let apj := mget a p j; let aqj := mget a q j
    mset (mset a p j (c * apj - s * aqj)) q j (s * apj + c * aqj)) a
  let v := (List.range k).foldl (fun v i =>
    let vip := mget v i p; let viq := mget v i q
    mset (mset v i p (c * vip - s * viq)) i q (s * vip + c * viq)) v
  (a, v)

def offNorm2 (k : Nat) (a : Array (Array α)) : α :=
  (List.range k).foldl (fun acc i => (List.range k).foldl (fun acc j => if i = j then acc else acc + mget a i j * mget a i j) acc) zero

def jacobiSweeps (k : Nat) : Nat → Array (Array α) × Array (Array α) → Array (Array α) × Array (Array α)
  | 0, av => av
  | fuel + 1, av =>
    if Sc.eq (offNorm2 k av.1) zero then av else
    let av := (List.range k).foldl (fun av p => (List.range k).foldl (fun av q => if p < q then jacobiRotate k p q av else av) av) av
    jacobiSweeps k fuel av

/-- insertion sort of indices by ascending key -/
def ascIdx (key : Nat → α) (k : Nat) : List Nat :=
  (List.range k).foldl (fun acc i =>
    let rec ins : List Nat → List Nat
      | [] => [i]
      | y :: ys => if Sc.lt (key i) (key y) then i :: y :: ys else y :: ins ys
    ins acc) []

/-- the model's own symmetric eigen-solver (cyclic Jacobi, ascending eigenvalues as Eigen returns them);
    reports failure iff a NaN appears among the eigenvalues -/
def jacobiEig (cols : List (List α)) : Bool × List α × List (List α) :=
  let k := cols.length
  let a := symLower cols
  let v : Array (Array α) := Array.ofFn (n := k) (fun i => Array.ofFn (n := k) (fun j => if i.val = j.val then one else zero))
  let av := jacobiSweeps k 60 (a, v)
  let idx := ascIdx (fun i => mget av.1 i i) k
  let vals := idx.map (fun i => mget av.1 i i)
  let vecs := idx.map (fun j => (List.range k).map (fun i => mget av.2 i j))
  (vals.all (fun x => Sc.eq x x), vals, vecs)

/-- `v.normalize()`: divide by the norm if it is positive -/
def normalizeVec (v : Vec α) : Vec α := let nr := norm v; if Sc.lt zero nr then vdivs v nr else v

/-- one `JensWehner_orthogonalisation`: right block minus left·(leftᵀ·right), then the right block orthonormalised
    among itself (Gram–Schmidt in place of HouseholderQR: same span, columns may differ in sign) -/
def jwPass (cols : List (Vec α)) (skip : Nat) : List (Vec α) :=
  let left := cols.take skip
  let right := (cols.drop skip).map (fun w => left.foldl (fun acc v => vsub acc (vscale (dot v w) v)) w)
  let right := right.foldl (fun (done : List (Vec α)) w =>
    let w := done.foldl (fun acc v => vsub acc (vscale (dot v acc) v)) w
    let w := done.foldl (fun acc v => vsub acc (vscale (dot v acc) v)) w
    done ++ [normalizeVec w]) []
  left ++ right

def orthTwice (cols : List (Vec α)) (skip : Nat) : List (Vec α) := jwPass (jwPass cols skip) skip

/-- executable kernel record for a dense symmetric matrix `A` (row `i` of `A·v` accumulated left to right) -/
def kern (A : Mat α) : Kern α (Vec α) :=
  { zero := vzero A.rows, add := vadd, sub := vsub, smul := fun c v => vscale c v, dot := dot, norm := norm,
    lt := Sc.lt, apply := fun v => A.mulVec v, eig := jacobiEig, orth := orthTwice, argsort := argsortList }

def diagOf (A : Mat α) : Vec α := vofFn A.rows (fun i => A.get i i)

/-- `DavidsonSymEigsSolver::compute(selection, maxit, tol)` on a fresh solver -/
def compute (A : Mat α) (c : Cfg) (sel : Int) (maxit : Nat) (tol : α) : St α (Vec α) × Nat :=
  let d := diagOf A
  computeWithGuess (kern A) c (dprCorrection d c.corrSize) (setupInitialSearchSpace d c.initSize sel) sel maxit tol (construct)

/-- `compute_with_guess(initial_space, …)` on a fresh solver -/
def computeGuess (A : Mat α) (c : Cfg) (guess : List (Vec α)) (sel : Int) (maxit : Nat) (tol : α) : St α (Vec α) × Nat :=
  computeWithGuess (kern A) c (dprCorrection (diagOf A) c.corrSize) guess sel maxit tol (construct)

end
end Exec
end Dav
