/-
  C03 — executable model of the five symmetric GENERALIZED solver classes

      SymGEigsSolver<Op, BOp, Cholesky>          SymGEigsSolver<Op, BOp, RegularInverse>
      SymGEigsShiftSolver<Op, BOp, ShiftInvert>  SymGEigsShiftSolver<Op, BOp, Buckling>   SymGEigsShiftSolver<Op, BOp, Cayley>

  as instances of the orchestration model `Orch` over the numeric kernel record `HermSolver.hermKern op c eps23 back`
  (`Model/HermSolver.lean`): what a mode contributes is exactly
    * the composite operator handed to the Lanczos factorization  (`MatOp/internal/SymGEigs*Op.h`; the compositions are the ones of
      `Model/Ops.lean`: `choleskyOp`, `regInvOp`, `shiftInvertOp`, `bucklingOp`, `cayleyOp`),
    * the inner product of `ArnoldiOp` (`IdentityBOp` in Cholesky mode; the `BOp` argument otherwise — in buckling mode that argument
      is the product with K, the positive definite matrix of the pencil `K x = λ K_G x`),
    * the back-transformation of the first `nev` Ritz values at the start of `sort_ritzpair`
      (`1/ν + σ`, `σν/(ν-1)`, `σ(ν+1)/(ν-1)`; identity for the two non-shift modes),
    * the constructor's shift guard (`Gen.Guard.sigma_guard`, translated from `set_shift_and_move`),
    * Cholesky mode only: `eigenvectors()` solves `Lᵀ x = y` for every returned column.

  The parts the user supplies (product with A, product with B, the two triangular solves with the Cholesky factor of B, `B⁻¹·`,
  `(A - σB)⁻¹·`) are explicit dense matrices applied by the row loop `Arnoldi.rowMajorOp` (resp. its transpose): the harness
  defines operator classes with exactly these loops, so that the comparison with the real solver classes is bit-level; the library's
  own wrappers are property C11.  Core Lean only (the driver links this file).
-/
import SpectraVerif.Model.HermSolver
import SpectraVerif.Model.Ops
import SpectraVerif.Gen.Guard

namespace GSymSolver
open Lin

/-- `Spectra::GEigsMode`, in declaration order -/
inductive Mode where
  | cholesky | regularInverse | shiftInvert | buckling | cayley
  deriving DecidableEq, Repr, Inhabited

/-- the enumerator value (the `mode` argument of the translated `sigma_guard`) -/
def Mode.code : Mode → Int
  | .cholesky => 0 | .regularInverse => 1 | .shiftInvert => 2 | .buckling => 3 | .cayley => 4

def Mode.ofNat? : Nat → Option Mode
  | 0 => some .cholesky | 1 => some .regularInverse | 2 => some .shiftInvert | 3 => some .buckling | 4 => some .cayley
  | _ => none

section
variable {α : Type} [Add α] [Sub α] [Mul α] [Div α] [Neg α] [Sc α]

/-- `y = Mᵀ x` for the row-major array `a` of `M`: `y_i = 0 + Σ_j a[j*n+i] * x_j` (the harness' `upper_triangular_solve` loop) -/
def rowMajorTOp (n : Nat) (a : Array α) (x : Vec α) : Vec α :=
  vofFn n (fun i => Arnoldi.sum0 n (fun j => a.getD (j * n + i) zero * vget x j))

/-- what the user hands to the constructor, as explicit matrices (row-major arrays of length `n*n`):
      `A`, `B`   the pencil `A x = λ B x`  (buckling mode: `A` = K, positive definite, `B` = K_G);
      `aux`      Cholesky: `L⁻¹` where `B = L Lᵀ`;  RegularInverse: `B⁻¹`;  the three shift modes: `(A - σB)⁻¹` as factorized by `set_shift(σ)`;
      `sigma`    the shift (ignored by the two non-shift modes) -/
structure Pencil (α : Type) where
  n : Nat
  A : Array α
  B : Array α
  aux : Array α
  sigma : α

/-- `OpType::perform_op` of the A-side product (`DenseSymMatProd`-like) -/
def opA (P : Pencil α) : Vec α → Vec α := Arnoldi.rowMajorOp P.n P.A
/-- `perform_op` of the B-side product -/
def opB (P : Pencil α) : Vec α → Vec α := Arnoldi.rowMajorOp P.n P.B
/-- `BOpType::lower_triangular_solve`: `L⁻¹ x`;  `BOpType::solve`: `B⁻¹ x`;  shift modes `OpType::perform_op`: `(A - σB)⁻¹ x` -/
def opAux (P : Pencil α) : Vec α → Vec α := Arnoldi.rowMajorOp P.n P.aux
/-- `BOpType::upper_triangular_solve`: `L⁻ᵀ x` -/
def opAuxT (P : Pencil α) : Vec α → Vec α := rowMajorTOp P.n P.aux

/-- `SymGEigsCayleyOp::perform_op`: `y = op(Bop(x)); y = x + (Scalar(2) * m_sigma) * y` coefficient by coefficient — this is
    `Ops.cayleyOp` with the coefficient-wise vector operations of Eigen -/
def cayleyPerformOp (P : Pencil α) (x : Vec α) : Vec α :=
  letI : Add (Vec α) := ⟨fun u v => vofFn P.n (fun i => vget u i + vget v i)⟩
  letI : SMul α (Vec α) := ⟨fun c v => vofFn P.n (fun i => c * vget v i)⟩
  letI : OfNat α 2 := ⟨Sc.ofInt 2⟩
  Ops.cayleyOp (opAux P) (opB P) P.sigma x

/-- the composite operator `ModeMatOp::perform_op` of each mode -/
def performOp (m : Mode) (P : Pencil α) : Vec α → Vec α :=
  match m with
  | .cholesky => Ops.choleskyOp (opA P) (opAux P) (opAuxT P)          -- inv(L) * A * inv(L') * x
  | .regularInverse => Ops.regInvOp (opA P) (opAux P)                 -- inv(B) * A * x
  | .shiftInvert => Ops.shiftInvertOp (opAux P) (opB P)               -- inv(A - σB) * B * x
  | .buckling => Ops.bucklingOp (opAux P) (opA P)                     -- inv(K - σK_G) * K * x      (Bop = K = `P.A`)
  | .cayley => cayleyPerformOp P                                      -- inv(A - σB) * (A + σB) * x

/-- the `BOpType` argument the base class `HermEigsBase<ModeMatOp, BOpType>` receives: `IdentityBOp` in Cholesky mode, the user's
    `Bop` otherwise — which in buckling mode is the product with K (`P.A`), in all other modes the product with B -/
def innerOp (m : Mode) (P : Pencil α) : Option (Vec α → Vec α) :=
  match m with
  | .cholesky => none
  | .buckling => some (opA P)
  | _ => some (opB P)

/-- `ArnoldiOp<Scalar, ModeMatOp, BOpType>` -/
def arnoldiOp (m : Mode) (P : Pencil α) : Arnoldi.Op α := { n := P.n, A := performOp m P, B := innerOp m P }

/-- the derived class's `sort_ritzpair` prologue on one Ritz value (array expressions are evaluated coefficient-wise, left to right) -/
def back (m : Mode) (sigma : α) : α → α :=
  match m with
  | .cholesky | .regularInverse => id
  | .shiftInvert => fun nu => one / nu + sigma                         -- Scalar(1) / nu + m_sigma
  | .buckling => fun nu => sigma * nu / (nu - one)                     -- m_sigma * nu / (nu - Scalar(1))
  | .cayley => fun nu => sigma * (nu + one) / (nu - one)               -- m_sigma * (nu + Scalar(1)) / (nu - Scalar(1))

/-- the kernel record of the solver: the symmetric family's kernels over the mode's operator, inner product and back-transformation -/
def kern (m : Mode) (P : Pencil α) (c : Orch.Cfg) (eps23 : α) :
    Orch.Kern (Arnoldi.State α) α α (Vec α) (Vec α) α (Vec α) :=
  HermSolver.hermKern (arnoldiOp m P) c eps23 (back m P.sigma)

abbrev St (α : Type) := Orch.St (Arnoldi.State α) α α (Vec α)

/-- the constructor: `Base(set_shift_and_move(ModeMatOp(op, Bop), sigma), Bop, nev, ncv)` — first the translated shift guard
    (`Gen.Guard.sigma_guard`, modes 3 and 4 reject σ = 0), then the base-class guards on `(nev, ncv, n)`
    (`Gen.Guard.herm_ctor_rvalue`: the composite operator is an rvalue) -/
def construct (m : Mode) (P : Pencil α) (c : Orch.Cfg) (near0 eps : α) : Except Orch.Exn (St α) :=
  match Gen.Guard.sigma_guard m.code P.sigma with
  | .throw _ => .error (.invalidArgument "SymGEigsShiftSolver: sigma cannot be zero in this mode")
  | .ok _ =>
    match Gen.Guard.herm_ctor_rvalue (c.nev : Int) (c.ncv : Int) (c.n : Int) with
    | .throw _ => .error (.invalidArgument "nev / ncv out of range")
    | .ok _ => .ok (Orch.construct (Arnoldi.State.mk0 c.n c.ncv near0 eps))

/-- `init(init_resid)` / `compute(selection, maxit, tol, sorting)` / `eigenvalues()`: the base class's -/
def init (m : Mode) (P : Pencil α) (c : Orch.Cfg) (eps23 : α) (v0 : Vec α) (s : St α) := Orch.init (kern m P c eps23) c v0 s
def compute (m : Mode) (P : Pencil α) (c : Orch.Cfg) (eps23 : α) (sel : Int) (maxit : Nat) (tol : α) (sorting : Int) (s : St α) :=
  Orch.compute (kern m P c eps23) c sel maxit tol sorting s
def eigenvalues (m : Mode) (P : Pencil α) (c : Orch.Cfg) (eps23 : α) (s : St α) : List α := Orch.eigenvalues (kern m P c eps23) c s

/-- what `eigenvectors(nvec)` does to one column of `Base::eigenvectors(nvec)`: Cholesky mode overrides the accessor and
    solves `Lᵀ x = y` (`m_Bop.upper_triangular_solve(&res(0, i), tmp.data()); res.col(i) = tmp`); the other four modes inherit it -/
def vecBack (m : Mode) (P : Pencil α) : Vec α → Vec α :=
  match m with
  | .cholesky => opAuxT P
  | _ => id

/-- `eigenvectors(nvec)` -/
def eigenvectors (m : Mode) (P : Pencil α) (c : Orch.Cfg) (eps23 : α) (nvec : Nat) (s : St α) : List (Vec α) :=
  (Orch.eigenvectors (kern m P c eps23) c nvec s).map (vecBack m P)

end
end GSymSolver
