/-
  Executable model of `Spectra::TridiagEigen<Scalar>` (include/Spectra/LinAlg/TridiagEigen.h) together with the two
  Eigen 3.4.0 primitives it calls: `numext::hypot` (Eigen/src/Core/MathFunctionsImpl.h, `positive_real_hypot`) and the real
  `JacobiRotation::makeGivens` / `applyOnTheRight` (Eigen/src/Jacobi/Jacobi.h).

  One definition, two instances: at `Float` every expression has the operand order of the C++ (the correspondence check of
  C09 compares bit patterns); at a field the same text is what the theorems of `Properties/C09.lean` are about.
  Core Lean only (no Mathlib): the driver links this file.

  Entry points for other models (symmetric solver): `TridiagEigen.compute`, `.eigenvalues`, `.eigenvectors`.
-/
import SpectraVerif.Model.Lin

namespace EigenPrims
open Lin
variable {α : Type} [Add α] [Sub α] [Mul α] [Div α] [Neg α] [Sc α]

/-- `Eigen::numext::hypot(x, y)` for finite arguments: `p = max(|x|,|y|)`, `0` if `p == 0`, else `p * sqrt(1 + (min/p)²)`.
    (`maxi(a,b) = (a<b)?b:a`, `mini(b,a) = (a<b)?a:b`.)  The isinf/isnan pre-tests of Eigen are not modelled. -/
def hypot (x y : α) : α :=
  let ax := Sc.abs x
  let ay := Sc.abs y
  let p := if Sc.lt ax ay then ay else ax
  if Sc.eq p zero then zero else
  let qp := (if Sc.lt ax ay then ax else ay) / p
  p * Sc.sqrt (one + qp * qp)

/-- a plane rotation as produced by `JacobiRotation<Scalar>::makeGivens(p, q, &r)` (real scalars) -/
structure Rot (α : Type) where
  c : α
  s : α
  r : α

/-- `JacobiRotation<Scalar>::makeGivens(p, q, r)`, specialisation for reals (Jacobi.h:229-268) -/
def makeGivens (p q : α) : Rot α :=
  if Sc.eq q zero then
    ⟨if Sc.lt p zero then -one else one, zero, Sc.abs p⟩
  else if Sc.eq p zero then
    ⟨zero, if Sc.lt q zero then one else -one, Sc.abs q⟩
  else if Sc.gt (Sc.abs p) (Sc.abs q) then
    let t := q / p
    let u0 := Sc.sqrt (one + t * t)
    let u := if Sc.lt p zero then -u0 else u0
    let c := one / u
    ⟨c, (-t) * c, p * u⟩
  else
    let t := p / q
    let u0 := Sc.sqrt (one + t * t)
    let u := if Sc.lt q zero then -u0 else u0
    let s := (-one) / u
    ⟨(-t) * s, s, q * u⟩

/-- the scalar kernel of `apply_rotation_in_the_plane` for the rotation `(c, s')`:
    `x' = c·x + s'·y`, `y' = (−s')·x + c·y` (Jacobi.h:339-347; real scalars so `conj` is the identity) -/
@[inline] def rotPair (c s' : α) (xi yi : α) : α × α := (c * xi + s' * yi, (-s') * xi + c * yi)

/-- `M.applyOnTheRight(p, q, rot)`: columns `p`, `q` of `M` (rows `0..nrow-1`) are combined with `rot.transpose() = (c, −s)`.
    Eigen returns early, leaving the data untouched, when `c == 1 && s' == 0` (Jacobi.h:463). -/
def applyOnTheRight (m : Mat α) (nrow p q : Nat) (c s : α) : Mat α :=
  let s' := -s
  if Sc.eq c one && Sc.eq s' zero then m else
  (List.range nrow).foldl (fun acc i =>
      let r := rotPair c s' (acc.get i p) (acc.get i q)
      (acc.set i p r.1).set i q r.2) m

/-- `M.middleCols/rightCols(...).applyOnTheLeft(p, q, rot.adjoint())`: rows `p`, `q` of `M`, columns `c0..c0+ncol-1`,
    combined with `rot.adjoint() = (c, −s)` -/
def applyOnTheLeftAdj (m : Mat α) (c0 ncol p q : Nat) (c s : α) : Mat α :=
  let s' := -s
  if Sc.eq c one && Sc.eq s' zero then m else
  (List.range ncol).foldl (fun acc jj =>
      let j := c0 + jj
      let r := rotPair c s' (acc.get p j) (acc.get q j)
      (acc.set p j r.1).set q j r.2) m

end EigenPrims

namespace TridiagEigen
open Lin EigenPrims
variable {α : Type} [Add α] [Sub α] [Mul α] [Div α] [Neg α] [Sc α]

/-- `RealScalar(0.5)` -/
@[inline] def half : α := Sc.lit 5 (-1)

/-- Wilkinson shift of `tridiagonal_qr_step` (TridiagEigen.h:54-72): `a = diag[end-1]`, `b = diag[end]`, `e = subdiag[end-1]` -/
def wilkinsonMu (a b e : α) : α :=
  let td := (a - b) * half
  let mu := b
  if Sc.eq td zero then mu - Sc.abs e
  else if Sc.ne e zero then
    let e2 := e * e
    let h := hypot td e
    if Sc.eq e2 zero then mu - e / ((td + (if Sc.gt td zero then h else -h)) / e)
    else mu - e2 / (td + (if Sc.gt td zero then h else -h))
  else mu

/-- loop state of `tridiagonal_qr_step` -/
structure QRSt (α : Type) where
  x : α
  z : α
  diag : Vec α
  sub : Vec α
  q : Mat α

/-- body of the `for k` loop (TridiagEigen.h:80-109) -/
def qrBody (n start end_ k : Nat) (st : QRSt α) : QRSt α :=
  let rot := makeGivens st.x st.z
  let s := rot.s
  let c := rot.c
  let dk := vget st.diag k
  let sk := vget st.sub k
  let dk1 := vget st.diag (k + 1)
  let sdk := s * dk + c * sk
  let dkp1 := s * sk + c * dk1
  let diag := vset st.diag k (c * (c * dk - s * sk) - s * (c * sk - s * dk1))
  let diag := vset diag (k + 1) (s * sdk + c * dkp1)
  let sub := vset st.sub k (c * sdk - s * dkp1)
  let sub := if start < k then vset sub (k - 1) (c * vget sub (k - 1) - s * st.z) else sub
  let x := vget sub k
  let z := if k + 1 < end_ then (-s) * vget sub (k + 1) else st.z
  let sub := if k + 1 < end_ then vset sub (k + 1) (c * vget sub (k + 1)) else sub
  ⟨x, z, diag, sub, applyOnTheRight st.q n k (k + 1) c s⟩

/-- `for (k = start; k < end && z != 0; ++k)`; `fuel` = number of remaining admissible values of `k` -/
def qrLoop (n start end_ : Nat) : Nat → Nat → QRSt α → QRSt α
  | 0, _, st => st
  | f + 1, k, st =>
    if k < end_ && Sc.ne st.z zero then qrLoop n start end_ f (k + 1) (qrBody n start end_ k st) else st

/-- `tridiagonal_qr_step(diag, subdiag, start, end, Q, n)` -/
def qrStep (n start end_ : Nat) (diag sub : Vec α) (q : Mat α) : QRSt α :=
  let mu := wilkinsonMu (vget diag (end_ - 1)) (vget diag end_) (vget sub (end_ - 1))
  let x := vget diag start - mu
  let z := vget sub start
  qrLoop n start end_ (end_ - start) start ⟨x, z, diag, sub, q⟩

/-- the deflation test applied to one sub-diagonal entry (TridiagEigen.h:171-180) -/
def deflateEntry (considerAsZero precisionInv : α) (di di1 si : α) : α :=
  if Sc.le (Sc.abs si) considerAsZero then zero
  else
    let scaled := precisionInv * si
    if Sc.le (scaled * scaled) (Sc.abs di + Sc.abs di1) then zero else si

/-- `for (i = start; i < end; i++)` deflation pass -/
def deflatePass (considerAsZero precisionInv : α) (start end_ : Nat) (diag sub : Vec α) : Vec α :=
  (List.range (end_ - start)).foldl (fun s ii =>
      let i := start + ii
      vset s i (deflateEntry considerAsZero precisionInv (vget diag i) (vget diag (i + 1)) (vget s i))) sub

/-- `while (end > 0 && subdiag[end-1] == 0) end--` -/
def shrinkEnd (sub : Vec α) : Nat → Nat
  | 0 => 0
  | e + 1 => if Sc.eq (vget sub e) zero then shrinkEnd sub e else e + 1

/-- `start = end-1; while (start > 0 && subdiag[start-1] != 0) start--` (argument: the initial value `end-1`) -/
def findStart (sub : Vec α) : Nat → Nat
  | 0 => 0
  | k + 1 => if Sc.ne (vget sub k) zero then findStart sub k else k + 1

/-- how the `while (end > 0)` loop was left -/
inductive Exit where
  | done      -- `end <= 0`: every sub-diagonal entry has been found equal to zero
  | capped    -- `iter > 30*n`: `info = 1`
  | fuel      -- the model's recursion budget ran out (proved unreachable: `C09.c09_trideig_fuel`)
  deriving DecidableEq, Repr

structure Core (α : Type) where
  diag : Vec α
  sub : Vec α
  q : Mat α
  exit : Exit
  iter : Nat

/-- the main loop of `compute` (TridiagEigen.h:167-203) -/
def mainLoop (n : Nat) (caz pinv : α) : Nat → Nat → Nat → Nat → Vec α → Vec α → Mat α → Core α
  | 0, _, _, iter, d, s, q => ⟨d, s, q, .fuel, iter⟩
  | f + 1, end_, start, iter, d, s, q =>
    if end_ = 0 then ⟨d, s, q, .done, iter⟩ else
    let s := deflatePass caz pinv start end_ d s
    let end' := shrinkEnd s end_
    if end' = 0 then ⟨d, s, q, .done, iter⟩ else
    let iter := iter + 1
    if 30 * n < iter then ⟨d, s, q, .capped, iter⟩ else
    let start' := findStart s (end' - 1)
    let st := qrStep n start' end' d s q
    mainLoop n caz pinv f end' start' iter st.diag st.sub st.q

/-- `x.cwiseAbs().maxCoeff()` in Eigen's scalar redux order: start from the first coefficient, `res = max(res, |xᵢ|)` -/
def maxAbs1 (v : Vec α) : α :=
  (List.range (v.size - 1)).foldl (fun m i => let a := Sc.abs (vget v (i + 1)); if Sc.lt m a then a else m) (Sc.abs (vget v 0))

/-- the object after `compute`: `m_main_diag`, `m_evecs` (+ the final sub-diagonal, kept for the theorems) -/
structure Decomp (α : Type) where
  evals : Vec α
  evecs : Mat α
  sub : Vec α

/-- `scale` of `compute` -/
def scaleOf (d e : Vec α) : α :=
  let a := maxAbs1 d
  let b := maxAbs1 e
  if Sc.lt a b then b else a

/-- the scaled main loop started the way `compute` starts it -/
def core (n : Nat) (d e : Vec α) : Core α :=
  let scale := scaleOf d e
  mainLoop n (Sc.minPos : α) (one / Sc.eps) (30 * n + 1) (n - 1) 0 0 (vdivs d scale) (vdivs e scale) (Mat.identity n)

/-- `TridiagEigen::compute(mat)` for an `n × n` matrix (`n ≥ 2`) given by its diagonal `d` (length n) and
    sub-diagonal `e` (length n-1); only these two diagonals are read by the C++. -/
def compute (n : Nat) (d e : Vec α) : Res (Decomp α) :=
  let near0 : α := Sc.minPos * Sc.ofInt 10
  let scale := scaleOf d e
  if Sc.lt scale near0 then Res.ok ⟨vzero n, Mat.identity n, vzero (n - 1)⟩
  else
    let r := core n d e
    if r.exit = Exit.done then Res.ok ⟨vscale scale r.diag, r.q, r.sub⟩
    else Res.throw "std::runtime_error TridiagEigen: eigen decomposition failed"

/-- accessors (the C++ ones throw `logic_error` before `compute`; after a successful `compute` they return the members) -/
def eigenvalues (r : Decomp α) : Vec α := r.evals
def eigenvectors (r : Decomp α) : Mat α := r.evecs

end TridiagEigen
