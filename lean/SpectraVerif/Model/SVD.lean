/-
  Model of `include/Spectra/contrib/PartialSVDSolver.h` (C16), built ON TOP of the generic orchestration model `Model/Orch.lean`
  of the inner `SymEigsSolver` (`HermEigsBase`): every definition is generic in the kernel record `K` of the inner solver, so the
  theorems of C16 hold for every behaviour of the inner numerics, and in the scalar `α` (run at `Float`, proved at ordered fields).

    * `SVDTallMatOp.perform_op` / `SVDWideMatOp.perform_op`:  y = Aᵀ(A x)  resp.  y = A(Aᵀ x)  through the cache vector
      (explicit left-to-right loops: `Lin.Mat.mulVec`, `Lin.Mat.tmulVecK`)
    * `PartialSVDSolver` as a state machine.  Data members that are not constants:
          m_eigs  (the inner solver object: `Orch.St`),   m_nconv,   m_evecs  (the eigenvector cache, 0 columns after construction)
      constants: `m_mat` (A, m × n), the inner configuration `c` (n = min(m,n), nev = ncomp, ncv clamped to n).
      - `compute(maxit, tol)`   = `m_eigs->init(); m_nconv = m_eigs->compute(LargestAlge, maxit, tol)`  (sorting = default LargestAlge)
        and FIRST `m_evecs.resize(0, 0)` (fix of finding F4: before it, nothing ever invalidated the cache)
      - `singular_values()`     = `m_eigs->eigenvalues().cwiseMax(0).cwiseSqrt()` (fix of finding F5: a zero eigenvalue that rounding made
        slightly negative used to give NaN)
      - `matrix_U(nu)` / `matrix_V(nv)`: fill the cache from `m_eigs->eigenvectors()` if it has no column (`m_evecs.cols() < 1`);
        `k = min(nu, m_nconv)`; the side that the eigenproblem was solved for (V when m > n: AᵀA; U when m ≤ n: AAᵀ) is
        `m_evecs.leftCols(k)`; the other side is `A · scaled_evecs(k)` resp. `Aᵀ · scaled_evecs(k)`, column `j` of `scaled_evecs` being
        `e_j / σ_j` if `σ_j > 0` and the ZERO vector otherwise (σ = `singular_values()`).
        `leftCols(k)` / `svals[j]` with `k` larger than what is there is an Eigen assertion (undefined behaviour under NDEBUG):
        modelled as the outcome `.error` (still reachable after a THROWING `compute`, which leaves `m_nconv` as it was).
  Core Lean only (the driver links this file).
-/
import SpectraVerif.Model.Orch
import SpectraVerif.Model.Lin
import SpectraVerif.Gen.Sort

namespace SVD
open Lin

/-- `SortRule::LargestAlge` -/
def LARGEST_ALGE : Int := 3

section ops
variable {α : Type} [Add α] [Sub α] [Mul α] [Div α] [Neg α] [Sc α]

/-- `Aᵀ x` : `yⱼ = Σᵢ A(i,j) xᵢ`, each entry accumulated left to right -/
def tmulVec (A : Mat α) (x : Vec α) : Vec α := A.tmulVecK A.cols x

/-- `SVDTallMatOp`: rows() = cols() = min(m, n) -/
def opDim (A : Mat α) : Nat := min A.rows A.cols

/-- `SVDTallMatOp::perform_op`: `m_cache = A x; y = Aᵀ m_cache`; returns (y, m_cache) -/
def tallPerformOp (A : Mat α) (x : Vec α) : Vec α × Vec α :=
  let cache := A.mulVec x
  (tmulVec A cache, cache)

/-- `SVDWideMatOp::perform_op`: `m_cache = Aᵀ x; y = A m_cache`; returns (y, m_cache) -/
def widePerformOp (A : Mat α) (x : Vec α) : Vec α × Vec α :=
  let cache := tmulVec A x
  (A.mulVec cache, cache)

/-- the shape switch of the constructor: `m_m > m_n` selects `SVDTallMatOp` (eigenproblem of AᵀA, eigenvectors = V) -/
def isTall (A : Mat α) : Bool := decide (A.rows > A.cols)

/-- the operator the constructor installs -/
def performOp (A : Mat α) (x : Vec α) : Vec α := if isTall A then (tallPerformOp A x).1 else (widePerformOp A x).1

/-- one entry of `eigenvalues().cwiseMax(Scalar(0))`: Eigen's `maxi(x, 0) = (x < 0) ? 0 : x` -/
def clamp0 (x : α) : α := if Sc.lt x zero then zero else x

/-- one column of `scaled_evecs(k)`: `res.col(j) /= svals[j]` (element by element) if `svals[j] > 0`, else `res.col(j).setZero()` -/
def scaleCol (v : Vec α) (sigma : α) : Vec α := if Sc.lt zero sigma then vdivs v sigma else v.map (fun _ => zero)

end ops

section sort
variable {α : Type} [Add α] [Sub α] [Mul α] [Div α] [Neg α] [Sc α]

/-- a value list as the `Int`-indexed array the source-translated code reads -/
def listFn (vals : List α) : Int → α := fun i => if i < 0 then Lin.zero else vals.getD i.toNat Lin.zero

/-- `argsort(rule, values, n)` (Gen/Sort.lean, translated from Util/SelectionRule.h on every run) in the index-list shape of `Orch.Kern` -/
def argsortIdx (rule : Int) (vals : List α) (n : Nat) : Except Orch.Exn (List Nat) :=
  match Gen.Sort.argsort rule (listFn vals) (n : Int) with
  | .ok f => .ok ((List.range n).map (fun (i : Nat) => (f (i : Int)).toNat))
  | .throw _ => .error (.invalidArgument "unsupported selection rule")

/-- `HermEigsBase::sort_ritzpair`: the rule guard, then `argsort` -/
def hermSortIdx (rule : Int) (vals : List α) (n : Nat) : Except Orch.Exn (List Nat) :=
  match Gen.Sort.herm_sort_guard rule with
  | .throw _ => .error (.invalidArgument "unsupported sorting rule")
  | .ok _ => argsortIdx rule vals n

end sort

/-- inner configuration built by `PartialSVDSolver(mat, ncomp, ncv)` → `SymEigsSolver(op, ncomp, ncv)` → `HermEigsBase` (ncv clamped) -/
def cfgOf (m n ncomp ncv : Nat) : Orch.Cfg := ⟨min m n, ncomp, if ncv > min m n then min m n else ncv⟩

/-- the data members of `PartialSVDSolver` that change -/
structure St (φ α ε κ : Type) where
  eigs : Orch.St φ α ε κ
  /-- `m_nconv` (indeterminate until the first `compute()` returns: the constructor does not initialise it) -/
  nconv : Nat
  /-- columns of `m_evecs` -/
  evecs : List (Vec α)

/-- outcome of an accessor: the returned columns, or an Eigen assertion failure (out-of-range block) -/
abbrev Cols (α : Type) := Except String (List (Vec α))

section
variable {φ α ε κ β τ : Type} [Add α] [Sub α] [Mul α] [Div α] [Neg α] [Sc α]
variable (K : Orch.Kern φ α ε κ β τ (Vec α)) (c : Orch.Cfg) (A : Mat α)
-- `v0`: the residual `SymEigsSolver::init()` draws (`SimpleRandom(0).random_vec(n)`: a constant of the configuration)
variable (v0 : β)

/-- the constructor: `m_evecs(0, 0)`; `m_nconv` is not initialised (`junk`) -/
def construct (fac0 : φ) (junk : Nat) : St φ α ε κ := { eigs := Orch.construct fac0, nconv := junk, evecs := [] }

/-- `compute(maxit, tol)`: `m_evecs.resize(0, 0); m_eigs->init(); m_nconv = m_eigs->compute(LargestAlge, maxit, tol)`.
    The cache is emptied FIRST, so also when `init`/`compute` throw; an exception leaves `m_nconv` as it was. -/
def compute (maxit : Nat) (tol : τ) (s : St φ α ε κ) : St φ α ε κ × Except Orch.Exn Nat :=
  match Orch.init K c v0 s.eigs with
  | (e1, some x) => ({ s with eigs := e1, evecs := [] }, .error x)
  | (e1, none) =>
    let r := Orch.compute K c LARGEST_ALGE maxit tol LARGEST_ALGE e1
    match r.out with
    | .error x => ({ s with eigs := r.st, evecs := [] }, .error x)
    | .ok n => ({ eigs := r.st, nconv := n, evecs := [] }, .ok n)

/-- `singular_values()` -/
def singular_values (s : St φ α ε κ) : List α := (Orch.eigenvalues K c s.eigs).map (fun x => Sc.sqrt (clamp0 x))

/-- `if (m_evecs.cols() < 1) m_evecs = m_eigs->eigenvectors();` -/
def fillCache (s : St φ α ε κ) : St φ α ε κ :=
  if s.evecs.length < 1 then { s with evecs := Orch.eigenvectors K c c.nev s.eigs } else s

/-- the cached side: `m_evecs.leftCols(k)` -/
def cachedSide (k : Nat) (s : St φ α ε κ) : Cols α :=
  if k > s.evecs.length then .error "leftCols" else .ok (s.evecs.take k)

/-- the computed side: `B * scaled_evecs(k)` with `B = m_mat` (for U) or `B = m_mat.transpose()` (for V) -/
def computedSide (mul : Vec α → Vec α) (k : Nat) (s : St φ α ε κ) : Cols α :=
  let sv := singular_values K c s
  if k > s.evecs.length then .error "leftCols"
  else if k > sv.length then .error "svals"
  else .ok ((List.range k).map (fun j => mul (scaleCol (s.evecs.getD j #[]) (sv.getD j zero))))

/-- `matrix_U(nu)` -/
def matrix_U (nu : Nat) (s : St φ α ε κ) : St φ α ε κ × Cols α :=
  let s1 := fillCache K c s
  let k := min nu s1.nconv
  if !(isTall A) then (s1, cachedSide k s1) else (s1, computedSide K c (A.mulVec) k s1)

/-- `matrix_V(nv)` -/
def matrix_V (nv : Nat) (s : St φ α ε κ) : St φ α ε κ × Cols α :=
  let s1 := fillCache K c s
  let k := min nv s1.nconv
  if isTall A then (s1, cachedSide k s1) else (s1, computedSide K c (tmulVec A) k s1)

/-- one call of the public interface -/
inductive Call (τ : Type) where
  | compute (maxit : Nat) (tol : τ)
  | singular_values
  | matrix_U (k : Nat)
  | matrix_V (k : Nat)

/-- run a call, ignoring the return value (histories) -/
def step (s : St φ α ε κ) : Call τ → St φ α ε κ
  | .compute maxit tol => (compute K c v0 maxit tol s).1
  | .singular_values => s
  | .matrix_U k => (matrix_U K c A k s).1
  | .matrix_V k => (matrix_V K c A k s).1

def run (s : St φ α ε κ) (h : List (Call τ)) : St φ α ε κ := h.foldl (step K c A v0) s

end
end SVD
