/-
  Hand-written executable model of `Spectra::BKLDLT<std::complex<RealScalar>>` (include/Spectra/LinAlg/BKLDLT.h), complex
  Hermitian input.  Core Lean only.  Generic in the REAL scalar `β` (executable at `Float`); `std::complex<β>` is `Cx β`.

  * `std::complex` arithmetic as g++ 12 evaluates it at `-O1 -ffp-contract=off`:
      `+ - unary-`  component-wise;
      `a * b`       `(ar·br − ai·bi, ar·bi + ai·br)`  (the `__muldc3` NaN-recovery call happens only when BOTH parts are NaN and
                    changes the result only if an operand has an infinite part: not modelled, every NaN is one token);
      `a / b`       libgcc `__divdc3` (`HessEigen.cdiv`), also when the divisor is `ScalarOp::real(x)` = `(re, 0)`;
      `abs`         `hypot(re, im)` (`Sc.cabs`);  `==`  both parts.
  * Storage, access checking (`ok` flag), `m_perm`, the right-hand side: the structures `BKLDLT.St (Cx β)` / `BKLDLT.Sv (Cx β)` of the
    real model, with the routines that contain no `conj`/`real`/`abs` reused as they are (`interchange_rows`, `shift_diag`, forward
    substitution `fwdLoop`, `applyPermc`).  Everything else is written here with the conjugations of the complex instantiation:
    `copy_data` (all four Uplo × storage-order branches; the `std::copy` path is taken for column-major + Lower only, and
    `C10.c10_copy_fast_path` proves that the branch condition translated from the header, `Gen.BK.copy_fast_path`, says the same),
    `pivoting_1x1` (the `!is_same<Scalar, RealScalar>` branches), the pivot search on `abs(complex)`,
    both eliminations, the block-diagonal solve and the backward substitution (`dot` conjugates its left argument).
  * `ScalarOp<std::complex<R>>::conj/real` are the translated `Gen.BK.scalarop_conj_c/_real_c`; the 2x2 solve and the 2x2
    singularity test are the translated `solve_inplace_2x2_h` / `ge2_status_h` instantiated with them; `ge1_status`,
    `compute_final_info`, `compute_break`, `compress_permutation` are the translated definitions used at the complex scalar type.
-/
import SpectraVerif.Prelude.Sc
import SpectraVerif.Gen.BK
import SpectraVerif.Model.BKLDLT
import SpectraVerif.Model.HessEigen

namespace BKLDLTC
open Gen.BK
open BKLDLT (St Sv colptr off packedSize inb inr Successful NotComputed NumericalIssue srcIdx interchange_rows shift_diag applyPermc fwdLoop initSt)

/-- `std::complex<β>` -/
structure Cx (β : Type) where
  re : β
  im : β

section
variable {β : Type} [Add β] [Sub β] [Mul β] [Div β] [Neg β] [Sc β]

@[inline] def rzero : β := Sc.ofInt 0
@[inline] def ofPair (p : β × β) : Cx β := ⟨p.1, p.2⟩
@[inline] def toPair (z : Cx β) : β × β := (z.re, z.im)

instance : Add (Cx β) := ⟨fun a b => ⟨a.re + b.re, a.im + b.im⟩⟩
instance : Sub (Cx β) := ⟨fun a b => ⟨a.re - b.re, a.im - b.im⟩⟩
instance : Neg (Cx β) := ⟨fun a => ⟨-a.re, -a.im⟩⟩
/-- `std::complex::operator*` as expanded by g++ (tree-complex lowering, no `-fcx-limited-range` needed for the finite path) -/
instance : Mul (Cx β) := ⟨fun a b => ⟨a.re * b.re - a.im * b.im, a.re * b.im + a.im * b.re⟩⟩
/-- `std::complex::operator/`: libgcc `__divdc3` -/
instance : Div (Cx β) := ⟨fun a b => ofPair (HessEigen.cdiv a.re a.im b.re b.im)⟩

/-- the scalar-class view of the complex type: what the translated kernels need (`== Scalar(0)`, `abs(x) >= abs(y)` on the
    real results embedded as `(r, 0)`); no real-valued arithmetic of the model goes through this embedding -/
instance : Sc (Cx β) where
  abs z := ⟨Sc.cabs (z.re, z.im), rzero⟩
  sqrt z := z
  pow z _ := z
  ofInt k := ⟨Sc.ofInt k, rzero⟩
  lit m e := ⟨Sc.lit m e, rzero⟩
  lt a b := Sc.lt a.re b.re
  le a b := Sc.le a.re b.re
  eq a b := Sc.eq a.re b.re && Sc.eq a.im b.im
  eps := ⟨Sc.eps, rzero⟩
  minPos := ⟨Sc.minPos, rzero⟩
  cabs _ := ⟨rzero, rzero⟩

/-- `ScalarOp<std::complex<R>>::conj` (translated) -/
@[inline] def conjC (z : Cx β) : Cx β := ofPair (scalarop_conj_c (toPair z))
/-- `ScalarOp<std::complex<R>>::real` (translated) -/
@[inline] def realC (z : Cx β) : Cx β := ofPair (scalarop_real_c (toPair z))
/-- `std::abs(std::complex)` -/
@[inline] def cabs (z : Cx β) : β := Sc.cabs (z.re, z.im)
/-- `Scalar(shift)` -/
@[inline] def ofReal (x : β) : Cx β := ⟨x, rzero⟩
@[inline] def czero : Cx β := BKLDLT.zero

/-! ### copy_data -/

def srcCoeff (src : Array (Cx β)) (rowMajor : Bool) (n i j : Int) : Cx β := src.getD (srcIdx rowMajor n i j).toNat czero

/-- fast path, column j: `std::copy(&src.coeffRef(j,j), … + (n-j), col_pointer(j))`: `n-j` consecutive elements of the input's memory
    (a column of a column-major matrix; were the path taken for a row-major matrix it would be a row) -/
def copy_col_fast (n : Int) (src : Array (Cx β)) (rowMajor : Bool) (j : Int) (s : St (Cx β)) : St (Cx β) :=
  (intRange 0 (n - j)).foldl (fun s t => s.wr (j + t) j (src.getD (srcIdx rowMajor n j j + t).toNat czero)) s

/-- general path, column j: `for (i = j; i < n; i++, dest++) *dest = Lower ? src.coeff(i,j) : conj(src.coeff(j,i))` -/
def copy_col_gen (n : Int) (src : Array (Cx β)) (rowMajor : Bool) (uplo : Int) (j : Int) (acc : Int × St (Cx β)) : Int × St (Cx β) :=
  (intRange j n).foldl (fun (acc : Int × St (Cx β)) i =>
    let v := if decide (uplo = 1) then srcCoeff src rowMajor n i j else conjC (srcCoeff src rowMajor n j i)
    (acc.1 + 1, acc.2.wrAt acc.1 i j v)) acc

/-- `copy_data`: `uplo` is Eigen's enum (Lower = 1, Upper = 2); `shift` is real, subtracted as `Scalar(shift)` -/
def copy_data (s : St (Cx β)) (src : Array (Cx β)) (rowMajor : Bool) (uplo : Int) (shift : β) : St (Cx β) :=
  let n := s.n
  if (!rowMajor) && decide (uplo = 1) then
    (intRange 0 n).foldl (fun s j => shift_diag (copy_col_fast n src rowMajor j s) j (ofReal shift)) s
  else
    ((intRange 0 n).foldl (fun (acc : Int × St (Cx β)) j =>
      let acc := copy_col_gen n src rowMajor uplo j acc
      (acc.1, shift_diag acc.2 j (ofReal shift))) ((0 : Int), s)).2

/-! ### pivoting -/

/-- `pivoting_1x1(k, r)`, complex instantiation: the exchanged column-k / row-r entries are conjugated, and so is `A[r, k]` -/
def pivoting_1x1 (s : St (Cx β)) (k r : Int) : St (Cx β) :=
  let s := s.setPerm k r
  if k = r then s else
  let s := s.swap k k r r
  -- std::swap_ranges(&coeff(r+1,k), col_pointer(k+1), &coeff(r+1,r))
  let s := (intRange (r + 1) s.n).foldl (fun s i => s.swap i k i r) s
  -- A[(k+1):(r-1), k] <-> A[r, (k+1):(r-1)] with conjugation
  let s := (intRange (k + 1) r).foldl (fun s j =>
    let (a, s) := s.get j k
    let src_conj := conjC a
    let (b, s) := s.get r j
    let s := s.wr j k (conjC b)
    s.wr r j src_conj) s
  -- A[r, k] <- Conj(A[r, k])
  let (c, s) := s.get r k
  s.wr r k (conjC c)

def pivoting_2x2 (s : St (Cx β)) (k r p : Int) : St (Cx β) :=
  let s := pivoting_1x1 s k p
  let s := pivoting_1x1 s (k + 1) r
  let s := s.swap (k + 1) k r k
  let (pk, s) := s.getPerm k
  let s := s.setPerm k (-pk - 1)
  let (pk1, s) := s.getPerm (k + 1)
  s.setPerm (k + 1) (-pk1 - 1)

/-- returns `(lambda, r, state)`; `lambda` is real -/
def find_lambda (s : St (Cx β)) (k : Int) : β × Int × St (Cx β) :=
  let (h1, s) := s.get (k + 1) k
  (intRange (k + 2) s.n).foldl (fun (acc : β × Int × St (Cx β)) i =>
    let (lambda, r, s) := acc
    let (e, s) := s.get i k
    let abs_elem := cabs e
    if Sc.lt lambda abs_elem then (abs_elem, i, s) else (lambda, r, s)) (cabs h1, k + 1, s)

def find_sigma (s : St (Cx β)) (k r p : Int) : β × Int × St (Cx β) :=
  let (sigma, p, s) : β × Int × St (Cx β) := if r < s.n - 1 then find_lambda s r else (Sc.ofInt (-1), p, s)
  (intRange k r).foldl (fun (acc : β × Int × St (Cx β)) j =>
    let (sigma, p, s) := acc
    let (e, s) := s.get r j
    let abs_elem := cabs e
    if Sc.lt sigma abs_elem then (abs_elem, j, s) else (sigma, p, s)) (sigma, p, s)

/-- returns `(is_1x1, branch tag, state)`; `alpha` and all compared quantities are real -/
def permutate_mat (s : St (Cx β)) (k : Int) (alpha : β) : Bool × Nat × St (Cx β) :=
  let (lambda, r, s) := find_lambda s k
  if Sc.gt lambda (rzero : β) then
    let (akk, s) := s.get k k
    let abs_akk := cabs akk
    if Sc.lt abs_akk (alpha * lambda) then
      let (sigma, _p, s) := find_sigma s k r k
      if Sc.lt (sigma * abs_akk) (alpha * lambda * lambda) then
        let (arr, s) := s.get r r
        if Sc.ge (cabs arr) (alpha * sigma) then
          let s := pivoting_1x1 s k r
          let s := interchange_rows s k r 0 (k - 1)
          (true, 3, s)
        else
          let p := k
          let s := pivoting_2x2 s k r p
          let s := interchange_rows s k p 0 (k - 1)
          let s := interchange_rows s (k + 1) r 0 (k - 1)
          (false, 4, s)
      else (true, 2, s)
    else (true, 1, s)
  else (true, 0, s)

/-! ### eliminations -/

/-- one entry of `solve_left_2x2` -/
def solve_left_2x2 (e11 e21 e22 c1 c2 : Cx β) : Cx β × Cx β :=
  let e12 := conjC e21
  if Sc.ge (cabs e11) (cabs e12) then
    let fac := e12 / e11
    let x2 := (c2 - fac * c1) / (e22 - fac * e21)
    let x1 := (c1 - e21 * x2) / e11
    (x1, x2)
  else
    let fac := e11 / e12
    let x2 := (c1 - fac * c2) / (e21 - fac * e22)
    let x1 := (c2 - e22 * x2) / e12
    (x1, x2)

/-- `B -= l * l^H / A[k, k]` -/
def ge1_update (s : St (Cx β)) (k : Int) (akk : Cx β) (ldim : Int) : St (Cx β) :=
  (intRange 0 ldim).foldl (fun s j =>
    let (lj, s) := s.get (k + 1 + j) k
    let c := conjC lj / akk
    (intRange 0 (ldim - j)).foldl (fun s t =>
      let (lv, s) := s.get (k + 1 + j + t) k
      let (bv, s) := s.get (j + k + 1 + t) (j + k + 1)
      s.wr (j + k + 1 + t) (j + k + 1) (bv - c * lv)) s) s

/-- `l /= A[k, k]` -/
def ge1_scale (s : St (Cx β)) (k : Int) (akk : Cx β) (ldim : Int) : St (Cx β) :=
  (intRange 0 ldim).foldl (fun s t =>
    let (lv, s) := s.get (k + 1 + t) k
    s.wr (k + 1 + t) k (lv / akk)) s

def gaussian_elimination_1x1 (s : St (Cx β)) (k : Int) : Int × St (Cx β) :=
  let (d, s) := s.get k k
  let akk := realC d
  let s := s.wr k k akk
  let st := ge1_status akk
  if st ≠ Successful then (st, s) else
  let ldim := s.n - k - 1
  let s := ge1_update s k akk ldim
  let s := ge1_scale s k akk ldim
  (st, s)

def ge2_X (s : St (Cx β)) (k : Int) (e11 e21 e22 : Cx β) (ldim : Int) : Array (Cx β) × Array (Cx β) × St (Cx β) :=
  (intRange 0 ldim).foldl (fun (acc : Array (Cx β) × Array (Cx β) × St (Cx β)) t =>
    let (x0, x1, s) := acc
    let (c1, s) := s.get (k + 2 + t) k
    let (c2, s) := s.get (k + 2 + t) (k + 1)
    let (a, b) := solve_left_2x2 e11 e21 e22 c1 c2
    (x0.push a, x1.push b, s)) ((#[] : Array (Cx β)), (#[] : Array (Cx β)), s)

/-- `B -= X * l^H` -/
def ge2_update (s : St (Cx β)) (k : Int) (ldim : Int) (x0 x1 : Array (Cx β)) : St (Cx β) :=
  (intRange 0 ldim).foldl (fun s j =>
    let (l1j, s) := s.get (k + 2 + j) k
    let (l2j, s) := s.get (k + 2 + j) (k + 1)
    let l1j_conj := conjC l1j
    let l2j_conj := conjC l2j
    (intRange 0 (ldim - j)).foldl (fun s t =>
      let (bv, s) := s.get (j + k + 2 + t) (j + k + 2)
      s.wr (j + k + 2 + t) (j + k + 2) (bv - (x0.getD (j + t).toNat czero * l1j_conj + x1.getD (j + t).toNat czero * l2j_conj))) s) s

def ge2_store (s : St (Cx β)) (k : Int) (ldim : Int) (x0 x1 : Array (Cx β)) : St (Cx β) :=
  let s := (intRange 0 ldim).foldl (fun s t => s.wr (k + 2 + t) k (x0.getD t.toNat czero)) s
  (intRange 0 ldim).foldl (fun s t => s.wr (k + 2 + t) (k + 1) (x1.getD t.toNat czero)) s

def gaussian_elimination_2x2 (s : St (Cx β)) (k : Int) : Int × St (Cx β) :=
  let (e11, s) := s.get k k
  let (e22, s) := s.get (k + 1) (k + 1)
  let e11 := realC e11
  let e22 := realC e22
  let s := s.wr k k e11
  let s := s.wr (k + 1) (k + 1) e22
  let (e21, s) := s.get (k + 1) k
  let st := ge2_status_h conjC realC e11 e21 e22
  if st ≠ Successful then (st, s) else
  let ldim := s.n - k - 2
  let (x0, x1, s) := ge2_X s k e11 e21 e22 ldim
  let s := ge2_update s k ldim x0 x1
  let s := ge2_store s k ldim x0 x1
  (st, s)

/-! ### compute -/

def computeLoop (alpha : β) : Nat → Int → Int → St (Cx β) → List Nat → Int × Int × St (Cx β) × List Nat
  | 0, k, info, s, tags => (k, info, s, tags)
  | fuel + 1, k, info, s, tags =>
    if k < s.n - 1 then
      let (is1, tag, s) := permutate_mat s k alpha
      let (info, k, s) : Int × Int × St (Cx β) :=
        if is1 then
          let (i, s) := gaussian_elimination_1x1 s k
          (i, k, s)
        else
          let (i, s) := gaussian_elimination_2x2 s k
          (i, k + 1, s)
      if compute_break info then (k, info, s, tag :: tags) else computeLoop alpha fuel (k + 1) info s (tag :: tags)
    else (k, info, s, tags)

/-- `compute(mat, uplo, shift)` on the raw memory of the n×n complex matrix; `shift`, `alpha` real -/
def compute (src : Array (Cx β)) (rowMajor : Bool) (n : Int) (uplo : Int) (shift alpha : β) : BKLDLT.Fact (Cx β) :=
  let s := copy_data (initSt n) src rowMajor uplo shift
  let info := compute_init_info NotComputed
  let (k, info, s, tags) := computeLoop alpha n.toNat 0 info s []
  let (akk, s) : Cx β × St (Cx β) :=
    if k = n - 1 then
      let (d, s) := s.get k k
      let a := realC d
      (a, s.wr k k a)
    else (czero, s)
  let info := compute_final_info n k info akk
  let permc := compress_permutation (fun i => s.perm.getD i.toNat 0) n
  { s := s, info := info, permc := permc, tags := tags }

/-- `compute(mat, uplo, shift)` called on an object that already went through any history (`prev`): the members are reset exactly as
    the header does it (`BKLDLT.enterSt`: `m_n`, `m_perm`, `m_permc`, `m_info` overwritten; the packed array resized but NOT cleared).
    `C10.c10_compute_history_independent` proves the result equals `compute` on a fresh object. -/
def computeFrom (prev : BKLDLT.Fact (Cx β)) (src : Array (Cx β)) (rowMajor : Bool) (n : Int) (uplo : Int) (shift alpha : β) : BKLDLT.Fact (Cx β) :=
  let s := copy_data (BKLDLT.enterSt prev.s n) src rowMajor uplo shift
  let info := compute_init_info prev.info
  let (k, info, s, tags) := computeLoop alpha n.toNat 0 info s []
  let (akk, s) : Cx β × St (Cx β) :=
    if k = n - 1 then
      let (d, s) := s.get k k
      let a := realC d
      (a, s.wr k k a)
    else (czero, s)
  let info := compute_final_info n k info akk
  let permc := compress_permutation (fun i => s.perm.getD i.toNat 0) n
  { s := s, info := info, permc := permc, tags := tags }

/-! ### solve_inplace -/

/-- step 3: `D w = z` -/
def diagLoop : Nat → Int → Sv (Cx β) → Sv (Cx β)
  | 0, _, v => v
  | fuel + 1, i, v =>
    if i < v.s.n then
      let (e11, v) := v.cget i i
      let (pi, v) := v.pget i
      if pi ≥ 0 then
        let (xi, v) := v.xget i
        diagLoop fuel (i + 1) (v.xset i (xi / e11))
      else
        let (e21, v) := v.cget (i + 1) i
        let (e22, v) := v.cget (i + 1) (i + 1)
        let (xi, v) := v.xget i
        let (xi1, v) := v.xget (i + 1)
        let (y1, y2) := solve_inplace_2x2_h conjC realC e11 e21 e22 xi xi1
        diagLoop fuel (i + 2) ((v.xset i y1).xset (i + 1) y2)
    else v

/-- `l.dot(res.segment(i+1, ldim))`: Eigen's `dot` conjugates the LEFT argument; left-to-right from the first product -/
def colDot (v : Sv (Cx β)) (i j ldim : Int) : Cx β × Sv (Cx β) :=
  if ldim ≤ 0 then (czero, v) else
  let (l0, v) := v.cget (i + 1) j
  let (r0, v) := v.xget (i + 1)
  (intRange 1 ldim).foldl (fun (acc : Cx β × Sv (Cx β)) t =>
    let (sum, v) := acc
    let (l, v) := v.cget (i + 1 + t) j
    let (r, v) := v.xget (i + 1 + t)
    (sum + conjC l * r, v)) (conjC l0 * r0, v)

/-- step 4: `L^H y = w` -/
def bwdLoop : Nat → Int → Sv (Cx β) → Sv (Cx β)
  | 0, _, v => v
  | fuel + 1, i, v =>
    if i ≥ 0 then
      let ldim := v.s.n - i - 1
      let (d, v) := colDot v i i ldim
      let (xi, v) := v.xget i
      let v := v.xset i (xi - d)
      let (pi, v) := v.pget i
      if pi < 0 then
        let (d2, v) := colDot v i (i - 1) ldim
        let (xm, v) := v.xget (i - 1)
        let v := v.xset (i - 1) (xm - d2)
        bwdLoop fuel (i - 2) v
      else bwdLoop fuel (i - 1) v
    else v

def solve_inplace (f : BKLDLT.Fact (Cx β)) (b : Array (Cx β)) : Sv (Cx β) :=
  let n := f.s.n
  let v : Sv (Cx β) := { x := b, s := f.s }
  let v := applyPermc v f.permc
  let (pl, v) := v.pget (n - 1)
  let e := if pl < 0 then n - 3 else n - 2
  let v := fwdLoop n.toNat 0 e v
  let v := diagLoop n.toNat 0 v
  let (pl, v) := v.pget (n - 1)
  let i0 := if pl < 0 then n - 3 else n - 2
  let v := bwdLoop n.toNat i0 v
  applyPermc v f.permc.reverse

def solve (f : BKLDLT.Fact (Cx β)) (b : Array (Cx β)) : Array (Cx β) := (solve_inplace f b).x

end
end BKLDLTC
