/-
  Executable model of `Spectra::TridiagQR<Scalar>` (include/Spectra/LinAlg/UpperHessenbergQR.h), statement by statement.
  `TridiagQR` derives from `UpperHessenbergQR` and inherits the six `apply_*` methods, which only read `m_n`, `m_rot_cos`,
  `m_rot_sin`: `TridiagQR.toHess` gives that view, and `apply_*` here are the inherited methods.
  The rotation kernel is the translated `Gen.Givens.compute_rotation`.  Core Lean only.
-/
import SpectraVerif.Model.HessQR

namespace QRModel
open Lin

section
variable {α : Type} [Add α] [Sub α] [Mul α] [Div α] [Neg α] [Sc α]

structure TridiagQR (α : Type) where
  n : Nat
  shift : α
  cos : Vec α
  sin : Vec α
  T_diag : Vec α     -- m_T_diag
  T_subd : Vec α     -- m_T_subd (after the deflation pass of compute)
  R_diag : Vec α
  R_supd : Vec α
  R_supd2 : Vec α

namespace TridiagQR

/-- the test `abs(e) <= eps * (abs(d0) + abs(d1))` used by both deflation passes -/
@[inline] def negligible (e d0 d1 : α) : Bool := Sc.le (Sc.abs e) (Sc.eps * (Sc.abs d0 + Sc.abs d1))

/-- deflation pass: `e[i] := 0` where negligible against `d[i]`, `d[i+1]` -/
def deflate (d e : Vec α) (n : Nat) : Vec α :=
  (List.range (n - 1)).foldl (fun e i => if negligible (vget e i) (vget d i) (vget d (i + 1)) then vset e i zero else e) e

/-- state of the factorization loop: (cos, sin, R_diag, R_supd, R_supd2) -/
structure FacSt (α : Type) where
  cos : Vec α
  sin : Vec α
  Rd : Vec α
  Rs : Vec α
  Rs2 : Vec α

def facStep (n : Nat) (Tsubd : Vec α) (st : FacSt α) (i : Nat) : FacSt α :=
  let rcs := Gen.Givens.compute_rotation (vget st.Rd i) (vget Tsubd i)
  let r := rcs.1; let c := rcs.2.1; let s := rcs.2.2
  let Rd := vset st.Rd i r
  let Tii1 := vget st.Rs i
  let Ti1i1 := vget Rd (i + 1)
  let Rs := vset st.Rs i (c * Tii1 - s * Ti1i1)
  let Rd := vset Rd (i + 1) (s * Tii1 + c * Ti1i1)
  if i < n - 2 then
    let Rs2 := vset st.Rs2 i ((-s) * vget Rs (i + 1))
    let Rs := vset Rs (i + 1) (vget Rs (i + 1) * c)
    ⟨st.cos.push c, st.sin.push s, Rd, Rs, Rs2⟩
  else
    ⟨st.cos.push c, st.sin.push s, Rd, Rs, st.Rs2⟩

/-- `compute(mat, shift)`: only the diagonal and the subdiagonal of `mat` are read -/
def compute (mat : Mat α) (shift : α) : TridiagQR α :=
  let n := mat.rows
  let Td : Vec α := vofFn n (fun i => mat.get i i)
  let Ts0 : Vec α := vofFn (n - 1) (fun i => mat.get (i + 1) i)
  let Ts := deflate Td Ts0 n
  let Rd : Vec α := Td.map (fun a => a - shift)
  let st := (List.range (n - 1)).foldl (facStep n Ts) ⟨#[], #[], Rd, Ts, vzero (n - 2)⟩
  ⟨n, shift, st.cos, st.sin, Td, Ts, st.Rd, st.Rs, st.Rs2⟩

/-- `facStep` on an EXISTING object: `*c`, `*s` are written through the pointers into the (resized) arrays the object owns -/
def refacStep (n : Nat) (Tsubd : Vec α) (st : FacSt α) (i : Nat) : FacSt α :=
  let rcs := Gen.Givens.compute_rotation (vget st.Rd i) (vget Tsubd i)
  let r := rcs.1; let c := rcs.2.1; let s := rcs.2.2
  let Rd := vset st.Rd i r
  let Tii1 := vget st.Rs i
  let Ti1i1 := vget Rd (i + 1)
  let Rs := vset st.Rs i (c * Tii1 - s * Ti1i1)
  let Rd := vset Rd (i + 1) (s * Tii1 + c * Ti1i1)
  if i < n - 2 then
    let Rs2 := vset st.Rs2 i ((-s) * vget Rs (i + 1))
    let Rs := vset Rs (i + 1) (vget Rs (i + 1) * c)
    ⟨vset st.cos i c, vset st.sin i s, Rd, Rs, Rs2⟩
  else
    ⟨vset st.cos i c, vset st.sin i s, Rd, Rs, st.Rs2⟩

/-- `old.compute(mat, shift)` on an object that already holds a factorization: `m_T_diag`, `m_T_subd`, `m_R_diag`, `m_R_supd`
    are resized and then assigned as a whole; `m_rot_cos`, `m_rot_sin`, `m_R_supd2` are resized (`vresize`: contents kept when the
    size is unchanged, `junk` otherwise) and written entry by entry.  `c08_tqr_recompute`: nothing of `old` / `junk` survives. -/
def recompute (old : TridiagQR α) (junk : α) (mat : Mat α) (shift : α) : TridiagQR α :=
  let n := mat.rows
  let Td : Vec α := vofFn n (fun i => mat.get i i)
  let Ts0 : Vec α := vofFn (n - 1) (fun i => mat.get (i + 1) i)
  let Ts := deflate Td Ts0 n
  let Rd : Vec α := Td.map (fun a => a - shift)
  let st := (List.range (n - 1)).foldl (refacStep n Ts)
    ⟨vresize old.cos (n - 1) junk, vresize old.sin (n - 1) junk, Rd, Ts, vresize old.R_supd2 (n - 2) junk⟩
  ⟨n, shift, st.cos, st.sin, Td, Ts, st.Rd, st.Rs, st.Rs2⟩

/-- tridiagonal-plus matrix from its diagonals: `lo` first subdiagonal, `d` diagonal, `u1`, `u2` first/second superdiagonal -/
def bandMat (n : Nat) (lo d u1 u2 : Nat → α) : Mat α :=
  Mat.ofFn n n (fun i j => if i = j then d i else if i + 1 = j then u1 i else if i + 2 = j then u2 i else if i = j + 1 then lo j else zero)

def matrix_R (q : TridiagQR α) : Mat α :=
  bandMat q.n (fun _ => zero) (vget q.R_diag) (vget q.R_supd) (vget q.R_supd2)

/-- the closed formulas of `matrix_QtHQ` for one rotation: given `c, s` and the 2x2 block `[x y; y z]` returns `(x', y', z')` -/
@[inline] def qthqLocal (c s x y z : α) : α × α × α :=
  let cs := c * s; let c2 := c * c; let s2 := s * s
  let c2x := c2 * x; let s2x := s2 * x; let c2z := c2 * z; let s2z := s2 * z
  let csy2 := Sc.ofInt 2 * c * s * y
  (c2x - csy2 + s2z, cs * (x - z) + (c2 - s2) * y, s2x + csy2 + c2z)

/-- loop body of `matrix_QtHQ` on the pair (diagonal `d`, subdiagonal `e`) of `dest` -/
def qthqStep (q : TridiagQR α) (de : Vec α × Vec α) (i : Nat) : Vec α × Vec α :=
  let d := de.1; let e := de.2
  let c := vget q.cos i; let s := vget q.sin i
  let p := qthqLocal c s (vget d i) (vget e i) (vget d (i + 1))
  let d := vset (vset d i p.1) (i + 1) p.2.2
  let e := vset e i p.2.1
  if i < q.n - 2 then
    let ci1 := vget q.cos (i + 1); let si1 := vget q.sin (i + 1)
    let o := (-s) * vget q.T_subd (i + 1)
    let e := vset e (i + 1) (vget e (i + 1) * c)
    let e := vset e i (ci1 * vget e i - si1 * o)
    (d, e)
  else (d, e)

/-- (diagonal, subdiagonal) of `matrix_QtHQ(dest)` -/
def qthqBands (q : TridiagQR α) : Vec α × Vec α :=
  let de := (List.range (q.n - 1)).foldl (qthqStep q) (q.T_diag, q.T_subd)
  (de.1, deflate de.1 de.2 q.n)

/-- `matrix_QtHQ(dest)`: `Q'TQ` formed from `T` directly, symmetric tridiagonal by construction -/
def matrix_QtHQ (q : TridiagQR α) : Mat α :=
  let de := qthqBands q
  bandMat q.n (vget de.2) (vget de.1) (vget de.2) (fun _ => zero)

/-- base-class view (what the inherited `apply_*` methods read); `m_mat_R` of the base is never written by `TridiagQR` -/
def toHess (q : TridiagQR α) : UpperHessenbergQR α := ⟨q.n, Mat.zeros 0 0, q.shift, q.cos, q.sin⟩

def apply_QY (q : TridiagQR α) (y : Vec α) : Vec α := q.toHess.apply_QY y
def apply_QtY (q : TridiagQR α) (y : Vec α) : Vec α := q.toHess.apply_QtY y
def apply_QY_mat (q : TridiagQR α) (Y : Mat α) : Mat α := q.toHess.apply_QY_mat Y
def apply_QtY_mat (q : TridiagQR α) (Y : Mat α) : Mat α := q.toHess.apply_QtY_mat Y
def apply_YQ (q : TridiagQR α) (Y : Mat α) : Mat α := q.toHess.apply_YQ Y
def apply_YQt (q : TridiagQR α) (Y : Mat α) : Mat α := q.toHess.apply_YQt Y

end TridiagQR
end

end QRModel
