/-
  Executable model of `Spectra::Arnoldi<Scalar, ArnoldiOp<Scalar, OpType, BOpType>>` (include/Spectra/LinAlg/Arnoldi.h) and of
  `ArnoldiOp` (MatOp/internal/ArnoldiOp.h), real scalars.  Core Lean only.

  * Generic in the scalar (`Sc`), parameterised by the operator `A : Vec α → Vec α` (`perform_op`) and by the inner product
    (`B = none`: `IdentityBOp` specialisation, `B = some b`: `<x,y> = xᵀ (b y)`), with the op counter carried in the state.
  * Entry points are named after the C++ methods: `init`, `factorize_from`, `expand_basis`, `compress_H`, `compress_V`.
  * Evaluation order is Eigen 3.4.0's with EIGEN_DONT_VECTORIZE:
      - `x.dot(y)`, `x.norm()`: redux starting from the FIRST term (`Lin.dot`, `Lin.norm`);
      - `M * x`, `M.adjoint() * x` (gemv kernels): every output entry is `0 + t₀ + t₁ + …` (`sum0`, accumulator starts at +0),
        then `dst = 0 + acc`, `dst -= acc` (`alpha = ∓1` is exact);
      - `a - V*h` with `noalias()` is evaluated as `dst = a; dst -= V*h`;
      - `x / s` is a true division, `x * s` a multiplication per coefficient.
    `Lin.Mat.mulVecK`/`tmulVecK` start their sums from the first term (differs from the gemv kernels only in the sign of a zero
    result); the `…0` variants below are the ones that are bit-exact against the kernels and are used here.
  * `Arnoldi::factorize_from` calls `m_op.norm(h)` on the *coefficient* vector `h` (length i+1).  For `IdentityBOp` this is the
    Euclidean norm, which is what the model uses for every `B`.  (For a non-identity `BOpType` the C++ applies `B` to a pointer
    of only i+1 valid entries and dots vectors of different length: no library solver instantiates that combination;
    see the C07 report.)
-/
import SpectraVerif.Model.Lin
import SpectraVerif.Gen.Rand

namespace Arnoldi
open Lin

section
variable {α : Type} [Add α] [Sub α] [Mul α] [Div α] [Neg α] [Sc α]

/-- `0 + f 0 + f 1 + … + f (n-1)`, left to right, accumulator starting at `+0` (Eigen's gemv kernels) -/
def sum0 (n : Nat) (f : Nat → α) : α := (List.range n).foldl (fun acc i => acc + f i) zero

/-- `V.leftCols(k) * x` by the column-major gemv kernel -/
def mulVecK0 (V : Mat α) (k : Nat) (x : Vec α) : Vec α :=
  vofFn V.rows (fun i => sum0 k (fun j => V.get i j * vget x j))
/-- `V.leftCols(k).adjoint() * y` by the row-major gemv kernel -/
def tmulVecK0 (V : Mat α) (k : Nat) (y : Vec α) : Vec α :=
  vofFn k (fun j => sum0 V.rows (fun i => V.get i j * vget y i))
/-- `f.noalias() -= V.leftCols(k) * g` -/
def subMulVecK0 (f : Vec α) (V : Mat α) (k : Nat) (g : Vec α) : Vec α :=
  vofFn f.size (fun i => vget f i - sum0 k (fun j => V.get i j * vget g j))

/-- explicit row-major dense operator `y_i = 0 + Σ_j a[i*n+j] * x_j` (the harness-defined operator class) -/
def rowMajorOp (n : Nat) (a : Array α) (x : Vec α) : Vec α :=
  vofFn n (fun i => sum0 n (fun j => a.getD (i * n + j) zero * vget x j))

/-- `ArnoldiOp<Scalar, OpType, BOpType>`: the operator and the inner product -/
structure Op (α : Type) where
  n : Nat
  A : Vec α → Vec α
  B : Option (Vec α → Vec α)

namespace Op
/-- `ArnoldiOp::inner_product(x, y)` = `x.dot(B y)` -/
def inner (op : Op α) (x y : Vec α) : α :=
  match op.B with
  | none => dot x y
  | some b => dot x (b y)
/-- `ArnoldiOp::norm(x)` -/
def norm (op : Op α) (x : Vec α) : α :=
  match op.B with
  | none => Lin.norm x
  | some b => Sc.sqrt (dot x (b x))
/-- `ArnoldiOp::adjoint_product(V.leftCols(k), y, res)` -/
def adjoint (op : Op α) (V : Mat α) (k : Nat) (y : Vec α) : Vec α :=
  match op.B with
  | none => tmulVecK0 V k y
  | some b => tmulVecK0 V k (b y)
end Op

/-- the data members of `Arnoldi` (+ the caller's op counter and two trace counters used by the correspondence check) -/
structure State (α : Type) where
  n : Nat
  m : Nat
  k : Nat
  V : Mat α
  H : Mat α
  f : Vec α
  beta : α
  near0 : α
  eps : α
  ops : Nat
  nexpand : Nat      -- accepted `expand_basis` directions so far (observer tag "arnoldi.expand")
  nreorth : Nat      -- re-orthogonalisation corrections performed so far (model-side trace only)

/-- a freshly constructed object (`m_k = 0`); matrices are allocated by `init` -/
def State.mk0 (n m : Nat) (near0 eps : α) : State α :=
  { n := n, m := m, k := 0, V := Mat.zeros n m, H := Mat.zeros m m, f := vzero n, beta := zero,
    near0 := near0, eps := eps, ops := 0, nexpand := 0, nreorth := 0 }

/-- `SimpleRandom<Scalar>(seed).random_vec(n)` -/
def randomVec (n : Nat) (seed : Int) : Vec α :=
  let s0 := Gen.Rand.seed_norm seed
  let (_, acc) := (List.range n).foldl (fun (st : Int × Array α) _ =>
      let (s', v) := Gen.Rand.draw (α := α) st.1
      (s', st.2.push v)) (s0, Array.mkEmpty n)
  acc

/-- inner `while (count < 3 && ortho_err >= eps * fnorm)` of `expand_basis` -/
def expandRefine (op : Op α) (eps : α) (V : Mat α) (i : Nat) :
    Nat → Nat → Vec α → α → Vec α → α → Vec α × α × Vec α × α
  | 0, _, f, fnorm, Vf, oerr => (f, fnorm, Vf, oerr)
  | fuel + 1, count, f, fnorm, Vf, oerr =>
    if count < 3 && Sc.ge oerr (eps * fnorm) then
      let f := subMulVecK0 f V i Vf
      let fnorm := op.norm f
      let Vf := op.adjoint V i f
      let oerr := maxAbs Vf
      expandRefine op eps V i fuel (count + 1) f fnorm Vf oerr
    else (f, fnorm, Vf, oerr)

/-- `Arnoldi::expand_basis(V.leftCols(i), seed, f, fnorm, op_counter)`; returns `(f, fnorm, ops, accepted)` -/
def expand_basis (op : Op α) (eps : α) (V : Mat α) (i : Nat) (seed : Int) (f0 : Vec α) (fnorm0 : α) (ops0 : Nat) :
    Vec α × α × Nat × Bool :=
  let rec go : Nat → Nat → Vec α → α → Nat → Vec α × α × Nat × Bool
    | 0, _, f, fnorm, ops => (f, fnorm, ops, false)
    | fuel + 1, iter, _f, _fnorm, ops =>
      let sd := seed + 123 * (iter : Int)
      let (f, ops) :=
        if iter == 0 then (op.A (randomVec (α := α) op.n sd), ops + 1) else (randomVec (α := α) op.n sd, ops)
      let Vf := op.adjoint V i f
      let f := subMulVecK0 f V i Vf
      let fnorm := op.norm f
      let Vf := op.adjoint V i f
      let oerr := maxAbs Vf
      let (f, fnorm, _, oerr) := expandRefine op eps V i 3 0 f fnorm Vf oerr
      if Sc.lt oerr (eps * fnorm) then (f, fnorm, ops, true)
      else go fuel (iter + 1) f fnorm ops
  go 5 0 f0 fnorm0 ops0

/-- `Arnoldi::init(v0, op_counter)` on a state whose dimensions are set; `none` = throws `invalid_argument` -/
def init (op : Op α) (s : State α) (v0 : Vec α) : Option (State α) :=
  let v0norm := op.norm v0
  if Sc.lt v0norm s.near0 then none else
  let v := op.A v0
  let vnorm := op.norm v
  let v := vdivs v vnorm
  let w := op.A v
  let h00 := op.inner v w
  let f := vofFn s.n (fun i => vget w i - vget v i * h00)
  let H := (Mat.zeros s.m s.m).set 0 0 h00
  let V := (Mat.zeros s.n s.m).setCol 0 v
  let (f, beta) :=
    if Sc.lt (maxAbs f) (s.eps * Sc.abs h00) then (vzero s.n, zero) else (f, op.norm f)
  some { s with V := V, H := H, f := f, beta := beta, k := 1, ops := s.ops + 2 }

/-- `m_fac_H.rightCols(m - from_k).setZero(); m_fac_H.block(from_k, 0, m - from_k, from_k).setZero()` -/
def keepTopLeft (H : Mat α) (from_k : Nat) : Mat α :=
  Mat.ofFn H.rows H.cols (fun i j => if i < from_k ∧ j < from_k then H.get i j else zero)

/-- `V.col(i) = v` (all other entries unchanged) -/
def withCol (V : Mat α) (i : Nat) (v : Vec α) : Mat α :=
  Mat.ofFn V.rows V.cols (fun r c => if c = i then vget v r else V.get r c)

/-- `H(i, i-1) = sub`, then `H(0..i, i) = h` (all other entries unchanged) -/
def withHcol (H : Mat α) (i : Nat) (sub : α) (h : Vec α) : Mat α :=
  Mat.ofFn H.rows H.cols (fun a b =>
    if b = i then (if a < i + 1 then vget h a else H.get a b)
    else if a = i ∧ b + 1 = i then sub else H.get a b)

/-- the re-orthogonalisation `while (count < 5 && ortho_err > eps * beta)` of `Arnoldi::factorize_from`;
    state `(f, h, beta, Vf, ortho_err, passes)` -/
def reorth (op : Op α) (eps betaThresh : α) (V : Mat α) (i1 : Nat) (n : Nat) :
    Nat → Nat → Vec α → Vec α → α → Vec α → α → Nat → Vec α × Vec α × α × Nat
  | 0, _, f, h, beta, _, _, np => (f, h, beta, np)
  | fuel + 1, count, f, h, beta, Vf, oerr, np =>
    if count < 5 && Sc.gt oerr (eps * beta) then
      if Sc.lt beta betaThresh then (vzero n, h, zero, np)
      else
        let f := subMulVecK0 f V i1 Vf
        let h := vadd h Vf
        let beta := op.norm f
        let Vf := op.adjoint V i1 f
        let oerr := maxAbs Vf
        reorth op eps betaThresh V i1 n fuel (count + 1) f h beta Vf oerr (np + 1)
    else (f, h, beta, np)

/-- the body of one pass of the `for (i = from_k; …)` loop of `Arnoldi::factorize_from` after the breakdown decision:
    `v = f/beta`, `H(i,i-1) = restart ? 0 : beta`, `w = A v`, `h = VᴴBw`, `f = w - V h`, 0.717 test, re-orthogonalisation -/
def stepCore (op : Op α) (betaThresh : α) (s : State α) (i : Nat) (f : Vec α) (beta : α) (restart : Bool)
    (ops nexp : Nat) : State α :=
  let vi := vdivs f beta
  let V := withCol s.V i vi
  let sub : α := if restart then zero else beta
  let w := op.A vi
  let ops := ops + 1
  let i1 := i + 1
  let h := op.adjoint V i1 w
  let f := subMulVecK0 w V i1 h
  let beta := op.norm f
  if Sc.gt beta (Sc.lit 717 (-3) * Lin.norm h) then
    { s with V := V, H := withHcol s.H i sub h, f := f, beta := beta, ops := ops, nexpand := nexp }
  else
    let Vf := op.adjoint V i1 f
    let oerr := maxAbs Vf
    let (f, h, beta, np) := reorth op s.eps betaThresh V i1 s.n 5 0 f h beta Vf oerr s.nreorth
    { s with V := V, H := withHcol s.H i sub h, f := f, beta := beta, ops := ops, nexpand := nexp, nreorth := np }

/-- one pass of the `for (i = from_k; i <= to_m - 1; i++)` loop of `Arnoldi::factorize_from` -/
def factorStep (op : Op α) (betaThresh : α) (s : State α) (i : Nat) : State α :=
  if Sc.lt s.beta s.near0 then
    let (f, b, ops, acc) := expand_basis op s.eps s.V i (2 * (i : Int)) s.f s.beta s.ops
    stepCore op betaThresh s i f b true ops (if acc then s.nexpand + 1 else s.nexpand)
  else stepCore op betaThresh s i s.f s.beta false s.ops s.nexpand

/-- `Arnoldi::factorize_from(from_k, to_m, op_counter)`; `none` = throws `invalid_argument` -/
def factorize_from (op : Op α) (s : State α) (from_k to_m : Nat) : Option (State α) :=
  if to_m ≤ from_k then some s
  else if from_k > s.k then none
  else
    let betaThresh := s.eps * Sc.sqrt (Sc.ofInt (s.n : Int))
    let s := { s with H := keepTopLeft s.H from_k }
    let s := (List.range (to_m - from_k)).foldl (fun st d => factorStep op betaThresh st (from_k + d)) s
    some { s with k := to_m }

/-- `Arnoldi::compress_H(decomp)`: `H ← QᵀHQ` (computed by the QR helper, given here) and `m_k -= shifts` -/
def compress_H (s : State α) (QtHQ : Mat α) (shifts : Nat) : State α :=
  { s with H := QtHQ, k := s.k - shifts }

/-- `Arnoldi::compress_V(Q)` (after `compress_H`, so `s.k` is already the reduced dimension) -/
def compress_V (op : Op α) (s : State α) (Q : Mat α) : State α :=
  let k := s.k
  let Vs : Mat α := Mat.ofFn s.n (k + 1) (fun r i =>
    if i < k then
      let nnz := s.m - k + i + 1
      sum0 nnz (fun j => s.V.get r j * Q.get j i)
    else sum0 s.m (fun j => s.V.get r j * Q.get j k))
  let V := Mat.ofFn s.n s.m (fun r c => if c < k + 1 then Vs.get r c else s.V.get r c)
  let q := Q.get (s.m - 1) (k - 1)
  let hk := s.H.get k (k - 1)
  let f := vofFn s.n (fun r => vget s.f r * q + V.get r k * hk)
  { s with V := V, f := f, beta := op.norm f }

end
end Arnoldi
