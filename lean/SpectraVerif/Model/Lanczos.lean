/-
  Executable model of `Spectra::Lanczos<Scalar, ArnoldiOpType>::factorize_from` (include/Spectra/LinAlg/Lanczos.h), real scalars.
  `Lanczos` derives from `Arnoldi`: `init`, `expand_basis`, `compress_V` are the inherited ones (`Model/Arnoldi.lean`);
  `compress_H(TridiagQR)` is `Arnoldi.compress_H s QtHQ 1`.  Core Lean only.
-/
import SpectraVerif.Model.Arnoldi

namespace Lanczos
open Lin Arnoldi

section
variable {α : Type} [Add α] [Sub α] [Mul α] [Div α] [Neg α] [Sc α]

/-- the re-orthogonalisation loop of `Lanczos::factorize_from`; only `H(i-1,i)`, `H(i,i-1)`, `H(i,i)` are corrected.
    state `(f, H, beta, Vf, ortho_err, passes)` -/
def reorth (op : Op α) (eps betaThresh : α) (V : Mat α) (i : Nat) (n : Nat) :
    Nat → Nat → Vec α → Mat α → α → Vec α → α → Nat → Vec α × Mat α × α × Nat
  | 0, _, f, H, beta, _, _, np => (f, H, beta, np)
  | fuel + 1, count, f, H, beta, Vf, oerr, np =>
    if count < 5 && Sc.gt oerr (eps * beta) then
      if Sc.lt beta betaThresh then (vzero n, H, zero, np)
      else
        let f := subMulVecK0 f V (i + 1) Vf
        let H := H.set (i - 1) i (H.get (i - 1) i + vget Vf (i - 1))
        let H := H.set i (i - 1) (H.get (i - 1) i)
        let H := H.set i i (H.get i i + vget Vf i)
        let beta := op.norm f
        let Vf := op.adjoint V (i + 1) f
        let oerr := maxAbs Vf
        reorth op eps betaThresh V i n fuel (count + 1) f H beta Vf oerr (np + 1)
    else (f, H, beta, np)

/-- one pass of the `for (i = from_k; i <= to_m - 1; i++)` loop of `Lanczos::factorize_from` -/
def factorStep (op : Op α) (betaThresh epsSqrt : α) (s : State α) (i : Nat) : State α :=
  let restart0 := Sc.lt s.beta s.near0
  -- first attempt: v <- f / beta, local test against the previous basis vector
  let (V, restart) :=
    if !restart0 then
      let v := vdivs s.f s.beta
      let V := s.V.setCol i v
      if Sc.lt s.beta epsSqrt then
        let viv := op.inner (V.col (i - 1)) v
        (V, Sc.gt (Sc.abs viv) epsSqrt)
      else (V, false)
    else (s.V, true)
  let (V, f, beta, ops, nexp) :=
    if restart then
      let (f, b, ops, acc) := expand_basis op s.eps V i (2 * (i : Int)) s.f s.beta s.ops
      (V.setCol i (vdivs f b), f, b, ops, if acc then s.nexpand + 1 else s.nexpand)
    else (V, s.f, s.beta, s.ops, s.nexpand)
  let _ := f
  let v := V.col i
  let hsub : α := if restart then zero else beta
  let H := (s.H.set i (i - 1) hsub).set (i - 1) i hsub
  let w := op.A v
  let ops := ops + 1
  let w := if !restart then
      let c := V.col (i - 1)
      vofFn s.n (fun j => vget w j - hsub * vget c j)
    else w
  let hii := op.inner v w
  let H := H.set i i hii
  let f := vofFn s.n (fun j => vget w j - hii * vget v j)
  let beta := op.norm f
  let Vf := op.adjoint V (i + 1) f
  let oerr := maxAbs Vf
  let (f, H, beta, np) := reorth op s.eps betaThresh V i s.n 5 0 f H beta Vf oerr s.nreorth
  { s with V := V, H := H, f := f, beta := beta, ops := ops, nexpand := nexp, nreorth := np }

/-- `Lanczos::factorize_from(from_k, to_m, op_counter)`; `none` = throws `invalid_argument` -/
def factorize_from (op : Op α) (s : State α) (from_k to_m : Nat) : Option (State α) :=
  if to_m ≤ from_k then some s
  else if from_k > s.k then none
  else
    let betaThresh := s.eps * Sc.sqrt (Sc.ofInt (s.n : Int))
    let epsSqrt := Sc.sqrt s.eps
    let s := { s with H := keepTopLeft s.H from_k }
    let s := (List.range (to_m - from_k)).foldl (fun st d => factorStep op betaThresh epsSqrt st (from_k + d)) s
    some { s with k := to_m }

end
end Lanczos
