/-
  Executable model of `Spectra::HermEigsSolver<OpType>` with `Scalar = std::complex<Real>`:
  `HermEigsBase` (Model/Orch) on top of `Lanczos<std::complex<Real>, ArnoldiOp<…, IdentityBOp>>`.  Core Lean only.

  A complex scalar is a pair `α × α` over the real scalar class `Sc`; the basis `V`, the residual `f`, the start vector, the operator
  and the stored `H` are complex; norms, `beta`, Ritz values, Ritz estimates and Ritz vectors (`m_ritz_vec`) are real; the
  eigenvectors are `V * ritz_vec` (complex × real).  `TridiagQR` / `TridiagEigen` see `m_fac.matrix_H().real()`.

  Facts about libstdc++ / GCC 12 (`-O1 -ffp-contract=off`) and Eigen 3.4.0 (`-DEIGEN_DONT_VECTORIZE`) that the definitions mirror
  (each one was established by a small C++ probe comparing an explicit scalar loop with the library call bit for bit, signed zeros
  included, and is exercised again on every run by the `hermc` correspondence lines of C05):

   1. `std::complex` `*`: GCC emits the plain formulas `(ac − bd, ad + bc)` and only calls `__muldc3` when BOTH parts come out NaN
      (never on finite data): `cmul`.  `+`, `−` componentwise; `std::conj` negates the imaginary part.
   2. `complex * real` and `complex / real` (libstdc++ `operator*=(T)`, `operator/=(T)`; Eigen `scalar_product_op<complex, real>`,
      `scalar_quotient_op<complex, real>`): both parts are multiplied resp. DIVIDED by the real number: `cmulR`, `cdivR`.
      This is what `v.noalias() = m_fac_f / m_beta` (Lanczos) and `m_fac_f * Q(m-1, k-1)` (`compress_V`) do.
   3. BUT `v /= vnorm` in `Arnoldi::init` is `DenseBase::operator/=(const Scalar&)` with `Scalar = std::complex`: the real norm is
      converted to `(vnorm, 0)` and every coefficient goes through a complex ÷ complex division, i.e. libgcc's `__divdc3`
      (GCC ≥ 10: Smith's algorithm with the Baudin–Smith scaling tests).  `cdiv` is that routine without its NaN-recovery tail
      (4·10⁶ random quotients incl. subnormal / huge / zero operands: identical).  For a divisor `(c, 0)` the result differs from
      `(a/c, b/c)` only in the sign of zero results.
   4. `std::abs(std::complex)` is `hypot(re, im)` (`Sc.cabs`); Eigen's `abs2` is `re*re + im*im`; `x.norm()` is
      `sqrt` of the left-to-right sum of `abs2` starting from the first term: `cnorm`.
   5. `x.dot(y)` conjugates the FIRST argument: `Σ conj(xᵢ)·yᵢ` with the product of fact 1, left to right from the first term
      (the same redux order as the real `dot`): `cdot`.
   6. `V.adjoint() * y` (row-major gemv, `ConjugateLhs`): every entry is `0 + conj(V₀ⱼ)y₀ + conj(V₁ⱼ)y₁ + …`; the final
      `dst = 0; dst += alpha * acc` with the complex `alpha = (1, 0)` changes nothing (the accumulator starting at `+0` is never `−0`).
      The one-column case, which Eigen routes to a dot product, gives the same bits: `cadjoint`.
      Same accumulation order as the real kernels: complex arithmetic does not reorder anything.
   7. `f.noalias() -= V * g` (column-major gemv): `fᵢ + (−1, 0)·accᵢ` with the FULL complex product by `alpha = (−1, 0)`
      (this is `fᵢ − accᵢ` except for signs of zeros: 31 of 20 000 probes differ from the plain subtraction, none from this form):
      `csubMulVecK0`.
   8. `V.leftCols(nnz) * q` with a REAL `q` (`compress_V`) is the mixed gemv kernel: `0 + V(i,0)·q₀ + …` with `complex * real`
      products (fact 2): `ccompress_V`.
   9. `SimpleRandom<std::complex<T>>`: one complex draw is two consecutive real draws, real part first: `crandomVec`.
  10. `TridiagQR::matrix_QtHQ(ComplexMatrix&)` computes the real result and casts: all imaginary parts of `H` become `+0`
      at every `compress_H`.  Between restarts `H` is NOT real: `H(i,i) = <v, w>` keeps the rounding-level imaginary part of the
      complex dot product, `f = w − H(i,i)·v` uses it, and the re-orthogonalisation adds complex corrections — the model stores
      `H` as a complex matrix and the factorization hash covers both parts.
  11. The operator of the correspondence stream is an explicit loop in `std::complex` arithmetic (`crowMajorOp`).

  Coverage note: with generic Hermitian test matrices (symmetric + i·skew) no Krylov breakdown ever occurs and `cexpand_basis` is
  never entered (a seeded change of the `expand_basis` seed in Lanczos.h went unnoticed by 137 `hermc` lines); the C05 harness
  therefore draws half of the structured-spectrum cases as `U diag(d) Uᴴ` with a random unitary `U` (repeated / low-rank / clustered
  spectra), after which the same seeded change breaks 11 of 137 `hermc` lines (thorough tier).
-/
import SpectraVerif.Model.HermSolver

namespace HermCplx
open Lin

section
variable {α : Type} [Add α] [Sub α] [Mul α] [Div α] [Neg α] [Sc α]

/-- `std::complex<Real>` -/
abbrev Cx (α : Type) := α × α

@[inline] def cz : Cx α := (zero, zero)
@[inline] def cofReal (x : α) : Cx α := (x, zero)
@[inline] def cadd (z w : Cx α) : Cx α := (z.1 + w.1, z.2 + w.2)
@[inline] def csub (z w : Cx α) : Cx α := (z.1 - w.1, z.2 - w.2)
/-- `std::complex` product as GCC evaluates it on non-NaN data -/
@[inline] def cmul (z w : Cx α) : Cx α := (z.1 * w.1 - z.2 * w.2, z.1 * w.2 + z.2 * w.1)
@[inline] def cconj (z : Cx α) : Cx α := (z.1, -z.2)
/-- `complex * real` -/
@[inline] def cmulR (z : Cx α) (r : α) : Cx α := (z.1 * r, z.2 * r)
/-- `complex / real` -/
@[inline] def cdivR (z : Cx α) (r : α) : Cx α := (z.1 / r, z.2 / r)
/-- `std::abs(z)` -/
@[inline] def cabs (z : Cx α) : α := Sc.cabs z
/-- Eigen `numext::abs2(z)` -/
@[inline] def cabs2 (z : Cx α) : α := z.1 * z.1 + z.2 * z.2

/-- the constants of libgcc's `__divdc3`: `RBIG = DBL_MAX/2`, `RMIN = DBL_MIN`, `RMIN2 = DBL_EPSILON`, `RMINSCAL = 1/DBL_EPSILON`,
    `RMAX2 = RBIG * RMIN2` -/
structure DivK (α : Type) where
  rbig : α
  rmin : α
  rmin2 : α
  rminscal : α
  rmax2 : α

/-- libgcc `__divdc3(a, b, c, d)` = `(a + ib) / (c + id)` (GCC 12 `libgcc2.c`, the branch for `double`), without the NaN-recovery
    tail -/
def cdiv (K : DivK α) (z w : Cx α) : Cx α :=
  let a := z.1; let b := z.2; let c := w.1; let d := w.2
  let ab : α → α := Sc.abs
  if Sc.lt (ab c) (ab d) then
    let (a, b, c, d) := if Sc.ge (ab d) K.rbig then (a / Sc.ofInt 2, b / Sc.ofInt 2, c / Sc.ofInt 2, d / Sc.ofInt 2) else (a, b, c, d)
    let (a, b, c, d) :=
      if Sc.lt (ab d) K.rmin2 then (a * K.rminscal, b * K.rminscal, c * K.rminscal, d * K.rminscal)
      else if (Sc.lt (ab a) K.rmin && Sc.lt (ab b) K.rmax2 && Sc.lt (ab d) K.rmax2)
            || (Sc.lt (ab b) K.rmin && Sc.lt (ab a) K.rmax2 && Sc.lt (ab d) K.rmax2) then
        (a * K.rminscal, b * K.rminscal, c * K.rminscal, d * K.rminscal)
      else (a, b, c, d)
    let ratio := c / d
    let denom := (c * ratio) + d
    if Sc.gt (ab ratio) K.rmin then (((a * ratio) + b) / denom, ((b * ratio) - a) / denom)
    else (((c * (a / d)) + b) / denom, ((c * (b / d)) - a) / denom)
  else
    let (a, b, c, d) := if Sc.ge (ab c) K.rbig then (a / Sc.ofInt 2, b / Sc.ofInt 2, c / Sc.ofInt 2, d / Sc.ofInt 2) else (a, b, c, d)
    let (a, b, c, d) :=
      if Sc.lt (ab c) K.rmin2 then (a * K.rminscal, b * K.rminscal, c * K.rminscal, d * K.rminscal)
      else if (Sc.lt (ab a) K.rmin && Sc.lt (ab b) K.rmax2 && Sc.lt (ab c) K.rmax2)
            || (Sc.lt (ab b) K.rmin && Sc.lt (ab a) K.rmax2 && Sc.lt (ab c) K.rmax2) then
        (a * K.rminscal, b * K.rminscal, c * K.rminscal, d * K.rminscal)
      else (a, b, c, d)
    let ratio := d / c
    let denom := (d * ratio) + c
    if Sc.gt (ab ratio) K.rmin then (((b * ratio) + a) / denom, (b - (a * ratio)) / denom)
    else (((d * (b / c)) + a) / denom, (b - (d * (a / c))) / denom)

/-! ### complex vectors and matrices -/

abbrev CVec (α : Type) := Array (Cx α)

@[inline] def cvget (v : CVec α) (i : Nat) : Cx α := v.getD i cz
def cvzero (n : Nat) : CVec α := Array.replicate n cz
def cvofFn (n : Nat) (f : Nat → Cx α) : CVec α := Array.ofFn (n := n) (fun i => f i.val)

/-- column-major complex matrix (`Eigen::Matrix<std::complex<Real>, Dynamic, Dynamic>`) -/
structure CMat (α : Type) where
  rows : Nat
  cols : Nat
  d : Array (Cx α)

namespace CMat
@[inline] def get (m : CMat α) (i j : Nat) : Cx α := m.d.getD (i + j * m.rows) cz
@[inline] def set (m : CMat α) (i j : Nat) (x : Cx α) : CMat α :=
  if i < m.rows ∧ j < m.cols then { m with d := m.d.setIfInBounds (i + j * m.rows) x } else m
def zeros (r c : Nat) : CMat α := ⟨r, c, Array.replicate (r * c) cz⟩
def ofFn (r c : Nat) (f : Nat → Nat → Cx α) : CMat α :=
  ⟨r, c, Array.ofFn (n := r * c) (fun k => f (k.val % r) (k.val / r))⟩
def col (m : CMat α) (j : Nat) : CVec α := cvofFn m.rows (fun i => m.get i j)
def setCol (m : CMat α) (j : Nat) (v : CVec α) : CMat α :=
  (List.range m.rows).foldl (fun acc i => acc.set i j (cvget v i)) m
/-- `m.real()` -/
def re (m : CMat α) : Mat α := Mat.ofFn m.rows m.cols (fun i j => (m.get i j).1)
/-- `m.imag()` -/
def im (m : CMat α) : Mat α := Mat.ofFn m.rows m.cols (fun i j => (m.get i j).2)
/-- `r.template cast<std::complex<Real>>()` -/
def ofReal (r : Mat α) : CMat α := ofFn r.rows r.cols (fun i j => cofReal (r.get i j))
end CMat

/-- `0 + f 0 + f 1 + …` in complex arithmetic, accumulator starting at `(+0, +0)` (gemv kernels, explicit operator loop) -/
def csum0 (n : Nat) (f : Nat → Cx α) : Cx α := (List.range n).foldl (fun acc i => cadd acc (f i)) cz
/-- left-to-right complex sum starting from the first term (Eigen's scalar redux) -/
def csumFrom0 (n : Nat) (f : Nat → Cx α) : Cx α :=
  match n with
  | 0 => cz
  | k + 1 => (List.range k).foldl (fun acc i => cadd acc (f (i + 1))) (f 0)

/-- `x.dot(y)` = `Σ conj(xᵢ) yᵢ` (fact 5) -/
def cdot (x y : CVec α) : Cx α := csumFrom0 x.size (fun i => cmul (cconj (cvget x i)) (cvget y i))
/-- `x.squaredNorm()` -/
def csqNorm (x : CVec α) : α := sumFrom0 x.size (fun i => cabs2 (cvget x i))
/-- `x.norm()` (fact 4) -/
def cnorm (x : CVec α) : α := Sc.sqrt (csqNorm x)
/-- `x.cwiseAbs().maxCoeff()` -/
def cmaxAbs (x : CVec α) : α := x.foldl (fun m a => if Sc.lt m (cabs a) then cabs a else m) zero
/-- `V.leftCols(k).adjoint() * y` (fact 6) -/
def cadjoint (V : CMat α) (k : Nat) (y : CVec α) : CVec α :=
  cvofFn k (fun j => csum0 V.rows (fun i => cmul (cconj (V.get i j)) (cvget y i)))
/-- `f.noalias() -= V.leftCols(k) * g` (fact 7) -/
def csubMulVecK0 (f : CVec α) (V : CMat α) (k : Nat) (g : CVec α) : CVec α :=
  cvofFn f.size (fun i => cadd (cvget f i) (cmul (Sc.ofInt (-1), zero) (csum0 k (fun j => cmul (V.get i j) (cvget g j)))))
/-- `V.leftCols(k) * y` with a real `y` (facts 2, 8) -/
def cmulVecRealK0 (V : CMat α) (k : Nat) (y : Vec α) : CVec α :=
  cvofFn V.rows (fun i => csum0 k (fun j => cmulR (V.get i j) (vget y j)))

/-- the harness-defined operator class: `y_i = 0 + Σ_j a[i*n+j] * x_j` in `std::complex` arithmetic (fact 11) -/
def crowMajorOp (n : Nat) (a : Array (Cx α)) (x : CVec α) : CVec α :=
  cvofFn n (fun i => csum0 n (fun j => cmul (a.getD (i * n + j) cz) (cvget x j)))

/-- `ArnoldiOp<std::complex<Real>, OpType, IdentityBOp>` (+ the division constants of the platform) -/
structure COp (α : Type) where
  n : Nat
  A : CVec α → CVec α
  dk : DivK α

/-- data members of `Lanczos<std::complex<Real>, …>` (+ the caller's op counter and the two trace counters of the real model) -/
structure CState (α : Type) where
  n : Nat
  m : Nat
  k : Nat
  V : CMat α
  H : CMat α
  f : CVec α
  beta : α
  near0 : α
  eps : α
  ops : Nat
  nexpand : Nat
  nreorth : Nat

def CState.mk0 (n m : Nat) (near0 eps : α) : CState α :=
  { n := n, m := m, k := 0, V := CMat.zeros n m, H := CMat.zeros m m, f := cvzero n, beta := zero,
    near0 := near0, eps := eps, ops := 0, nexpand := 0, nreorth := 0 }

/-- `SimpleRandom<std::complex<Real>>(seed).random_vec(n)` (fact 9) -/
def crandomVec (n : Nat) (seed : Int) : CVec α :=
  let s0 := Gen.Rand.seed_norm seed
  let (_, acc) := (List.range n).foldl (fun (st : Int × Array (Cx α)) _ =>
      let (s1, r) := Gen.Rand.draw (α := α) st.1
      let (s2, i) := Gen.Rand.draw (α := α) s1
      (s2, st.2.push (r, i))) (s0, Array.mkEmpty n)
  acc

/-- inner `while (count < 3 && ortho_err >= eps * fnorm)` of `expand_basis` -/
def cexpandRefine (eps : α) (V : CMat α) (i : Nat) :
    Nat → Nat → CVec α → α → CVec α → α → CVec α × α × CVec α × α
  | 0, _, f, fnorm, Vf, oerr => (f, fnorm, Vf, oerr)
  | fuel + 1, count, f, fnorm, Vf, oerr =>
    if count < 3 && Sc.ge oerr (eps * fnorm) then
      let f := csubMulVecK0 f V i Vf
      let fnorm := cnorm f
      let Vf := cadjoint V i f
      let oerr := cmaxAbs Vf
      cexpandRefine eps V i fuel (count + 1) f fnorm Vf oerr
    else (f, fnorm, Vf, oerr)

/-- `Arnoldi::expand_basis(V.leftCols(i), seed, f, fnorm, op_counter)`; returns `(f, fnorm, ops, accepted)` -/
def cexpand_basis (op : COp α) (eps : α) (V : CMat α) (i : Nat) (seed : Int) (f0 : CVec α) (fnorm0 : α) (ops0 : Nat) :
    CVec α × α × Nat × Bool :=
  let rec go : Nat → Nat → CVec α → α → Nat → CVec α × α × Nat × Bool
    | 0, _, f, fnorm, ops => (f, fnorm, ops, false)
    | fuel + 1, iter, _f, _fnorm, ops =>
      let sd := seed + 123 * (iter : Int)
      let (f, ops) :=
        if iter == 0 then (op.A (crandomVec (α := α) op.n sd), ops + 1) else (crandomVec (α := α) op.n sd, ops)
      let Vf := cadjoint V i f
      let f := csubMulVecK0 f V i Vf
      let fnorm := cnorm f
      let Vf := cadjoint V i f
      let oerr := cmaxAbs Vf
      let (f, fnorm, _, oerr) := cexpandRefine eps V i 3 0 f fnorm Vf oerr
      if Sc.lt oerr (eps * fnorm) then (f, fnorm, ops, true)
      else go fuel (iter + 1) f fnorm ops
  go 5 0 f0 fnorm0 ops0

/-- `Arnoldi::init(v0, op_counter)`; `none` = throws `invalid_argument`.  Note `v /= vnorm`: complex ÷ complex (fact 3). -/
def cinit (op : COp α) (s : CState α) (v0 : CVec α) : Option (CState α) :=
  let v0norm := cnorm v0
  if Sc.lt v0norm s.near0 then none else
  let v := op.A v0
  let vnorm := cnorm v
  let v := v.map (fun z => cdiv op.dk z (cofReal vnorm))
  let w := op.A v
  let h00 := cdot v w
  let f := cvofFn s.n (fun i => csub (cvget w i) (cmul (cvget v i) h00))
  let H := (CMat.zeros s.m s.m).set 0 0 h00
  let V := (CMat.zeros s.n s.m).setCol 0 v
  let (f, beta) :=
    if Sc.lt (cmaxAbs f) (s.eps * cabs h00) then (cvzero s.n, zero) else (f, cnorm f)
  some { s with V := V, H := H, f := f, beta := beta, k := 1, ops := s.ops + 2 }

/-- `m_fac_H.rightCols(m - from_k).setZero(); m_fac_H.block(from_k, 0, m - from_k, from_k).setZero()` -/
def ckeepTopLeft (H : CMat α) (from_k : Nat) : CMat α :=
  CMat.ofFn H.rows H.cols (fun i j => if i < from_k ∧ j < from_k then H.get i j else cz)

/-- the re-orthogonalisation loop of `Lanczos::factorize_from` (complex corrections to `H(i-1,i)`, `H(i,i-1)`, `H(i,i)`) -/
def creorth (eps betaThresh : α) (V : CMat α) (i : Nat) (n : Nat) :
    Nat → Nat → CVec α → CMat α → α → CVec α → α → Nat → CVec α × CMat α × α × Nat
  | 0, _, f, H, beta, _, _, np => (f, H, beta, np)
  | fuel + 1, count, f, H, beta, Vf, oerr, np =>
    if count < 5 && Sc.gt oerr (eps * beta) then
      if Sc.lt beta betaThresh then (cvzero n, H, zero, np)
      else
        let f := csubMulVecK0 f V (i + 1) Vf
        let H := H.set (i - 1) i (cadd (H.get (i - 1) i) (cvget Vf (i - 1)))
        let H := H.set i (i - 1) (H.get (i - 1) i)
        let H := H.set i i (cadd (H.get i i) (cvget Vf i))
        let beta := cnorm f
        let Vf := cadjoint V (i + 1) f
        let oerr := cmaxAbs Vf
        creorth eps betaThresh V i n fuel (count + 1) f H beta Vf oerr (np + 1)
    else (f, H, beta, np)

/-- one pass of the `for (i = from_k; i <= to_m - 1; i++)` loop of `Lanczos::factorize_from`, `Scalar = std::complex` -/
def cfactorStep (op : COp α) (betaThresh epsSqrt : α) (s : CState α) (i : Nat) : CState α :=
  let restart0 := Sc.lt s.beta s.near0
  let (V, restart) :=
    if !restart0 then
      let v := s.f.map (fun z => cdivR z s.beta)
      let V := s.V.setCol i v
      if Sc.lt s.beta epsSqrt then
        let viv := cdot (V.col (i - 1)) v
        (V, Sc.gt (cabs viv) epsSqrt)
      else (V, false)
    else (s.V, true)
  let (V, f, beta, ops, nexp) :=
    if restart then
      let (f, b, ops, acc) := cexpand_basis op s.eps V i (2 * (i : Int)) s.f s.beta s.ops
      (V.setCol i (f.map (fun z => cdivR z b)), f, b, ops, if acc then s.nexpand + 1 else s.nexpand)
    else (V, s.f, s.beta, s.ops, s.nexpand)
  let _ := f
  let v := V.col i
  let hsub : Cx α := if restart then cz else cofReal beta
  let H := (s.H.set i (i - 1) hsub).set (i - 1) i hsub
  let w := op.A v
  let ops := ops + 1
  let w := if !restart then
      let c := V.col (i - 1)
      cvofFn s.n (fun j => csub (cvget w j) (cmul hsub (cvget c j)))
    else w
  let hii := cdot v w
  let H := H.set i i hii
  let f := cvofFn s.n (fun j => csub (cvget w j) (cmul hii (cvget v j)))
  let beta := cnorm f
  let Vf := cadjoint V (i + 1) f
  let oerr := cmaxAbs Vf
  let (f, H, beta, np) := creorth s.eps betaThresh V i s.n 5 0 f H beta Vf oerr s.nreorth
  { s with V := V, H := H, f := f, beta := beta, ops := ops, nexpand := nexp, nreorth := np }

/-- `Lanczos::factorize_from(from_k, to_m, op_counter)`; `none` = throws `invalid_argument` -/
def cfactorize_from (op : COp α) (s : CState α) (from_k to_m : Nat) : Option (CState α) :=
  if to_m ≤ from_k then some s
  else if from_k > s.k then none
  else
    let betaThresh := s.eps * Sc.sqrt (Sc.ofInt (s.n : Int))
    let epsSqrt := Sc.sqrt s.eps
    let s := { s with H := ckeepTopLeft s.H from_k }
    let s := (List.range (to_m - from_k)).foldl (fun st d => cfactorStep op betaThresh epsSqrt st (from_k + d)) s
    some { s with k := to_m }

/-- `Lanczos::compress_H(TridiagQR<Real>)`: the real `QᵀHQ` cast to complex (fact 10), `m_k--` -/
def ccompress_H (s : CState α) (QtHQ : Mat α) : CState α :=
  { s with H := CMat.ofReal QtHQ, k := s.k - 1 }

/-- `Arnoldi::compress_V(Q)` with a real `Q` (after `compress_H`) -/
def ccompress_V (s : CState α) (Q : Mat α) : CState α :=
  let k := s.k
  let Vs : CMat α := CMat.ofFn s.n (k + 1) (fun r i =>
    if i < k then
      let nnz := s.m - k + i + 1
      csum0 nnz (fun j => cmulR (s.V.get r j) (Q.get j i))
    else csum0 s.m (fun j => cmulR (s.V.get r j) (Q.get j k)))
  let V := CMat.ofFn s.n s.m (fun r c => if c < k + 1 then Vs.get r c else s.V.get r c)
  let q := Q.get (s.m - 1) (k - 1)
  let hk := s.H.get k (k - 1)
  let f := cvofFn s.n (fun r => cadd (cmulR (cvget s.f r) q) (cmul (V.get r k) hk))
  { s with V := V, f := f, beta := cnorm f }

/-! ### the kernel record of `HermEigsBase` for complex scalars -/

/-- the part of `HermEigsBase::restart` between the `k >= ncv` guard and `retrieve_ritzpair` -/
def restartFac (op : COp α) (ncv k : Nat) (ritzVal : List α) (s : CState α) : Orch.FacRes (CState α) :=
  let shifts := HermSolver.restartShifts ncv k ritzVal
  let (s1, Q) := shifts.foldl (fun (acc : CState α × Mat α) mu =>
      let decomp := QRModel.TridiagQR.compute acc.1.H.re mu
      let Q := decomp.apply_YQ acc.2
      (ccompress_H acc.1 decomp.matrix_QtHQ, Q)) (s, Mat.identity ncv)
  let s2 := ccompress_V s1 Q
  match cfactorize_from op s2 k ncv with
  | some s3 => ⟨s3, s3.ops - s.ops, none⟩
  | none => ⟨s2, 0, some (.invalidArgument "Arnoldi: from_k is larger than the current subspace dimension")⟩

/-- one entry of `num_converged` (all quantities real) -/
def convTest (eps23 : α) (tol : α) (s : CState α) (theta est : α) : Bool :=
  let a := Sc.abs theta
  let thresh := tol * (if Sc.lt a eps23 then eps23 else a)
  let resid := Sc.abs est * s.beta
  Sc.lt resid thresh

/-- `TridiagEigen<Real> decomp(m_fac.matrix_H().real())` as `retrieve_ritzpair` sees it -/
def eigH (ncv : Nat) (s : CState α) : Except Orch.Exn (List α × List α × List (Vec α)) :=
  let d : Vec α := vofFn ncv (fun i => (s.H.get i i).1)
  let e : Vec α := vofFn (ncv - 1) (fun i => (s.H.get (i + 1) i).1)
  match TridiagEigen.compute ncv d e with
  | .throw _ => .error (.runtimeError "TridiagEigen: eigen decomposition failed")
  | .ok r => .ok (r.evals.toList, (List.range ncv).map (fun j => r.evecs.get (ncv - 1) j), (List.range ncv).map (fun j => r.evecs.col j))

/-- `m_fac.matrix_V() * y`, `y` a real Ritz vector -/
def assemble (ncv : Nat) (s : CState α) (y : Vec α) : CVec α := cmulVecRealK0 s.V ncv y

/-- the kernels of `HermEigsSolver` with complex scalars: Ritz values / estimates / vectors real, start vector and eigenvectors
    complex -/
def hermCplxKern (op : COp α) (c : Orch.Cfg) (eps23 : α) :
    Orch.Kern (CState α) α α (Vec α) (CVec α) α (CVec α) :=
  { zeroρ := zero, zeroε := zero, zeroκ := vzero c.ncv,
    facInit := fun v0 s =>
      match cinit op { s with ops := 0 } v0 with
      | some s' => ⟨s', s'.ops, none⟩
      | none => ⟨s, 0, some (.invalidArgument "initial residual vector cannot be zero")⟩,
    factorize := fun a b s =>
      match cfactorize_from op s a b with
      | some s' => ⟨s', s'.ops - s.ops, none⟩
      | none => ⟨s, 0, some (.invalidArgument "Arnoldi: from_k is larger than the current subspace dimension")⟩,
    facDim := fun s => s.k,
    eig := eigH c.ncv,
    select := HermSolver.argsortIdx,
    convTest := convTest eps23,
    nevAdj := fun c nconv _ ritzEst =>
      (Gen.Restart.hermNevAdj (c.nev : Int) (c.ncv : Int) (HermSolver.listFn ritzEst) (nconv : Int)).toNat,
    restartFac := fun k ritzVal s => restartFac op c.ncv k ritzVal s,
    backTransform := fun l => l,
    sortIdx := HermSolver.hermSortIdx,
    assemble := assemble c.ncv }

end
end HermCplx
