/-
  Executable model of `Spectra::DoubleShiftQR<Scalar>` (include/Spectra/LinAlg/DoubleShiftQR.h), statement by statement.

  * `stable_norm3` and the 3-vector `stable_scaling` are the translated `Gen.Refl.*` (regenerated from the header on every run);
    `compute_reflector` writes through raw pointers into `m_ref_u`/`m_ref_nr` and is hand-modelled here (`computeReflector`),
    together with Eigen 3.4.0's `numext::hypot` (`eigenHypot`, finite arguments).
  * `Eigen::Block` arguments of `apply_PX`/`apply_XP` are modelled by their origin `(r0, c0)` and extent `(nrow, ncol)` inside
    `m_mat_H`; the raw pointer walks (`xptr += stride`, `X0[i]`, `X1[i]`, `X2[i]`) become the corresponding `(row, col)` accesses.
  * `m_ref_u` is uninitialised memory in the C++ until a reflector with `nr ≥ 2` is stored; the model starts from zeros and the
    code never reads a column whose `nr` is 1.

  Entry points: `DoubleShiftQR.compute`, `.matrix_QtHQ`, `.apply_QtY`, `.apply_YQ`; internals `update_block`, `computeReflector`,
  `apply_PX`, `apply_XP`, `apply_PX_vec` keep the C++ names.  Core Lean only.
-/
import SpectraVerif.Model.Lin
import SpectraVerif.Gen.Refl

namespace QRModel
open Lin

section
variable {α : Type} [Add α] [Sub α] [Mul α] [Div α] [Neg α] [Sc α]

/-- Eigen 3.4.0 `numext::hypot(x, y)` for finite arguments: `p = max(|x|,|y|)`, `0` if `p = 0`, else `p * sqrt(1 + (min/p)^2)` -/
def eigenHypot (x y : α) : α :=
  let ax := Sc.abs x; let ay := Sc.abs y
  let p := if Sc.lt ax ay then ay else ax
  if Sc.eq p zero then zero else
    let q := if Sc.lt ay ax then ay else ax
    let qp := q / p
    p * Sc.sqrt (one + qp * qp)

/-- `m_near_0 = TypeTraits<Scalar>::min() * Scalar(10)` -/
@[inline] def near0 : α := Sc.minPos * Sc.ofInt 10

/-- data members of `DoubleShiftQR` -/
structure DoubleShiftQR (α : Type) where
  n : Nat
  H : Mat α          -- m_mat_H
  s : α              -- m_shift_s
  t : α              -- m_shift_t
  u : Mat α          -- m_ref_u (3 x n)
  nr : Array Nat     -- m_ref_nr

namespace DoubleShiftQR

/-- `compute_reflector(x1, x2, x3, ind)`: returns the new `(m_ref_u, m_ref_nr)` -/
def computeReflector (u : Mat α) (nr : Array Nat) (x1 x2 x3 : α) (ind : Nat) : Mat α × Array Nat :=
  let x2m := Sc.abs x2; let x3m := Sc.abs x3
  if Sc.lt x2m near0 && Sc.lt x3m near0 then (u, nr.setIfInBounds ind 1)
  else
    let nr := nr.setIfInBounds ind (if Sc.lt x3m near0 then 2 else 3)
    let x_norm := if Sc.lt x3m near0 then eigenHypot x1 x2 else Gen.Refl.stable_norm3 x1 x2 x3
    let rho : α := if Sc.le x1 zero then one else Sc.ofInt (-1)      -- (x1 <= 0) - (x1 > 0)
    let x1_new := x1 - rho * x_norm
    let x1m := Sc.abs x1_new
    let w : α × α × α :=                                             -- (u[0], u[1], u[2]) after scaling
      if Sc.ge x1m x2m && Sc.ge x1m x3m then Gen.Refl.stable_scaling x1_new x2 x3
      else if Sc.ge x2m x1m && Sc.ge x2m x3m then
        let r := Gen.Refl.stable_scaling x2 x1_new x3; (r.2.1, r.1, r.2.2)
      else
        let r := Gen.Refl.stable_scaling x3 x1_new x2; (r.2.1, r.2.2, r.1)
    (((u.set 0 ind w.1).set 1 ind w.2.1).set 2 ind w.2.2, nr)

/-- `apply_PX(X, stride, u_ind)` with `X = H.block(r0, c0, nrow, ncol)` -/
def apply_PX (H u : Mat α) (nr : Array Nat) (r0 c0 nrow ncol ind : Nat) : Mat α :=
  let k := nr.getD ind 0
  if k == 1 then H else
  let u0 := u.get 0 ind; let u1 := u.get 1 ind
  let u0_2 := Sc.ofInt 2 * u0; let u1_2 := Sc.ofInt 2 * u1
  if k == 2 || nrow == 2 then
    (List.range ncol).foldl (fun H i =>
      let j := c0 + i
      let x0 := H.get r0 j; let x1 := H.get (r0 + 1) j
      let tmp := u0_2 * x0 + u1_2 * x1
      (H.set r0 j (x0 - tmp * u0)).set (r0 + 1) j (x1 - tmp * u1)) H
  else
    let u2 := u.get 2 ind; let u2_2 := Sc.ofInt 2 * u2
    (List.range ncol).foldl (fun H i =>
      let j := c0 + i
      let x0 := H.get r0 j; let x1 := H.get (r0 + 1) j; let x2 := H.get (r0 + 2) j
      let tmp := u0_2 * x0 + u1_2 * x1 + u2_2 * x2
      ((H.set r0 j (x0 - tmp * u0)).set (r0 + 1) j (x1 - tmp * u1)).set (r0 + 2) j (x2 - tmp * u2)) H

/-- `apply_XP(X, stride, u_ind)` with `X = Y.block(r0, c0, nrow, ncol)` -/
def apply_XP (H u : Mat α) (nr : Array Nat) (r0 c0 nrow ncol ind : Nat) : Mat α :=
  let k := nr.getD ind 0
  if k == 1 then H else
  let u0 := u.get 0 ind; let u1 := u.get 1 ind
  let u0_2 := Sc.ofInt 2 * u0; let u1_2 := Sc.ofInt 2 * u1
  if k == 2 || ncol == 2 then
    (List.range nrow).foldl (fun H i =>
      let r := r0 + i
      let x0 := H.get r c0; let x1 := H.get r (c0 + 1)
      let tmp := u0_2 * x0 + u1_2 * x1
      (H.set r c0 (x0 - tmp * u0)).set r (c0 + 1) (x1 - tmp * u1)) H
  else
    let u2 := u.get 2 ind; let u2_2 := Sc.ofInt 2 * u2
    (List.range nrow).foldl (fun H i =>
      let r := r0 + i
      let x0 := H.get r c0; let x1 := H.get r (c0 + 1); let x2 := H.get r (c0 + 2)
      let tmp := u0_2 * x0 + u1_2 * x1 + u2_2 * x2
      ((H.set r c0 (x0 - tmp * u0)).set r (c0 + 1) (x1 - tmp * u1)).set r (c0 + 2) (x2 - tmp * u2)) H

/-- `apply_PX(Scalar* x, u_ind)` with `x = y.data() + off` -/
def apply_PX_vec (u : Mat α) (nr : Array Nat) (y : Vec α) (off ind : Nat) : Vec α :=
  let k := nr.getD ind 0
  if k == 1 then y else
  let u0 := u.get 0 ind; let u1 := u.get 1 ind; let u2 := u.get 2 ind
  let nr2 := (k == 2)
  let x0 := vget y off; let x1 := vget y (off + 1)
  let dot2 := Sc.ofInt 2 * (x0 * u0 + x1 * u1 + (if nr2 then zero else vget y (off + 2) * u2))
  let y := vset (vset y off (x0 - dot2 * u0)) (off + 1) (x1 - dot2 * u1)
  if nr2 then y else vset y (off + 2) (vget y (off + 2) - dot2 * u2)

/-- first column of `X² - s X + t I` for an upper Hessenberg `X`, as `update_block` computes it from the leading entries:
    `m00 = x00 (x00 - s) + x01 x10 + t`, `m10 = x10 (x00 + x11 - s)`, `m20 = x21 x10` -/
@[inline] def firstCol0 (x00 x01 x10 s t : α) : α := x00 * (x00 - s) + x01 * x10 + t
@[inline] def firstCol1 (x00 x10 x11 s : α) : α := x10 * (x00 + x11 - s)
@[inline] def firstCol2 (x21 x10 : α) : α := x21 * x10

/-- the three matrices a block update threads through: `(m_mat_H, m_ref_u, m_ref_nr)` -/
abbrev St (α : Type) := Mat α × Mat α × Array Nat

/-- loop body `i = 1 … bsize-3` of `update_block` -/
def chaseStep (n il bsize : Nat) (st : St α) (i : Nat) : St α :=
  let H := st.1
  let ref := computeReflector st.2.1 st.2.2 (H.get (il + i) (il + i - 1)) (H.get (il + i + 1) (il + i - 1)) (H.get (il + i + 2) (il + i - 1)) (il + i)
  let H := apply_PX H ref.1 ref.2 (il + i) (il + i - 1) 3 (n - il - i + 1) (il + i)
  let H := apply_XP H ref.1 ref.2 0 (il + i) (il + min bsize (i + 4)) 3 (il + i)
  (H, ref.1, ref.2)

/-- `update_block(il, iu)` -/
def update_block (n : Nat) (s t : α) (st : St α) (il iu : Nat) : St α :=
  let H := st.1; let u := st.2.1; let nr := st.2.2
  let bsize := iu - il + 1
  if bsize == 1 then (H, u, nr.setIfInBounds il 1) else
  let x00 := H.get il il; let x01 := H.get il (il + 1)
  let x10 := H.get (il + 1) il; let x11 := H.get (il + 1) (il + 1)
  let m00 := firstCol0 x00 x01 x10 s t
  let m10 := firstCol1 x00 x10 x11 s
  if bsize == 2 then
    let ref := computeReflector u nr m00 m10 zero il
    let H := apply_PX H ref.1 ref.2 il il 2 (n - il) il
    let H := apply_XP H ref.1 ref.2 0 il (il + 2) 2 il
    (H, ref.1, ref.2.setIfInBounds (il + 1) 1)
  else
    let m20 := firstCol2 (H.get (il + 2) (il + 1)) (H.get (il + 1) il)
    let ref := computeReflector u nr m00 m10 m20 il
    let H := apply_PX H ref.1 ref.2 il il 3 (n - il) il
    let H := apply_XP H ref.1 ref.2 0 il (il + min bsize 4) 3 il
    let st := (List.range (bsize - 3)).foldl (fun st k => chaseStep n il bsize st (k + 1)) (H, ref.1, ref.2)
    let H := st.1
    let ref := computeReflector st.2.1 st.2.2 (H.get (iu - 1) (iu - 2)) (H.get iu (iu - 2)) zero (iu - 1)
    let H := apply_PX H ref.1 ref.2 (iu - 1) (iu - 2) 2 (n - iu + 2) (iu - 1)
    let H := apply_XP H ref.1 ref.2 0 (iu - 1) (il + bsize) 2 (iu - 1)
    (H, ref.1, ref.2.setIfInBounds iu 1)

/-- the deflation test of `compute`: `h <= eps_abs || h <= eps_rel * diag` -/
@[inline] def negligible (epsAbs : α) (h d0 d1 : α) : Bool :=
  Sc.le (Sc.abs h) epsAbs || Sc.le (Sc.abs h) (Sc.eps * (Sc.abs d0 + Sc.abs d1))

/-- first pass of `compute`: deflate, record block starts, zero below the subdiagonal.  Returns `(H, zero_ind)` (without the
    leading 0 and the trailing n) -/
def splitStep (n : Nat) (epsAbs : α) (st : Mat α × Array Nat) (i : Nat) : Mat α × Array Nat :=
  let H := st.1
  let defl := negligible epsAbs (H.get (i + 1) i) (H.get i i) (H.get (i + 1) (i + 1))
  let H := if defl then H.set (i + 1) i zero else H
  let zi := if defl then st.2.push (i + 1) else st.2
  let H := (List.range (n - i - 2)).foldl (fun H k => H.set (i + 2 + k) i zero) H
  (H, zi)

/-- `compute(mat, s, t)` -/
def compute (mat : Mat α) (s t : α) : DoubleShiftQR α :=
  let n := mat.rows
  let H0 : Mat α := Mat.ofFn n n (fun i j => mat.get i j)
  let epsAbs : α := near0 * (Sc.ofInt (n : Int) / Sc.eps)
  let sp := (List.range (n - 1)).foldl (splitStep n epsAbs) (H0, (#[0] : Array Nat))
  let zi := sp.2.push n
  let st0 : St α := (sp.1, Mat.zeros 3 n, Array.replicate n 0)
  let st := (List.range (zi.size - 1)).foldl (fun st i => update_block n s t st (zi.getD i 0) (zi.getD (i + 1) 0 - 1)) st0
  let H := (List.range (n - 1)).foldl (fun (H : Mat α) i =>
    if negligible epsAbs (H.get (i + 1) i) (H.get i i) (H.get (i + 1) (i + 1)) then H.set (i + 1) i zero else H) st.1
  ⟨n, H, s, t, st.2.1, st.2.2⟩

/-- `old.compute(mat, s, t)` on an object that already holds a factorization: `m_mat_H` is resized and assigned as a whole;
    `m_ref_u.resize(3, n)` and `m_ref_nr.resize(n)` KEEP their contents when the size is unchanged (Eigen reallocates only when
    the number of coefficients changes; then the contents are unspecified: `junk`, `junkNr`) and are NOT cleared: `update_block`
    writes `nr[il..iu]` for every block, and column `i` of `m_ref_u` only when `nr[i] ≥ 2`.  Hence columns of `m_ref_u` with
    `nr = 1` hold stale reflectors of the earlier factorization; no method reads them (`c08_dsqr_recompute`). -/
def recompute (old : DoubleShiftQR α) (junk : α) (junkNr : Nat) (mat : Mat α) (s t : α) : DoubleShiftQR α :=
  let n := mat.rows
  let H0 : Mat α := Mat.ofFn n n (fun i j => mat.get i j)
  let epsAbs : α := near0 * (Sc.ofInt (n : Int) / Sc.eps)
  let sp := (List.range (n - 1)).foldl (splitStep n epsAbs) (H0, (#[0] : Array Nat))
  let zi := sp.2.push n
  let u0 : Mat α := if old.u.rows = 3 ∧ old.u.cols = n ∧ old.u.d.size = 3 * n then old.u else ⟨3, n, Array.replicate (3 * n) junk⟩
  let nr0 : Array Nat := if old.nr.size = n then old.nr else Array.replicate n junkNr
  let st0 : St α := (sp.1, u0, nr0)
  let st := (List.range (zi.size - 1)).foldl (fun st i => update_block n s t st (zi.getD i 0) (zi.getD (i + 1) 0 - 1)) st0
  let H := (List.range (n - 1)).foldl (fun (H : Mat α) i =>
    if negligible epsAbs (H.get (i + 1) i) (H.get i i) (H.get (i + 1) (i + 1)) then H.set (i + 1) i zero else H) st.1
  ⟨n, H, s, t, st.2.1, st.2.2⟩

/-- the reflector store as the harness prints it: columns with `nr = 1` (never written, never read) cleared -/
def uLive (q : DoubleShiftQR α) : Mat α :=
  Mat.ofFn 3 q.n (fun i j => if q.nr.getD j 0 == 1 then zero else q.u.get i j)

def matrix_QtHQ (q : DoubleShiftQR α) : Mat α := q.H

/-- `apply_QtY(Vector&)` -/
def apply_QtY (q : DoubleShiftQR α) (y : Vec α) : Vec α :=
  (List.range (q.n - 1)).foldl (fun y i => apply_PX_vec q.u q.nr y i i) y

/-- `apply_YQ(GenericMatrix)` -/
def apply_YQ (q : DoubleShiftQR α) (Y : Mat α) : Mat α :=
  let nrow := Y.rows
  let Y := (List.range (q.n - 2)).foldl (fun Y i => apply_XP Y q.u q.nr 0 i nrow 3 i) Y
  apply_XP Y q.u q.nr 0 (q.n - 2) nrow 2 (q.n - 2)

end DoubleShiftQR
end

end QRModel
