/-
  The fully numeric instance of the orchestration model for the GENERAL (nonsymmetric) family: `GenEigsSolver`,
  `GenEigsRealShiftSolver`, `GenEigsComplexShiftSolver` (GenEigsBase.h and the three derived headers), real scalar, complex Ritz data
  as pairs over the real scalar (`std::complex<Scalar>` = `α × α`).

  `genKern` is an `Orch.Kern` built from the executable kernel models
      `Arnoldi.init / factorize_from / compress_H / compress_V`  (Model/Arnoldi)
      `QRModel.UpperHessenbergQR`  (single real shift)            (Model/HessQR)
      `QRModel.DoubleShiftQR`      (conjugate pair of shifts)     (Model/DoubleShiftQR)
      `HessEigen.compute / eigenvalues / eigenvectors`            (Model/HessEigen, Model/HessSchur)
  and from the source-translated decision kernels `Gen.Sort.keyCplx / gen_select_rule / gen_sort_rule`,
  `Gen.Restart.genNevAdj / is_complex / is_conj`, `Gen.Rand.*`.

  * `Orch.compute (genKern …)` is an executable model of `GenEigsBase::compute` for `GenEigsSolver` (`back = id`) and for
    `GenEigsRealShiftSolver` (`back = realShiftBack sigma`: `Scalar(1) / nu + sigma` as libstdc++/libgcc evaluate it).
  * `GenEigsComplexShiftSolver::sort_ritzpair` needs the factorization, the Ritz vectors and the user's operator at a probe shift,
    which `Orch.Kern.backTransform : List ρ → List ρ` cannot see; `computeWith` is `Orch.compute` with one extra state-dependent
    step `pre` in front of `Orch.sortRitz` (`computeWith_id`: with `pre = id` it IS `Orch.compute`), and `csBack` is that step:
    probe shift from `SimpleRandom(0)`, the two roots of the quadratic, root selection by the probe residuals, and the
    conjugate-pair loop `pairLoop` (`if (nu.imag() != 0) { m_ritz_val[i + 1] = conj(lambda); i++; }`: the pair test is on the
    transformed Ritz value, repair of finding F14).  The operator at the probe shift enters as an explicit
    function (`probe`): the harness supplies `Re[(A - r I)^{-1}]` for every shift the solver installs.
  * theorem-facing pieces are separate pure functions: `shiftPasses` (single/double-shift schedule of `restart`), `pairLoop`,
    `csRoots`, `realShiftBack`.

  libstdc++ / libgcc / glibc arithmetic reproduced here (validated bit for bit by the `gen` and `ckern` correspondence streams):
  `std::norm(z) = re² + im²`; `T / complex = __divdc3(T, 0, c, d)` (`HessEigen.cdiv`); `T - complex = (-re + T, -im)`;
  `complex * complex = (ac - bd, ad + bc)` (`__muldc3`, finite path); `T * complex` scales both parts;
  `std::sqrt(complex)` = glibc `csqrt` (2.36; the rescaling branches for |z| > DBL_MAX/4 and |z| < 2 DBL_MIN are not modelled).
  Core Lean only.
-/
import SpectraVerif.Model.Orch
import SpectraVerif.Model.Arnoldi
import SpectraVerif.Model.HessQR
import SpectraVerif.Model.DoubleShiftQR
import SpectraVerif.Model.HessEigen
import SpectraVerif.Gen.Sort
import SpectraVerif.Gen.Restart
import SpectraVerif.Gen.Rand
import SpectraVerif.Prelude.Sort

namespace GenSolver
open Lin

/-! ## pieces that do not depend on the scalar -/

/-- the `for (i = 0; i < nev; i++)` loop of `GenEigsComplexShiftSolver::sort_ritzpair` over the slots of `m_ritz_val`:
    `pick i nu` is the eigenvalue `lambdaj` chosen for slot `i` from the transformed value `nu = m_ritz_val[i]` (root selection),
    `isPair nu` is the pair test `nu.imag() != Scalar(0)` — decided on the TRANSFORMED value (repair of finding F14; before it the
    test was `abs(imag(lambdaj)) > eps` on the selected root) —, `cj` complex conjugation, `re` the projection
    `Complex(real(lambda), 0)`.  First argument: fuel (`nev` suffices: the index grows by at least one per pass). -/
def pairLoop {ρ : Type} (pick : Nat → ρ → ρ) (isPair : ρ → Bool) (cj re : ρ → ρ) (nev : Nat) (dflt : ρ) :
    Nat → Nat → List ρ → List ρ
  | 0, _, v => v
  | fuel + 1, i, v =>
    if i < nev then
      let lam := pick i (v.getD i dflt)
      if isPair (v.getD i dflt) then pairLoop pick isPair cj re nev dflt fuel (i + 2) ((v.set i lam).set (i + 1) (cj lam))
      else pairLoop pick isPair cj re nev dflt fuel (i + 1) (v.set i (re lam))
    else v

/-- the slots the loop body is executed for (the loop index at every evaluation of the body); it no longer depends on the root
    selection -/
def pairVisits {ρ : Type} (isPair : ρ → Bool) (nev : Nat) (dflt : ρ) (v : List ρ) : Nat → Nat → List Nat
  | 0, _ => []
  | fuel + 1, i =>
    if i < nev then
      if isPair (v.getD i dflt) then i :: pairVisits isPair nev dflt v fuel (i + 2)
      else i :: pairVisits isPair nev dflt v fuel (i + 1)
    else []

/-- `Orch.compute` with one extra, state-dependent step `pre` between the flag refresh and `sort_ritzpair` (the prologue of a
    derived class's `sort_ritzpair` override that needs more than the Ritz values).  Statement for statement the text of `Orch.compute`. -/
def computeWith {φ ρ ε κ β τ ω : Type} (K : Orch.Kern φ ρ ε κ β τ ω) (c : Orch.Cfg) (pre : Orch.St φ ρ ε κ → Orch.St φ ρ ε κ)
    (sel : Int) (maxit : Nat) (tol : τ) (sorting : Int) (s : Orch.St φ ρ ε κ) : Orch.CompRes φ ρ ε κ :=
  let r := K.factorize (max 1 (K.facDim s.fac)) c.ncv s.fac
  let s1 := { s with fac := r.fac, nmatop := s.nmatop + r.ops }
  match r.exn with
  | some e => ⟨s1, .error e, 0, 0⟩
  | none =>
    match Orch.retrieve K c sel s1 with
    | (s2, some e) => ⟨s2, .error e, 0, 0⟩
    | (s2, none) =>
      let L := Orch.loop K c sel tol maxit 0 0 0 s2
      match L.exn with
      | some e => ⟨L.st, .error e, L.i, L.restarts⟩
      | none =>
        let F := Orch.refresh K c tol maxit L
        match Orch.sortRitz K c sorting (pre F.1) with
        | (s4, some e) => ⟨s4, .error e, L.i, L.restarts⟩
        | (s4, none) =>
          ⟨{ s4 with niter := s4.niter + (L.i + 1),
                     info := if F.2 ≥ c.nev then .successful else .notConverging },
            .ok (min c.nev F.2), L.i, L.restarts⟩

theorem computeWith_id {φ ρ ε κ β τ ω : Type} (K : Orch.Kern φ ρ ε κ β τ ω) (c : Orch.Cfg)
    (sel : Int) (maxit : Nat) (tol : τ) (sorting : Int) (s : Orch.St φ ρ ε κ) :
    computeWith K c id sel maxit tol sorting s = Orch.compute K c sel maxit tol sorting s := rfl

section
variable {α : Type} [Add α] [Sub α] [Mul α] [Div α] [Neg α] [Sc α]

abbrev Cx (α : Type) := α × α

@[inline] def czero : Cx α := (zero, zero)
@[inline] def two : α := Sc.ofInt 2
@[inline] def half : α := Sc.lit 5 (-1)

/-- array-as-function view used by the translated kernels -/
def clistFn (l : List (Cx α)) : Int → Cx α := fun i => if i < 0 then czero else l.getD i.toNat czero

/-! ## complex arithmetic as libstdc++ / libgcc / glibc perform it -/

def cadd (z w : Cx α) : Cx α := (z.1 + w.1, z.2 + w.2)
def csub (z w : Cx α) : Cx α := (z.1 - w.1, z.2 - w.2)
/-- `__muldc3` (finite path) -/
def cmul (z w : Cx α) : Cx α := (z.1 * w.1 - z.2 * w.2, z.1 * w.2 + z.2 * w.1)
/-- `complex / complex` -/
def cdivc (z w : Cx α) : Cx α := HessEigen.cdiv z.1 z.2 w.1 w.2
/-- `T / complex`: `complex<T> r = x; r /= y` -/
def rdivc (x : α) (w : Cx α) : Cx α := HessEigen.cdiv x zero w.1 w.2
/-- `T * complex` -/
def rmulc (x : α) (w : Cx α) : Cx α := (w.1 * x, w.2 * x)
/-- `T + complex` / `complex + T` -/
def raddc (x : α) (w : Cx α) : Cx α := (w.1 + x, w.2)
/-- `T - complex`: `complex<T> r = -y; r += x` -/
def rsubc (x : α) (w : Cx α) : Cx α := (-w.1 + x, -w.2)

/-- IEEE sign bit of a non-NaN value (distinguishes `-0`: `1 / -0 = -inf`) -/
def signbit (x : α) : Bool := Sc.lt x zero || (Sc.eq x zero && Sc.lt (one / x) zero)
def copysign (v s : α) : α := if signbit s then -(Sc.abs v) else Sc.abs v

/-- glibc 2.36 `csqrt` (math/s_csqrt_template.c), finite arguments, without the rescaling branches -/
def csqrt (z : Cx α) : Cx α :=
  let x := z.1; let y := z.2
  if Sc.eq y zero then
    if Sc.lt x zero then (zero, copysign (Sc.sqrt (-x)) y)
    else (Sc.abs (Sc.sqrt x), copysign zero y)
  else if Sc.eq x zero then
    let r : α := if Sc.ge (Sc.abs y) (two * Sc.minPos) then Sc.sqrt (half * Sc.abs y) else half * Sc.sqrt (two * Sc.abs y)
    (r, copysign r y)
  else
    let d := Sc.cabs (x, y)
    if Sc.gt x zero then
      let r := Sc.sqrt (half * (d + x))
      let s := half * (y / r)
      (r, copysign s y)
    else
      let s := Sc.sqrt (half * (d - x))
      let r := Sc.abs (half * (y / s))
      (r, copysign s y)

/-! ## sorting (the `SortEigenvalue<Complex, Rule>` switches) -/

/-- `SortEigenvalue<Complex, rule>(vals, n)`: `std::sort` of the indices by `key(i) < key(j)` (stable insertion sort model: exact
    for at most 16 elements in libstdc++) -/
def sortEigIdx (rule : Int) (vals : List (Cx α)) (n : Nat) : List Nat :=
  let f := clistFn vals
  (sortIdxList (fun i j => Sc.lt (Gen.Sort.keyCplx rule (f i)) (Gen.Sort.keyCplx rule (f j))) (n : Int)).map Int.toNat

/-- the switch of `retrieve_ritzpair` -/
def selectIdx (sel : Int) (vals : List (Cx α)) (n : Nat) : Except Orch.Exn (List Nat) :=
  let r := Gen.Sort.gen_select_rule sel
  if r = -1 then .error (.invalidArgument "unsupported selection rule") else .ok (sortEigIdx r vals n)

/-- the switch of `sort_ritzpair` -/
def sortRuleIdx (rule : Int) (vals : List (Cx α)) (n : Nat) : Except Orch.Exn (List Nat) :=
  let r := Gen.Sort.gen_sort_rule rule
  if r = -1 then .error (.invalidArgument "unsupported sorting rule") else .ok (sortEigIdx r vals n)

/-! ## restart -/

/-- the passes of the shift loop of `GenEigsBase::restart`: `(i, double)` for every execution of the loop body, `double` = the
    conjugate-pair branch (which ends with the extra `i++`), taken when
    `is_complex(m_ritz_val[i]) && i + 1 < m_ncv && is_conj(m_ritz_val[i], m_ritz_val[i + 1])` (the bound test is the repair of
    finding F9, /repo commit c0124c3: an unpaired complex value in the last slot goes to the single-shift branch).
    First argument: fuel (`ncv - k` suffices). -/
def shiftPasses (ritz : Int → Cx α) (ncv : Nat) : Nat → Nat → List (Nat × Bool)
  | 0, _ => []
  | fuel + 1, i =>
    if i < ncv then
      if Gen.Restart.is_complex (ritz i) && decide (i + 1 < ncv) && Gen.Restart.is_conj (ritz i) (ritz ((i : Int) + 1)) then
        (i, true) :: shiftPasses ritz ncv fuel (i + 2)
      else (i, false) :: shiftPasses ritz ncv fuel (i + 1)
    else []

/-- the indices of `m_ritz_val` a pass evaluates: `i`, and `i + 1` when the first two conjuncts of the branch condition hold -/
def passReads (ritz : Int → Cx α) (ncv : Nat) (p : Nat × Bool) : List Nat :=
  if Gen.Restart.is_complex (ritz p.1) && decide (p.1 + 1 < ncv) then [p.1, p.1 + 1] else [p.1]

/-- one pass: QR step with the shift(s), `Q ← Q Qi`, `H ← Qi' H Qi`, `m_k -= 1 resp. 2` -/
def shiftStep (ritz : Int → Cx α) (acc : Arnoldi.State α × Mat α) (p : Nat × Bool) : Arnoldi.State α × Mat α :=
  let z := ritz p.1
  if p.2 then
    let s : α := two * z.1
    let t : α := Sc.cnorm z
    let d := QRModel.DoubleShiftQR.compute acc.1.H s t
    (Arnoldi.compress_H acc.1 d.matrix_QtHQ 2, d.apply_YQ acc.2)
  else
    let d := QRModel.UpperHessenbergQR.compute acc.1.H z.1
    (Arnoldi.compress_H acc.1 d.matrix_QtHQ 1, d.apply_YQ acc.2)

/-- the part of `GenEigsBase::restart` between the `k >= ncv` guard and `retrieve_ritzpair` -/
def restartFac (op : Arnoldi.Op α) (ncv k : Nat) (ritzVal : List (Cx α)) (s : Arnoldi.State α) : Orch.FacRes (Arnoldi.State α) :=
  let ritz := clistFn ritzVal
  let passes := shiftPasses ritz ncv (ncv - k) k
  let (s1, Q) := passes.foldl (shiftStep ritz) (s, Mat.identity ncv)
  let s2 := Arnoldi.compress_V op s1 Q
  match Arnoldi.factorize_from op s2 k ncv with
  | some s3 => ⟨s3, s3.ops - s.ops, none⟩
  | none => ⟨s2, 0, some (.invalidArgument "Arnoldi: from_k is larger than the current subspace dimension")⟩

/-! ## the other kernels -/

/-- one entry of `num_converged`: `abs(est) * f_norm < tol * max(abs(theta), eps23)` with complex `abs` -/
def convTest (eps23 : α) (tol : α) (s : Arnoldi.State α) (theta est : Cx α) : Bool :=
  let a := Sc.cabs theta
  let thresh := tol * (if Sc.lt a eps23 then eps23 else a)
  let resid := Sc.cabs est * s.beta
  Sc.lt resid thresh

/-- `UpperHessenbergEigen<Scalar> decomp(m_fac.matrix_H())`: eigenvalues, last row of the eigenvector matrix, eigenvector columns -/
def eigH (ncv : Nat) (s : Arnoldi.State α) : Except Orch.Exn (List (Cx α) × List (Cx α) × List (Vec (Cx α))) :=
  match HessEigen.compute ncv s.H with
  | .throw _ => .error (.runtimeError "UpperHessenbergSchur: Schur decomposition failed")
  | .ok r =>
    let cols := HessEigen.eigenvectors r
    .ok ((HessEigen.eigenvalues r).toList, cols.map (fun col => col.getD (ncv - 1) czero), cols)

/-- `m_fac.matrix_V() * y` for a complex coefficient column (real and imaginary parts separately) -/
def assemble (ncv : Nat) (s : Arnoldi.State α) (y : Vec (Cx α)) : Vec (Cx α) :=
  let re := Arnoldi.mulVecK0 s.V ncv (y.map (·.1))
  let im := Arnoldi.mulVecK0 s.V ncv (y.map (·.2))
  Array.ofFn (n := re.size) (fun i => (vget re i.val, vget im i.val))

/-- `GenEigsRealShiftSolver::sort_ritzpair`: `lambda = Scalar(1) / nu + sigma` -/
def realShiftBack (sigma : α) (nu : Cx α) : Cx α := raddc sigma (rdivc one nu)

/-- the kernels of the general family; `back` is the derived class's transformation of each of the first `nev` Ritz values
    (`id` for `GenEigsSolver`, `realShiftBack sigma` for `GenEigsRealShiftSolver`, `id` for `GenEigsComplexShiftSolver`, whose
    transformation is state-dependent: `csBack` through `computeWith`) -/
def genKern (op : Arnoldi.Op α) (c : Orch.Cfg) (eps23 : α) (back : Cx α → Cx α) :
    Orch.Kern (Arnoldi.State α) (Cx α) (Cx α) (Vec (Cx α)) (Vec α) α (Vec (Cx α)) :=
  { zeroρ := czero, zeroε := czero, zeroκ := Array.replicate c.ncv czero,
    facInit := fun v0 s =>
      match Arnoldi.init op { s with ops := 0 } v0 with
      | some s' => ⟨s', s'.ops, none⟩
      | none => ⟨s, 0, some (.invalidArgument "initial residual vector cannot be zero")⟩,
    factorize := fun a b s =>
      match Arnoldi.factorize_from op s a b with
      | some s' => ⟨s', s'.ops - s.ops, none⟩
      | none => ⟨s, 0, some (.invalidArgument "Arnoldi: from_k is larger than the current subspace dimension")⟩,
    facDim := fun s => s.k,
    eig := eigH c.ncv,
    select := selectIdx,
    convTest := convTest eps23,
    nevAdj := fun c nconv ritzVal ritzEst =>
      (Gen.Restart.genNevAdj (c.nev : Int) (c.ncv : Int) (clistFn ritzEst) (clistFn ritzVal) (nconv : Int)).toNat,
    restartFac := fun k ritzVal s => restartFac op c.ncv k ritzVal s,
    backTransform := fun l => l.map back,
    sortIdx := sortRuleIdx,
    assemble := assemble c.ncv }

/-! ## `GenEigsComplexShiftSolver::sort_ritzpair` -/

/-- `SimpleRandom<Scalar> rng(0); shiftr = rng.random() * sigmar + rng.random()` (first call first) -/
def probeShift (sigmar : α) : α :=
  let s0 := Gen.Rand.seed_norm 0
  let (s1, r1) := Gen.Rand.draw (α := α) s0
  let (_, r2) := Gen.Rand.draw (α := α) s1
  r1 * sigmar + r2

/-- the two candidates for one transformed value `nu` (repair 0117f45 of the cancellation at `nu ≈ 0`, finding C02-resigma-cancellation):
    `sqrt_disc = sqrt(1 - 4 σi² nu²)`, `root1 = root_part1 + root_part2 = (σr + 0.5/nu) + 0.5 * sqrt_disc / nu` as before, and
    `root2 = m_sigmar + (Scalar(2) * m_sigmai * m_sigmai) * nu / (Scalar(1) + sqrt_disc)` (product of the roots = σi²; equal to
    `root_part1 - root_part2` over a field, `Properties/C02.c02_quadratic_root2`; exactly `σr` for `nu = 0`), with the C++ association
    `σr + (((2 σi) σi) * nu) / (1 + sqrt_disc)` and ONE square-root value shared by both roots -/
def csRoots (sigmar sigmai : α) (nu : Cx α) : Cx α × Cx α :=
  let c : α := ((Sc.ofInt 4 : α) * sigmai) * sigmai
  let sqrtDisc := csqrt (rsubc one (rmulc c (cmul nu nu)))
  let part1 := raddc sigmar (rdivc half nu)
  let part2 := cdivc (rmulc half sqrtDisc) nu
  let c2 : α := ((Sc.ofInt 2 : α) * sigmai) * sigmai
  (cadd part1 part2, raddc sigmar (cdivc (rmulc c2 nu) (raddc one sqrtDisc)))

/-- `err = Σ_k norm(OPv_k - v_k / (root - shift))` -/
def probeErr (n : Nat) (vr vi opr opi : Vec α) (root : Cx α) (shiftr : α) : α :=
  let den := csub root (shiftr, zero)
  (List.range n).foldl (fun err k =>
    let rhs := cdivc (vget vr k, vget vi k) den
    err + Sc.cnorm (csub (vget opr k, vget opi k) rhs)) zero

/-- the eigenvalue chosen for slot `i`: both roots are tested against the operator at the real probe shift -/
def csPick (probe : Vec α → Vec α) (n ncv : Nat) (sigmar sigmai shiftr : α) (V : Mat α) (ritzVec : List (Vec (Cx α)))
    (i : Nat) (nu : Cx α) : Cx α :=
  let y := ritzVec.getD i #[]
  let vr := Arnoldi.mulVecK0 V ncv (y.map (·.1))
  let vi := Arnoldi.mulVecK0 V ncv (y.map (·.2))
  let opr := probe vr
  let opi := probe vi
  let roots := csRoots sigmar sigmai nu
  let err1 := probeErr n vr vi opr opi roots.1 shiftr
  let err2 := probeErr n vr vi opr opi roots.2 shiftr
  if Sc.lt err1 err2 then roots.1 else roots.2

/-- the new `m_ritz_val` after the prologue of `GenEigsComplexShiftSolver::sort_ritzpair` -/
def csBack (probe : Vec α → Vec α) (c : Orch.Cfg) (sigmar sigmai : α)
    (s : Orch.St (Arnoldi.State α) (Cx α) (Cx α) (Vec (Cx α))) : List (Cx α) :=
  let shiftr := probeShift sigmar
  pairLoop (csPick probe c.n c.ncv sigmar sigmai shiftr s.fac.V s.ritzVec)
    (fun nu => Sc.ne nu.2 zero) Sc.conj (fun lam => (lam.1, zero)) c.nev czero c.nev 0 s.ritzVal

/-- number of operator applications at the probe shift made by the prologue (two per visited slot; not counted in `m_nmatop`) -/
def csProbeCount (c : Orch.Cfg) (s : Orch.St (Arnoldi.State α) (Cx α) (Cx α) (Vec (Cx α))) : Nat :=
  2 * (pairVisits (fun nu : Cx α => Sc.ne nu.2 zero) c.nev czero s.ritzVal c.nev 0).length

/-- `GenEigsComplexShiftSolver::compute` -/
def computeCS (op : Arnoldi.Op α) (probe : Vec α → Vec α) (c : Orch.Cfg) (eps23 sigmar sigmai : α)
    (sel : Int) (maxit : Nat) (tol : α) (sorting : Int) (s : Orch.St (Arnoldi.State α) (Cx α) (Cx α) (Vec (Cx α))) :
    Orch.CompRes (Arnoldi.State α) (Cx α) (Cx α) (Vec (Cx α)) :=
  computeWith (genKern op c eps23 id) c (fun st => { st with ritzVal := csBack probe c sigmar sigmai st }) sel maxit tol sorting s

end
end GenSolver
