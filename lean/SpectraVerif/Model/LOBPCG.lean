/-
  Bookkeeping model of `Spectra::LOBPCGSolver` (include/Spectra/contrib/LOBPCGSolver.h), statement by statement:
  the blocks X, AX, BX, R (= m_residuals), AR, BR, D (= directions), AD, BD, the Rayleigh-Ritz coefficient blocks, the update
  `X <- X*C_X + (R*C_R + D*C_D)` (same combination for AX, BX), the residual formula, removal of converged columns, the
  convergence count, `m_info`, and the four accessors.

  Generic in
    α   the scalar (a commutative ring in the theorems, `Float` in the driver)
    V   a column (an element of a module over α in the theorems, `Col Float` = an array in the driver);
        a block (an n x m sparse matrix of the C++) is the `List V` of its columns, a coefficient matrix is the list of its
        columns, each a `List α`;
  and in a record `Kern` of numeric kernels: the operators `A*`, `B*` (identity if no B was set), `T*` (preconditioner, identity
  if none), the inner solvers (`orthogonalizeInPlace` = SimplicialLDLT based B-orthonormalisation, the dense `EigenSolver` of
  the first projection, the Rayleigh-Ritz generalized eigenproblem solved with Spectra's own `SymGEigsSolver`), the column-norm
  test and `std::less`.  The theorems of C17 quantify over ALL kernels (only `A*`, `B*` are assumed linear); the driver plugs
  in the kernel outputs recorded from the real run.

  `setConstraints` (the Y block / BDCSVD) is outside C17's quantifier and is not modelled (flag_with_constraints = false).
  Core Lean only.
-/
import SpectraVerif.Prelude.Sc
import SpectraVerif.Model.Lin
import SpectraVerif.Gen.Guard

namespace Lobpcg

/-- `Eigen::ComputationInfo` in declaration order (Success = 0, NumericalIssue = 1, NoConvergence = 2, InvalidInput = 3) -/
inductive EInfo where
  | success | numericalIssue | noConvergence | invalidInput
  deriving DecidableEq, Repr, Inhabited

def EInfo.code : EInfo → Nat
  | .success => 0 | .numericalIssue => 1 | .noConvergence => 2 | .invalidInput => 3

/-- which call of `orthogonalizeInPlace` -/
inductive Stage where
  | initX | resid (iter : Nat) | dir (iter : Nat)
  deriving DecidableEq, Repr

/-- how `compute()` left the iteration loop -/
inductive Exit where
  /-- `BlockSize == 0` at the top of iteration `iter`: `m_info = Success; break` -/
  | converged (iter : Nat)
  /-- `orthogonalizeInPlace(m_residuals, …) != Success`: `break` (m_info was set to the LDLT's info inside) -/
  | orthRFailed (iter : Nat)
  /-- `orthogonalizeInPlace(directions, …) != Success`: `break` -/
  | orthDFailed (iter : Nat)
  /-- `DenseCholesky<Scalar> Bop(gramB)` did not report `Successful` (the Gram matrix of `[X R D]` is not numerically positive
      definite): `m_info = NumericalIssue; break` -/
  | gramFailed (iter : Nat)
  /-- inner `SymGEigsSolver` did not report `Successful`: `m_info = NoConvergence; break` -/
  | rrFailed (iter : Nat)
  /-- an exception left the inner solver (a numerical throw; the constructor guard `nev < ncv <= n` always holds now) and hence `compute()` -/
  | rrThrew (iter : Nat)
  /-- `iter_num` reached `max_iter` (also `max_iter = 0` after a failed initial phase) -/
  | exhausted
  deriving DecidableEq, Repr

/-- data members that are not constants (`A`, `m_B`, `m_preconditioner`, the flags are inside the kernels) -/
structure St (α V : Type) where
  X : List V
  resid : List V            -- m_residuals
  evecs : List (List α)     -- m_evectors, by columns
  evals : List α            -- m_evalues
  info : EInfo              -- m_info

/-- the locals of `compute()` that live across iterations -/
structure Loc (V : Type) where
  AX : List V
  BX : List V
  D : List V
  AD : List V
  BD : List V

/-- what the Rayleigh-Ritz kernel sees (everything the Gram matrices are built from) -/
structure RRIn (α V : Type) where
  iter : Nat
  X : List V
  R : List V
  D : List V
  AR : List V
  AD : List V
  BR : List V
  BD : List V
  evals : List α

inductive RROut (α : Type) where
  /-- `geigs.info() == Successful`: `geigs.eigenvalues()`, `geigs.eigenvectors()` (columns) -/
  | ok (theta : List α) (C : List (List α))
  | notConverged
  | threw

structure Kern (α V : Type) where
  zeroV : V
  applyA : V → V
  applyB : V → V
  applyT : V → V
  /-- `sqrt(Σ_i v_i^2) < t` (the test inside `checkConvergence_getBlocksize`) -/
  below : α → V → Bool
  /-- `tol_div_n * m_n` -/
  tolL2 : α → Nat → α
  /-- `std::less<Scalar>` -/
  lt : α → α → Bool
  /-- `orthogonalizeInPlace(M, m_B, BM, has_true_BM)`: the new `M` on success (the code then recomputes `BM = B*M`) -/
  orth : Stage → List V → List V → Option (List V)
  /-- `EigenSolver<Matrix>(X' * AX)`: real parts of eigenvalues and eigenvectors (columns), `none` if `info() != Success` -/
  eig0 : List V → List V → Option (List α × List (List α))
  /-- Gram matrices + `DenseCholesky<Scalar> Bop(gramB)`: `Bop.info() == CompInfo::Successful` -/
  gramSPD : RRIn α V → Bool
  /-- Gram matrices + `SymGEigsSolver<…, Cholesky>(…, m_nev, ncv)` with `ncv = innerNcv m_nev rows`, `init()`, `compute(SmallestAlge)` -/
  rr : RRIn α V → RROut α
  /-- the guard in front of `m_info = Success`: `max |X' * BX - I| < sqrt(epsilon)` for the iterate `X` and the tracked `BX` -/
  borth : List V → List V → Bool

structure Cfg where
  n : Nat       -- m_n
  nev : Nat     -- m_nev = X.cols()
  deriving Repr, DecidableEq

/-! ### block algebra on lists of columns -/
section ops
variable {α V : Type}

def lincombGo [Add V] [SMul α V] (acc : V) : List α → List V → V
  | c :: cs, v :: vs => lincombGo (acc + c • v) cs vs
  | _, _ => acc

/-- `Σ_k c_k v_k`, accumulated left to right starting from the first product (the order of Eigen's sparse product) -/
def lincomb [Add V] [SMul α V] (z : V) : List α → List V → V
  | c :: cs, v :: vs => lincombGo (c • v) cs vs
  | _, _ => z

/-- `M * C` for a block `M` and a coefficient matrix `C` given by columns -/
def mulCoef [Add V] [SMul α V] (z : V) (M : List V) (C : List (List α)) : List V := C.map (fun c => lincomb z c M)

/-- block sum (columnwise) -/
def addB [Add V] (M N : List V) : List V := List.zipWith (· + ·) M N

/-- `col(i) = AX.col(i) - m_evalues(i) * BX.col(i)` -/
def residual [Sub V] [SMul α V] : List V → List V → List α → List V
  | a :: as, b :: bs, t :: ts => (a - t • b) :: residual as bs ts
  | _, _, _ => []

/-- `removeColumns(matrix, colToRemove)`: keep the columns whose index is not listed (order preserved) -/
def removeColsFrom (i : Nat) (del : List Nat) : List V → List V
  | [] => []
  | v :: vs => if del.contains i then removeColsFrom (i + 1) del vs else v :: removeColsFrom (i + 1) del vs

def removeCols (M : List V) (del : List Nat) : List V := removeColsFrom 0 del M

/-- `std::map` insertion: an equivalent key already present wins -/
def insertKey {β : Type} (lt : α → α → Bool) (k : α) (v : β) : List (α × β) → List (α × β)
  | [] => [(k, v)]
  | (k', v') :: t =>
    if lt k k' then (k, v) :: (k', v') :: t
    else if lt k' k then (k', v') :: insertKey lt k v t
    else (k', v') :: t

/-- `sort_epairs(evalues, evectors, SmallestAlge)`: pairs go through a `std::map` keyed by the eigenvalue (equal keys collapse:
    the first wins), and the first `map.size()` positions are overwritten in key order; later positions keep their old content -/
def sortEpairs {β : Type} (lt : α → α → Bool) (θ : List α) (C : List β) : List α × List β :=
  let m := (θ.zip C).foldl (fun m p => insertKey lt p.1 p.2 m) []
  (m.map Prod.fst ++ θ.drop m.length, m.map Prod.snd ++ C.drop m.length)

end ops

/-- the `ncv` argument of the inner solver on a `rows x rows` Gram pencil:
    `ncv = min(10, rows - 1); if (ncv <= m_nev) ncv = min(rows, 2 * m_nev);` -/
def innerNcv (nev rows : Int) : Int :=
  if min 10 (rows - 1) ≤ nev then min rows (2 * nev) else min 10 (rows - 1)

/-- the constructor guard of the inner `SymGEigsSolver(Aop, Bop, m_nev, ncv)` on a `rows x rows` Gram pencil:
    the guard itself is the function regenerated from `HermEigsBase.h` -/
def innerGuard (nev rows : Nat) : Bool :=
  Gen.Guard.herm_ctor_rvalue (nev : Int) (innerNcv (nev : Int) (rows : Int)) (rows : Int) == Res.ok ()

section model
variable {α V : Type} [Add V] [Sub V] [SMul α V] (K : Kern α V) (c : Cfg)

/-- columns `iCol < m_nev` of the residual block whose norm passes the test (`columnsToDelete`) -/
def delCols (t : α) (W : List V) : List Nat :=
  (List.range c.nev).filter (fun i => match W[i]? with | some w => K.below t w | none => false)

/-- state right after the constructor -/
def construct (X0 : List V) : St α V :=
  { X := X0, resid := [], evecs := [], evals := [], info := .invalidInput }

/-- the part of `compute()` before the loop: returns the state, the locals and whether the loop may run -/
def initPhase (s : St α V) : St α V × Loc V × Bool :=
  -- orthogonalizeInPlace(X, m_B, BX)
  let (s1, BX, ok1) : St α V × List V × Bool :=
    match K.orth .initX s.X (s.X.map K.applyB) with
    | none => ({ s with info := .numericalIssue }, [], false)
    | some X' => ({ s with X := X' }, X'.map K.applyB, true)
  let AX := s1.X.map K.applyA
  match K.eig0 s1.X AX with
  | none => ({ s1 with info := .noConvergence }, { AX := AX, BX := BX, D := [], AD := [], BD := [] }, false)
  | some (θ0, C0) =>
    let (θ, C) := sortEpairs K.lt θ0 C0
    ({ s1 with X := mulCoef K.zeroV s1.X C, evals := θ, evecs := C },
     { AX := mulCoef K.zeroV AX C, BX := mulCoef K.zeroV BX C, D := [], AD := [], BD := [] }, ok1)

inductive StepRes (α V : Type) where
  | cont (s : St α V) (l : Loc V)
  | stop (s : St α V) (l : Loc V) (e : Exit)

/-- rows `[from, from+len)` of a coefficient matrix given by columns -/
def rowsOf (C : List (List α)) (start len : Nat) : List (List α) := C.map (fun col => (col.drop start).take len)

/-- one pass through the loop body (iteration `iter`, tolerance `t = tol_div_n * m_n`) -/
def step (t : α) (iter : Nat) (s : St α V) (l : Loc V) : StepRes α V :=
  let W := residual l.AX l.BX s.evals
  let del := delCols K c t W
  let bs := c.nev - del.length
  if bs = 0 then .stop { s with resid := W, info := .success } l (.converged iter)
  else
    let R0 := removeCols W del
    let l0 : Loc V := if iter > 0 then { l with D := removeCols l.D del, AD := removeCols l.AD del, BD := removeCols l.BD del } else l
    let R1 := R0.map K.applyT
    match K.orth (.resid iter) R1 (R1.map K.applyB) with
    | none => .stop { s with resid := R1, info := .numericalIssue } l0 (.orthRFailed iter)
    | some R =>
      let BR := R.map K.applyB
      let AR := R.map K.applyA
      let dres : Option (Loc V) :=
        if iter > 0 then
          match K.orth (.dir iter) l0.D l0.BD with
          | none => none
          | some D => some { l0 with D := D, AD := D.map K.applyA, BD := D.map K.applyB }
        else some l0
      match dres with
      | none => .stop { s with resid := R, info := .numericalIssue } l0 (.orthDFailed iter)
      | some l1 =>
        let rows := c.nev + bs + (if iter > 0 then bs else 0)
        let inp : RRIn α V := { iter := iter, X := s.X, R := R, D := l1.D, AR := AR, AD := l1.AD, BR := BR, BD := l1.BD, evals := s.evals }
        if K.gramSPD inp = false then .stop { s with resid := R, info := .numericalIssue } l1 (.gramFailed iter)
        else if innerGuard c.nev rows = false then .stop { s with resid := R } l1 (.rrThrew iter)
        else
          match K.rr inp with
          | .threw => .stop { s with resid := R } l1 (.rrThrew iter)
          | .notConverged => .stop { s with resid := R, info := .noConvergence } l1 (.rrFailed iter)
          | .ok θ0 C0 =>
            let (θ, C) := sortEpairs K.lt θ0 C0
            let CX := rowsOf C 0 c.nev
            let CR := rowsOf C c.nev bs
            let CD := rowsOf C (c.nev + bs) bs
            let z := K.zeroV
            let DD := if iter > 0 then addB (mulCoef z R CR) (mulCoef z l1.D CD) else mulCoef z R CR
            let ADD := if iter > 0 then addB (mulCoef z AR CR) (mulCoef z l1.AD CD) else mulCoef z AR CR
            let BDD := if iter > 0 then addB (mulCoef z BR CR) (mulCoef z l1.BD CD) else mulCoef z BR CR
            .cont { s with X := addB (mulCoef z s.X CX) DD, resid := R, evals := θ, evecs := C }
                  { AX := addB (mulCoef z l1.AX CX) ADD, BX := addB (mulCoef z l1.BX CX) BDD, D := DD, AD := ADD, BD := BDD }

/-- `for (iter_num = iter; iter_num < iter + fuel; iter_num++)` -/
def loop (t : α) : Nat → Nat → St α V → Loc V → St α V × Loc V × Exit
  | 0, _, s, l => (s, l, .exhausted)
  | fuel + 1, iter, s, l =>
    match step K c t iter s l with
    | .stop s' l' e => (s', l', e)
    | .cont s' l' => loop t fuel (iter + 1) s' l'

/-- the code after the loop: last residuals, convergence test; if every column passes, `m_info = Success` provided the iterate is
    still B-orthonormal (`max |X' * BX - I| < sqrt(epsilon)`: the residual test means nothing for a collapsed or blown-up block),
    `NumericalIssue` otherwise — this overrides the `Success` the `BlockSize == 0` exit of the loop has just written -/
def finalize (t : α) (s : St α V) (l : Loc V) : St α V :=
  let W := residual l.AX l.BX s.evals
  let del := delCols K c t W
  if c.nev - del.length = 0 then { s with resid := W, info := if K.borth s.X l.BX then .success else .numericalIssue }
  else { s with resid := W }

/-- result of `compute(maxit, tol_div_n)`: the object state, the locals at the end, how the loop ended, whether an exception
    left `compute()` (then the code after the loop did not run) -/
structure Out (α V : Type) where
  s : St α V
  l : Loc V
  exit : Exit
  threw : Bool
  initOk : Bool

/-- first statement of `compute()`: `m_info = Eigen::NoConvergence;` (a previous call must not leave a stale `Success`) -/
def reset (s : St α V) : St α V := { s with info := .noConvergence }

def compute (maxit : Int) (tol : α) (s0 : St α V) : Out α V :=
  let t := K.tolL2 tol c.n
  let (s1, l1, ok) := initPhase K (reset s0)
  let maxIter := if ok then min c.n maxit.toNat else 0
  let (s2, l2, e) := loop K c t maxIter 0 s1 l1
  match e with
  | .rrThrew _ => { s := s2, l := l2, exit := e, threw := true, initOk := ok }
  | _ => { s := finalize K c t s2 l2, l := l2, exit := e, threw := false, initOk := ok }

/-! ### the four accessors -/
def eigenvalues (s : St α V) : List α := s.evals
/-- `return Matrix(X);` — the n x k iterate (`m_evectors`, the coefficient matrix of the last small eigenproblem, stays internal) -/
def eigenvectors (s : St α V) : List V := s.X
def residuals (s : St α V) : List V := s.resid
def info (s : St α V) : EInfo := s.info

end model

/-! ### the object: members `compute()` reads, setters, histories

  `LOBPCGSolver` keeps `A` (constant after construction), `m_B` + `flag_with_B`, `m_preconditioner` + `flag_with_preconditioner`
  and the mutable state `St` (the block `X` — the constructor's copy of `X0`, overwritten by every `compute()` —, `m_residuals`,
  `m_evectors`, `m_evalues`, `m_info`).  The setters only store their argument and raise the flag.  `compute()` runs with the
  operators the object holds AT THE TIME OF THE CALL and starts from the state the previous call left.
  (`setConstraints` / `m_Y` is not modelled: outside C17's quantifier.) -/
structure Obj (α V : Type) where
  A : V → V
  /-- `flag_with_B ? some (m_B *) : none` -/
  B : Option (V → V)
  /-- `flag_with_preconditioner ? some (m_preconditioner *) : none` -/
  T : Option (V → V)
  st : St α V

section obj
variable {α V : Type}

/-- `LOBPCGSolver(A, X)` -/
def Obj.ctor (A : V → V) (X0 : List V) : Obj α V := { A := A, B := none, T := none, st := construct X0 }
/-- `setB(B)`: `m_B = B; flag_with_B = true;` -/
def Obj.setB (o : Obj α V) (b : V → V) : Obj α V := { o with B := some b }
/-- `setPreconditioner(T)`: `m_preconditioner = T; flag_with_preconditioner = true;` -/
def Obj.setPreconditioner (o : Obj α V) (t : V → V) : Obj α V := { o with T := some t }
/-- an object that has never computed: block `X`, operators as given -/
def Obj.fresh (A : V → V) (X : List V) (B T : Option (V → V)) : Obj α V := { A := A, B := B, T := T, st := construct X }

/-- the kernel record one `compute()` call runs with: the three operators are the object's CURRENT members (identity where the
    flag is down), the numeric kernels (`orthogonalizeInPlace`, the eigen-solvers, the tests) come from `N` -/
def Obj.kern (N : Kern α V) (o : Obj α V) : Kern α V :=
  { N with applyA := o.A, applyB := o.B.getD id, applyT := o.T.getD id }

variable [Add V] [Sub V] [SMul α V]

/-- everything one `compute(maxit, tol_div_n)` call on the object produces -/
def Obj.computeOut (N : Kern α V) (c : Cfg) (maxit : Int) (tol : α) (o : Obj α V) : Out α V :=
  compute (o.kern N) c maxit tol o.st
/-- the object after the call (the operators are not touched) -/
def Obj.compute (N : Kern α V) (c : Cfg) (maxit : Int) (tol : α) (o : Obj α V) : Obj α V :=
  { o with st := (o.computeOut N c maxit tol).s }

/-- one public call (every `compute` with its own numeric kernels: in the driver these are the outputs recorded from that call) -/
inductive Op (α V : Type) where
  | setB (b : V → V)
  | setPreconditioner (t : V → V)
  | compute (N : Kern α V) (maxit : Int) (tol : α)

def Obj.apply (c : Cfg) (o : Obj α V) : Op α V → Obj α V
  | .setB b => o.setB b
  | .setPreconditioner t => o.setPreconditioner t
  | .compute N maxit tol => o.compute N c maxit tol

/-- a history of public calls on ONE object -/
def Obj.run (c : Cfg) (o : Obj α V) (ops : List (Op α V)) : Obj α V := ops.foldl (Obj.apply c) o

/-- the argument of the last `setB` of a history (`b0` if there was none) -/
def lastB (b0 : Option (V → V)) : List (Op α V) → Option (V → V)
  | [] => b0
  | .setB b :: ops => lastB (some b) ops
  | _ :: ops => lastB b0 ops
/-- the argument of the last `setPreconditioner` of a history -/
def lastT (t0 : Option (V → V)) : List (Op α V) → Option (V → V)
  | [] => t0
  | .setPreconditioner t :: ops => lastT (some t) ops
  | _ :: ops => lastT t0 ops

end obj

/-! ### executable column type: an array of scalars with Eigen's coefficient-wise operations -/
structure Col (α : Type) where
  d : Array α

section col
variable {α : Type} [Add α] [Sub α] [Mul α] [Div α] [Neg α] [Sc α]
instance : Add (Col α) := ⟨fun x y => ⟨Lin.vadd x.d y.d⟩⟩
instance : Sub (Col α) := ⟨fun x y => ⟨Lin.vsub x.d y.d⟩⟩
instance : SMul α (Col α) := ⟨fun c x => ⟨x.d.map (fun a => c * a)⟩⟩

/-- sparse operator stored by rows: `(k, a_ik)` with `k` ascending, exact zeros absent; `(M v)_i = Σ_k a_ik v_k` accumulated in
    ascending `k` starting from the first product, skipping `v_k = 0` (they are absent from the sparse block) -/
def spApply (rows : Array (List (Nat × α))) (v : Col α) : Col α :=
  ⟨rows.map (fun r =>
    let terms := r.filter (fun p => !(Sc.eq (Lin.vget v.d p.1) (Lin.zero : α)))
    match terms with
    | [] => Lin.zero
    | p :: ps => ps.foldl (fun acc q => acc + q.2 * Lin.vget v.d q.1) (p.2 * Lin.vget v.d p.1))⟩

/-- the explicit loop of `checkConvergence_getBlocksize`: `sum = 0; for iRow: sum += b*b; sqrt(sum) < t` -/
def colBelow (t : α) (v : Col α) : Bool :=
  Sc.lt (Sc.sqrt (v.d.foldl (fun s b => s + b * b) (Lin.zero : α))) t

/-- entry `(i, j)` of `Matrix(X.transpose() * BX)`: Eigen's sparse product accumulates `0 + Σ_k X(k,i) * BX(k,j)` in ascending `k`
    (structurally absent entries contribute nothing; an explicit zero contributes `±0`, which changes no finite sum) -/
def gramEntry (x bx : Col α) : α :=
  (List.range x.d.size).foldl (fun acc k => acc + Lin.vget x.d k * Lin.vget bx.d k) (Lin.zero : α)

/-- `(Matrix(X' * BX) - Identity(nev, nev)).cwiseAbs().maxCoeff() < thr` for finite entries: every entry of `|X'BX - I|` is
    below `thr` (`thr = sqrt(NumTraits<Scalar>::epsilon())`, computed by the real code and handed over in the request) -/
def gramOrthOk (thr : α) (X BX : List (Col α)) : Bool :=
  (List.range X.length).all (fun i => (List.range BX.length).all (fun j =>
    match X[i]?, BX[j]? with
    | some x, some bx => Sc.lt (Sc.abs (gramEntry x bx - (if i = j then (Lin.one : α) else Lin.zero))) thr
    | _, _ => false))
end col

end Lobpcg
