/-
  Shared dense linear-algebra layer of the hand-written executable models (core Lean only, no Mathlib).

  * `Vec α` is `Array α`; `Mat α` is a column-major array with explicit dimensions, indexed `(i, j) ↦ i + j * rows`,
    exactly the layout of the `Eigen::Matrix<Scalar, Dynamic, Dynamic>` objects (and of the raw-pointer loops) in Spectra.
  * Reductions fold **left to right starting from the first term** (Eigen's scalar `redux` with EIGEN_DONT_VECTORIZE:
    `res = f(0); for i in 1..n-1: res = res + f(i)`), which is what makes the Float instance bit-exact against the harness build.
  * Everything is generic in the scalar: `[Add α] [Sub α] [Mul α] [Div α] [Neg α] [Sc α]`; out-of-range reads return `Sc.ofInt 0`
    (they never happen in a correct model: the index-safety theorems of C13 are about exactly that).
-/
import SpectraVerif.Prelude.Sc

namespace Lin

abbrev Vec (α : Type) := Array α

section
variable {α : Type} [Add α] [Sub α] [Mul α] [Div α] [Neg α] [Sc α]

@[inline] def zero : α := Sc.ofInt 0
@[inline] def one : α := Sc.ofInt 1

/-- `v[i]`, 0 outside the range -/
@[inline] def vget (v : Vec α) (i : Nat) : α := v.getD i (zero)
@[inline] def vset (v : Vec α) (i : Nat) (x : α) : Vec α := v.setIfInBounds i x
def vzero (n : Nat) : Vec α := Array.replicate n zero
def vofFn (n : Nat) (f : Nat → α) : Vec α := Array.ofFn (n := n) (fun i => f i.val)
def vmap2 (f : α → α → α) (x y : Vec α) : Vec α := vofFn x.size (fun i => f (vget x i) (vget y i))
def vadd (x y : Vec α) : Vec α := vmap2 (· + ·) x y
def vsub (x y : Vec α) : Vec α := vmap2 (· - ·) x y
def vscale (c : α) (x : Vec α) : Vec α := x.map (fun a => a * c)       -- Eigen `x * c` / `x *= c`
def vdivs (x : Vec α) (c : α) : Vec α := x.map (fun a => a / c)         -- Eigen `x / c`
def vneg (x : Vec α) : Vec α := x.map (fun a => -a)

/-- left-to-right sum of `f 0 … f (n-1)` starting from `f 0` (0 when `n = 0`) -/
def sumFrom0 (n : Nat) (f : Nat → α) : α :=
  match n with
  | 0 => zero
  | k + 1 => (List.range k).foldl (fun acc i => acc + f (i + 1)) (f 0)

/-- real dot product `Σ xᵢ yᵢ` in Eigen's scalar order -/
def dot (x y : Vec α) : α := sumFrom0 x.size (fun i => vget x i * vget y i)
def sqNorm (x : Vec α) : α := sumFrom0 x.size (fun i => vget x i * vget x i)
/-- `x.norm()` = `sqrt(squaredNorm())` -/
def norm (x : Vec α) : α := Sc.sqrt (sqNorm x)
/-- `x.cwiseAbs().maxCoeff()` (0 for the empty vector; order-independent on finite values) -/
def maxAbs (x : Vec α) : α := x.foldl (fun m a => if Sc.lt m (Sc.abs a) then Sc.abs a else m) zero

/-- column-major dense matrix -/
structure Mat (α : Type) where
  rows : Nat
  cols : Nat
  d : Array α

namespace Mat
@[inline] def get (m : Mat α) (i j : Nat) : α := m.d.getD (i + j * m.rows) zero
@[inline] def set (m : Mat α) (i j : Nat) (x : α) : Mat α :=
  if i < m.rows ∧ j < m.cols then { m with d := m.d.setIfInBounds (i + j * m.rows) x } else m
def zeros (r c : Nat) : Mat α := ⟨r, c, Array.replicate (r * c) zero⟩
def ofFn (r c : Nat) (f : Nat → Nat → α) : Mat α :=
  ⟨r, c, Array.ofFn (n := r * c) (fun k => f (k.val % r) (k.val / r))⟩
def identity (n : Nat) : Mat α := ofFn n n (fun i j => if i = j then one else zero)
def col (m : Mat α) (j : Nat) : Vec α := vofFn m.rows (fun i => m.get i j)
def row (m : Mat α) (i : Nat) : Vec α := vofFn m.cols (fun j => m.get i j)
def setCol (m : Mat α) (j : Nat) (v : Vec α) : Mat α :=
  (List.range m.rows).foldl (fun acc i => acc.set i j (vget v i)) m
def transpose (m : Mat α) : Mat α := ofFn m.cols m.rows (fun i j => m.get j i)
/-- `m.topLeftCorner(r, c)` as a fresh matrix -/
def topLeft (m : Mat α) (r c : Nat) : Mat α := ofFn r c (fun i j => m.get i j)
/-- `m.leftCols(c)` -/
def leftCols (m : Mat α) (c : Nat) : Mat α := ofFn m.rows c (fun i j => m.get i j)
/-- `M * x` using the first `k` columns: `yᵢ = Σ_{j<k} M(i,j) xⱼ`, each row accumulated left to right -/
def mulVecK (m : Mat α) (k : Nat) (x : Vec α) : Vec α :=
  vofFn m.rows (fun i => sumFrom0 k (fun j => m.get i j * vget x j))
def mulVec (m : Mat α) (x : Vec α) : Vec α := mulVecK m m.cols x
/-- `M.leftCols(k).transpose() * x`: `yⱼ = Σᵢ M(i,j) xᵢ` -/
def tmulVecK (m : Mat α) (k : Nat) (x : Vec α) : Vec α :=
  vofFn k (fun j => sumFrom0 m.rows (fun i => m.get i j * vget x i))
def mul (a b : Mat α) : Mat α := ofFn a.rows b.cols (fun i j => sumFrom0 a.cols (fun k => a.get i k * b.get k j))
end Mat
end

end Lin
