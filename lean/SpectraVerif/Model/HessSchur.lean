/-
  Executable model of `Spectra::UpperHessenbergSchur<Scalar>` (include/Spectra/LinAlg/UpperHessenbergSchur.h): Francis
  double-shift QR on an upper Hessenberg matrix, with Eigen's `makeHouseholder` (Eigen/src/Householder/Householder.h:66-93,
  fixed size 3) and the plane rotations of `Model/TridiagEigen.lean`.  With `EIGEN_DONT_VECTORIZE` the "SIMD" reflector
  application has packet size 1 and is element-wise the scalar loop, which is what `applyHouseholderRight` is.
  Core Lean only.  Entry points: `HessSchur.compute`, `.matrix_T`, `.matrix_U`.
-/
import SpectraVerif.Model.TridiagEigen

namespace HessSchur
open Lin EigenPrims
variable {α : Type} [Add α] [Sub α] [Mul α] [Div α] [Neg α] [Sc α]

/-- `Eigen::numext::maxi(x, y)` = `std::max(x, y)` = `(x < y) ? y : x` -/
@[inline] def maxi (x y : α) : α := if Sc.lt x y then y else x

/-- `upper_hessenberg_l1_norm`: `norm += x.col(j).segment(0, min(n, j+2)).cwiseAbs().sum()` for `j = 0..n-1` -/
def l1norm (n : Nat) (m : Mat α) : α :=
  (List.range n).foldl (fun acc j => acc + sumFrom0 (min n (j + 2)) (fun i => Sc.abs (m.get i j))) zero

/-- `find_small_subdiag(iu, near_0)`; argument = current `res`, result = final `res` -/
def findSmallSubdiag (t : Mat α) (near0 : α) : Nat → Nat
  | 0 => 0
  | r + 1 =>
    let s := Sc.abs (t.get r r) + Sc.abs (t.get (r + 1) (r + 1))
    let s := maxi (s * Sc.eps) near0
    if Sc.le (Sc.abs (t.get (r + 1) r)) s then r + 1 else findSmallSubdiag t near0 r

/-- the result of `Vector3s::makeHouseholder(ess, tau, beta)` -/
structure HH (α : Type) where
  v1 : α
  v2 : α
  tau : α
  beta : α

/-- `v.makeHouseholder(ess, tau, beta)` for a real 3-vector `(c0, t1, t2)` -/
def makeHouseholder (c0 t1 t2 : α) : HH α :=
  let tailSqNorm := t1 * t1 + t2 * t2
  if Sc.le tailSqNorm (Sc.minPos : α) then ⟨zero, zero, zero, c0⟩
  else
    let b0 := Sc.sqrt (c0 * c0 + tailSqNorm)
    let beta := if Sc.ge c0 zero then -b0 else b0
    ⟨t1 / (c0 - beta), t2 / (c0 - beta), (beta - c0) / beta, beta⟩

/-- the scalar kernel shared by `apply_householder_left/right(_simd)`: `x ↦ x − τ (vᵀx) v`, `v = (1, v1, v2)` -/
@[inline] def hhKernel (v1 v2 tau x0 x1 x2 : α) : α × α × α :=
  let t := tau * (x0 + v1 * x1 + v2 * x2)
  (x0 - t, x1 - t * v1, x2 - t * v2)

/-- `apply_householder_left(ess, tau, &M(k, c0), ncol, stride)`: rows `k, k+1, k+2`, columns `c0 .. c0+ncol-1` -/
def applyHouseholderLeft (m : Mat α) (v1 v2 tau : α) (k c0 ncol : Nat) : Mat α :=
  (List.range ncol).foldl (fun acc jj =>
      let j := c0 + jj
      let r := hhKernel v1 v2 tau (acc.get k j) (acc.get (k + 1) j) (acc.get (k + 2) j)
      ((acc.set k j r.1).set (k + 1) j r.2.1).set (k + 2) j r.2.2) m

/-- `apply_householder_right(_simd)(ess, tau, &M(0, k), nrow, stride)`: columns `k, k+1, k+2`, rows `0 .. nrow-1` -/
def applyHouseholderRight (m : Mat α) (v1 v2 tau : α) (k nrow : Nat) : Mat α :=
  (List.range nrow).foldl (fun acc i =>
      let r := hhKernel v1 v2 tau (acc.get i k) (acc.get i (k + 1)) (acc.get i (k + 2))
      ((acc.set i k r.1).set i (k + 1) r.2.1).set i (k + 2) r.2.2) m

structure TU (α : Type) where
  t : Mat α
  u : Mat α

/-- `split_off_two_rows(iu, ex_shift)` -/
def splitOffTwoRows (n iu : Nat) (exShift : α) (s : TU α) : TU α :=
  let t := s.t
  let p : α := TridiagEigen.half * (t.get (iu - 1) (iu - 1) - t.get iu iu)
  let q := p * p + t.get iu (iu - 1) * t.get (iu - 1) iu
  let t := t.set iu iu (t.get iu iu + exShift)
  let t := t.set (iu - 1) (iu - 1) (t.get (iu - 1) (iu - 1) + exShift)
  let s : TU α :=
    if Sc.ge q zero then
      let z := Sc.sqrt (Sc.abs q)
      let rot := makeGivens (if Sc.ge p zero then p + z else p - z) (t.get iu (iu - 1))
      let t := applyOnTheLeftAdj t (iu - 1) (n - iu + 1) (iu - 1) iu rot.c rot.s
      let t := applyOnTheRight t (iu + 1) (iu - 1) iu rot.c rot.s
      let t := t.set iu (iu - 1) zero
      ⟨t, applyOnTheRight s.u n (iu - 1) iu rot.c rot.s⟩
    else ⟨t, s.u⟩
  if 1 < iu then ⟨s.t.set (iu - 1) (iu - 2) zero, s.u⟩ else s

/-- `T(i,i) -= x` for `i = 0..iu` -/
def subDiagShift (t : Mat α) (iu : Nat) (x : α) : Mat α :=
  (List.range (iu + 1)).foldl (fun acc i => acc.set i i (acc.get i i - x)) t

structure Shift (α : Type) where
  s0 : α
  s1 : α
  s2 : α

/-- `compute_shift(iu, iter, ex_shift, shift_info)`: returns the new `T`, `ex_shift` and `shift_info` -/
def computeShift (iu iter : Nat) (exShift : α) (t : Mat α) : Mat α × α × Shift α :=
  let sh : Shift α := ⟨t.get iu iu, t.get (iu - 1) (iu - 1), t.get iu (iu - 1) * t.get (iu - 1) iu⟩
  let (t, exShift, sh) :=
    if iter = 10 then
      let exShift := exShift + sh.s0
      let t := subDiagShift t iu sh.s0
      let s := Sc.abs (t.get iu (iu - 1)) + Sc.abs (t.get (iu - 1) (iu - 2))
      (t, exShift, (⟨Sc.lit 75 (-2) * s, Sc.lit 75 (-2) * s, (-(Sc.lit 4375 (-4) : α)) * s * s⟩ : Shift α))
    else (t, exShift, sh)
  if iter = 30 then
    let s := (sh.s1 - sh.s0) / Sc.ofInt 2
    let s := s * s + sh.s2
    if Sc.gt s zero then
      let s := Sc.sqrt s
      let s := if Sc.lt sh.s1 sh.s0 then -s else s
      let s := s + (sh.s1 - sh.s0) / Sc.ofInt 2
      let s := sh.s0 - sh.s2 / s
      let exShift := exShift + s
      let t := subDiagShift t iu s
      let c : α := Sc.lit 964 (-3)
      (t, exShift, ⟨c, c, c⟩)
    else (t, exShift, sh)
  else (t, exShift, sh)

/-- one trip of the `for (im = iu-2; im >= il; --im)` loop of `init_francis_qr_step`; `fuel` bounds the trips -/
def initFrancis (t : Mat α) (il : Nat) (sh : Shift α) : Nat → Nat → Nat × α × α × α
  | 0, im => (im, zero, zero, zero)
  | f + 1, im =>
    let tmm := t.get im im
    let r := sh.s0 - tmm
    let s := sh.s1 - tmm
    let v0 := (r * s - sh.s2) / t.get (im + 1) im + t.get im (im + 1)
    let v1 := t.get (im + 1) (im + 1) - tmm - r - s
    let v2 := t.get (im + 2) (im + 1)
    if im ≤ il then (im, v0, v1, v2) else
    let lhs := t.get im (im - 1) * (Sc.abs v1 + Sc.abs v2)
    let rhs := v0 * (Sc.abs (t.get (im - 1) (im - 1)) + Sc.abs tmm + Sc.abs (t.get (im + 1) (im + 1)))
    if Sc.lt (Sc.abs lhs) (Sc.eps * rhs) then (im, v0, v1, v2) else initFrancis t il sh f (im - 1)

/-- body of the `for (k = im; k <= iu-2; ++k)` loop of `perform_francis_qr_step` -/
def francisBody (n il im iu : Nat) (near0 : α) (fv : α × α × α) (s : TU α) (k : Nat) : TU α :=
  let first := k = im
  let t := s.t
  let v : α × α × α := if first then fv else (t.get k (k - 1), t.get (k + 1) (k - 1), t.get (k + 2) (k - 1))
  let h := makeHouseholder v.1 v.2.1 v.2.2
  if Sc.gt (Sc.abs h.beta) near0 then
    let t := if first && il < k then t.set k (k - 1) (-(t.get k (k - 1)))
             else if !first then t.set k (k - 1) h.beta else t
    let t := applyHouseholderLeft t h.v1 h.v2 h.tau k k (n - k)
    let t := applyHouseholderRight t h.v1 h.v2 h.tau k (min iu (k + 3) + 1)
    ⟨t, applyHouseholderRight s.u h.v1 h.v2 h.tau k n⟩
  else s

/-- `perform_francis_qr_step(il, im, iu, first_householder_vec, near_0)` -/
def performFrancis (n il im iu : Nat) (near0 : α) (fv : α × α × α) (s : TU α) : TU α :=
  let s := (List.range (iu - 1 - im)).foldl (fun acc kk => francisBody n il im iu near0 fv acc (im + kk)) s
  let rot := makeGivens (s.t.get (iu - 1) (iu - 2)) (s.t.get iu (iu - 2))
  let s : TU α :=
    if Sc.gt (Sc.abs rot.r) near0 then
      let t := s.t.set (iu - 1) (iu - 2) rot.r
      let t := applyOnTheLeftAdj t (iu - 1) (n - iu + 1) (iu - 1) iu rot.c rot.s
      let t := applyOnTheRight t (iu + 1) (iu - 1) iu rot.c rot.s
      ⟨t, applyOnTheRight s.u n (iu - 1) iu rot.c rot.s⟩
    else s
  let t := (List.range (iu - im - 1)).foldl (fun acc ii =>
      let i := im + 2 + ii
      let acc := acc.set i (i - 2) zero
      if im + 2 < i then acc.set i (i - 3) zero else acc) s.t
  ⟨t, s.u⟩

/-- how the `while (iu >= 0)` loop was left -/
inductive Exit where
  | done | capped | fuel
  deriving DecidableEq, Repr

structure Core (α : Type) where
  t : Mat α
  u : Mat α
  exit : Exit
  total : Nat

/-- the main loop of `compute` (UpperHessenbergSchur.h:385-416); `m = iu + 1` (so `m = 0` is `iu < 0`) -/
def mainLoop (n : Nat) (near0 : α) : Nat → Nat → Nat → Nat → α → TU α → Core α
  | 0, _, _, total, _, s => ⟨s.t, s.u, .fuel, total⟩
  | f + 1, m, iter, total, exShift, s =>
    if m = 0 then ⟨s.t, s.u, .done, total⟩ else
    let iu := m - 1
    let il := findSmallSubdiag s.t near0 iu
    if il = iu then
      let t := s.t.set iu iu (s.t.get iu iu + exShift)
      let t := if 0 < iu then t.set iu (iu - 1) zero else t
      mainLoop n near0 f (m - 1) 0 total exShift ⟨t, s.u⟩
    else if il + 1 = iu then
      mainLoop n near0 f (m - 2) 0 total exShift (splitOffTwoRows n iu exShift s)
    else
      let (t, exShift, sh) := computeShift iu iter exShift s.t
      let iter := iter + 1
      let total := total + 1
      if 40 * n < total then ⟨t, s.u, .capped, total⟩ else
      let (im, v0, v1, v2) := initFrancis t il sh (iu - 1 - il) (iu - 2)
      mainLoop n near0 f m iter total exShift (performFrancis n il im iu near0 (v0, v1, v2) ⟨t, s.u⟩)

/-- `near_0 = maxi(norm * eps * eps, TypeTraits::min())` -/
def near0Of (norm : α) : α := maxi (norm * Sc.eps * Sc.eps) Sc.minPos

/-- the loop started the way `compute` starts it (`norm != 0`) -/
def core (n : Nat) (h : Mat α) : Core α :=
  let norm := l1norm n h
  if Sc.ne norm zero then mainLoop n (near0Of norm) (41 * n + 1) n 0 0 zero ⟨h, Mat.identity n⟩
  else ⟨h, Mat.identity n, .done, 0⟩

structure Decomp (α : Type) where
  t : Mat α
  u : Mat α

/-- `UpperHessenbergSchur::compute(mat)` for a square `n × n` matrix -/
def compute (n : Nat) (h : Mat α) : Res (Decomp α) :=
  let r := core n h
  if r.exit = Exit.done then Res.ok ⟨r.t, r.u⟩
  else Res.throw "std::runtime_error UpperHessenbergSchur: Schur decomposition failed"

def matrix_T (r : Decomp α) : Mat α := r.t
def matrix_U (r : Decomp α) : Mat α := r.u

end HessSchur
