/-
  C12: constructor of a generalized symmetric solver (SymGEigsSolver / SymGEigsShiftSolver of GEigsMode `mode`) as the composition
  the C++ performs: the internal adapter SymGEigs*Op(op, Bop) is built first (its constructor is `Gen.MatOpGuard.geigs_ctor`),
  then HermEigsBase validates (nev, ncv) against the size the ADAPTER reports (`Gen.MatOpGuard.geigs_rows`: Bop.rows() for Cholesky /
  RegularInverse, op.rows() for ShiftInvert / Buckling / Cayley).  All three pieces are regenerated from the headers; only this
  composition is written by hand (SymGEigsSolver.h / SymGEigsShiftSolver.h: base-class initialiser
  `Base(ModeMatOp(op, Bop), IdentityBOp() | Bop, nev, ncv)`), and it is tied to the real constructors by the sweep over all
  (mode, op size, Bop size, nev, ncv) in harness/c12.cpp.
-/
import SpectraVerif.Gen.Guard
import SpectraVerif.Gen.MatOpGuard

namespace C12

def geigs_solver_ctor (mode nev ncv op_rows bop_rows : Int) : Res Unit :=
  match Gen.MatOpGuard.geigs_ctor mode op_rows bop_rows with
  | Res.ok _ => Gen.Guard.herm_ctor_lvalue nev ncv (Gen.MatOpGuard.geigs_rows mode op_rows bop_rows)
  | Res.throw e => Res.throw e

end C12
