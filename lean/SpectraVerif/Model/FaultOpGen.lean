/-
  C14, general (nonsymmetric) family: the numeric kernel record `GenSolver.genKern` (GenEigsSolver, GenEigsRealShiftSolver) with
  an operator that can FAIL.

  Every operator application of `Arnoldi::init`, `Arnoldi::factorize_from` (incl. `expand_basis`) and of the re-factorization at
  the end of `GenEigsBase::restart` is routed through `opF : Nat → Vec α → Except Exn (Vec α)` (told the 1-based index of the
  application since the last `init()`); `op.A` is NOT used.  The computations are the ones of `Model/FaultOp.lean`
  (`initF`, `arnoldiFactorizeF`: the same `Prog` free monad, the same step structure as `Model/Arnoldi.lean`); what is new here is
  the restart of the general family: `restartPreG` = shift loop (single shift `UpperHessenbergQR` / double shift `DoubleShiftQR`,
  `compress_H`) + `compress_V`, which applies no operator, followed by `arnoldiFactorizeF`.
  `Proofs/C14Gen.lean`: with an operator that never fails `genKernF` IS `genKern`; with `faultAt op.A k e` it is `Orch.FaultedBy`.
  Core Lean only (the driver links this file).
-/
import SpectraVerif.Model.FaultOp
import SpectraVerif.Model.GenSolver

namespace FaultOpGen
open Lin Arnoldi Orch FaultOp

section
variable {α : Type} [Add α] [Sub α] [Mul α] [Div α] [Neg α] [Sc α]

/-- `GenEigsBase::restart` between the guard and the re-factorization: shift passes, QR sweeps, `compress_H`, `compress_V`
    (no operator application) -/
def restartPreG (op : Op α) (ncv k : Nat) (ritzVal : List (GenSolver.Cx α)) (s : State α) : State α :=
  let ritz := GenSolver.clistFn ritzVal
  let passes := GenSolver.shiftPasses ritz ncv (ncv - k) k
  let (s1, Q) := passes.foldl (GenSolver.shiftStep ritz) (s, Mat.identity ncv)
  Arnoldi.compress_V op s1 Q

/-- the re-factorization of a restart (`m_fac.factorize_from(k, m_ncv, m_nmatop)`) -/
def restartFacGF (op : Op α) (ncv k : Nat) (ritzVal : List (GenSolver.Cx α)) (s : State α) : Prog α (Option (State α)) :=
  arnoldiFactorizeF op (restartPreG op ncv k ritzVal s) k ncv

/-- `GenSolver.genKern` with an operator that can fail (conventions of `FaultOp.hermKernF` / `FaultOp.facRes`: on an exception the
    factorization object of before the call with the operation counter at the throw point) -/
def genKernF (op : Op α) (opF : Nat → Vec α → Except Exn (Vec α)) (c : Cfg) (eps23 : α) (back : GenSolver.Cx α → GenSolver.Cx α) :
    Kern (State α) (GenSolver.Cx α) (GenSolver.Cx α) (Vec (GenSolver.Cx α)) (Vec α) α (Vec (GenSolver.Cx α)) :=
  { GenSolver.genKern op c eps23 back with
    facInit := fun v0 s =>
      facRes { s with ops := 0 } s "initial residual vector cannot be zero"
        ((initF op { s with ops := 0 } v0).runF opF 0),
    factorize := fun a b s =>
      facRes s s "Arnoldi: from_k is larger than the current subspace dimension"
        ((arnoldiFactorizeF op s a b).runF opF s.ops),
    restartFac := fun k ritzVal s =>
      facRes s (restartPreG op c.ncv k ritzVal s) "Arnoldi: from_k is larger than the current subspace dimension"
        ((restartFacGF op c.ncv k ritzVal s).runF opF s.ops) }

end
end FaultOpGen
