/-
  C13 — hand-written INDEX PROGRAMS of the restart / compress / factorize steps and the operator-call skeleton of
  `init(); compute()` (Herm/Lanczos family and general/Arnoldi family), built ON TOP of the source-translated pieces in
  `Gen.Restart` (restart-size functions, one pass of the shift loop, loop frames of `restart` and `compute`).

  What is hand-modelled here (read off HermEigsBase.h / GenEigsBase.h / LinAlg/Arnoldi.h / Lanczos.h / GenEigsComplexShiftSolver.h):
    * the iteration of the translated one-pass function `genShiftSkel_step` up to the loop bound (the C++ `for` with an extra `i++`
      in its body is outside the translator's canonical-loop subset);
    * which buffers each `perform_op(x, y)` call receives (`Buf`), one call per factorization step plus one inside `expand_basis`
      (first try only) when the breakdown branch is taken; §4 ties each `Buf` to the root object and STORAGE CLASS that the
      translator reads off the call sites on every run (`Gen.Restart.opSites`);
    * every floating-point comparison is an ORACLE: `IterOracle.nconv` (num_converged), `.est`/`.val` (Ritz data read by the
      translated restart-size function), `.bd i` (breakdown test of factorization step i: `m_beta < m_near_0`, resp. the two Lanczos
      criteria).  Theorems quantify over all oracles; the driver feeds the outcomes observed on the real code.
  All functions are total WITHOUT fuel: `genPasses` terminates because the loop index strictly increases towards the loop bound,
  `computeLoop` is structural in `maxit`, `cshiftLoop` decreases `nev - i`; `expand_basis` (≤ 5 tries, ≤ 3 corrections each) and the
  re-orthogonalisation loops (≤ 5) apply the operator a fixed number of times (1 resp. 0), so they appear only through that count.
  Core Lean only (the driver links this file).
-/
import SpectraVerif.Gen.Restart

namespace RestartIdx
open Gen.Restart

/-! ## 1. shift loop of `GenEigsBase::restart` -/

/-- one executed pass of the loop body -/
structure Pass where
  i : Int
  reads : List Int      -- indices of m_ritz_val read by the branch condition
  double : Bool         -- complex-pair (double shift, H dimension -2) or real (single shift, -1)
  next : Int            -- loop index at the next evaluation of `i < m_ncv`
  deriving Repr, DecidableEq

section gen
variable {α : Type} [Add α] [Sub α] [Mul α] [Div α] [Neg α] [Sc α]

/-- the passes of `for (Index i = lo; i < hi; i++) { … }` with the translated body skeleton; the second guard can never fail
    (`genStep_next`), it is there so that termination needs no property of the translated code -/
def genPasses (ritz : Int → α × α) (hi : Int) (i : Int) : List Pass :=
  if _h : i < hi then
    if _h2 : i < (genShiftSkel_step hi ritz i).2.2 then
      ⟨i, (genShiftSkel_step hi ritz i).1, (genShiftSkel_step hi ritz i).2.1, (genShiftSkel_step hi ritz i).2.2⟩ ::
        genPasses ritz hi (genShiftSkel_step hi ritz i).2.2
    else [⟨i, (genShiftSkel_step hi ritz i).1, (genShiftSkel_step hi ritz i).2.1, (genShiftSkel_step hi ritz i).2.2⟩]
  else []
termination_by (hi - i).toNat
decreasing_by omega

def degree (ps : List Pass) : Int := (ps.map (fun p => if p.double then (2 : Int) else 1)).sum
def allReads (ps : List Pass) : List Int := ps.flatMap (·.reads)

/-- outcome of the index program of one `restart(k)` call -/
structure RestartTrace where
  early : Bool            -- `if (k >= m_ncv) return;`
  passes : List Pass
  mkAfter : Int           -- Arnoldi::m_k after the compress_H calls (what compress_V and factorize_from then use)
  facFrom : Int
  facTo : Int
  deriving Repr

def genRestart (ritz : Int → α × α) (ncv k : Int) : RestartTrace :=
  let fr := genShiftSkel_frame ncv k
  if fr.1 then ⟨true, [], ncv, fr.2.2.2.1, fr.2.2.2.2⟩
  else
    let ps := genPasses ritz fr.2.2.1 fr.2.1
    ⟨false, ps, ncv - degree ps, fr.2.2.2.1, fr.2.2.2.2⟩

/-- every Ritz index the shift loop reads lies inside the array of length `ncv` (Eigen asserts `0 ≤ index < size()`) -/
def InBounds (ncv : Int) (ps : List Pass) : Prop := ∀ r ∈ allReads ps, 0 ≤ r ∧ r < ncv
instance (ncv : Int) (ps : List Pass) : Decidable (InBounds ncv ps) := by unfold InBounds; infer_instance

/-- complex Ritz values from position `i` on come as ADJACENT conjugate pairs (z, conj z), everything else is real, and `i` does
    not fall between the two members of a pair -/
def AdjacentConj (ritz : Int → α × α) (ncv : Int) (i : Int) : Prop :=
  if i < ncv then
    if is_complex (ritz i) then i + 1 < ncv ∧ is_conj (ritz i) (ritz (i + 1)) = true ∧ AdjacentConj ritz ncv (i + 2)
    else AdjacentConj ritz ncv (i + 1)
  else True
termination_by (ncv - i).toNat
decreasing_by all_goals omega
end gen

/-! ## 2. index programs of compress_V and factorize_from (matrix shapes: V is n×m, H is m×m, Q is m×m, f has n entries) -/

/-- an access `(rows, cols, r, c)` to a `rows × cols` column-major matrix (or block start with extent folded into r, c) -/
structure Acc where
  what : String
  rows : Int
  cols : Int
  r : Int
  c : Int
  deriving Repr

def Acc.ok (a : Acc) : Prop := 0 ≤ a.r ∧ a.r < a.rows ∧ 0 ≤ a.c ∧ a.c < a.cols

/-- `Arnoldi::compress_V(Q)` with `m_m = m`, `m_k = k` (after compress_H): the last element each statement touches -/
def compressAcc (n m k : Int) : List Acc :=
  ((intRange 0 k).flatMap (fun i =>
      [⟨"Vs.col(i)", n, k + 1, n - 1, i⟩, ⟨"&Q(0,i)+nnz-1", m, m, (m - k + i + 1) - 1, i⟩,
       ⟨"V.leftCols(nnz)", n, m, n - 1, (m - k + i + 1) - 1⟩])) ++
  [⟨"Vs.col(k)", n, k + 1, n - 1, k⟩, ⟨"Q.col(k)", m, m, m - 1, k⟩, ⟨"V.leftCols(k+1)", n, m, n - 1, k⟩,
   ⟨"Q(m-1,k-1)", m, m, m - 1, k - 1⟩, ⟨"V.col(k)", n, m, n - 1, k⟩, ⟨"H(k,k-1)", m, m, k, k - 1⟩]

/-- `factorize_from(from_k, to_m)` (both families), `m_m = m`: block resets and, per step `i`, the column/entry touched -/
def factorizeAcc (n m fromK toM : Int) : List Acc :=
  if toM ≤ fromK then [] else
  [⟨"H.rightCols(m-from_k) first", m, m, 0, fromK⟩, ⟨"H.rightCols(m-from_k) last", m, m, m - 1, m - 1⟩,
   ⟨"H.block(from_k,0,m-from_k,from_k) last", m, m, m - 1, fromK - 1⟩] ++
  (intRange fromK toM).flatMap (fun i =>
      [⟨"V(:, 0..i-1) for expand_basis", n, m, n - 1, i - 1⟩, ⟨"V.col(i)", n, m, n - 1, i⟩, ⟨"H(i,i-1)", m, m, i, i - 1⟩,
       ⟨"H(i-1,i)", m, m, i - 1, i⟩, ⟨"&H(0,i)+i", m, m, i, i⟩, ⟨"Vs = V(:,0..i)", n, m, n - 1, i⟩, ⟨"Vf.head(i+1) of Vf(to_m)", toM, 1, i, 0⟩])

/-! ## 3. operator-call skeleton -/

/-- the buffers that are ever handed to `perform_op` -/
inductive Buf where
  | user              -- the caller's init_resid (length n by the API contract)
  | vcol (j : Int)    -- column j of m_fac_V (n × ncv, column-major: entries j*n … j*n+n-1)
  | w                 -- `Vector w(m_n)` local of init / factorize_from
  | f                 -- m_fac_f
  | tmp               -- `Vector v(m_n)` local of expand_basis
  | probeIn (c : Nat) -- v_real / v_imag of the complex-shift post-processing
  | probeOut (c : Nat)-- OPv_real / OPv_imag
  deriving Repr, DecidableEq

structure Call where
  x : Buf
  y : Buf
  deriving Repr, DecidableEq

/-- `Arnoldi::init` ends with `m_k = 1` ("this is a step-1 factorization") -/
def initSubspaceDim : Int := 1

/-- `Arnoldi::init`: v = A v0 (into column 0 of V), then w = A v -/
def initCalls : List Call := [⟨.user, .vcol 0⟩, ⟨.vcol 0, .w⟩]

/-- one step `i` of factorize_from: `bd` = the breakdown branch is taken (expand_basis: first try applies the operator to a fresh
    random vector, writing into f; tries 2..5 do not apply it); then w = A V(:,i) -/
def stepCalls (bd : Bool) (i : Int) : List Call := (if bd then [⟨.tmp, .f⟩] else []) ++ [⟨.vcol i, .w⟩]

def factorizeCalls (bd : Int → Bool) (fromK toM : Int) : List Call :=
  (intRange fromK toM).flatMap (fun i => stepCalls (bd i) i)

/-- why a restart did not complete -/
inductive Stop where
  | none
  | oobRead (idx : Int)   -- the shift loop read m_ritz_val[idx] with idx ≥ ncv (Eigen index assertion / heap over-read)
  | facThrow              -- factorize_from: from_k > m_k  (std::invalid_argument)
  deriving Repr, DecidableEq

/-- oracle outcomes of one pass of compute's restart loop -/
structure IterOracle (E : Type) (α : Type) where
  nconv : Int                 -- value returned by num_converged(tol)
  est : Int → E               -- m_ritz_est   (real for the Hermitian family, complex pairs for the general one)
  val : Int → α × α           -- m_ritz_val   (general family only)
  bd : Int → Bool             -- breakdown branch of step i of the factorize_from inside this restart

/-- `HermEigsBase::restart(k)`: k ≥ ncv returns at once; else (ncv - k) single shifts, then factorize_from(k, ncv) -/
def hermRestartCalls (ncv : Int) (k : Int) (bd : Int → Bool) : List Call × Stop :=
  let sk := hermShiftSkel ncv k
  if sk.1 then ([], .none)
  else
    let mk := ncv - sk.2.1
    if sk.2.2.1 < sk.2.2.2 ∧ mk < sk.2.2.1 then ([], .facThrow)
    else (factorizeCalls bd sk.2.2.1 sk.2.2.2, .none)

section
variable {α : Type} [Add α] [Sub α] [Mul α] [Div α] [Neg α] [Sc α]

def firstOob (ncv : Int) (rs : List Int) : Option Int := rs.find? (fun r => decide (r < 0 ∨ ncv ≤ r))

/-- `GenEigsBase::restart(k)` -/
def genRestartCalls (ncv : Int) (k : Int) (val : Int → α × α) (bd : Int → Bool) : List Call × Stop :=
  let t := genRestart val ncv k
  if t.early then ([], .none)
  else match firstOob ncv (allReads t.passes) with
    | some r => ([], .oobRead r)
    | none =>
      if t.facFrom < t.facTo ∧ t.mkAfter < t.facFrom then ([], .facThrow)
      else (factorizeCalls bd t.facFrom t.facTo, .none)
end

/-- result of the skeleton of `compute`: operator calls in order, number of completed restarts `i` at loop exit, left by `break`
    (converged), abnormal stop -/
structure ComputeTrace where
  calls : List Call
  iters : Nat
  converged : Bool
  stop : Stop
  ks : List Int              -- restart sizes chosen (nev_adjusted values), in order
  deriving Repr

/-- `for (i = 0; i < maxit; i++) { nconv = num_converged; if (brk) break; k = nev_adjusted(nconv); restart(k); }`
    structural in the number of remaining iterations: no fuel, `maxit` IS the bound -/
def computeLoop {O : Type} (brk : O → Bool) (kOf : O → Int) (restartOf : O → Int → List Call × Stop) (orc : Nat → O) :
    (remaining : Nat) → (it : Nat) → ComputeTrace
  | 0, it => ⟨[], it, false, .none, []⟩
  | r + 1, it =>
    let o := orc it
    if brk o then ⟨[], it, true, .none, []⟩
    else
      let k := kOf o
      let (cs, st) := restartOf o k
      if st ≠ .none then ⟨cs, it, false, st, [k]⟩
      else
        let t := computeLoop brk kOf restartOf orc r (it + 1)
        ⟨cs ++ t.calls, t.iters, t.converged, t.stop, k :: t.ks⟩

section
variable {α : Type} [Add α] [Sub α] [Mul α] [Div α] [Neg α] [Sc α]

/-- `HermEigsBase::compute(selection, maxit, tol, sorting)`: `k0` = Arnoldi::m_k at entry (`initSubspaceDim` right after `init`;
    `ncv` when compute() is called again without init: the first factorize_from then returns at once),
    `bd0` = breakdown oracle of the first factorization -/
def hermCompute (nev ncv maxit : Int) (k0 : Int) (bd0 : Int → Bool) (orc : Nat → IterOracle α α) : ComputeTrace :=
  let fr := hermComputeSkel_frame ncv maxit k0
  let c0 := factorizeCalls bd0 fr.1 fr.2.1
  let t := computeLoop (fun o => hermComputeSkel_break nev o.nconv) (fun o => hermNevAdj nev ncv o.est o.nconv)
             (fun o k => hermRestartCalls ncv k o.bd) orc (fr.2.2.2 - fr.2.2.1).toNat 0
  { t with calls := c0 ++ t.calls }

/-- `GenEigsBase::compute` (same parameters) -/
def genCompute (nev ncv maxit : Int) (k0 : Int) (bd0 : Int → Bool) (orc : Nat → IterOracle (α × α) α) : ComputeTrace :=
  let fr := genComputeSkel_frame ncv maxit k0
  let c0 := factorizeCalls bd0 fr.1 fr.2.1
  let t := computeLoop (fun o => genComputeSkel_break nev o.nconv) (fun o => genNevAdj nev ncv o.est o.val o.nconv)
             (fun o k => genRestartCalls ncv k o.val o.bd) orc (fr.2.2.2 - fr.2.2.1).toNat 0
  { t with calls := c0 ++ t.calls }
end

/-- `GenEigsComplexShiftSolver::sort_ritzpair`: `for (i = 0; i < nev; i++) { 2 solves; if (|Im λ| > eps) { ritz_val[i+1] = …; i++ } }`;
    `cplx i` = oracle of the test at loop index i.  Returns (calls, indices of m_ritz_val written) -/
def cshiftLoop (nev : Int) (cplx : Int → Bool) (i : Int) : List Call × List Int :=
  if i < nev then
    let cs : List Call := [⟨.probeIn 0, .probeOut 0⟩, ⟨.probeIn 1, .probeOut 1⟩]
    let r := cshiftLoop nev cplx (if cplx i then i + 2 else i + 1)
    (cs ++ r.1, (if cplx i then [i, i + 1] else [i, i]) ++ r.2)
  else ([], [])
termination_by (nev - i).toNat
decreasing_by split <;> omega

/-- validity of one call for operator dimension n and basis size ncv: distinct buffers, and a column of V exists -/
def Call.valid (ncv : Int) (c : Call) : Prop :=
  c.x ≠ c.y ∧ (∀ j, c.x = .vcol j → 0 ≤ j ∧ j < ncv) ∧ (∀ j, c.y = .vcol j → 0 ≤ j ∧ j < ncv)

/-! ## 4. where the buffers live: the model's `Buf` against the regenerated STORAGE table `Gen.Restart.opSites` / `opParamBinds`
    (every `perform_op(x, y)` call of solver code, with the root object each pointer comes from and that object's storage class) -/
section storage
open Gen.Restart

/-- the three code paths that reach the user's operator -/
inductive Fam where
  | herm | gen | cshift
  deriving Repr, DecidableEq

/-- the member functions (class, name) whose `perform_op` calls a family executes: Lanczos overrides `factorize_from` and inherits
    `init` / `expand_basis` from Arnoldi; the complex-shift solver adds the probe solves of `sort_ritzpair` -/
def Fam.fns : Fam → List (String × String)
  | .herm => [("Arnoldi", "init"), ("Arnoldi", "expand_basis"), ("Lanczos", "factorize_from")]
  | .gen => [("Arnoldi", "init"), ("Arnoldi", "expand_basis"), ("Arnoldi", "factorize_from")]
  | .cshift => [("GenEigsComplexShiftSolver", "sort_ritzpair")]

/-- the source-level root (kind, variable) a model buffer stands for -/
def Buf.src : Buf → String × String
  | .user => ("param", "init_resid")
  | .vcol _ => ("member", "m_fac_V")
  | .w => ("local", "w")
  | .f => ("member", "m_fac_f")
  | .tmp => ("local", "v")
  | .probeIn c => ("local", if c = 0 then "v_real" else "v_imag")
  | .probeOut c => ("local", if c = 0 then "OPv_real" else "OPv_imag")

/-- OWNED by the running call: an AUTOMATIC local of the calling function (one object per activation, so two activations — nested,
    on other threads, of other solver objects — never share it) or a data member `m_fac_V` / `m_fac_f` of the factorization object.
    `static`, `thread_local`, global and unresolved roots are not owned. -/
def ownedTerminal (r : BufRoot) : Bool :=
  (r.kind == "local" && r.storage == "automatic") ||
  (r.kind == "member" && r.storage == "member" && (r.name == "m_fac_V" || r.name == "m_fac_f"))

/-- a parameter is owned when the argument bound to it is, or when it is the vector the USER passed to the public `init(init_resid)` -/
def bindOwned (b : ParamBind) : Bool :=
  ownedTerminal b.root ||
  (b.root.kind == "param" && b.root.name == "init_resid" && b.caller == "init" && (b.cls == "HermEigsBase" || b.cls == "GenEigsBase"))

def bindsOf (cls fn : String) (r : BufRoot) : List ParamBind :=
  opParamBinds.filter (fun b => b.callee == cls ++ "::" ++ fn && b.param == r.name)

/-- a root of the table is owned; a parameter root: it is bound somewhere and EVERY call in the library binds an owned object -/
def rootOwned (cls fn : String) (r : BufRoot) : Bool :=
  if r.kind == "param" then !(bindsOf cls fn r).isEmpty && (bindsOf cls fn r).all bindOwned else ownedTerminal r

/-- the root of the table is the object `s` (parameters: at every call) -/
def rootIs (cls fn : String) (r : BufRoot) (s : String × String) : Bool :=
  if r.kind == "param" then !(bindsOf cls fn r).isEmpty && (bindsOf cls fn r).all (fun b => (b.root.kind, b.root.name) == s)
  else (r.kind, r.name) == s

def siteOwned (s : OpSite) : Bool := rootOwned s.cls s.fn s.x && rootOwned s.cls s.fn s.y
def siteMatches (s : OpSite) (x y : String × String) : Bool := rootIs s.cls s.fn s.x x && rootIs s.cls s.fn s.y y

/-- a pair of model buffers (x, y) of family `fam` is backed by the source: SOME call site of the family's functions hands exactly
    these objects to the operator, and EVERY such site hands only owned storage -/
def OwnedShape (fam : Fam) (x y : String × String) : Prop :=
  (∃ s ∈ opSites, (s.cls, s.fn) ∈ fam.fns ∧ siteMatches s x y = true) ∧
  (∀ s ∈ opSites, (s.cls, s.fn) ∈ fam.fns → siteMatches s x y = true → siteOwned s = true)

instance (fam : Fam) (x y : String × String) : Decidable (OwnedShape fam x y) := by unfold OwnedShape; infer_instance

def Call.owned (fam : Fam) (c : Call) : Prop := OwnedShape fam c.x.src c.y.src
end storage

end RestartIdx
