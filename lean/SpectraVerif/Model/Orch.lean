/-
  Orchestration model of the Arnoldi/Lanczos-family solvers: `HermEigsBase` and `GenEigsBase`
  (`init`, `compute`, `retrieve_ritzpair`, the restart loop, `sort_ritzpair`, `info`, `num_iterations`, `num_operations`,
  `eigenvalues`, `eigenvectors(nvec)`), written ONCE and generic in

    φ  the factorization object (`m_fac`: V, H, f, beta, k)      ρ  a Ritz value (real resp. complex)
    ε  a Ritz estimate (entry of the last row)                    κ  a Ritz vector in Krylov coordinates (a column)
    β  a start vector                                             τ  the tolerance
    ω  an assembled eigenvector (a column of `V * ritz_vec`)

  and in a record `Kern` of numeric kernels.  The *same* definitions are
    * instantiated with the executable Float kernels (Lanczos/TridiagQR/TridiagEigen models) for the correspondence check, and
    * quantified over ALL kernels in the theorems of C05/C06/C14 ("for every way the numerics could come out"): a kernel is an
      arbitrary function, may report an exception at any call, and may return any numbers.

  Every data member of the C++ classes is a field of `St` (including the ones that look irrelevant), so that "init() rebuilds
  everything compute() reads" is a statement about this record.  Control flow mirrors the C++ statement by statement; exceptions
  are modelled by returning the state reached at the throw point together with the exception (C++ leaves the object in that state).
  Core Lean only (the driver links this file).
-/
import SpectraVerif.Prelude.Sc

namespace Orch

/-- `Spectra::CompInfo` in declaration order -/
inductive Info where
  | successful | notComputed | notConverging | numericalIssue
  deriving DecidableEq, Repr, Inhabited

def Info.code : Info → Nat
  | .successful => 0 | .notComputed => 1 | .notConverging => 2 | .numericalIssue => 3

/-- exception classes that can leave the library (the payload identifies the throw site / the user's exception) -/
inductive Exn where
  | invalidArgument (what : String)
  | runtimeError (what : String)
  | logicError (what : String)
  | user (id : Nat)
  deriving DecidableEq, Repr, Inhabited

def Exn.show : Exn → String
  | .invalidArgument _ => "std::invalid_argument"
  | .runtimeError _ => "std::runtime_error"
  | .logicError _ => "std::logic_error"
  | .user i => s!"user:{i}"

/-- constructor arguments (constants of the object) -/
structure Cfg where
  n : Nat
  nev : Nat
  ncv : Nat
  deriving Repr, DecidableEq

/-- result of a kernel that works on the factorization: new factorization, operator applications counted into `m_nmatop`
    (the C++ passes the counter by reference, so applications made before a throw are counted), exception if one escaped -/
structure FacRes (φ : Type) where
  fac : φ
  ops : Nat
  exn : Option Exn

/-- the numeric kernels the orchestration code calls -/
structure Kern (φ ρ ε κ β τ ω : Type) where
  zeroρ : ρ
  zeroε : ε
  zeroκ : κ
  /-- `m_fac.init(v0, m_nmatop)` -/
  facInit : β → φ → FacRes φ
  /-- `m_fac.factorize_from(from_k, to_m, m_nmatop)` -/
  factorize : Nat → Nat → φ → FacRes φ
  /-- `m_fac.subspace_dim()` -/
  facDim : φ → Nat
  /-- eigen-decomposition of the projected matrix: eigenvalues, last row of the eigenvector matrix, eigenvector columns -/
  eig : φ → Except Exn (List ρ × List ε × List κ)
  /-- `argsort(selection, evals, ncv)` resp. the `SortEigenvalue` switch of `GenEigsBase::retrieve_ritzpair` -/
  select : Int → List ρ → Nat → Except Exn (List Nat)
  /-- one entry of `num_converged`: `|est| * f_norm < tol * max(eps23, |theta|)` -/
  convTest : τ → φ → ρ → ε → Bool
  /-- `nev_adjusted(nconv)` -/
  nevAdj : Cfg → Nat → List ρ → List ε → Nat
  /-- the part of `restart(k, selection)` between the `k >= m_ncv` guard and `retrieve_ritzpair`:
      shifts, QR sweeps, `compress_H`, `compress_V`, `factorize_from(k, m_ncv, m_nmatop)` -/
  restartFac : Nat → List ρ → φ → FacRes φ
  /-- what a derived class does to the first `nev` Ritz values at the start of its `sort_ritzpair` override (identity in the
      plain solvers, `1/nu + sigma` in the shift solvers, …) -/
  backTransform : List ρ → List ρ
  /-- index vector of `sort_ritzpair(sort_rule)` over the first `nev` values (throws `invalid_argument` for unsupported rules) -/
  sortIdx : Int → List ρ → Nat → Except Exn (List Nat)
  /-- `m_fac.matrix_V() * ritz_vec_conv`, column by column -/
  assemble : φ → κ → ω

/-- all data members of `HermEigsBase` / `GenEigsBase` that are not constants -/
structure St (φ ρ ε κ : Type) where
  fac : φ
  ritzVal : List ρ
  ritzVec : List κ
  ritzEst : List ε
  ritzConv : List Bool
  nmatop : Nat
  niter : Nat
  info : Info

section
variable {φ ρ ε κ β τ ω : Type} (K : Kern φ ρ ε κ β τ ω) (c : Cfg)

/-- state right after the constructor (Eigen members are default-constructed: size 0) -/
def construct (fac0 : φ) : St φ ρ ε κ :=
  { fac := fac0, ritzVal := [], ritzVec := [], ritzEst := [], ritzConv := [], nmatop := 0, niter := 0, info := .notComputed }

/-- `init(init_resid)`.  Note what it does NOT touch: `m_info`. -/
def init (v0 : β) (s : St φ ρ ε κ) : St φ ρ ε κ × Option Exn :=
  let r := K.facInit v0 s.fac
  ({ fac := r.fac,
     ritzVal := List.replicate c.ncv K.zeroρ,
     ritzVec := List.replicate c.nev K.zeroκ,
     ritzEst := List.replicate c.ncv K.zeroε,
     ritzConv := List.replicate c.nev false,
     nmatop := 0 + r.ops,
     niter := 0,
     info := s.info }, r.exn)

/-- `retrieve_ritzpair(selection)` -/
def retrieve (sel : Int) (s : St φ ρ ε κ) : St φ ρ ε κ × Option Exn :=
  match K.eig s.fac with
  | .error e => (s, some e)
  | .ok (evals, lastRow, cols) =>
    match K.select sel evals c.ncv with
    | .error e => (s, some e)
    | .ok ind =>
      ({ s with
          ritzVal := (List.range c.ncv).map (fun i => evals.getD (ind.getD i 0) K.zeroρ),
          ritzEst := (List.range c.ncv).map (fun i => lastRow.getD (ind.getD i 0) K.zeroε),
          ritzVec := (List.range c.nev).map (fun i => cols.getD (ind.getD i 0) K.zeroκ) }, none)

/-- the flags `num_converged(tol)` stores in `m_ritz_conv` (always exactly `nev` of them) -/
def convFlags (tol : τ) (s : St φ ρ ε κ) : List Bool :=
  (List.range c.nev).map (fun j => K.convTest tol s.fac (s.ritzVal.getD j K.zeroρ) (s.ritzEst.getD j K.zeroε))

/-- Eigen's `.count()` on a bool array -/
def countTrue (l : List Bool) : Nat := l.count true

/-- `restart(k, selection)` -/
def restart (k : Nat) (sel : Int) (s : St φ ρ ε κ) : St φ ρ ε κ × Option Exn :=
  if k ≥ c.ncv then (s, none) else
  let r := K.restartFac k s.ritzVal s.fac
  let s1 := { s with fac := r.fac, nmatop := s.nmatop + r.ops }
  match r.exn with
  | some e => (s1, some e)
  | none => retrieve K c sel s1

/-- result of the restart loop: state, value of the loop counter `i` at exit, value of `nconv` at exit, number of `restart`
    calls made, exception -/
structure LoopRes (φ ρ ε κ : Type) where
  st : St φ ρ ε κ
  i : Nat
  nconv : Nat
  restarts : Nat
  exn : Option Exn

/-- `for (i = 0; i < maxit; i++) { nconv = num_converged(tol); if (nconv >= nev) break; restart(nev_adjusted(nconv)); }`
    `rem` = iterations still allowed (`maxit - i`) -/
def loop (sel : Int) (tol : τ) : Nat → Nat → Nat → Nat → St φ ρ ε κ → LoopRes φ ρ ε κ
  | 0, i, nconv, nres, s => ⟨s, i, nconv, nres, none⟩
  | rem + 1, i, _, nres, s =>
    let flags := convFlags K c tol s
    let s1 := { s with ritzConv := flags }
    let nconv := countTrue flags
    if nconv ≥ c.nev then ⟨s1, i, nconv, nres, none⟩ else
    let k := K.nevAdj c nconv s1.ritzVal s1.ritzEst
    match restart K c k sel s1 with
    | (s2, some e) => ⟨s2, i, nconv, nres + 1, some e⟩
    | (s2, none) => loop sel tol rem (i + 1) nconv (nres + 1) s2

/-- replace the first `k` entries of `l` by `f (l.take k)` (what `m_ritz_val.head(nev) = …` does) -/
def mapHead {α : Type} (k : Nat) (f : List α → List α) (l : List α) : List α := (f (l.take k)).take k ++ l.drop k

/-- `sort_ritzpair(sort_rule)` including the derived-class prologue.
    New `ritz_val` has `ncv` entries of which only the first `nev` are assigned (the C++ leaves the rest uninitialised;
    the model writes zeros, and nothing reads them before the next `retrieve`). -/
def sortRitz (rule : Int) (s : St φ ρ ε κ) : St φ ρ ε κ × Option Exn :=
  let s0 := { s with ritzVal := mapHead c.nev K.backTransform s.ritzVal }
  match K.sortIdx rule s0.ritzVal c.nev with
  | .error e => (s0, some e)
  | .ok ind =>
    ({ s0 with
        ritzVal := (List.range c.ncv).map (fun i => if i < c.nev then s0.ritzVal.getD (ind.getD i 0) K.zeroρ else K.zeroρ),
        ritzVec := (List.range c.nev).map (fun i => s0.ritzVec.getD (ind.getD i 0) K.zeroκ),
        ritzConv := (List.range c.nev).map (fun i => s0.ritzConv.getD (ind.getD i 0) false) }, none)

/-- outcome of `compute`: the object state afterwards and either the return value or the exception -/
structure CompRes (φ ρ ε κ : Type) where
  st : St φ ρ ε κ
  out : Except Exn Nat
  /-- bookkeeping for the theorems: loop counter at exit and number of restarts performed -/
  i : Nat
  restarts : Nat

/-- the `if (i >= maxit) nconv = num_converged(tol);` statement after the loop: when the loop ended by exhausting `maxit`
    (in particular when `maxit = 0`) the flags are recomputed for the Ritz pairs that are actually returned -/
def refresh (tol : τ) (maxit : Nat) (L : LoopRes φ ρ ε κ) : St φ ρ ε κ × Nat :=
  if L.i ≥ maxit then ({ L.st with ritzConv := convFlags K c tol L.st }, countTrue (convFlags K c tol L.st))
  else (L.st, L.nconv)

/-- `compute(selection, maxit, tol, sorting)` -/
def compute (sel : Int) (maxit : Nat) (tol : τ) (sorting : Int) (s : St φ ρ ε κ) : CompRes φ ρ ε κ :=
  let r := K.factorize (max 1 (K.facDim s.fac)) c.ncv s.fac
  let s1 := { s with fac := r.fac, nmatop := s.nmatop + r.ops }
  match r.exn with
  | some e => ⟨s1, .error e, 0, 0⟩
  | none =>
    match retrieve K c sel s1 with
    | (s2, some e) => ⟨s2, .error e, 0, 0⟩
    | (s2, none) =>
      let L := loop K c sel tol maxit 0 0 0 s2
      match L.exn with
      | some e => ⟨L.st, .error e, L.i, L.restarts⟩
      | none =>
        let F := refresh K c tol maxit L
        match sortRitz K c sorting F.1 with
        | (s4, some e) => ⟨s4, .error e, L.i, L.restarts⟩
        | (s4, none) =>
          ⟨{ s4 with niter := s4.niter + (L.i + 1),
                     info := if F.2 ≥ c.nev then .successful else .notConverging },
            .ok (min c.nev F.2), L.i, L.restarts⟩

/-- indices `i < nev` whose flag is set, in stored order (what both accessors iterate over) -/
def convIdx (s : St φ ρ ε κ) : List Nat := (List.range c.nev).filter (fun i => s.ritzConv.getD i false)

/-- `eigenvalues()` -/
def eigenvalues (s : St φ ρ ε κ) : List ρ :=
  if countTrue s.ritzConv = 0 then [] else (convIdx c s).map (fun i => s.ritzVal.getD i K.zeroρ)

/-- `eigenvectors(nvec)`: the selected Ritz vectors (Krylov coordinates), before multiplication by `V` -/
def eigenvectorCoords (nvec : Nat) (s : St φ ρ ε κ) : List κ :=
  ((convIdx c s).take (min nvec (countTrue s.ritzConv))).map (fun i => s.ritzVec.getD i K.zeroκ)

/-- `eigenvectors(nvec)` -/
def eigenvectors (nvec : Nat) (s : St φ ρ ε κ) : List ω := (eigenvectorCoords K c nvec s).map (K.assemble s.fac)

/-- one call of the public interface -/
inductive Call (β τ : Type) where
  | init (v0 : β)
  | compute (sel : Int) (maxit : Nat) (tol : τ) (sorting : Int)

/-- run a call, ignoring the return value (histories) -/
def step (s : St φ ρ ε κ) : Call β τ → St φ ρ ε κ
  | .init v0 => (init K c v0 s).1
  | .compute sel maxit tol sorting => (compute K c sel maxit tol sorting s).st

def run (s : St φ ρ ε κ) (h : List (Call β τ)) : St φ ρ ε κ := h.foldl (step K c) s

end
end Orch
