/-
  Par — concurrent execution of independent solver runs (C20).  Core Lean only (the driver links this file).

  Two presentations of the same situation, both executable:

  * **typed**: thread `i` owns a private state of type `σ i`; all threads read one shared immutable value `sh : S`.
    An action of thread `i` is a function `S → σ i → σ i`; a global trace is a list of thread-labelled actions; running a
    trace updates only the acting thread's component.  Interleavings are given by the inductive relation `Merge`.
  * **memory**: one global store `Loc → Val`; thread `i` owns the location set `priv i`; `shared` is a set of locations
    nobody writes.  An action is an arbitrary store transformer `Mem → Mem` together with *footprint hypotheses*
    (`Local`): it changes nothing outside `priv i`, and what it writes depends only on `priv i ∪ shared`.
    This is the form in which the structural facts of `Gen.Footprint` are used: "no static-storage variable" and "no
    mutable / non-const-reference member in a shared product wrapper" say that every location a solver run writes is
    inside the objects of that run (`priv i`), and the shared wrapper and its matrix are in `shared`.

  What the model cannot exhibit: anything below the granularity of one action.  An action is atomic here; a data race
  inside an Eigen kernel, inside the allocator, or on a hidden location that the footprint extraction does not see is not
  representable.  That part is observed at run time (ThreadSanitizer harness), not proved.
-/
namespace Par

/-! ### typed presentation -/

section typed
variable {ι : Type} [DecidableEq ι] {S : Type} {σ : ι → Type}

/-- overwrite component `i` of a family of private states -/
def upd (c : (j : ι) → σ j) (i : ι) (v : σ i) : (j : ι) → σ j :=
  fun j => if h : j = i then h ▸ v else c j

/-- one action: thread `tid` transforms its own private state, reading the shared value -/
structure Act (ι : Type) (S : Type) (σ : ι → Type) where
  tid : ι
  f : S → σ tid → σ tid

/-- global step: only the acting thread's component changes -/
def stepG (sh : S) (a : Act ι S σ) (c : (j : ι) → σ j) : (j : ι) → σ j :=
  upd c a.tid (a.f sh (c a.tid))

/-- run a global trace (any interleaving is such a trace) -/
def exec (sh : S) (tr : List (Act ι S σ)) (c : (j : ι) → σ j) : (j : ι) → σ j :=
  tr.foldl (fun c a => stepG sh a c) c

/-- a thread running alone: its program is the list of its own actions -/
def runSeq {τ : Type} (sh : S) (prog : List (S → τ → τ)) (s : τ) : τ :=
  prog.foldl (fun s f => f sh s) s

/-- the actions of thread `i` inside a global trace, in order -/
def proj (i : ι) : List (Act ι S σ) → List (S → σ i → σ i)
  | [] => []
  | a :: tr => if h : a.tid = i then (h ▸ a.f) :: proj i tr else proj i tr

/-- `Merge progs tr`: the trace `tr` is an interleaving of the per-thread programs `progs` (built from the front: the
    first action of the trace is the first action of its thread's program) -/
inductive Merge : ((i : ι) → List (S → σ i → σ i)) → List (Act ι S σ) → Prop
  | nil : Merge (fun _ => []) []
  | cons (i : ι) (f : S → σ i → σ i) (progs : (i : ι) → List (S → σ i → σ i)) (tr : List (Act ι S σ)) :
      Merge progs tr → Merge (upd (σ := fun i => List (S → σ i → σ i)) progs i (f :: progs i)) (⟨i, f⟩ :: tr)

/-- the sequential schedule: the threads of `order` run one after another, each to completion -/
def seqTrace (progs : (i : ι) → List (S → σ i → σ i)) (order : List ι) : List (Act ι S σ) :=
  (order.map (fun i => (progs i).map (fun f => (⟨i, f⟩ : Act ι S σ)))).flatten

end typed

/-! ### memory presentation -/

section memory
variable {ι : Type} {Loc Val : Type}

abbrev Mem (Loc Val : Type) := Loc → Val

/-- an action of thread `tid` on the global store -/
structure MAct (ι Loc Val : Type) where
  tid : ι
  f : Mem Loc Val → Mem Loc Val

/-- ownership layout: private location sets per thread, one shared read-only set; all pairwise disjoint -/
structure Layout (ι Loc : Type) where
  priv : ι → Loc → Prop
  shared : Loc → Prop
  disj : ∀ i j l, i ≠ j → priv i l → priv j l → False
  disjS : ∀ i l, priv i l → shared l → False

/-- footprint discipline of one action: writes only the owner's private locations (frame), and what it writes is a
    function of the owner's private locations and the shared ones only (locality) -/
structure Local (L : Layout ι Loc) (a : MAct ι Loc Val) : Prop where
  frame : ∀ m l, ¬ L.priv a.tid l → a.f m l = m l
  locality : ∀ m m', (∀ l, L.priv a.tid l ∨ L.shared l → m l = m' l) → ∀ l, L.priv a.tid l → a.f m l = a.f m' l

def mexec (tr : List (MAct ι Loc Val)) (m : Mem Loc Val) : Mem Loc Val := tr.foldl (fun m a => a.f m) m

/-- the sub-trace of thread `i` -/
def mproj [DecidableEq ι] (i : ι) (tr : List (MAct ι Loc Val)) : List (MAct ι Loc Val) := tr.filter (fun a => a.tid = i)

end memory

/-! ### executable instance used by the driver: N generators stepping under a schedule -/

/-- run `sched` (a list of thread indices) over `N = states.size` private integer states with a common step function that
    also reads a shared value; out-of-range indices are ignored -/
def runSchedule (step : Int → Int → Int) (sh : Int) (sched : List Nat) (states : Array Int) : Array Int :=
  sched.foldl (fun st i => if h : i < st.size then st.set i (step sh st[i]) else st) states

/-- thread `i` alone for `k` steps -/
def runAlone (step : Int → Int → Int) (sh : Int) : Nat → Int → Int
  | 0, s => s
  | k + 1, s => runAlone step sh k (step sh s)

end Par
