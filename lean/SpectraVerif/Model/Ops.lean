/-
  C11 — executable specification of the matrix-operation wrappers of Spectra/MatOp (core Lean only, no Mathlib).

  What is Spectra's own in the wrappers, and therefore written out here:
  * which triangle of the stored matrix is read          (`symFromTri`, `hermFromTri`, `symMat`);
  * which matrix is factorized                            (`A - σI`, and `A - σB` assembled triangle-wise: `ssiAssemble`);
  * the permutation around the sparse Cholesky factor    (`permFwd`, `permBwd`, `permuteSym`, `sparseCholLower/Upper`);
  * the composite operators of MatOp/internal            (`shiftInvertOp`, `bucklingOp`, `cayleyOp`, `choleskyOp`, `regInvOp`);
  * the real part of the complex shift solve              (`cshiftBlock`: the real 2n x 2n block system);
  * error mapping                                         (`Option`: `none` = the factorization failed = the wrapper throws /
                                                           reports `NumericalIssue`).
  The Eigen decompositions themselves (LLT, SimplicialLLT, PartialPivLU, SparseLU, ConjugateGradient) and Spectra's BKLDLT
  (property C10) are represented by their specification: the reference below solves the documented system from the FULL
  documented matrix by its own unblocked Cholesky / Gaussian elimination with partial pivoting.
  Every `spec…` is `full-matrix reference ∘ symMat uplo`, which is what `c11_triangle_only` uses.
-/
import SpectraVerif.Model.Lin

namespace Ops
open Lin

/-- `Eigen::Lower` / `Eigen::Upper` template option -/
inductive Uplo where
  | lower | upper
  deriving DecidableEq, Repr

/-- `(i, j)` lies in the triangle (diagonal included) -/
@[inline] def inTri {ι : Type} [LE ι] [DecidableLE ι] (u : Uplo) (i j : ι) : Bool :=
  match u with
  | .lower => decide (j ≤ i)
  | .upper => decide (i ≤ j)

/-- the symmetric matrix a `selfadjointView<uplo>` of a real matrix denotes: entries of triangle `u`, mirrored -/
@[inline] def symFromTri {ι β : Type} [LE ι] [DecidableLE ι] (u : Uplo) (M : ι → ι → β) : ι → ι → β :=
  fun i j => if inTri u i j then M i j else M j i

/-- Hermitian version on (re, im) pairs: the mirrored entry is conjugated -/
@[inline] def hermFromTri {ι β : Type} [LE ι] [DecidableLE ι] [Neg β] (u : Uplo) (M : ι → ι → β × β) : ι → ι → β × β :=
  fun i j => if inTri u i j then M i j else ((M j i).1, -(M j i).2)

/-! ### SymShiftInvert: triangle-wise assembly of `A - σB` (SymShiftInvert.h:37-112), entry by entry -/

/-- A dense (helper `<false, BIsSparse, UploA, UploB>`): `mat.tri<UploA> = A; mat -= (B*σ).tri<UploA>` resp.
    `mat -= (B*σ).tri<UploB>().transpose()`.  Only triangle `UploA` is meaningful (BKLDLT reads `UploA`); outside of it the
    C++ matrix holds whatever the allocation held: `junk`. -/
@[inline] def ssiAssembleDenseA {ι β : Type} [LE ι] [DecidableLE ι] [Sub β] [Mul β]
    (ua ub : Uplo) (A B : ι → ι → β) (sigma : β) (junk : ι → ι → β) : ι → ι → β :=
  fun i j => if inTri ua i j then A i j - (if ua = ub then B i j * sigma else B j i * sigma) else junk i j

/-- A sparse, B dense (helper `<true, false, UploA, UploB>`): `mat.tri<UploB> = -σ*B; mat += A.tri<UploB>` resp.
    `mat += A.tri<UploA>().transpose()`; BKLDLT reads `UploB`. -/
@[inline] def ssiAssembleDenseB {ι β : Type} [LE ι] [DecidableLE ι] [Add β] [Mul β] [Neg β]
    (ua ub : Uplo) (A B : ι → ι → β) (sigma : β) (junk : ι → ι → β) : ι → ι → β :=
  fun i j => if inTri ub i j then (-sigma) * B i j + (if ua = ub then A i j else A j i) else junk i j

/-- both sparse (primary helper): `matA = A.selfadjointView<UploA>(); matB = B.selfadjointView<UploB>(); matA - σ*matB` -/
@[inline] def ssiAssembleSparse {ι β : Type} [LE ι] [DecidableLE ι] [Sub β] [Mul β]
    (ua ub : Uplo) (A B : ι → ι → β) (sigma : β) : ι → ι → β :=
  fun i j => symFromTri ua A i j - sigma * symFromTri ub B i j

/-- the four dense/sparse pairings of `SymShiftInvert<Scalar, TypeA, TypeB, …>` -/
inductive Pairing where
  | denseDense | denseSparse | sparseDense | sparseSparse
  deriving DecidableEq, Repr

/-- the full matrix that the factorization object of `SymShiftInvert::set_shift` represents -/
@[inline] def ssiMatrix {ι β : Type} [LE ι] [DecidableLE ι] [Add β] [Sub β] [Mul β] [Neg β]
    (p : Pairing) (ua ub : Uplo) (A B : ι → ι → β) (sigma : β) (junk : ι → ι → β) : ι → ι → β :=
  match p with
  | .denseDense | .denseSparse => symFromTri ua (ssiAssembleDenseA ua ub A B sigma junk)
  | .sparseDense => symFromTri ub (ssiAssembleDenseB ua ub A B sigma junk)
  | .sparseSparse => ssiAssembleSparse ua ub A B sigma

/-! ### complex shift: `Re[(A - (a+bi) I)⁻¹ x]` through the real block system
      `[[A - aI, bI], [-bI, A - aI]] [u; v] = [x; 0]`  (u + iv is the complex solution, u its real part) -/
@[inline] def cshiftBlock {β : Type} [Sub β] [Neg β] (zero : β) (n : Nat) (A : Nat → Nat → β) (a b : β) : Nat → Nat → β :=
  fun i j =>
    if i < n then
      (if j < n then (if i = j then A i j - a else A i j) else (if j - n = i then b else zero))
    else
      (if j < n then (if i - n = j then -b else zero) else (if i = j then A (i - n) (j - n) - a else A (i - n) (j - n)))

/-! ### permutation around the sparse Cholesky factor (SparseCholesky.h:92-108)
      `p` are the indices of `m_decomp.permutationP()`: `(P x)(p i) = x i`. -/
@[inline] def permFwd {β : Type} (p : Nat → Nat) (n : Nat) (x : Nat → β) (d : β) : Nat → β :=
  fun k => match (List.range n).find? (fun i => p i == k) with
    | some i => x i
    | none => d
/-- `(P⁻¹ y) i = y (p i)` -/
@[inline] def permBwd {β : Type} (p : Nat → Nat) (y : Nat → β) : Nat → β := fun i => y (p i)

/-! ### composite operators of MatOp/internal, as compositions of their parts (any vector type `V`) -/
section composite
variable {V β : Type}
/-- SymGEigsShiftInvertOp::perform_op: `y = op(Bop(x))`  — documented `inv(A - σB) * B * x` -/
@[inline] def shiftInvertOp (op Bop : V → V) (x : V) : V := op (Bop x)
/-- SymGEigsBucklingOp::perform_op: `y = op(Bop(x))` with `Bop = K`  — documented `inv(K - σK_G) * K * x` -/
@[inline] def bucklingOp (op Bop : V → V) (x : V) : V := op (Bop x)
/-- SymGEigsCayleyOp::perform_op: `y = x + (2σ) * op(Bop(x))`  — documented `inv(A - σB) * (A + σB) * x` -/
@[inline] def cayleyOp [Add V] [SMul β V] [Mul β] [OfNat β 2] (op Bop : V → V) (sigma : β) (x : V) : V :=
  x + ((2 : β) * sigma) • op (Bop x)
/-- SymGEigsCholeskyOp::perform_op: `y = lower(op(upper(x)))`  — documented `inv(L) * A * inv(L') * x` -/
@[inline] def choleskyOp (op lower upper : V → V) (x : V) : V := lower (op (upper x))
/-- SymGEigsRegInvOp::perform_op: `y = solve(op(x))`  — documented `inv(B) * A * x` -/
@[inline] def regInvOp (op solve : V → V) (x : V) : V := solve (op x)
end composite

/-! ## executable reference on `Lin.Mat` -/
section exec
variable {α : Type} [Add α] [Sub α] [Mul α] [Div α] [Neg α] [Sc α]

/-- the full symmetric matrix denoted by triangle `u` of the stored matrix `M` -/
def symMat (u : Uplo) (M : Mat α) : Mat α := Mat.ofFn M.rows M.cols (symFromTri u (fun i j => M.get i j))

def matOfFn (n : Nat) (f : Nat → Nat → α) : Mat α := Mat.ofFn n n f

/-- `A - σ I` -/
def shifted (A : Mat α) (sigma : α) : Mat α :=
  Mat.ofFn A.rows A.cols (fun i j => if i = j then A.get i j - sigma else A.get i j)

/-- `‖A‖∞` (max row sum of absolute values) -/
def normInf (A : Mat α) : α :=
  (List.range A.rows).foldl (fun m i =>
    let s := sumFrom0 A.cols (fun j => Sc.abs (A.get i j))
    if Sc.lt m s then s else m) zero

/-- Gaussian elimination with partial pivoting on `[A | b]`; `none` iff some pivot column is exactly zero.
    (reference solver of the model; first maximal entry is the pivot) -/
def gepp (A : Mat α) (b : Vec α) : Option (Vec α) := Id.run do
  let n := A.rows
  let mut a := A
  let mut r := b
  for k in [0:n] do
    -- pivot search
    let mut p := k
    let mut best := Sc.abs (a.get k k)
    for i in [k+1:n] do
      let v := Sc.abs (a.get i k)
      if Sc.lt best v then
        p := i; best := v
    if Sc.eq best zero then return none
    if p ≠ k then
      for j in [0:n] do
        let t := a.get k j
        a := a.set k j (a.get p j)
        a := a.set p j t
      let t := vget r k
      r := vset r k (vget r p)
      r := vset r p t
    let piv := a.get k k
    for i in [k+1:n] do
      let m := a.get i k / piv
      if Sc.ne m zero then
        for j in [k:n] do
          a := a.set i j (a.get i j - m * a.get k j)
        r := vset r i (vget r i - m * vget r k)
  -- back substitution
  let mut x := r
  for kk in [0:n] do
    let k := n - 1 - kk
    let mut s := vget r k
    for j in [k+1:n] do
      s := s - a.get k j * vget x j
    x := vset x k (s / a.get k k)
  return some x

/-- inverse by `gepp` on the unit vectors -/
def inverse (A : Mat α) : Option (Mat α) := Id.run do
  let n := A.rows
  let mut inv : Mat α := Mat.zeros n n
  for j in [0:n] do
    let e : Vec α := vofFn n (fun i => if i = j then one else zero)
    match gepp A e with
    | none => return none
    | some c => inv := inv.setCol j c
  return some inv

/-- `‖A‖∞ ‖A⁻¹‖∞` (`none` if singular) -/
def condInf (A : Mat α) : Option α := (inverse A).map (fun Ai => normInf A * normInf Ai)

/-- unblocked Cholesky `A = L Lᵀ` reading the lower triangle; `none` iff a pivot `d ≤ 0` is met (Eigen LLT / SimplicialLLT
    report `NumericalIssue` under the same test) -/
def cholesky (A : Mat α) : Option (Mat α) := Id.run do
  let n := A.rows
  let mut L : Mat α := Mat.zeros n n
  for j in [0:n] do
    let mut d := A.get j j
    for k in [0:j] do
      d := d - L.get j k * L.get j k
    if Sc.le d zero then return none
    let ljj := Sc.sqrt d
    L := L.set j j ljj
    for i in [j+1:n] do
      let mut s := A.get i j
      for k in [0:j] do
        s := s - L.get i k * L.get j k
      L := L.set i j (s / ljj)
  return some L

/-- `L⁻¹ x` (forward substitution) -/
def forwardSub (L : Mat α) (x : Vec α) : Vec α := Id.run do
  let n := L.rows
  let mut y := x
  for i in [0:n] do
    let mut s := vget x i
    for k in [0:i] do
      s := s - L.get i k * vget y k
    y := vset y i (s / L.get i i)
  return y

/-- `L⁻ᵀ x` (back substitution with the transpose of the lower factor) -/
def backSubT (L : Mat α) (x : Vec α) : Vec α := Id.run do
  let n := L.rows
  let mut y := x
  for ii in [0:n] do
    let i := n - 1 - ii
    let mut s := vget x i
    for k in [i+1:n] do
      s := s - L.get k i * vget y k
    y := vset y i (s / L.get i i)
  return y

/-! ### reference of each wrapper on the FULL documented matrix -/

/-- `A x` -/
def fullProd (A : Mat α) (x : Vec α) : Vec α := A.mulVec x
/-- `(A - σI)⁻¹ x`; `none` = factorization failed -/
def fullShiftSolve (A : Mat α) (sigma : α) (x : Vec α) : Option (Vec α) := gepp (shifted A sigma) x
/-- `Re[(A - (a+bi)I)⁻¹ x]` via the real block system -/
def fullComplexShiftSolve (A : Mat α) (a b : α) (x : Vec α) : Option (Vec α) :=
  let n := A.rows
  let blk : Mat α := matOfFn (2 * n) (cshiftBlock zero n (fun i j => A.get i j) a b)
  let rhs : Vec α := vofFn (2 * n) (fun i => if i < n then vget x i else zero)
  (gepp blk rhs).map (fun z => vofFn n (fun i => vget z i))
/-- `L⁻¹ x` and `L⁻ᵀ x`, `B = L Lᵀ` -/
def fullCholLower (B : Mat α) (x : Vec α) : Option (Vec α) := (cholesky B).map (fun L => forwardSub L x)
def fullCholUpper (B : Mat α) (x : Vec α) : Option (Vec α) := (cholesky B).map (fun L => backSubT L x)
/-- `B⁻¹ x` -/
def fullSolve (B : Mat α) (x : Vec α) : Option (Vec α) := gepp B x

/-- `P B Pᵀ` for the permutation with indices `p` -/
def permuteSym (p : Array Nat) (B : Mat α) : Mat α :=
  let n := B.rows
  let q : Nat → Nat := fun k => ((List.range n).find? (fun i => p.getD i 0 == k)).getD 0
  Mat.ofFn n n (fun a b => B.get (q a) (q b))
def vpermFwd (p : Array Nat) (x : Vec α) : Vec α := vofFn x.size (permFwd (fun i => p.getD i 0) x.size (fun i => vget x i) zero)
def vpermBwd (p : Array Nat) (y : Vec α) : Vec α := vofFn y.size (permBwd (fun i => p.getD i 0) (fun i => vget y i))
/-- SparseCholesky::lower_triangular_solve: `L⁻¹ (P x)` with `L Lᵀ = P B Pᵀ` -/
def sparseCholLower (p : Array Nat) (B : Mat α) (x : Vec α) : Option (Vec α) :=
  (cholesky (permuteSym p B)).map (fun L => forwardSub L (vpermFwd p x))
/-- SparseCholesky::upper_triangular_solve: `P⁻¹ (L⁻ᵀ x)` -/
def sparseCholUpper (p : Array Nat) (B : Mat α) (x : Vec α) : Option (Vec α) :=
  (cholesky (permuteSym p B)).map (fun L => vpermBwd p (backSubT L x))

/-! ### the wrappers: `spec<Wrapper> uplo M … = full… (symMat uplo M) …` -/

/-- DenseGenMatProd / SparseGenMatProd::perform_op -/
def specGenMatProd (M : Mat α) (x : Vec α) : Vec α := fullProd M x
/-- DenseSymMatProd / SparseSymMatProd / SparseRegularInverse::perform_op (real Herm products as well) -/
def specSymMatProd (u : Uplo) (M : Mat α) (x : Vec α) : Vec α := fullProd (symMat u M) x
/-- DenseSymShiftSolve / SparseSymShiftSolve: set_shift(σ); perform_op -/
def specSymShiftSolve (u : Uplo) (M : Mat α) (sigma : α) (x : Vec α) : Option (Vec α) := fullShiftSolve (symMat u M) sigma x
/-- DenseGenRealShiftSolve / SparseGenRealShiftSolve -/
def specGenRealShiftSolve (M : Mat α) (sigma : α) (x : Vec α) : Option (Vec α) := fullShiftSolve M sigma x
/-- DenseGenComplexShiftSolve / SparseGenComplexShiftSolve -/
def specGenComplexShiftSolve (M : Mat α) (a b : α) (x : Vec α) : Option (Vec α) := fullComplexShiftSolve M a b x
/-- DenseCholesky -/
def specCholLower (u : Uplo) (M : Mat α) (x : Vec α) : Option (Vec α) := fullCholLower (symMat u M) x
def specCholUpper (u : Uplo) (M : Mat α) (x : Vec α) : Option (Vec α) := fullCholUpper (symMat u M) x
/-- SparseCholesky (`p` = the fill-reducing permutation the decomposition chose; any permutation is admissible) -/
def specSparseCholLower (u : Uplo) (p : Array Nat) (M : Mat α) (x : Vec α) : Option (Vec α) := sparseCholLower p (symMat u M) x
def specSparseCholUpper (u : Uplo) (p : Array Nat) (M : Mat α) (x : Vec α) : Option (Vec α) := sparseCholUpper p (symMat u M) x
/-- SparseRegularInverse::solve -/
def specRegularInverseSolve (u : Uplo) (M : Mat α) (x : Vec α) : Option (Vec α) := fullSolve (symMat u M) x

/-- SparseRegularInverse::solve AS CODED (after repair fae71a7): `m_cg` is an `Eigen::ConjugateGradient<SparseMatrix, Uplo>`, it
    reads the wrapper's own triangle (the generated footprint `Gen.OpsFootprint.uploUses` records the template argument). -/
def regularInverseSolveAsCoded (u : Uplo) (M : Mat α) (x : Vec α) : Option (Vec α) := fullSolve (symMat u M) x
/-- the behaviour BEFORE the repair (finding F7): `ConjugateGradient<SparseMatrix>` defaulted to `Lower` whatever `Uplo` was.
    Kept only so that the property file can show what the repaired theorem excludes. -/
def regularInverseSolveBeforeFix (_u : Uplo) (M : Mat α) (x : Vec α) : Option (Vec α) := fullSolve (symMat .lower M) x

/-- the matrix `SymShiftInvert::set_shift(σ)` factorizes, from the STORED matrices `A`, `B` (junk = 0 outside the assembled
    triangle; by `c11_shiftinvert_assembly` the junk is never read) -/
def ssiMat (p : Pairing) (ua ub : Uplo) (A B : Mat α) (sigma : α) : Mat α :=
  matOfFn A.rows (ssiMatrix p ua ub (fun i j => A.get i j) (fun i j => B.get i j) sigma (fun _ _ => zero))
/-- SymShiftInvert: set_shift(σ); perform_op -/
def specSymShiftInvert (p : Pairing) (ua ub : Uplo) (A B : Mat α) (sigma : α) (x : Vec α) : Option (Vec α) :=
  gepp (ssiMat p ua ub A B sigma) x

/-! ### Hermitian products on (re, im) pairs -/
def cmul (z w : α × α) : α × α := (z.1 * w.1 - z.2 * w.2, z.1 * w.2 + z.2 * w.1)
def cadd (z w : α × α) : α × α := (z.1 + w.1, z.2 + w.2)
/-- DenseHermMatProd / SparseHermMatProd with a complex scalar: `y = H x`, `H` the Hermitian matrix of triangle `u` -/
def specHermMatProd (u : Uplo) (n : Nat) (M : Nat → Nat → α × α) (x : Nat → α × α) : Array (α × α) :=
  Array.ofFn (n := n) (fun i =>
    (List.range n).foldl (fun acc j => cadd acc (cmul (hermFromTri u M i.val j) (x j))) (zero, zero))

end exec

/-! ### what a wrapper does to its third-party solver object (regenerated table `Gen.OpsFootprint.solverCalls`) -/

/-- one recorded use of a solver object: (wrapper class, wrapper method, solver object, solver classes, member function called, arguments as written) -/
abbrev SolverCall := String × String × String × String × String × String
namespace SolverCall
def cls (e : SolverCall) : String := e.1
def method (e : SolverCall) : String := e.2.1
def obj (e : SolverCall) : String := e.2.2.1
def kinds (e : SolverCall) : String := e.2.2.2.1
def call (e : SolverCall) : String := e.2.2.2.2.1
def args (e : SolverCall) : String := e.2.2.2.2.2
end SolverCall

/-- member functions of the solver classes that the wrappers are documented to use: factorize, status, solve, the two triangular factors and the
    permutation of a Cholesky factorization, and `isSymmetric` -/
def documentedNames : List String := ["compute", "info", "solve", "matrixL", "matrixU", "permutationP", "permutationPinv", "isSymmetric"]

/-- the documented interface, with arguments: `compute(…)` / `solve(…)` on anything; the argument-less queries; exactly ONE configuration call,
    `isSymmetric(true)` (SparseLU on a symmetric matrix: ordering on `A + Aᵀ`, NO change of the pivoting rule); and the only place where a solver
    object is handed on: `SymShiftInvert::set_shift` passes `m_solver` to its own helper -/
def documentedCall (call args : String) : Bool :=
  call == "compute" || call == "solve" ||
  ((call == "info" || call == "matrixL" || call == "matrixU" || call == "permutationP" || call == "permutationPinv") && args == "") ||
  (call == "isSymmetric" && args == "true") ||
  (call == "(use)" && args == "Helper::factorize(m_solver, m_matA, m_matB, sigma)")

/-- the settings of an `Eigen::SparseLU` object that member functions can change (SparseLU.h:158 constructor `m_symmetricmode(false),
    m_diagpivotthresh(1.0)`; :234 `isSymmetric(bool)`; :277 `setPivotThreshold(thresh)`).  `pivotThreshold = none` is the constructor's 1.0,
    i.e. partial pivoting: `pivotL` keeps the diagonal entry only if it is a largest entry of its column (`diagPivotAccepted`). -/
structure LUConfig where
  symmetricMode : Bool
  pivotThreshold : Option String
  deriving DecidableEq, Repr

def LUConfig.initial : LUConfig := ⟨false, none⟩

/-- effect of one member call -/
def LUConfig.step (c : LUConfig) (call args : String) : LUConfig :=
  if call = "isSymmetric" then { c with symmetricMode := (args == "true") }
  else if call = "setPivotThreshold" then { c with pivotThreshold := some args }
  else c

/-- effect of a history of member calls -/
def LUConfig.run (c : LUConfig) (hist : List SolverCall) : LUConfig := hist.foldl (fun c e => c.step e.call e.args) c

/-- `SparseLUImpl::pivotL` (SparseLU_pivotL.h:97-108): the diagonal entry `d` of the current column, whose largest magnitude is `pivmax`, is taken
    as the pivot iff it is non-zero and `|d| ≥ diagpivotthresh * pivmax` (otherwise the largest entry is) -/
def diagPivotAccepted {α : Type} [Mul α] [Sc α] (thresh pivmax d : α) : Bool :=
  !(Sc.eq (Sc.abs d) (Sc.ofInt 0)) && Sc.le (thresh * pivmax) (Sc.abs d)

end Ops
