/-
  C04 — executable glue between the source-translated decision kernels and the solver models, for the "which Ritz values are
  wanted / which are used as shifts" question (core Lean only: the driver links this file).

    * `genSelectIdx`   the `SortEigenvalue<Complex, Rule>` switch of `GenEigsBase::retrieve_ritzpair` as an index list
                       (`Gen.Sort.gen_select_rule` + `Gen.Sort.keyCplx` + the std::sort model), the general-family counterpart
                       of `HermSolver.argsortIdx`;
    * `wantedReal/wantedCplx`  `argsort`-then-take-k: the indices `retrieve_ritzpair` puts in the first `k` positions;
    * `hermSweep`      the shifted QR sweeps of `HermEigsBase::restart` on the projected matrix, driven by
                       `HermSolver.restartShifts` (the `H` part of `HermSolver.restartFac`);
    * `genOps/genSweep` the shift schedule of `GenEigsBase::restart` read off the translated loop body
                       (`RestartIdx.genPasses` over `Gen.Restart.genShiftSkel_step`) and the single/double shift sweeps it drives.
-/
import SpectraVerif.Model.HermSolver
import SpectraVerif.Model.RestartIdx
import SpectraVerif.Model.HessQR
import SpectraVerif.Model.DoubleShiftQR

namespace C04M
open Lin

section
variable {α : Type} [Add α] [Sub α] [Mul α] [Div α] [Neg α] [Sc α]

/-- array-as-function view of a list of complex values -/
def clistFn (l : List (α × α)) : Int → α × α := fun i => if i < 0 then (zero, zero) else l.getD i.toNat (zero, zero)

/-- order used by `SortEigenvalue<Complex, rule>`: std::sort model on the rule's key -/
def genOrder (rule : Int) (vals : List (α × α)) (n : Nat) : List Int :=
  sortIdxList (fun i j => Sc.lt (Gen.Sort.keyCplx rule (clistFn vals i)) (Gen.Sort.keyCplx rule (clistFn vals j))) (n : Int)

/-- the selection switch of `GenEigsBase::retrieve_ritzpair` -/
def genSelectIdx (rule : Int) (vals : List (α × α)) (n : Nat) : Except Orch.Exn (List Nat) :=
  if Gen.Sort.gen_select_rule rule = -1 then .error (.invalidArgument "unsupported selection rule")
  else .ok ((genOrder (Gen.Sort.gen_select_rule rule) vals n).map Int.toNat)

/-- indices of the `k` wanted values (symmetric family): `argsort(rule, vals, n)` then the first `k` -/
def wantedReal (rule : Int) (k : Nat) (vals : List α) (n : Nat) : Except Orch.Exn (List Nat) :=
  (HermSolver.argsortIdx rule vals n).map (fun l => l.take k)

def wantedCplx (rule : Int) (k : Nat) (vals : List (α × α)) (n : Nat) : Except Orch.Exn (List Nat) :=
  (genSelectIdx rule vals n).map (fun l => l.take k)

/-- the QR sweeps of `HermEigsBase::restart(k)` on `H`: one `TridiagQR` step per entry of `restartShifts`, in that order -/
def hermSweep (ncv k : Nat) (ritzVal : List α) (H : Mat α) : Mat α :=
  (HermSolver.restartShifts ncv k ritzVal).foldl (fun H mu => (QRModel.TridiagQR.compute H mu).matrix_QtHQ) H

/-- shift schedule of `GenEigsBase::restart(k)`: (position read, double shift?) per executed pass of the translated loop body -/
def genOps (ritz : List (α × α)) (ncv k : Nat) : List (Nat × Bool) :=
  let fr := Gen.Restart.genShiftSkel_frame (ncv : Int) (k : Int)     -- (early return, first loop index, loop bound, factorize_from args)
  (RestartIdx.genPasses (clistFn ritz) fr.2.2.1 fr.2.1).map (fun p => (p.i.toNat, p.double))

/-- the QR sweeps of `GenEigsBase::restart(k)` on `H`: a double shift `(s, t) = (2 Re μ, |μ|²)` for a conjugate pair, a single
    shift `Re μ` otherwise -/
def genSweep (ritz : List (α × α)) (ncv k : Nat) (H : Mat α) : Mat α :=
  (genOps ritz ncv k).foldl (fun H op =>
      let mu := clistFn ritz (op.1 : Int)
      if op.2 then (QRModel.DoubleShiftQR.compute H (Sc.ofInt 2 * mu.1) (Sc.cnorm mu)).matrix_QtHQ
      else (QRModel.UpperHessenbergQR.compute H mu.1).matrix_QtHQ) H

end
end C04M
