/-
  The three small dense eigen-solvers of C09 as OBJECTS with member state, so that whole histories
  (`compute(M1); queries; compute(M2); swap_T(X); compute(M3); …` on ONE object) can be run against the real classes.

  `Model/TridiagEigen.lean`, `Model/HessSchur.lean`, `Model/HessEigen.lean` describe one `compute` on a fresh object and
  return only the results.  Here every member the C++ keeps is a field, `compute` takes the OLD object and returns the new
  one, and each field is written exactly where the C++ `compute()` writes it:

  * `TridiagEigen::compute` (TridiagEigen.h:123-212): `m_n = rows` BEFORE the squareness test; `m_main_diag`, `m_sub_diag`,
    `m_evecs` resized and `m_evecs.setIdentity()` on every call; zero-matrix exit: `m_main_diag.setZero()`, `m_computed = true`;
    `m_computed = false` after the squareness test; iteration-limit exit: the members hold the unfinished (still scaled) iteration
    state, `m_computed` stays false (the accessors throw);  normal exit: `m_main_diag *= scale`, `m_computed = true`.
  * `UpperHessenbergSchur::compute` (UpperHessenbergSchur.h:355-420): squareness test first (nothing written), then
    `m_computed = false`, `m_n`, `m_T = mat`, `m_U = I` on every call; iteration-limit exit: unfinished `m_T`, `m_U`, `m_computed` false.
    `swap_T` / `swap_U` exchange the member with the caller's matrix, no test of `m_computed`.
  * `UpperHessenbergEigen::compute` (UpperHessenbergEigen.h:212-276): squareness test, `m_n`; zero matrix:
    `m_eivalues.setZero(m_n); m_eivec.setIdentity(m_n, m_n); m_computed = true`; else `m_schur.compute(mat / scale)`: when
    that throws only `m_computed = false` has been written besides (`m_eivalues`, `m_eivec` are still those of the PREVIOUS
    matrix, but no accessor hands them out); otherwise `m_eivalues`, `m_eivec` are rebuilt from the new Schur form.  `eigenvectors()` takes its size
    from `m_eivec.cols()`, not from `m_n`.
    Members that no sequence of public calls can read before they are overwritten are not fields: `m_matT` (swapped in from
    `m_schur` before every read) and the inner `m_schur` (its `m_T`, `m_U` are resized and assigned at the start of its next
    `compute`); the same holds for `m_sub_diag` after the zero-matrix exit (unspecified after `resize`; kept as zeros here).

  Core Lean only (the driver links this file).  Generic in the scalar like the three models it is built from.
-/
import SpectraVerif.Model.TridiagEigen
import SpectraVerif.Model.HessSchur
import SpectraVerif.Model.HessEigen

namespace C09Obj
open Lin
variable {α : Type} [Add α] [Sub α] [Mul α] [Div α] [Neg α] [Sc α]

def emptyMat : Mat α := ⟨0, 0, #[]⟩

def notComputed (cls : String) : String := "std::logic_error " ++ cls ++ ": need to call compute() first"

/-! ### TridiagEigen -/

structure Tri (α : Type) where
  n : Nat             -- m_n
  main : Vec α        -- m_main_diag
  sub : Vec α         -- m_sub_diag
  evecs : Mat α       -- m_evecs
  computed : Bool     -- m_computed

/-- default constructor: `m_n(0), m_computed(false)`, empty members -/
def Tri.fresh : Tri α := ⟨0, #[], #[], emptyMat, false⟩

/-- `compute(mat)` with a `rows × cols` argument that is not square: `m_n` is already assigned when the test throws -/
def Tri.computeNonSquare (o : Tri α) (rows : Nat) : Tri α × Option String :=
  ({ o with n := rows }, some "std::invalid_argument TridiagEigen: matrix must be square")

/-- `compute(mat)` for the `n × n` matrix with diagonal `d` and sub-diagonal `e`; second component: the exception, if any -/
def Tri.compute (o : Tri α) (n : Nat) (d e : Vec α) : Tri α × Option String :=
  let near0 : α := Sc.minPos * Sc.ofInt 10
  let scale := TridiagEigen.scaleOf d e
  if Sc.lt scale near0 then (⟨n, vzero n, vzero (n - 1), Mat.identity n, true⟩, none)
  else
    let r := TridiagEigen.core n d e
    if r.exit = TridiagEigen.Exit.done then (⟨n, vscale scale r.diag, r.sub, r.q, true⟩, none)
    else (⟨n, r.diag, r.sub, r.q, false⟩, some "std::runtime_error TridiagEigen: eigen decomposition failed")

def Tri.eigenvalues (o : Tri α) : Res (Vec α) :=
  if o.computed then Res.ok o.main else Res.throw (notComputed "TridiagEigen")
def Tri.eigenvectors (o : Tri α) : Res (Mat α) :=
  if o.computed then Res.ok o.evecs else Res.throw (notComputed "TridiagEigen")

/-! ### UpperHessenbergSchur -/

structure Sch (α : Type) where
  n : Nat
  t : Mat α
  u : Mat α
  computed : Bool

def Sch.fresh : Sch α := ⟨0, emptyMat, emptyMat, false⟩

/-- non-square argument: thrown before anything is written -/
def Sch.computeNonSquare (o : Sch α) : Sch α × Option String :=
  (o, some "std::invalid_argument UpperHessenbergSchur: matrix must be square")

def Sch.compute (o : Sch α) (n : Nat) (h : Mat α) : Sch α × Option String :=
  let r := HessSchur.core n h
  if r.exit = HessSchur.Exit.done then (⟨n, r.t, r.u, true⟩, none)
  else (⟨n, r.t, r.u, false⟩, some "std::runtime_error UpperHessenbergSchur: Schur decomposition failed")

def Sch.matrix_T (o : Sch α) : Res (Mat α) :=
  if o.computed then Res.ok o.t else Res.throw (notComputed "UpperHessenbergSchur")
def Sch.matrix_U (o : Sch α) : Res (Mat α) :=
  if o.computed then Res.ok o.u else Res.throw (notComputed "UpperHessenbergSchur")

/-- `swap_T(other)`: returns the object and the caller's matrix after the exchange -/
def Sch.swap_T (o : Sch α) (other : Mat α) : Sch α × Mat α := ({ o with t := other }, o.t)
def Sch.swap_U (o : Sch α) (other : Mat α) : Sch α × Mat α := ({ o with u := other }, o.u)

/-! ### UpperHessenbergEigen -/

structure Eig (α : Type) where
  n : Nat                  -- m_n
  evals : Vec (α × α)      -- m_eivalues
  eivec : Mat α            -- m_eivec
  computed : Bool

def Eig.fresh : Eig α := ⟨0, #[], emptyMat, false⟩

def Eig.computeNonSquare (o : Eig α) : Eig α × Option String :=
  (o, some "std::invalid_argument UpperHessenbergEigen: matrix must be square")

def Eig.compute (o : Eig α) (n : Nat) (h : Mat α) : Eig α × Option String :=
  let scale := TridiagEigen.maxAbs1 h.d
  if Sc.eq scale zero then (⟨n, Array.replicate n (zero, zero), Mat.identity n, true⟩, none) else
  let r := HessSchur.core n ⟨h.rows, h.cols, vdivs h.d scale⟩
  if r.exit = HessSchur.Exit.done then
    let ev := HessEigen.evalsOf n r.t
    let eivec := HessEigen.doComputeEigenvectors n r.t r.u ev
    (⟨n, ev.map (fun z => HessEigen.cmulReal z scale), eivec, true⟩, none)
  else
    -- `m_schur.compute` threw: only `m_n` (and the inner solver) have been written
    ({ o with n := n, computed := false }, some "std::runtime_error UpperHessenbergSchur: Schur decomposition failed")

def Eig.eigenvalues (o : Eig α) : Res (Vec (α × α)) :=
  if o.computed then Res.ok o.evals else Res.throw (notComputed "UpperHessenbergEigen")
/-- `eigenvectors()`: `Index n = m_eivec.cols()` -/
def Eig.eigenvectors (o : Eig α) : Res (List (Vec (α × α))) :=
  if o.computed then Res.ok (HessEigen.eigenvectors ⟨o.eivec.cols, o.evals, o.eivec⟩) else Res.throw (notComputed "UpperHessenbergEigen")

end C09Obj
