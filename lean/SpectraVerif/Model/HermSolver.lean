/-
  The fully numeric instance of the orchestration model for the symmetric family (`SymEigsSolver`, `SymEigsShiftSolver`, and the
  symmetric generalized solvers as far as their operator is given as a black box): `Orch.Kern` built from the executable kernel
  models — `Arnoldi.init`, `Lanczos.factorize_from`, `Arnoldi.compress_H/compress_V` (Model/Arnoldi, Model/Lanczos),
  `TridiagQR` (Model/TridiagQR), `TridiagEigen` (Model/TridiagEigen) — and from the source-translated decision kernels
  `Gen.Sort.argsort`, `Gen.Sort.herm_sort_guard`, `Gen.Restart.hermNevAdj`.

  `Orch.compute (hermKern …)` is therefore an executable model of `HermEigsBase::compute` for real scalars; at `Float` it is run by
  the driver against the real classes (same operator applications, same Ritz data, same results, bit for bit up to the final
  matrix-matrix product), and every theorem of C05/C06/C14, being about `Orch.compute K` for ALL `K`, applies to it.
  Core Lean only.
-/
import SpectraVerif.Model.Orch
import SpectraVerif.Model.Lanczos
import SpectraVerif.Model.TridiagQR
import SpectraVerif.Model.TridiagEigen
import SpectraVerif.Gen.Sort
import SpectraVerif.Gen.Restart
import SpectraVerif.Prelude.Sort

namespace HermSolver
open Lin

section
variable {α : Type} [Add α] [Sub α] [Mul α] [Div α] [Neg α] [Sc α]

/-- array-as-function view used by the translated kernels -/
def listFn (l : List α) : Int → α := fun i => if i < 0 then zero else l.getD i.toNat zero

/-- `argsort(rule, values, n)` as an index list -/
def argsortIdx (rule : Int) (vals : List α) (n : Nat) : Except Orch.Exn (List Nat) :=
  match Gen.Sort.argsort rule (listFn vals) (n : Int) with
  | .ok f => .ok ((List.range n).map (fun (i : Nat) => (f (i : Int)).toNat))
  | .throw _ => .error (.invalidArgument "unsupported selection rule")

/-- `HermEigsBase::sort_ritzpair`: the rule guard, then `argsort` -/
def hermSortIdx (rule : Int) (vals : List α) (n : Nat) : Except Orch.Exn (List Nat) :=
  match Gen.Sort.herm_sort_guard rule with
  | .throw _ => .error (.invalidArgument "unsupported sorting rule")
  | .ok _ => argsortIdx rule vals n

/-- the shifts of one restart: `m_ritz_val.tail(ncv - k)` sorted by `std::sort` with `abs(v1) > abs(v2)` (stable insertion sort
    model: exact for at most 16 shifts in libstdc++) -/
def restartShifts (ncv k : Nat) (ritzVal : List α) : List α :=
  let tail := ritzVal.drop k
  let n := ncv - k
  let lt : Int → Int → Bool := fun i j => Sc.gt (Sc.abs (listFn tail i)) (Sc.abs (listFn tail j))
  (sortIdxList lt (n : Int)).map (fun i => listFn tail i)

/-- the part of `HermEigsBase::restart` between the `k >= ncv` guard and `retrieve_ritzpair` -/
def restartFac (op : Arnoldi.Op α) (ncv k : Nat) (ritzVal : List α) (s : Arnoldi.State α) : Orch.FacRes (Arnoldi.State α) :=
  let shifts := restartShifts ncv k ritzVal
  let (s1, Q) := shifts.foldl (fun (acc : Arnoldi.State α × Mat α) mu =>
      let decomp := QRModel.TridiagQR.compute acc.1.H mu
      let Q := decomp.apply_YQ acc.2
      (Arnoldi.compress_H acc.1 decomp.matrix_QtHQ 1, Q)) (s, Mat.identity ncv)
  let s2 := Arnoldi.compress_V op s1 Q
  match Lanczos.factorize_from op s2 k ncv with
  | some s3 => ⟨s3, s3.ops - s.ops, none⟩
  | none => ⟨s2, 0, some (.invalidArgument "Arnoldi: from_k is larger than the current subspace dimension")⟩

/-- one entry of `num_converged`: `abs(est) * f_norm < tol * max(abs(theta), eps23)` -/
def convTest (eps23 : α) (tol : α) (s : Arnoldi.State α) (theta est : α) : Bool :=
  let a := Sc.abs theta
  let thresh := tol * (if Sc.lt a eps23 then eps23 else a)
  let resid := Sc.abs est * s.beta
  Sc.lt resid thresh

/-- eigen-decomposition of the projected matrix as `retrieve_ritzpair` sees it -/
def eigH (ncv : Nat) (s : Arnoldi.State α) : Except Orch.Exn (List α × List α × List (Vec α)) :=
  let d : Vec α := vofFn ncv (fun i => s.H.get i i)
  let e : Vec α := vofFn (ncv - 1) (fun i => s.H.get (i + 1) i)
  match TridiagEigen.compute ncv d e with
  | .throw _ => .error (.runtimeError "TridiagEigen: eigen decomposition failed")
  | .ok r => .ok (r.evals.toList, (List.range ncv).map (fun j => r.evecs.get (ncv - 1) j), (List.range ncv).map (fun j => r.evecs.col j))

/-- `m_fac.matrix_V() * y` -/
def assemble (ncv : Nat) (s : Arnoldi.State α) (y : Vec α) : Vec α := Arnoldi.mulVecK0 s.V ncv y

/-- the kernels of the symmetric family; `back` is the derived class's transformation of the first `nev` Ritz values
    (`id` for `SymEigsSolver`, `fun nu => 1 / nu + sigma` for `SymEigsShiftSolver`) -/
def hermKern (op : Arnoldi.Op α) (c : Orch.Cfg) (eps23 : α) (back : α → α) :
    Orch.Kern (Arnoldi.State α) α α (Vec α) (Vec α) α (Vec α) :=
  { zeroρ := zero, zeroε := zero, zeroκ := vzero c.ncv,
    facInit := fun v0 s =>
      match Arnoldi.init op { s with ops := 0 } v0 with
      | some s' => ⟨s', s'.ops, none⟩
      | none => ⟨s, 0, some (.invalidArgument "initial residual vector cannot be zero")⟩,
    factorize := fun a b s =>
      match Lanczos.factorize_from op s a b with
      | some s' => ⟨s', s'.ops - s.ops, none⟩
      | none => ⟨s, 0, some (.invalidArgument "Arnoldi: from_k is larger than the current subspace dimension")⟩,
    facDim := fun s => s.k,
    eig := eigH c.ncv,
    select := argsortIdx,
    convTest := convTest eps23,
    nevAdj := fun c nconv _ ritzEst => (Gen.Restart.hermNevAdj (c.nev : Int) (c.ncv : Int) (listFn ritzEst) (nconv : Int)).toNat,
    restartFac := fun k ritzVal s => restartFac op c.ncv k ritzVal s,
    backTransform := fun l => l.map back,
    sortIdx := hermSortIdx,
    assemble := assemble c.ncv }

end
end HermSolver
