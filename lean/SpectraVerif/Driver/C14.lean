/-
  Driver for C14: fault histories on the symmetric family, answered by the fault-aware solver model
  (`FaultOp.hermKernF` = `HermSolver.hermKern` with every operator application routed through an operator that fails at a
  chosen application index).

  request:  hermf <variant> <n> <nev> <ncv> <eps23> <near0> <eps> <sigma> <n*n operator matrix, row-major>
                  <sel> <maxit> <tol> <sort> <n bits of v0> <nf> <k_1> … <k_nf>
     For each fault index k_i in turn, ON THE SAME solver object: `init(v0); compute(args)` with the operator whose k_i-th
     application since `init` throws `UserFault(k_i)`; then, with the fault cleared, `init(v0); compute(args)` and the accessors.
  response: per faulted pair  `throw user:<k> nmatop=<m>`                         (thrown inside init), or
                              `ok nmatop=2 | throw user:<k> info=<i> niter=<j> nmatop=<m>`   (thrown inside compute), or
                              `ok nmatop=2 | ret=… info=… niter=… nmatop=…`        (fault index beyond the run: not hit);
            then the clean run in the format of Driver/C05 (`I`, `C`, `E`, `V nev`, `F` segments).

  request:  genf <variant> <n> <nev> <ncv> <eps23> <near0> <eps> <sigma> <n*n operator matrix, row-major>
                 <sel> <maxit> <tol> <sort> <n bits of v0> <nf> <k_1> … <k_nf>
     the same history on the GENERAL family (variant 0 = GenEigsSolver, 1 = GenEigsRealShiftSolver with the matrix (A - sigma I)^-1),
     answered by `FaultOpGen.genKernF` (= `GenSolver.genKern` with every operator application of `Arnoldi::init`,
     `Arnoldi::factorize_from` and the restart's re-factorization routed through the failing operator).
  response: faulted pairs as above; then the clean run in the format of Driver/C02 (`I`, `C`, `E`, `V nev`, `F` segments; complex
            eigenvalues bit-exact, eigenvectors soft).
-/
import SpectraVerif.Driver.C05
import SpectraVerif.Driver.C02
import SpectraVerif.Model.FaultOp
import SpectraVerif.Model.FaultOpGen

namespace Drv.C14
open Lin Orch

abbrev HSt := Drv.C05.HSt Float

def faultedPair (K : Kern (Arnoldi.State Float) Float Float (Vec Float) (Vec Float) Float (Vec Float)) (c : Cfg)
    (s : HSt) (v : Vec Float) (sel : Int) (maxit : Nat) (tol : Float) (sort : Int) : HSt × List String :=
  let (s1, e) := Orch.init K c v s
  match e with
  | some x => (s1, [s!"throw {x.show} nmatop={s1.nmatop}"])
  | none =>
    let r := Orch.compute K c sel maxit tol sort s1
    (r.st, [s!"ok nmatop={s1.nmatop}", match r.out with
      | .ok k => s!"ret={k} info={r.st.info.code} niter={r.st.niter} nmatop={r.st.nmatop}"
      | .error x => s!"throw {x.show} info={r.st.info.code} niter={r.st.niter} nmatop={r.st.nmatop}"])

def faultedPairG (K : Drv.C02.GKern) (c : Cfg) (s : Drv.C02.GSt) (v : Vec Float) (sel : Int) (maxit : Nat) (tol : Float) (sort : Int) :
    Drv.C02.GSt × List String :=
  let (s1, e) := Orch.init K c v s
  match e with
  | some x => (s1, [s!"throw {x.show} nmatop={s1.nmatop}"])
  | none =>
    let r := Orch.compute K c sel maxit tol sort s1
    (r.st, [s!"ok nmatop={s1.nmatop}", match r.out with
      | .ok k => s!"ret={k} info={r.st.info.code} niter={r.st.niter} nmatop={r.st.nmatop}"
      | .error x => s!"throw {x.show} info={r.st.info.code} niter={r.st.niter} nmatop={r.st.nmatop}"])

def handleGen : List String → Option String
  | variant :: n :: nev :: ncv :: eps23 :: near0 :: eps :: sigma :: rest => do
      let variant ← parseNat? variant; let n ← parseNat? n; let nev ← parseNat? nev; let ncv ← parseNat? ncv
      let eps23 ← ofBits? eps23; let near0 ← ofBits? near0; let eps ← ofBits? eps; let sigma ← ofBits? sigma
      let (mt, rest) ← takeN? (n * n) rest
      let a ← floatArr? mt
      match rest with
      | selS :: maxitS :: tolS :: sortS :: rest =>
        let sel ← parseInt? selS; let maxit ← parseNat? maxitS; let tol ← ofBits? tolS; let sort ← parseInt? sortS
        let (vt, rest) ← takeN? n rest
        let v ← floatArr? vt
        match rest with
        | nfS :: ks =>
          let nf ← parseNat? nfS
          let ks ← ks.mapM parseNat?
          if ks.length ≠ nf then none else
          let A := Arnoldi.rowMajorOp n a
          let op : Arnoldi.Op Float := { n := n, A := A, B := none }
          let c : Cfg := ⟨n, nev, ncv⟩
          let back : Drv.C02.CF → Drv.C02.CF := if variant = 1 then GenSolver.realShiftBack sigma else id
          let s0 : Drv.C02.GSt := Orch.construct (Arnoldi.State.mk0 n ncv near0 eps)
          let (s1, outs) := ks.foldl (fun (acc : Drv.C02.GSt × List String) k =>
              let KF := FaultOpGen.genKernF op (FaultOp.faultAt A k (.user k)) c eps23 back
              let (s', o) := faultedPairG KF c acc.1 v sel maxit tol sort
              (s', acc.2 ++ o)) (s0, [])
          -- the clean run goes through the SAME fault-aware kernels with an operator that never fails
          let K0 := FaultOpGen.genKernF op (FaultOp.never A) c eps23 back
          let x : Drv.C02.Ctx := { K := K0, c := c, n := n, comp := fun sel maxit tol sort s => Orch.compute K0 c sel maxit tol sort s, extra := "" }
          let calls : List (List String) := [("I" :: vt), ["C", selS, maxitS, tolS, sortS], ["E"], ["V", toString nev], ["F"]]
          let (_, outs2) ← calls.foldlM (fun (acc : Drv.C02.GSt × List String) call => do
              let (s', o) ← Drv.C02.runCall x acc.1 call
              pure (s', acc.2 ++ [o])) (s1, outs)
          pure (String.intercalate " | " outs2)
        | _ => none
      | _ => none
  | _ => none

def handle : List String → Option String
  | "genf" :: rest => handleGen rest
  | "hermf" :: variant :: n :: nev :: ncv :: eps23 :: near0 :: eps :: sigma :: rest => do
      let variant ← parseNat? variant; let n ← parseNat? n; let nev ← parseNat? nev; let ncv ← parseNat? ncv
      let eps23 ← ofBits? eps23; let near0 ← ofBits? near0; let eps ← ofBits? eps; let sigma ← ofBits? sigma
      let (mt, rest) ← takeN? (n * n) rest
      let a ← floatArr? mt
      match rest with
      | selS :: maxitS :: tolS :: sortS :: rest =>
        let sel ← parseInt? selS; let maxit ← parseNat? maxitS; let tol ← ofBits? tolS; let sort ← parseInt? sortS
        let (vt, rest) ← takeN? n rest
        let v ← floatArr? vt
        match rest with
        | nfS :: ks =>
          let nf ← parseNat? nfS
          let ks ← ks.mapM parseNat?
          if ks.length ≠ nf then none else
          let A := Arnoldi.rowMajorOp n a
          let op : Arnoldi.Op Float := { n := n, A := A, B := none }
          let c : Cfg := ⟨n, nev, ncv⟩
          let back : Float → Float := if variant = 1 then (fun nu => 1.0 / nu + sigma) else id
          let s0 : HSt := Orch.construct (Arnoldi.State.mk0 n ncv near0 eps)
          let (s1, outs) := ks.foldl (fun (acc : HSt × List String) k =>
              let KF := FaultOp.hermKernF op (FaultOp.faultAt A k (.user k)) c eps23 back
              let (s', o) := faultedPair KF c acc.1 v sel maxit tol sort
              (s', acc.2 ++ o)) (s0, [])
          -- the clean run goes through the SAME fault-aware kernels with an operator that never fails
          let K0 := FaultOp.hermKernF op (FaultOp.never A) c eps23 back
          let calls : List (List String) := [("I" :: vt), ["C", selS, maxitS, tolS, sortS], ["E"], ["V", toString nev], ["F"]]
          let (_, outs2) ← calls.foldlM (fun (acc : HSt × List String) call => do
              let (s', o) ← Drv.C05.runCall K0 c n acc.1 call
              pure (s', acc.2 ++ [o])) (s1, outs)
          pure (String.intercalate " | " outs2)
        | _ => none
      | _ => none
  | _ => none

end Drv.C14
