/-
  Driver for the C04 kernel-level requests (the solver-level `herm …` histories of C04 are answered by `drv_c05`).

  request                                                        response
    wanted  <sel> <k> <n> <n value bits>                           ok <k indices>   | throw std::invalid_argument
        real `argsort(sel, values, n)`, first k entries    vs   C04M.wantedReal  (HermSolver.argsortIdx = Gen.Sort.argsort)
    wantedc <rule> <k> <n> <2n bits: re im …>                      ok <k indices>   | throw std::invalid_argument
        `SortEigenvalue<Complex, rule>` switch of GenEigsBase::retrieve_ritzpair, first k   vs   C04M.wantedCplx
    hrestart <ncv> <k> <ncv*ncv H bits, column-major> <ncv Ritz value bits>
        real HermEigsBase::restart(k) on injected m_ritz_val: H at the "arnoldi.compress" hook   vs   C04M.hermSweep
        (= fold of TridiagQR over HermSolver.restartShifts)       mk=<k> H <ncv*ncv bits>   | early
    grestart <ncv> <k> <ncv*ncv H bits> <2 ncv Ritz value bits>
        real GenEigsBase::restart(k): H and Arnoldi::m_k at the hook   vs   C04M.genSweep (schedule = RestartIdx.genPasses over the
        translated loop body)                                      mk=<ncv - degree> H <bits>   | early
-/
import SpectraVerif.Driver.Util
import SpectraVerif.Model.C04Select

namespace Drv.C04
open Lin

def pairs : List Float → List (Float × Float)
  | a :: b :: r => (a, b) :: pairs r
  | _ => []

def showMat (M : Mat Float) : String :=
  joinSp ((List.range M.cols).flatMap (fun j => (List.range M.rows).map (fun i => fbits (M.get i j + 0.0))))

def handle : List String → Option String
  | "wanted" :: sel :: k :: n :: vals => do
      let sel ← parseInt? sel; let k ← parseNat? k; let n ← parseNat? n; let vs ← floats? vals
      if vs.length ≠ n then none else
      match C04M.wantedReal sel k vs n with
      | .ok l => pure (joinSp ("ok" :: l.map toString))
      | .error e => pure ("throw " ++ e.show)
  | "wantedc" :: rule :: k :: n :: vals => do
      let r ← parseInt? rule; let k ← parseNat? k; let n ← parseNat? n; let vs ← floats? vals
      if vs.length ≠ 2 * n then none else
      match C04M.wantedCplx r k (pairs vs) n with
      | .ok l => pure (joinSp ("ok" :: l.map toString))
      | .error e => pure ("throw " ++ e.show)
  | "hrestart" :: ncv :: k :: rest => do
      let ncv ← parseNat? ncv; let k ← parseNat? k
      let (hs, rv) ← takeN? (ncv * ncv) rest
      if rv.length ≠ ncv then none else
      let H ← floatArr? hs; let rv ← floats? rv
      if k ≥ ncv then pure "early" else
      let H' := C04M.hermSweep ncv k rv (⟨ncv, ncv, H⟩ : Mat Float)
      pure s!"mk={ncv - (HermSolver.restartShifts ncv k rv).length} H {showMat H'}"
  | "grestart" :: ncv :: k :: rest => do
      let ncv ← parseNat? ncv; let k ← parseNat? k
      let (hs, rv) ← takeN? (ncv * ncv) rest
      if rv.length ≠ 2 * ncv then none else
      let H ← floatArr? hs; let rv ← floats? rv
      if k ≥ ncv then pure "early" else
      let ritz := pairs rv
      let ops := C04M.genOps ritz ncv k
      let deg := (ops.map (fun o => if o.2 then 2 else 1)).sum
      let H' := C04M.genSweep ritz ncv k (⟨ncv, ncv, H⟩ : Mat Float)
      pure s!"mk={ncv - deg} H {showMat H'}"
  | _ => none

end Drv.C04
