import SpectraVerif.Driver.Util
import SpectraVerif.Gen.Restart
import SpectraVerif.Model.RestartIdx
/-
  C13 driver.  Requests (all floats as decimal UInt64 bit patterns):
    hnev  nev ncv zmask zbits nzbits                  -> hermNevAdj for nconv = 0..nev          (est[i] = z if bit i of zmask else nz)
    gnev  nev ncv zmask zbits nzbits pat are aim      -> genNevAdj for nconv = 0..nev  (est[i] = (v,v); val from pat)
    hnevh nev ncv zbits nzbits                        -> hash over all zero-masks on positions nev..ncv-1 and nconv = 0..nev
    gnevh nev ncv zbits nzbits pat are aim            -> same for the general function
    hshift ncv k                                      -> index program of HermEigsBase::restart
    gshift ncv k pat are aim                          -> index program of GenEigsBase::restart
    hops / gops nev ncv maxit bd0mask ; nconv bdmask est.. [val..] ; ...   -> operator-call skeleton of compute on recorded oracles
    cshift nev cmask                                  -> call/write skeleton of GenEigsComplexShiftSolver::sort_ritzpair
  pattern letters: r real (1.5,0) | a (are,aim) | c conj a | b (aim,are) | d conj b | s real (are,0) (same real part as a)
-/
namespace Drv.C13
open Gen.Restart RestartIdx

def bit (m : Nat) (i : Int) : Bool := if i < 0 then false else m.testBit i.toNat

def patVal (are aim : Float) (c : Char) : Float × Float :=
  if c = 'a' then (are, aim) else if c = 'c' then (are, -aim) else if c = 'b' then (aim, are)
  else if c = 'd' then (aim, -are) else if c = 's' then (are, 0.0) else (1.5, 0.0)

def patFn (are aim : Float) (p : String) : Int → Float × Float :=
  fnOfArray ((1.5 : Float), (0.0 : Float)) ((p.toList.map (patVal are aim)).toArray)

def hashStep (h : Nat) (v : Int) : Nat := (h * 31 + (v + 1000).toNat) % 4294967291

def showStop : Stop → String
  | .none => "none" | .oobRead r => s!"oob:{r}" | .facThrow => "facthrow"

def showBuf : Buf → String
  | .user => "U" | .vcol j => s!"V{j}" | .w => "W" | .f => "F" | .tmp => "T" | .probeIn c => s!"PI{c}" | .probeOut c => s!"PO{c}"

def showCalls (cs : List Call) : String := String.intercalate "," (cs.map (fun c => showBuf c.x ++ ">" ++ showBuf c.y))

def showTrace (t : ComputeTrace) (ninit : Nat) : String :=
  s!"ops={t.calls.length + ninit} iters={t.iters} conv={if t.converged then 1 else 0} stop={showStop t.stop} ks={String.intercalate "," (t.ks.map toString)} calls={showCalls (initCalls ++ t.calls)}"

/-- split a token list at ";" -/
def splitSemi (l : List String) : List (List String) :=
  let r := l.foldl (fun (acc : List (List String) × List String) t => if t = ";" then (acc.2.reverse :: acc.1, []) else (acc.1, t :: acc.2)) ([], [])
  (r.2.reverse :: r.1).reverse

def pairsOf : List Float → List (Float × Float)
  | a :: b :: r => (a, b) :: pairsOf r
  | _ => []

def hermOracle? (ncv : Nat) (sec : List String) : Option (IterOracle Float Float) := do
  match sec with
  | nconv :: bdm :: rest =>
    let nconv ← parseInt? nconv; let bdm ← parseNat? bdm; let es ← floats? rest
    if es.length ≠ ncv then none else
    pure { nconv := nconv, est := fnOfArray 0.0 es.toArray, val := fun _ => (0.0, 0.0), bd := bit bdm }
  | _ => none

def genOracle? (ncv : Nat) (sec : List String) : Option (IterOracle (Float × Float) Float) := do
  match sec with
  | nconv :: bdm :: rest =>
    let nconv ← parseInt? nconv; let bdm ← parseNat? bdm; let es ← floats? rest
    if es.length ≠ 4 * ncv then none else
    let ps := pairsOf es
    pure { nconv := nconv, est := fnOfArray (0.0, 0.0) (ps.take ncv).toArray, val := fnOfArray (0.0, 0.0) (ps.drop ncv).toArray, bd := bit bdm }
  | _ => none

def orcFn {O : Type} (d : O) (a : Array O) : Nat → O := fun i => a.getD i d

def handle : List String → Option String
  | ["hnev", nev, ncv, zm, z, nz] => do
      let nev ← parseInt? nev; let ncv ← parseInt? ncv; let zm ← parseNat? zm; let z ← ofBits? z; let nz ← ofBits? nz
      let est : Int → Float := fun i => if bit zm i then z else nz
      pure (joinSp ((List.range (nev.toNat + 1)).map (fun (c : Nat) => toString (hermNevAdj nev ncv est (c : Int)))))
  | ["gnev", nev, ncv, zm, z, nz, pat, are, aim] => do
      let nev ← parseInt? nev; let ncv ← parseInt? ncv; let zm ← parseNat? zm; let z ← ofBits? z; let nz ← ofBits? nz
      let are ← ofBits? are; let aim ← ofBits? aim
      let est : Int → Float × Float := fun i => if bit zm i then (z, z) else (nz, nz)
      let val := patFn are aim pat
      pure (joinSp ((List.range (nev.toNat + 1)).map (fun (c : Nat) =>
        toString (genNevAdj nev ncv est val (c : Int)))))
  | ["hnevh", nev, ncv, z, nz] => do
      let nev ← parseInt? nev; let ncv ← parseInt? ncv; let z ← ofBits? z; let nz ← ofBits? nz
      let nm := 2 ^ (ncv - nev).toNat
      let h := (List.range nm).foldl (fun h m =>
        let est : Int → Float := fun i => if bit m (i - nev) then z else nz
        (List.range (nev.toNat + 1)).foldl (fun h (c : Nat) => hashStep h (hermNevAdj nev ncv est (c : Int))) h) 7
      pure (toString h)
  | ["gnevh", nev, ncv, z, nz, pat, are, aim] => do
      let nev ← parseInt? nev; let ncv ← parseInt? ncv; let z ← ofBits? z; let nz ← ofBits? nz
      let are ← ofBits? are; let aim ← ofBits? aim
      let val := patFn are aim pat
      let nm := 2 ^ (ncv - nev).toNat
      let h := (List.range nm).foldl (fun h m =>
        let est : Int → Float × Float := fun i => if bit m (i - nev) then (z, z) else (nz, nz)
        (List.range (nev.toNat + 1)).foldl (fun h (c : Nat) =>
          hashStep h (genNevAdj nev ncv est val (c : Int))) h) 7
      pure (toString h)
  | ["hshift", ncv, k] => do
      let ncv ← parseInt? ncv; let k ← parseInt? k
      let sk := hermShiftSkel ncv k
      pure (if sk.1 then "early" else s!"mk={ncv - sk.2.1} from={sk.2.2.1} to={sk.2.2.2} stop={showStop (hermRestartCalls ncv k (fun _ => false)).2}")
  | ["gshift", ncv, k, pat, are, aim] => do
      let ncv ← parseInt? ncv; let k ← parseInt? k; let are ← ofBits? are; let aim ← ofBits? aim
      let val := patFn are aim pat
      let t := genRestart val ncv k
      if t.early then pure "early" else
      let st := (genRestartCalls ncv k val (fun _ => false)).2
      pure (match st with
        | .none => s!"mk={t.mkAfter} stop=none"
        | .oobRead _ => "stop=oob"
        | .facThrow => "stop=facthrow")
  | "hops" :: nev :: ncv :: maxit :: bd0 :: ";" :: rest => do
      let nev ← parseInt? nev; let ncv ← parseInt? ncv; let maxit ← parseInt? maxit; let bd0 ← parseNat? bd0
      let secs := (splitSemi rest).filter (· ≠ [])
      let os ← secs.mapM (hermOracle? ncv.toNat)
      let d : IterOracle Float Float := { nconv := nev, est := fun _ => 0.0, val := fun _ => (0.0, 0.0), bd := fun _ => false }
      pure (showTrace (hermCompute nev ncv maxit initSubspaceDim (bit bd0) (orcFn d os.toArray)) initCalls.length)
  | "gops" :: nev :: ncv :: maxit :: bd0 :: ";" :: rest => do
      let nev ← parseInt? nev; let ncv ← parseInt? ncv; let maxit ← parseInt? maxit; let bd0 ← parseNat? bd0
      let secs := (splitSemi rest).filter (· ≠ [])
      let os ← secs.mapM (genOracle? ncv.toNat)
      let d : IterOracle (Float × Float) Float := { nconv := nev, est := fun _ => (0.0, 0.0), val := fun _ => (0.0, 0.0), bd := fun _ => false }
      pure (showTrace (genCompute nev ncv maxit initSubspaceDim (bit bd0) (orcFn d os.toArray)) initCalls.length)
  | ["cshift", nev, cm] => do
      let nev ← parseInt? nev; let cm ← parseNat? cm
      let r := cshiftLoop nev (bit cm) 0
      pure s!"solves={r.1.length} writes={String.intercalate "," (r.2.map toString)}"
  | _ => none
end Drv.C13
