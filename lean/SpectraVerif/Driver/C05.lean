/-
  Driver for solver-level histories on the symmetric family (used by C05, C01, C04, C06, C14).

  request:  herm <variant> <n> <nev> <ncv> <eps23> <near0> <eps> <sigma> <n*n operator matrix, row-major> { | <call> }*
     variant 0 = SymEigsSolver (operator = A), 1 = SymEigsShiftSolver (operator = (A - sigma I)^-1 given as a matrix)
     calls:   J                    init()                     I <n bits>          init(v0)
              C <sel> <maxit> <tol> <sort>   compute(...)     E                   eigenvalues()
              V <nvec>             eigenvectors(nvec)         S                   info / num_iterations / num_operations
              F                    hash of the factorization object (k, beta, H, f, first k columns of V)
  response: one segment per call, joined by " | ".  Floats that must agree bit for bit carry a prefix (`e:`), so that the
            framework's soft rule can never apply to them.
-/
import SpectraVerif.Driver.Util
import SpectraVerif.Model.HermSolver

namespace Drv.C05
open Lin Orch

abbrev HSt := Orch.St (Arnoldi.State Float) Float Float (Vec Float)

def splitBar : List String → List (List String)
  | [] => [[]]
  | "|" :: r => [] :: splitBar r
  | t :: r => match splitBar r with
    | [] => [[t]]
    | h :: tl => (t :: h) :: tl

def fnv (h : UInt64) (x : Float) : UInt64 :=
  (List.range 8).foldl (fun h b => (h ^^^ ((x.toBits >>> (8 * b.toUInt64)) &&& 0xff)) * 1099511628211) h

def hashState (s : Arnoldi.State Float) : UInt64 :=
  let h := fnv 1469598103934665603 s.beta
  let h := (List.range s.m).foldl (fun h j => (List.range s.m).foldl (fun h i => fnv h (s.H.get i j + 0.0)) h) h
  let h := s.f.foldl (fun h x => fnv h (x + 0.0)) h
  (List.range s.k).foldl (fun h j => (List.range s.n).foldl (fun h i => fnv h (s.V.get i j + 0.0)) h) h

def exnName (e : Exn) : String := "throw " ++ e.show

def runCall (K : Kern (Arnoldi.State Float) Float Float (Vec Float) (Vec Float) Float (Vec Float)) (c : Cfg) (n : Nat)
    (s : HSt) (call : List String) : Option (HSt × String) :=
  match call with
  | ["J"] =>
      let v0 : Vec Float := Arnoldi.randomVec (α := Float) n 0
      let (s', e) := Orch.init K c v0 s
      some (s', match e with | none => s!"ok nmatop={s'.nmatop}" | some x => exnName x)
  | "I" :: vs => do
      let v ← floatArr? vs
      if v.size ≠ n then none else
      let (s', e) := Orch.init K c v s
      pure (s', match e with | none => s!"ok nmatop={s'.nmatop}" | some x => exnName x)
  | ["C", sel, maxit, tol, sort] => do
      let sel ← parseInt? sel; let maxit ← parseNat? maxit; let tol ← ofBits? tol; let sort ← parseInt? sort
      let r := Orch.compute K c sel maxit tol sort s
      pure (r.st, match r.out with
        | .ok k => s!"ret={k} info={r.st.info.code} niter={r.st.niter} nmatop={r.st.nmatop}"
        | .error x => exnName x)
  | ["E"] =>
      let ev := Orch.eigenvalues K c s
      some (s, joinSp (s!"k={ev.length}" :: ev.map (fun x => "e:" ++ fbits x)))
  | ["V", nvec] => do
      let nv ← parseNat? nvec
      let X := Orch.eigenvectors K c nv s
      pure (s, joinSp (s!"rows={n}" :: s!"cols={X.length}" :: X.map (fun col => showFloats (col.map (· + 0.0)))))
  | ["S"] => some (s, s!"info={s.info.code} niter={s.niter} nmatop={s.nmatop}")
  | ["F"] => some (s, s!"k={s.fac.k} beta=e:{fbits s.fac.beta} hash={hashState s.fac}")
  | _ => none

def handle : List String → Option String
  | "herm" :: variant :: n :: nev :: ncv :: eps23 :: near0 :: eps :: sigma :: rest => do
      let variant ← parseNat? variant; let n ← parseNat? n; let nev ← parseNat? nev; let ncv ← parseNat? ncv
      let eps23 ← ofBits? eps23; let near0 ← ofBits? near0; let eps ← ofBits? eps; let sigma ← ofBits? sigma
      let (mt, rest) ← takeN? (n * n) rest
      let a ← floatArr? mt
      let calls := match splitBar rest with | [] :: cs => cs | cs => cs
      let op : Arnoldi.Op Float := { n := n, A := Arnoldi.rowMajorOp n a, B := none }
      let c : Cfg := ⟨n, nev, ncv⟩
      let back : Float → Float := if variant = 1 then (fun nu => 1.0 / nu + sigma) else id
      let K := HermSolver.hermKern op c eps23 back
      let s0 : HSt := Orch.construct (Arnoldi.State.mk0 n ncv near0 eps)
      let (_, outs) ← calls.foldlM (fun (acc : HSt × List String) call => do
          let (s', o) ← runCall K c n acc.1 call
          pure (s', o :: acc.2)) (s0, [])
      pure (String.intercalate " | " outs.reverse)
  | _ => none

end Drv.C05
