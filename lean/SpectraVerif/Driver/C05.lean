/-
  Driver for solver-level histories on the symmetric family (used by C05, C01, C04, C06, C14).

  request:  herm <variant> <n> <nev> <ncv> <eps23> <near0> <eps> <sigma> <n*n operator matrix, row-major> { | <call> }*
     variant 0 = SymEigsSolver (operator = A), 1 = SymEigsShiftSolver (operator = (A - sigma I)^-1 given as a matrix)
     calls:   J                    init()                     I <n bits>          init(v0)
              C <sel> <maxit> <tol> <sort>   compute(...)     E                   eigenvalues()
              V <nvec>             eigenvectors(nvec)         S                   info / num_iterations / num_operations
              F                    hash of the factorization object (k, beta, H, f, first k columns of V)
  response: one segment per call, joined by " | ".  Floats that must agree bit for bit carry a prefix (`e:`), so that the
            framework's soft rule can never apply to them.
-/
import SpectraVerif.Driver.Util
import SpectraVerif.Model.HermSolver
import SpectraVerif.Prelude.ScF32
import SpectraVerif.Driver.C02
import SpectraVerif.Driver.C05c

namespace Drv.C05
open Lin Orch

/-- how a scalar type travels on the line protocol: decimal bit patterns (64-bit for `double`, 32-bit for `float`) -/
class BitsIO (α : Type) where
  ofBits? : String → Option α
  bits : α → String
  bytes : α → List UInt64          -- little-endian bytes of the bit pattern (hashing)
  normZero : α → α                 -- `x + 0.0` (canonical sign of zero)

instance : BitsIO Float where
  ofBits? := Drv.ofBits?
  bits := fbits
  bytes x := (List.range 8).map (fun b => (x.toBits >>> (8 * b.toUInt64)) &&& 0xff)
  normZero x := x + 0.0

instance : BitsIO Float32 where
  ofBits? s := (s.toNat?).map (fun n => Float32.ofBits n.toUInt32)
  bits x := toString x.toBits.toNat
  bytes x := (List.range 4).map (fun b => (x.toBits.toUInt64 >>> (8 * b.toUInt64)) &&& 0xff)
  normZero x := x + 0.0

abbrev HSt (α : Type) := Orch.St (Arnoldi.State α) α α (Vec α)

def splitBar : List String → List (List String)
  | [] => [[]]
  | "|" :: r => [] :: splitBar r
  | t :: r => match splitBar r with
    | [] => [[t]]
    | h :: tl => (t :: h) :: tl

section generic
variable {α : Type} [Add α] [Sub α] [Mul α] [Div α] [Neg α] [Sc α] [BitsIO α]

def fnv (h : UInt64) (x : α) : UInt64 :=
  (BitsIO.bytes x).foldl (fun h b => (h ^^^ b) * 1099511628211) h

def hashState (s : Arnoldi.State α) : UInt64 :=
  let nz : α → α := BitsIO.normZero
  let h := fnv 1469598103934665603 (nz s.beta)
  let h := (List.range s.m).foldl (fun h j => (List.range s.m).foldl (fun h i => fnv h (nz (s.H.get i j))) h) h
  let h := s.f.foldl (fun h x => fnv h (nz x)) h
  (List.range s.k).foldl (fun h j => (List.range s.n).foldl (fun h i => fnv h (nz (s.V.get i j))) h) h

def arr? (l : List String) : Option (Array α) := (l.mapM BitsIO.ofBits?).map List.toArray

def exnName (e : Exn) : String := "throw " ++ e.show

def runCall (K : Kern (Arnoldi.State α) α α (Vec α) (Vec α) α (Vec α)) (c : Cfg) (n : Nat)
    (s : HSt α) (call : List String) : Option (HSt α × String) :=
  match call with
  | ["J"] =>
      let v0 : Vec α := Arnoldi.randomVec (α := α) n 0
      let (s', e) := Orch.init K c v0 s
      some (s', match e with | none => s!"ok nmatop={s'.nmatop}" | some x => exnName x)
  | "I" :: vs => do
      let v ← arr? (α := α) vs
      if v.size ≠ n then none else
      let (s', e) := Orch.init K c v s
      pure (s', match e with | none => s!"ok nmatop={s'.nmatop}" | some x => exnName x)
  | ["C", sel, maxit, tol, sort] => do
      let sel ← parseInt? sel; let maxit ← parseNat? maxit; let tol ← (BitsIO.ofBits? tol : Option α); let sort ← parseInt? sort
      let r := Orch.compute K c sel maxit tol sort s
      pure (r.st, match r.out with
        | .ok k => s!"ret={k} info={r.st.info.code} niter={r.st.niter} nmatop={r.st.nmatop}"
        | .error x => exnName x)
  | ["E"] =>
      let ev := Orch.eigenvalues K c s
      some (s, joinSp (s!"k={ev.length}" :: ev.map (fun x => "e:" ++ BitsIO.bits x)))
  | ["V", nvec] => do
      let nv ← parseNat? nvec
      let X := Orch.eigenvectors K c nv s
      pure (s, joinSp (s!"rows={n}" :: s!"cols={X.length}" :: X.map (fun col => joinSp (col.toList.map (fun x => BitsIO.bits (BitsIO.normZero x))))))
  | ["S"] => some (s, s!"info={s.info.code} niter={s.niter} nmatop={s.nmatop}")
  | ["F"] => some (s, s!"k={s.fac.k} beta=e:{BitsIO.bits s.fac.beta} hash={hashState s.fac}")
  | _ => none

/-- the request body, generic in the scalar -/
def handleBody (args : List String) : Option String :=
  match args with
  | variant :: n :: nev :: ncv :: eps23 :: near0 :: eps :: sigma :: rest => do
      let variant ← parseNat? variant; let n ← parseNat? n; let nev ← parseNat? nev; let ncv ← parseNat? ncv
      let eps23 ← (BitsIO.ofBits? eps23 : Option α); let near0 ← (BitsIO.ofBits? near0 : Option α)
      let eps ← (BitsIO.ofBits? eps : Option α); let sigma ← (BitsIO.ofBits? sigma : Option α)
      let (mt, rest) ← takeN? (n * n) rest
      let a ← arr? (α := α) mt
      let calls := match splitBar rest with | [] :: cs => cs | cs => cs
      let op : Arnoldi.Op α := { n := n, A := Arnoldi.rowMajorOp n a, B := none }
      let c : Cfg := ⟨n, nev, ncv⟩
      let back : α → α := if variant = 1 then (fun nu => Lin.one / nu + sigma) else id
      let K := HermSolver.hermKern op c eps23 back
      let s0 : HSt α := Orch.construct (Arnoldi.State.mk0 n ncv near0 eps)
      let (_, outs) ← calls.foldlM (fun (acc : HSt α × List String) call => do
          let (s', o) ← runCall K c n acc.1 call
          pure (s', o :: acc.2)) (s0, [])
      pure (String.intercalate " | " outs.reverse)
  | _ => none

end generic

/-- `herm …` = `Scalar = double`, `herm32 …` = `Scalar = float` (the same generic model at `Float32`) -/
def handle : List String → Option String
  | "herm" :: rest => handleBody (α := Float) rest
  | "herm32" :: rest => handleBody (α := Float32) rest
  | "gen" :: rest => Drv.C02.handle ("gen" :: rest)      -- general family: the numeric instance `GenSolver.genKern` (Driver/C02.lean)
  | "hermc" :: rest => Drv.C05c.handle ("hermc" :: rest)  -- HermEigsSolver, Scalar = std::complex<double>: `HermCplx.hermCplxKern` (Driver/C05c.lean)
  | _ => none

end Drv.C05
