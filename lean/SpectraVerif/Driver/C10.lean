import SpectraVerif.Driver.Util
import SpectraVerif.Gen.BK
import SpectraVerif.Model.BKLDLT
import SpectraVerif.Model.BKLDLTC
namespace Drv.C10
open Gen.BK

def showRes : Res Unit → String
  | Res.ok _ => "ok"
  | Res.throw e => "throw " ++ e

/-- floats as bit patterns; every NaN as the token `nan` (payload/sign of a NaN is not part of the comparison) -/
def fb (x : Float) : String := if x.isNaN then "nan" else fbits x
def showFs (a : Array Float) : String := joinSp (a.toList.map fb)

/-- `bkldlt n uplo rowMajor alpha shift <n*n matrix memory> <n rhs>` ->
    `info ok P <perm> D <packed data> X <solution | ->`  (solution only when info = Successful) -/
def bkldlt (args : List String) : Option String := do
  match args with
  | n :: uplo :: rm :: alpha :: shift :: rest =>
    let n ← parseNat? n; let uplo ← parseInt? uplo; let rm ← parseNat? rm
    let alpha ← ofBits? alpha; let shift ← ofBits? shift
    let (m, rest) ← takeN? (n * n) rest
    let (b, rest) ← takeN? n rest
    if rest ≠ [] then none
    let src ← floatArr? m; let b ← floatArr? b
    let f := BKLDLT.compute (α := Float) src (rm == 1) (n : Int) uplo shift alpha
    let perm := joinSp (f.s.perm.toList.map toString)
    if f.info == 0 then
      let v := BKLDLT.solve_inplace f b
      pure s!"{f.info} {if v.s.ok then 1 else 0} P {perm} D {showFs f.s.data} X {showFs v.x}"
    else
      pure s!"{f.info} {if f.s.ok then 1 else 0} P {perm} D {showFs f.s.data} X -"
  | _ => none

/-- single precision: the same model at `Float32` (bit patterns are `UInt32`) -/
instance : Sc Float32 where
  abs := Float32.abs
  sqrt := Float32.sqrt
  pow := Float32.pow
  ofInt := Float32.ofInt
  lit m e := if e < 0 then OfScientific.ofScientific m true e.natAbs else OfScientific.ofScientific m false e.natAbs
  lt a b := decide (a < b)
  le a b := decide (a ≤ b)
  eq a b := a == b
  eps := Float32.ofBits 0x34000000
  minPos := Float32.ofBits 0x00800000
  cabs z := Float32.sqrt (z.1 * z.1 + z.2 * z.2)

def ofBits32? (s : String) : Option Float32 := (s.toNat?).map (fun n => Float32.ofBits n.toUInt32)
def fb32 (x : Float32) : String := if x.isNaN then "nan" else toString x.toBits.toNat
def showFs32 (a : Array Float32) : String := joinSp (a.toList.map fb32)

def bkldlt32 (args : List String) : Option String := do
  match args with
  | n :: uplo :: rm :: alpha :: shift :: rest =>
    let n ← parseNat? n; let uplo ← parseInt? uplo; let rm ← parseNat? rm
    let alpha ← ofBits32? alpha; let shift ← ofBits32? shift
    let (m, rest) ← takeN? (n * n) rest
    let (b, rest) ← takeN? n rest
    if rest ≠ [] then none
    let src ← (m.mapM ofBits32?).map List.toArray; let b ← (b.mapM ofBits32?).map List.toArray
    let f := BKLDLT.compute (α := Float32) src (rm == 1) (n : Int) uplo shift alpha
    let perm := joinSp (f.s.perm.toList.map toString)
    if f.info == 0 then
      let v := BKLDLT.solve_inplace f b
      pure s!"{f.info} {if v.s.ok then 1 else 0} P {perm} D {showFs32 f.s.data} X {showFs32 v.x}"
    else
      pure s!"{f.info} {if f.s.ok then 1 else 0} P {perm} D {showFs32 f.s.data} X -"
  | _ => none

/-- complex Hermitian: `bkldltc n uplo rowMajor alpha shift <n*n matrix memory as re im pairs> <n rhs as re im pairs>` ->
    `info ok P <perm> D <packed data, re im pairs> X <solution, re im pairs | ->` (model: Model/BKLDLTC.lean at `Float`) -/
def cxArr? (l : List String) : Option (Array (BKLDLTC.Cx Float)) := do
  let a ← floatArr? l
  if a.size % 2 ≠ 0 then none
  pure ((Array.range (a.size / 2)).map (fun i => ⟨a.getD (2 * i) 0.0, a.getD (2 * i + 1) 0.0⟩))
def showCs (a : Array (BKLDLTC.Cx Float)) : String := joinSp (a.toList.map (fun z => fb z.re ++ " " ++ fb z.im))

def bkldltc (args : List String) : Option String := do
  match args with
  | n :: uplo :: rm :: alpha :: shift :: rest =>
    let n ← parseNat? n; let uplo ← parseInt? uplo; let rm ← parseNat? rm
    let alpha ← ofBits? alpha; let shift ← ofBits? shift
    let (m, rest) ← takeN? (2 * n * n) rest
    let (b, rest) ← takeN? (2 * n) rest
    if rest ≠ [] then none
    let src ← cxArr? m; let b ← cxArr? b
    let f := BKLDLTC.compute (β := Float) src (rm == 1) (n : Int) uplo shift alpha
    let perm := joinSp (f.s.perm.toList.map toString)
    if f.info == 0 then
      let v := BKLDLTC.solve_inplace f b
      pure s!"{f.info} {if v.s.ok then 1 else 0} P {perm} D {showCs f.s.data} X {showCs v.x}"
    else
      pure s!"{f.info} {if f.s.ok then 1 else 0} P {perm} D {showCs f.s.data} X -"
  | _ => none

def handle : List String → Option String
  | "bkldlt" :: args => bkldlt args
  | "bkldltc" :: args => bkldltc args
  | "bkldlt32" :: args => bkldlt32 args
  | ["solve2", e11, e21, e22, b1, b2] => do
      let e11 ← ofBits? e11; let e21 ← ofBits? e21; let e22 ← ofBits? e22; let b1 ← ofBits? b1; let b2 ← ofBits? b2
      let (x1, x2) := solve_inplace_2x2 e11 e21 e22 b1 b2
      pure s!"{fb x1} {fb x2}"
  | ["inv2", e11, e21, e22] => do
      let e11 ← ofBits? e11; let e21 ← ofBits? e21; let e22 ← ofBits? e22
      let (a, b, c) := inverse_inplace_2x2 e11 e21 e22
      pure s!"{fb a} {fb b} {fb c}"
  | "permc" :: n :: perm => do
      let n ← parseInt? n; let p ← ints? perm
      let pc := compress_permutation (fnOfList 0 p) n
      pure (joinSp (pc.map (fun ab => s!"{ab.1}:{ab.2}")) ++ ".")
  | ["dense_guard", info] => do
      let info ← parseInt? info
      pure (showRes (dense_set_shift_guard info))
  | ["symshift_guard", info] => do
      let info ← parseInt? info
      pure (showRes (symshift_set_shift_guard (symshift_factorize_ok info)))
  | _ => none
end Drv.C10
