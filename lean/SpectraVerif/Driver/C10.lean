import SpectraVerif.Driver.Util
import SpectraVerif.Gen.BK
import SpectraVerif.Model.BKLDLT
import SpectraVerif.Model.BKLDLTC
namespace Drv.C10
open Gen.BK

def showRes : Res Unit → String
  | Res.ok _ => "ok"
  | Res.throw e => "throw " ++ e

/-- floats as bit patterns; every NaN as the token `nan` (payload/sign of a NaN is not part of the comparison) -/
def fb (x : Float) : String := if x.isNaN then "nan" else fbits x
def showFs (a : Array Float) : String := joinSp (a.toList.map fb)

/-- `bkldlt n uplo rowMajor alpha shift <n*n matrix memory> <n rhs>` ->
    `info ok P <perm> D <packed data> X <solution | ->`  (solution only when info = Successful) -/
def bkldlt (args : List String) : Option String := do
  match args with
  | n :: uplo :: rm :: alpha :: shift :: rest =>
    let n ← parseNat? n; let uplo ← parseInt? uplo; let rm ← parseNat? rm
    let alpha ← ofBits? alpha; let shift ← ofBits? shift
    let (m, rest) ← takeN? (n * n) rest
    let (b, rest) ← takeN? n rest
    if rest ≠ [] then none
    let src ← floatArr? m; let b ← floatArr? b
    let f := BKLDLT.compute (α := Float) src (rm == 1) (n : Int) uplo shift alpha
    let perm := joinSp (f.s.perm.toList.map toString)
    if f.info == 0 then
      let v := BKLDLT.solve_inplace f b
      pure s!"{f.info} {if v.s.ok then 1 else 0} P {perm} D {showFs f.s.data} X {showFs v.x}"
    else
      pure s!"{f.info} {if f.s.ok then 1 else 0} P {perm} D {showFs f.s.data} X -"
  | _ => none

/-- single precision: the same model at `Float32` (bit patterns are `UInt32`) -/
instance instScFloat32C10 : Sc Float32 where
  abs := Float32.abs
  sqrt := Float32.sqrt
  pow := Float32.pow
  ofInt := Float32.ofInt
  lit m e := if e < 0 then OfScientific.ofScientific m true e.natAbs else OfScientific.ofScientific m false e.natAbs
  lt a b := decide (a < b)
  le a b := decide (a ≤ b)
  eq a b := a == b
  eps := Float32.ofBits 0x34000000
  minPos := Float32.ofBits 0x00800000
  cabs z := Float32.sqrt (z.1 * z.1 + z.2 * z.2)

def ofBits32? (s : String) : Option Float32 := (s.toNat?).map (fun n => Float32.ofBits n.toUInt32)
def fb32 (x : Float32) : String := if x.isNaN then "nan" else toString x.toBits.toNat
def showFs32 (a : Array Float32) : String := joinSp (a.toList.map fb32)

def bkldlt32 (args : List String) : Option String := do
  match args with
  | n :: uplo :: rm :: alpha :: shift :: rest =>
    let n ← parseNat? n; let uplo ← parseInt? uplo; let rm ← parseNat? rm
    let alpha ← ofBits32? alpha; let shift ← ofBits32? shift
    let (m, rest) ← takeN? (n * n) rest
    let (b, rest) ← takeN? n rest
    if rest ≠ [] then none
    let src ← (m.mapM ofBits32?).map List.toArray; let b ← (b.mapM ofBits32?).map List.toArray
    let f := BKLDLT.compute (α := Float32) src (rm == 1) (n : Int) uplo shift alpha
    let perm := joinSp (f.s.perm.toList.map toString)
    if f.info == 0 then
      let v := BKLDLT.solve_inplace f b
      pure s!"{f.info} {if v.s.ok then 1 else 0} P {perm} D {showFs32 f.s.data} X {showFs32 v.x}"
    else
      pure s!"{f.info} {if f.s.ok then 1 else 0} P {perm} D {showFs32 f.s.data} X -"
  | _ => none

/-- complex Hermitian: `bkldltc n uplo rowMajor alpha shift <n*n matrix memory as re im pairs> <n rhs as re im pairs>` ->
    `info ok P <perm> D <packed data, re im pairs> X <solution, re im pairs | ->` (model: Model/BKLDLTC.lean at `Float`) -/
def cxArr? (l : List String) : Option (Array (BKLDLTC.Cx Float)) := do
  let a ← floatArr? l
  if a.size % 2 ≠ 0 then none
  pure ((Array.range (a.size / 2)).map (fun i => ⟨a.getD (2 * i) 0.0, a.getD (2 * i + 1) 0.0⟩))
def showCs (a : Array (BKLDLTC.Cx Float)) : String := joinSp (a.toList.map (fun z => fb z.re ++ " " ++ fb z.im))

def bkldltc (args : List String) : Option String := do
  match args with
  | n :: uplo :: rm :: alpha :: shift :: rest =>
    let n ← parseNat? n; let uplo ← parseInt? uplo; let rm ← parseNat? rm
    let alpha ← ofBits? alpha; let shift ← ofBits? shift
    let (m, rest) ← takeN? (2 * n * n) rest
    let (b, rest) ← takeN? (2 * n) rest
    if rest ≠ [] then none
    let src ← cxArr? m; let b ← cxArr? b
    let f := BKLDLTC.compute (β := Float) src (rm == 1) (n : Int) uplo shift alpha
    let perm := joinSp (f.s.perm.toList.map toString)
    if f.info == 0 then
      let v := BKLDLTC.solve_inplace f b
      pure s!"{f.info} {if v.s.ok then 1 else 0} P {perm} D {showCs f.s.data} X {showCs v.x}"
    else
      pure s!"{f.info} {if f.s.ok then 1 else 0} P {perm} D {showCs f.s.data} X -"
  | _ => none

/-! ### histories on ONE object (`hist`) and on one `DenseSymShiftSolve` wrapper (`whist`)

  `hist <d|f|c> alpha  { C n uplo rowMajor shift <matrix memory> | S <rhs of the current size> }*`
      one model state is threaded through all steps (`computeFrom`: members reset as BKLDLT.h resets them, packed array only resized);
      answer: per step `C info ok P <m_perm> Q <m_permc pairs> D <packed data>` resp. `S ok X <solution>`, joined by ` | `.
  `whist n uplo rowMajor alpha <matrix memory>  { T sigma | E sigma | P <rhs> }*`   (double)
      `T` = `set_shift(sigma)`, `E` = `SymEigsShiftSolver(op, nev, ncv, sigma)` (its constructor is `op.set_shift(sigma)`), `P` = `perform_op`;
      answer: per step `ok` / `throw std::invalid_argument` / `X <y>`, joined by ` | `. -/
structure HistOps (γ ρ : Type) where
  per : Nat
  arr? : List String → Option (Array γ)
  real? : String → Option ρ
  showArr : Array γ → String
  computeFrom : BKLDLT.Fact γ → Array γ → Bool → Int → Int → ρ → ρ → BKLDLT.Fact γ
  solve : BKLDLT.Fact γ → Array γ → BKLDLT.Sv γ
  fresh : BKLDLT.Fact γ

def showPermc (pc : List (Int × Int)) : String := joinSp (pc.map (fun ab => s!"{ab.1}:{ab.2}")) ++ "."

def histSteps {γ ρ : Type} (ops : HistOps γ ρ) (alpha : ρ) : Nat → List String → BKLDLT.Fact γ → List String → Option (List String)
  | _, [], _, acc => some acc.reverse
  | 0, _ :: _, _, _ => none
  | fuel + 1, "C" :: n :: uplo :: rm :: shift :: rest, f, acc => do
      let n ← parseNat? n; let uplo ← parseInt? uplo; let rm ← parseNat? rm; let shift ← ops.real? shift
      let (m, rest) ← takeN? (ops.per * n * n) rest
      let src ← ops.arr? m
      let f' := ops.computeFrom f src (rm == 1) (n : Int) uplo shift alpha
      let perm := joinSp (f'.s.perm.toList.map toString)
      histSteps ops alpha fuel rest f' (s!"C {f'.info} {if f'.s.ok then 1 else 0} P {perm} Q {showPermc f'.permc} D {ops.showArr f'.s.data}" :: acc)
  | fuel + 1, "S" :: rest, f, acc => do
      let (b, rest) ← takeN? (ops.per * f.s.n.toNat) rest
      let b ← ops.arr? b
      let v := ops.solve f b
      histSteps ops alpha fuel rest f (s!"S {if v.s.ok then 1 else 0} X {ops.showArr v.x}" :: acc)
  | _, _, _, _ => none

def opsD : HistOps Float Float :=
  { per := 1, arr? := floatArr?, real? := ofBits?, showArr := showFs,
    computeFrom := fun f src rm n uplo shift alpha => BKLDLT.computeFrom f src rm n uplo shift alpha,
    solve := BKLDLT.solve_inplace, fresh := BKLDLT.freshFact }
def opsF : HistOps Float32 Float32 :=
  { per := 1, arr? := fun l => (l.mapM ofBits32?).map List.toArray, real? := ofBits32?, showArr := showFs32,
    computeFrom := fun f src rm n uplo shift alpha => BKLDLT.computeFrom f src rm n uplo shift alpha,
    solve := BKLDLT.solve_inplace, fresh := BKLDLT.freshFact }
def opsC : HistOps (BKLDLTC.Cx Float) Float :=
  { per := 2, arr? := cxArr?, real? := ofBits?, showArr := showCs,
    computeFrom := fun f src rm n uplo shift alpha => BKLDLTC.computeFrom f src rm n uplo shift alpha,
    solve := BKLDLTC.solve_inplace, fresh := BKLDLT.freshFact }

def hist (args : List String) : Option String := do
  match args with
  | "d" :: alpha :: rest => let alpha ← ofBits? alpha; (histSteps opsD alpha rest.length rest opsD.fresh []).map (String.intercalate " | ")
  | "f" :: alpha :: rest => let alpha ← ofBits32? alpha; (histSteps opsF alpha rest.length rest opsF.fresh []).map (String.intercalate " | ")
  | "c" :: alpha :: rest => let alpha ← ofBits? alpha; (histSteps opsC alpha rest.length rest opsC.fresh []).map (String.intercalate " | ")
  | _ => none

def whistSteps (alpha : Float) : Nat → List String → BKLDLT.DenseShift Float → List String → Option (List String)
  | _, [], _, acc => some acc.reverse
  | 0, _ :: _, _, _ => none
  | fuel + 1, tag :: sigma :: rest, w, acc =>
      if tag == "T" || tag == "E" then do
        let sigma ← ofBits? sigma
        let (r, w') := w.set_shift sigma alpha
        whistSteps alpha fuel rest w' (showRes r :: acc)
      else if tag == "P" then do
        let (b, rest) ← takeN? w.n.toNat (sigma :: rest)
        let b ← floatArr? b
        whistSteps alpha fuel rest w (("X " ++ showFs (w.perform_op b)) :: acc)
      else none
  | _, _, _, _ => none

def whist (args : List String) : Option String := do
  match args with
  | n :: uplo :: rm :: alpha :: rest =>
    let n ← parseNat? n; let uplo ← parseInt? uplo; let rm ← parseNat? rm; let alpha ← ofBits? alpha
    let (m, rest) ← takeN? (n * n) rest
    let src ← floatArr? m
    (whistSteps alpha rest.length rest (BKLDLT.DenseShift.ctor src (rm == 1) (n : Int) uplo) []).map (String.intercalate " | ")
  | _ => none

def handle : List String → Option String
  | "bkldlt" :: args => bkldlt args
  | "hist" :: args => hist args
  | "whist" :: args => whist args
  | "bkldltc" :: args => bkldltc args
  | "bkldlt32" :: args => bkldlt32 args
  | ["solve2", e11, e21, e22, b1, b2] => do
      let e11 ← ofBits? e11; let e21 ← ofBits? e21; let e22 ← ofBits? e22; let b1 ← ofBits? b1; let b2 ← ofBits? b2
      let (x1, x2) := solve_inplace_2x2 e11 e21 e22 b1 b2
      pure s!"{fb x1} {fb x2}"
  | ["inv2", e11, e21, e22] => do
      let e11 ← ofBits? e11; let e21 ← ofBits? e21; let e22 ← ofBits? e22
      let (a, b, c) := inverse_inplace_2x2 e11 e21 e22
      pure s!"{fb a} {fb b} {fb c}"
  | "permc" :: n :: perm => do
      let n ← parseInt? n; let p ← ints? perm
      let pc := compress_permutation (fnOfList 0 p) n
      pure (joinSp (pc.map (fun ab => s!"{ab.1}:{ab.2}")) ++ ".")
  | ["dense_guard", info] => do
      let info ← parseInt? info
      pure (showRes (dense_set_shift_guard info))
  | ["symshift_guard", info] => do
      let info ← parseInt? info
      pure (showRes (symshift_set_shift_guard (symshift_factorize_ok info)))
  | _ => none
end Drv.C10
