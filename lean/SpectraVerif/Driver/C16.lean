/-
  Driver for C16: runs the `PartialSVDSolver` state machine (`Model/SVD.lean`) and the `SVD*MatOp` operators at `Float`.

  The inner `SymEigsSolver` is the generic `Orch` model instantiated with a REPLAY kernel: the harness records, after every real
  `compute()`, what the inner solver holds (the first `nev` Ritz values, the convergence flags, the assembled eigenvector columns,
  whether it threw; plus the Ritz values of the final projected matrix that the selection did NOT pick, so that the model's own
  selection over all `ncv` values has something to reject) and the kernel hands exactly that to `Orch.init`/`Orch.compute`; selection and final sort are the
  source-translated `Gen.Sort.argsort` run with the rule the SVD model passes (LargestAlge), so a different rule in the C++ shows up
  as a disagreement.  Everything the SVD class itself does (m_nconv, the cache, the shape switch, column counts, sqrt, A v / σ,
  assertion outcomes) is computed by the model and compared with the real class.
-/
import SpectraVerif.Driver.Util
import SpectraVerif.Model.SVD
import SpectraVerif.Gen.Sort

namespace Drv.C16
open Lin SVD

/-- what the harness recorded from the inner solver after one `compute()` -/
structure Rec where
  exn : Nat                 -- 0: none, 1: `init()` threw, 2: `compute()` threw
  vals : List Float         -- first `nev` Ritz values as stored after the call
  others : List Float       -- the Ritz values the selection did not pick (harness-side eigenvalues of the final H; near-ties neutralised)
  flags : List Bool         -- `m_ritz_conv`
  cols : List (Vec Float)   -- `nev` entries: the assembled eigenvector for a flagged position, `#[]` otherwise
  deriving Inhabited

structure Tape where
  ncv : Nat
  cur : Rec
  rest : List Rec

def padTo {β : Type} (n : Nat) (d : β) (l : List β) : List β := l ++ List.replicate (n - l.length) d

def replayK : Orch.Kern Tape Float Bool (Vec Float) Unit Unit (Vec Float) :=
  { zeroρ := 0.0, zeroε := false, zeroκ := #[],
    facInit := fun _ t => match t.rest with
      | r :: rs => ⟨{ t with cur := r, rest := rs }, 1, if r.exn = 1 then some (.invalidArgument "init") else none⟩
      | [] => ⟨t, 0, none⟩,
    facDim := fun _ => 1,
    factorize := fun _ _ t => ⟨t, 0, if t.cur.exn = 2 then some (.runtimeError "compute") else none⟩,
    eig := fun t =>
      let last := t.cur.vals.getLastD 0.0
      .ok (padTo t.ncv last (t.cur.vals ++ t.cur.others), padTo t.ncv false t.cur.flags, padTo t.ncv #[] t.cur.cols),
    select := fun sel evals n => SVD.argsortIdx sel evals n,
    convTest := fun _ _ _ e => e,
    nevAdj := fun c _ _ _ => c.nev,
    restartFac := fun _ _ t => ⟨t, 0, none⟩,
    backTransform := id,
    sortIdx := fun rule vals n => SVD.hermSortIdx rule vals n,
    assemble := fun _ k => k }

inductive Op where
  | C (maxit : Nat)
  | S
  | U (k : Nat)
  | V (k : Nat)

/-- place the recorded columns at the flagged positions -/
def placeCols : List Bool → List (Vec Float) → List (Vec Float)
  | [], _ => []
  | true :: fs, c :: cs => c :: placeCols fs cs
  | true :: fs, [] => #[] :: placeCols fs []
  | false :: fs, cs => #[] :: placeCols fs cs

/-- split a flat list into `k` chunks of length `d` -/
def chunks {β : Type} (d : Nat) : Nat → List β → List (List β)
  | 0, _ => []
  | k + 1, l => l.take d :: chunks d k (l.drop d)

/-- parse the op list: returns ops and the records of the `C` ops in order -/
partial def parseOps (nev dim : Nat) : List String → Option (List Op × List Rec)
  | [] => some ([], [])
  | "S" :: r => do let (o, t) ← parseOps nev dim r; pure (Op.S :: o, t)
  | "U" :: k :: r => do let k ← parseNat? k; let (o, t) ← parseOps nev dim r; pure (Op.U k :: o, t)
  | "V" :: k :: r => do let k ← parseNat? k; let (o, t) ← parseOps nev dim r; pure (Op.V k :: o, t)
  | "C" :: maxit :: _tol :: exn :: r => do
      let maxit ← parseNat? maxit
      let exn ← parseNat? exn
      let (vs, r) ← takeN? nev r
      let vals ← floats? vs
      let (fs, r) ← takeN? nev r
      let flags := fs.map (· == "1")
      let (others, r) ← (match r with
        | no :: r => do
          let no ← parseNat? no
          let (os, r) ← takeN? no r
          let ov ← floats? os
          pure (ov, r)
        | [] => none)
      match r with
      | nc :: r =>
        let nc ← parseNat? nc
        let (cs, r) ← takeN? (nc * dim) r
        let cf ← floats? cs
        let cols := (chunks dim nc cf).map List.toArray
        let (o, t) ← parseOps nev dim r
        pure (Op.C maxit :: o, ⟨exn, vals, others, flags, placeCols flags cols⟩ :: t)
      | [] => none
  | _ => none

def nanBits : String := "9221120237041090560"
def showCol (c : Vec Float) : String :=
  if c.any (fun x => x.isNaN) then String.join (c.toList.map (fun _ => " " ++ nanBits))
  else String.join (c.toList.map (fun x => " " ++ fbits x))

/-- `computed`: this side is the Eigen product (the harness prints the explicit-loop product and a `prod=` verdict) -/
def showCols (rows : Nat) (computed : Bool) (r : Cols Float) : String :=
  match r with
  | .error _ => "assert"
  | .ok cs => s!"rows={rows} cols={cs.length}" ++ String.join (cs.map showCol) ++ (if computed then " prod=ok" else "")

abbrev S := SVD.St Tape Float Bool (Vec Float)

def tail (s : S) (have_ : Bool) : String :=
  (if have_ then s!"nconv={s.nconv}" else "nconv=?") ++ s!" ec={s.evecs.length}"

def runOps (c : Orch.Cfg) (A : Mat Float) : List Op → S → Bool → List String → List String
  | [], _, _, acc => acc.reverse
  | Op.C maxit :: r, s, hv, acc =>
    let (s1, out) := SVD.compute replayK c () maxit () s
    match out with
    | .ok n => runOps c A r s1 true (s!"ret={n} {tail s1 true}" :: acc)
    | .error e => runOps c A r s1 hv (s!"exn={e.show} {tail s1 hv}" :: acc)
  | Op.S :: r, s, hv, acc =>
    let sv := SVD.singular_values replayK c s
    runOps c A r s hv ((s!"len={sv.length}" ++ String.join (sv.map (fun x => " " ++ fbits x))) :: acc)
  | Op.U k :: r, s, hv, acc =>
    let (s1, out) := SVD.matrix_U replayK c A k s
    let rows := if isTall A then A.rows else c.n
    runOps c A r s1 hv (s!"{showCols rows (isTall A) out} {tail s1 hv}" :: acc)
  | Op.V k :: r, s, hv, acc =>
    let (s1, out) := SVD.matrix_V replayK c A k s
    let rows := if isTall A then c.n else A.cols
    runOps c A r s1 hv (s!"{showCols rows (!(isTall A)) out} {tail s1 hv}" :: acc)

def handle : List String → Option String
  | "svd" :: _variant :: m :: n :: ncomp :: ncv :: r => do
      let m ← parseNat? m; let n ← parseNat? n; let ncomp ← parseNat? ncomp; let ncv ← parseNat? ncv
      let (ab, r) ← takeN? (m * n) r
      let a ← floatArr? ab
      let A : Mat Float := ⟨m, n, a⟩
      let c := cfgOf m n ncomp ncv
      let (ops, recs) ← parseOps c.nev c.n r
      let tape : Tape := ⟨c.ncv, default, recs⟩
      let s0 : S := SVD.construct tape 0
      pure (String.intercalate " ; " (runOps c A ops s0 false []))
  | "op" :: kind :: _variant :: m :: n :: r => do
      let m ← parseNat? m; let n ← parseNat? n
      let (ab, r) ← takeN? (m * n) r
      let a ← floatArr? ab
      let A : Mat Float := ⟨m, n, a⟩
      let x ← floatArr? r
      let y := if kind == "T" then (tallPerformOp A x).1 else (widePerformOp A x).1
      pure (s!"dim={opDim A}" ++ String.join (y.toList.map (fun x => " " ++ fbits x)) ++ " prod=ok")
  | _ => none

end Drv.C16
