import SpectraVerif.Driver.Util
import SpectraVerif.Gen.Rand
namespace Drv.C19
open Gen.Rand

def handle : List String → Option String
  | ["rand_next", s] => do let s ← parseInt? s; pure (toString (next_long_rand s))
  | ["rand_seed", s] => do let s ← parseInt? s; pure (toString (seed_norm s))
  | ["rand_draw", s] => do
      let s ← parseInt? s
      let (s', v) := draw (α := Float) s
      pure s!"{s'} {fbits v}"
  | ["rand_seed_draw", s] => do
      let s ← parseInt? s
      let (_, v) := draw (α := Float) (seed_norm s)
      pure (fbits v)
  | ["rand_seq", s, l1, l2] => do
      -- one generator object: random_vec(v[l1]); random(); random_vec(l2); random()  =  l1 + 1 + l2 + 1 consecutive draws
      let s ← parseInt? s; let l1 ← parseNat? l1; let l2 ← parseNat? l2
      let (_, outs) := (List.range (l1 + 1 + l2 + 1)).foldl (fun (acc : Int × List String) _ =>
        let (s', v) := draw (α := Float) acc.1
        (s', fbits v :: acc.2)) (seed_norm s, [])
      pure (joinSp outs.reverse)
  | ["rand_ub", s] => do let s ← parseInt? s; pure (if next_long_rand_ub s then "1" else "0")
  | _ => none
end Drv.C19
