/-
  C08 driver: answers `givens`, `refl3`, `hqr`, `tqr`, `dsqr` requests from the models (Float instance).
  All floats travel as decimal UInt64 bit patterns.

    givens x y                          -> r c s                                  (Gen.Givens.compute_rotation)
    norm3 x1 x2 x3                      -> stable_norm3                           (Gen.Refl.stable_norm3)
    scal3 x1 x2 x3                      -> x1' x2' x3'                            (Gen.Refl.stable_scaling)
    hqr  n H[n*n] shift P[3n]           -> R[n*n] cos[n-1] sin[n-1] QtHQ[n*n] QY(p)[n] QtY(p)[n] QY(P)[3n] QtY(P)[3n] YQ(P')[3n] YQt(P')[3n]
    tqr  n T[n*n] shift P[3n]           -> same layout (R, QtHQ from the TridiagQR overrides)
    dsqr n H[n*n] s t P[3n]             -> QtHQ[n*n] nr[n] u[3n] QtY(p)[n] YQ(P')[3n]
    hqrh|tqrh n1 H1[n1*n1] s1 <hqr|tqr request>     -> the layout of the plain request, answered by ONE model object after
    dsqrh n1 H1[n1*n1] s1 t1 <dsqr request>            `compute(H1, ..)` and then `compute(H, ..)` (`recompute`); u with nr = 1 columns cleared
  where matrices are column-major, `P` is n x 3, `p` its first column, `P'` its transpose (3 x n).
-/
import SpectraVerif.Driver.Util
import SpectraVerif.Model.HessQR
import SpectraVerif.Model.TridiagQR
import SpectraVerif.Model.DoubleShiftQR

/-- `Scalar = float`: the same generic definitions at `Float32` (C `float` operations; `powf`, `sqrtf`) -/
instance instScFloat32C08 : Sc Float32 where
  abs := Float32.abs
  sqrt := Float32.sqrt
  pow := Float32.pow
  ofInt := Float32.ofInt
  lit m e := if e < 0 then OfScientific.ofScientific m true e.natAbs else OfScientific.ofScientific m false e.natAbs
  lt a b := decide (a < b)
  le a b := decide (a ≤ b)
  eq a b := a == b
  eps := Float32.ofBits 0x34000000      -- 2^-23
  minPos := Float32.ofBits 0x00800000   -- 2^-126
  cabs z := Float32.sqrt (z.1 * z.1 + z.2 * z.2)   -- not used by C08

namespace Drv.C08
open Lin QRModel

def f32bits (x : Float32) : String := toString x.toBits.toNat
def ofBits32? (s : String) : Option Float32 := (s.toNat?).map (fun n => Float32.ofBits n.toUInt32)
def f32Arr? (l : List String) : Option (Array Float32) := (l.mapM ofBits32?).map List.toArray
def show32 (a : Array Float32) : String := joinSp (a.toList.map f32bits)

def applies32 (h : UpperHessenbergQR Float32) (n : Nat) (P : Array Float32) : List String :=
  let Pm : Mat Float32 := ⟨n, 3, P⟩
  let p : Vec Float32 := P.extract 0 n
  let Pt := Pm.transpose
  [show32 (h.apply_QY p), show32 (h.apply_QtY p), show32 (h.apply_QY_mat Pm).d, show32 (h.apply_QtY_mat Pm).d,
   show32 (h.apply_YQ Pt).d, show32 (h.apply_YQt Pt).d]

/-- the `float` requests: same layouts as the `double` ones, 32-bit patterns -/
def handle32 : List String → Option String
  | ["givens32", x, y] => do
      let x ← ofBits32? x; let y ← ofBits32? y
      let r := Gen.Givens.compute_rotation x y
      pure s!"{f32bits r.1} {f32bits r.2.1} {f32bits r.2.2}"
  | "hqr32" :: n :: rest => do
      let n ← parseNat? n
      let (hs, rest) ← takeN? (n * n) rest
      let (sh, ps) ← takeN? 1 rest
      if ps.length ≠ 3 * n then none
      let H ← f32Arr? hs; let sh ← f32Arr? sh; let P ← f32Arr? ps
      let q := UpperHessenbergQR.compute (⟨n, n, H⟩ : Mat Float32) (sh.getD 0 0.0)
      pure (joinSp ([show32 q.matrix_R.d, show32 q.cos, show32 q.sin, show32 q.matrix_QtHQ.d] ++ applies32 q n P))
  | "tqr32" :: n :: rest => do
      let n ← parseNat? n
      let (hs, rest) ← takeN? (n * n) rest
      let (sh, ps) ← takeN? 1 rest
      if ps.length ≠ 3 * n then none
      let H ← f32Arr? hs; let sh ← f32Arr? sh; let P ← f32Arr? ps
      let q := TridiagQR.compute (⟨n, n, H⟩ : Mat Float32) (sh.getD 0 0.0)
      pure (joinSp ([show32 q.matrix_R.d, show32 q.cos, show32 q.sin, show32 q.matrix_QtHQ.d] ++ applies32 q.toHess n P))
  | "dsqr32" :: n :: rest => do
      let n ← parseNat? n
      let (hs, rest) ← takeN? (n * n) rest
      let (st, ps) ← takeN? 2 rest
      if ps.length ≠ 3 * n then none
      let H ← f32Arr? hs; let st ← f32Arr? st; let P ← f32Arr? ps
      let q := DoubleShiftQR.compute (⟨n, n, H⟩ : Mat Float32) (st.getD 0 0.0) (st.getD 1 0.0)
      let Pm : Mat Float32 := ⟨n, 3, P⟩
      let p : Vec Float32 := P.extract 0 n
      pure (joinSp [show32 q.matrix_QtHQ.d, joinSp (q.nr.toList.map toString), show32 q.u.d,
                    show32 (q.apply_QtY p), show32 (q.apply_YQ Pm.transpose).d])
  | _ => none

def mat (r c : Nat) (a : Array Float) : Mat Float := ⟨r, c, a⟩
/-- contents of freshly reallocated storage in the reuse histories: a NaN -/
def junk : Float := Float.ofBits 0x7ff8000000000000

def applies (h : UpperHessenbergQR Float) (n : Nat) (P : Array Float) : List String :=
  let Pm := mat n 3 P
  let p : Vec Float := P.extract 0 n
  let Pt := Pm.transpose
  [showFloats (h.apply_QY p), showFloats (h.apply_QtY p), showFloats (h.apply_QY_mat Pm).d, showFloats (h.apply_QtY_mat Pm).d,
   showFloats (h.apply_YQ Pt).d, showFloats (h.apply_YQt Pt).d]

def handle : List String → Option String
  | ["givens", x, y] => do
      let x ← ofBits? x; let y ← ofBits? y
      let r := Gen.Givens.compute_rotation x y
      pure s!"{fbits r.1} {fbits r.2.1} {fbits r.2.2}"
  | ["norm3", a, b, c] => do
      let a ← ofBits? a; let b ← ofBits? b; let c ← ofBits? c
      pure (fbits (Gen.Refl.stable_norm3 a b c))
  | ["scal3", a, b, c] => do
      let a ← ofBits? a; let b ← ofBits? b; let c ← ofBits? c
      let r := Gen.Refl.stable_scaling a b c
      pure s!"{fbits r.1} {fbits r.2.1} {fbits r.2.2}"
  | "hqr" :: n :: rest => do
      let n ← parseNat? n
      let (hs, rest) ← takeN? (n * n) rest
      let (sh, ps) ← takeN? 1 rest
      if ps.length ≠ 3 * n then none
      let H ← floatArr? hs; let sh ← floatArr? sh; let P ← floatArr? ps
      let q := UpperHessenbergQR.compute (mat n n H) (sh.getD 0 0.0)
      pure (joinSp ([showFloats q.matrix_R.d, showFloats q.cos, showFloats q.sin, showFloats q.matrix_QtHQ.d] ++ applies q n P))
  | "tqr" :: n :: rest => do
      let n ← parseNat? n
      let (hs, rest) ← takeN? (n * n) rest
      let (sh, ps) ← takeN? 1 rest
      if ps.length ≠ 3 * n then none
      let H ← floatArr? hs; let sh ← floatArr? sh; let P ← floatArr? ps
      let q := TridiagQR.compute (mat n n H) (sh.getD 0 0.0)
      pure (joinSp ([showFloats q.matrix_R.d, showFloats q.cos, showFloats q.sin, showFloats q.matrix_QtHQ.d] ++ applies q.toHess n P))
  | "dsqr" :: n :: rest => do
      let n ← parseNat? n
      let (hs, rest) ← takeN? (n * n) rest
      let (st, ps) ← takeN? 2 rest
      if ps.length ≠ 3 * n then none
      let H ← floatArr? hs; let st ← floatArr? st; let P ← floatArr? ps
      let q := DoubleShiftQR.compute (mat n n H) (st.getD 0 0.0) (st.getD 1 0.0)
      let Pm := mat n 3 P
      let p : Vec Float := P.extract 0 n
      pure (joinSp [showFloats q.matrix_QtHQ.d, joinSp (q.nr.toList.map toString), showFloats q.u.d,
                    showFloats (q.apply_QtY p), showFloats (q.apply_YQ Pm.transpose).d])
  -- object-reuse histories: ONE model object, `compute(H1, s1)` then `compute(H, s)` on it (`recompute`); reallocated storage is
  -- filled with NaN (`junk`), so a read of anything the second `compute` did not write shows up in the answer
  | "hqrh" :: n1 :: rest => do
      let n1 ← parseNat? n1
      let (h1, rest) ← takeN? (n1 * n1) rest
      let (s1, rest) ← takeN? 1 rest
      let H1 ← floatArr? h1; let s1 ← floatArr? s1
      match rest with
      | "hqr" :: n :: rest => do
          let n ← parseNat? n
          let (hs, rest) ← takeN? (n * n) rest
          let (sh, ps) ← takeN? 1 rest
          if ps.length ≠ 3 * n then none
          let H ← floatArr? hs; let sh ← floatArr? sh; let P ← floatArr? ps
          let q := (UpperHessenbergQR.compute (mat n1 n1 H1) (s1.getD 0 0.0)).recompute junk (mat n n H) (sh.getD 0 0.0)
          pure (joinSp ([showFloats q.matrix_R.d, showFloats q.cos, showFloats q.sin, showFloats q.matrix_QtHQ.d] ++ applies q n P))
      | _ => none
  | "tqrh" :: n1 :: rest => do
      let n1 ← parseNat? n1
      let (h1, rest) ← takeN? (n1 * n1) rest
      let (s1, rest) ← takeN? 1 rest
      let H1 ← floatArr? h1; let s1 ← floatArr? s1
      match rest with
      | "tqr" :: n :: rest => do
          let n ← parseNat? n
          let (hs, rest) ← takeN? (n * n) rest
          let (sh, ps) ← takeN? 1 rest
          if ps.length ≠ 3 * n then none
          let H ← floatArr? hs; let sh ← floatArr? sh; let P ← floatArr? ps
          let q := (TridiagQR.compute (mat n1 n1 H1) (s1.getD 0 0.0)).recompute junk (mat n n H) (sh.getD 0 0.0)
          pure (joinSp ([showFloats q.matrix_R.d, showFloats q.cos, showFloats q.sin, showFloats q.matrix_QtHQ.d] ++ applies q.toHess n P))
      | _ => none
  | "dsqrh" :: n1 :: rest => do
      let n1 ← parseNat? n1
      let (h1, rest) ← takeN? (n1 * n1) rest
      let (st1, rest) ← takeN? 2 rest
      let H1 ← floatArr? h1; let st1 ← floatArr? st1
      match rest with
      | "dsqr" :: n :: rest => do
          let n ← parseNat? n
          let (hs, rest) ← takeN? (n * n) rest
          let (st, ps) ← takeN? 2 rest
          if ps.length ≠ 3 * n then none
          let H ← floatArr? hs; let st ← floatArr? st; let P ← floatArr? ps
          let q := (DoubleShiftQR.compute (mat n1 n1 H1) (st1.getD 0 0.0) (st1.getD 1 0.0)).recompute junk 7 (mat n n H) (st.getD 0 0.0) (st.getD 1 0.0)
          let Pm := mat n 3 P
          let p : Vec Float := P.extract 0 n
          pure (joinSp [showFloats q.matrix_QtHQ.d, joinSp (q.nr.toList.map toString), showFloats q.uLive.d,
                        showFloats (q.apply_QtY p), showFloats (q.apply_YQ Pm.transpose).d])
      | _ => none
  | l => handle32 l

end Drv.C08
