/-
  Driver for C07: answers `arnoldi_steps` / `lanczos_steps` / `compressV` requests from the executable models
  `Model/Arnoldi.lean`, `Model/Lanczos.lean` at `Float`.

  arnoldi_steps|lanczos_steps n m <near0> <eps> hasB <A: n*n row-major> [<B: n*n row-major>] nops op…
     op ::= I <v0: n>  |  F from to  |  C knew <QtHQ: m*m col-major> <Q: m*m col-major>
     -> for every op:  "| k ops nexpand <beta> <V: first k columns> <H: m*m> <f: n>"   or   "| throw" (sequence ends)
  compressV n m k <V: n*m> <H: m*m> <f: n> <Q: m*m>   (identity inner product)
     -> "<beta> <V: first k+1 columns> <f: n>"
  All floats are decimal UInt64 bit patterns; zeros are printed as +0.
-/
import SpectraVerif.Driver.Util
import SpectraVerif.Model.Arnoldi
import SpectraVerif.Model.Lanczos

namespace Drv.C07
open Lin

abbrev P := StateT Nat (ReaderT (Array String) Option)

def tok : P String := do
  let i ← get
  let a ← read
  if h : i < a.size then set (i + 1); pure a[i] else failure
def nat : P Nat := do let t ← tok; match t.toNat? with | some n => pure n | none => failure
def flt : P Float := do let t ← tok; match t.toNat? with | some n => pure (Float.ofBits n.toUInt64) | none => failure
def flts (n : Nat) : P (Array Float) := do
  let mut a : Array Float := Array.mkEmpty n
  for _ in [0:n] do a := a.push (← flt)
  pure a

/-- bit pattern with `-0` printed as `+0` -/
def fb (x : Float) : String := if x == 0.0 then "0" else toString x.toBits.toNat

def showVec (v : Array Float) : List String := v.toList.map fb

def snapshot (s : Arnoldi.State Float) : List String :=
  ["|", toString s.k, toString s.ops, toString s.nexpand, fb s.beta]
    ++ ((List.range (s.n * s.k)).map (fun i => fb (s.V.d.getD i 0.0)))
    ++ showVec s.H.d ++ showVec s.f

partial def runOps (lanczos : Bool) (op : Arnoldi.Op Float) (nops : Nat) (s : Arnoldi.State Float) (acc : List String) :
    P (List String) := do
  if nops = 0 then return acc
  let t ← tok
  match t with
  | "I" =>
    let v0 ← flts s.n
    match Arnoldi.init op s v0 with
    | some s' => runOps lanczos op (nops - 1) s' (acc ++ snapshot s')
    | none => pure (acc ++ ["|", "throw"])
  | "F" =>
    let a ← nat; let b ← nat
    let r := if lanczos then Lanczos.factorize_from op s a b else Arnoldi.factorize_from op s a b
    match r with
    | some s' => runOps lanczos op (nops - 1) s' (acc ++ snapshot s')
    | none => pure (acc ++ ["|", "throw"])
  | "C" =>
    let knew ← nat
    let h ← flts (s.m * s.m); let q ← flts (s.m * s.m)
    let s1 := Arnoldi.compress_H s ⟨s.m, s.m, h⟩ (s.k - knew)
    let s2 := Arnoldi.compress_V op s1 ⟨s.m, s.m, q⟩
    runOps lanczos op (nops - 1) s2 (acc ++ snapshot s2)
  | _ => failure

def steps (lanczos : Bool) : P String := do
  let n ← nat; let m ← nat; let near0 ← flt; let eps ← flt; let hasB ← nat
  let a ← flts (n * n)
  let b ← if hasB = 1 then (do let b ← flts (n * n); pure (some b)) else pure none
  let op : Arnoldi.Op Float := { n := n, A := Arnoldi.rowMajorOp n a, B := b.map (fun b => Arnoldi.rowMajorOp n b) }
  let nops ← nat
  let s0 := Arnoldi.State.mk0 n m near0 eps
  let out ← runOps lanczos op nops s0 []
  pure (joinSp out)

def compressV : P String := do
  let n ← nat; let m ← nat; let k ← nat
  let v ← flts (n * m); let h ← flts (m * m); let f ← flts n; let q ← flts (m * m)
  let op : Arnoldi.Op Float := { n := n, A := id, B := none }
  let s0 := Arnoldi.State.mk0 n m 0.0 0.0
  let s : Arnoldi.State Float := { s0 with k := k, V := ⟨n, m, v⟩, H := ⟨m, m, h⟩, f := f }
  let s := Arnoldi.compress_V op s ⟨m, m, q⟩
  pure (joinSp ([fb s.beta] ++ ((List.range (n * (k + 1))).map (fun i => fb (s.V.d.getD i 0.0))) ++ showVec s.f))

def handle : List String → Option String
  | "arnoldi_steps" :: rest => ((steps false).run 0 |>.run rest.toArray).map (·.1)
  | "lanczos_steps" :: rest => ((steps true).run 0 |>.run rest.toArray).map (·.1)
  | "compressV" :: rest => (compressV.run 0 |>.run rest.toArray).map (·.1)
  | _ => none
end Drv.C07
