/-
  C11 driver: answers the harness' requests from `Model/Ops.lean` at `Float`.
  Request:  <op> <cfg> <n> <args…>      (cfg is the C++ configuration name, ignored here; floats travel as bit patterns)
  Response: `ok` followed by blocks `<scale> <y_0 … y_{n-1}>`, or `throw` (factorization failed ⇒ exception / NumericalIssue).
  `scale` is the model's own error scale (‖A‖‖x‖ for products, cond∞·‖y‖∞ for solves, …): the check accepts
  |impl - model| ≤ C·n·eps·scale, the constant C being stated in checks/c11.py.
-/
import SpectraVerif.Driver.Util
import SpectraVerif.Model.Ops
namespace Drv.C11
open Lin Ops

abbrev F := Float

def uplo? : String → Option Uplo
  | "1" => some .lower
  | "2" => some .upper
  | _ => none

def pairing? : String → Option Pairing
  | "0" => some .denseDense
  | "1" => some .denseSparse
  | "2" => some .sparseDense
  | "3" => some .sparseSparse
  | _ => none

def vecInf (v : Vec F) : F := maxAbs v

/-- take an n×n column-major matrix off the token list -/
def takeMat? (n : Nat) (l : List String) : Option (Mat F × List String) := do
  let (h, t) ← takeN? (n * n) l
  let a ← floatArr? h
  pure (⟨n, n, a⟩, t)
def takeVec? (n : Nat) (l : List String) : Option (Vec F × List String) := do
  let (h, t) ← takeN? n l
  let a ← floatArr? h
  pure (a, t)
def takeNats? (n : Nat) (l : List String) : Option (Array Nat × List String) := do
  let (h, t) ← takeN? n l
  let a ← h.mapM parseNat?
  pure (a.toArray, t)

def block (scale : F) (y : Vec F) : String := fbits scale ++ " " ++ showFloats y
def okBlocks (bs : List (F × Vec F)) : String := "ok " ++ joinSp (bs.map (fun b => block b.1 b.2))

local instance : Add (Vec F) := ⟨vadd⟩
local instance : SMul F (Vec F) := ⟨fun c v => v.map (fun a => c * a)⟩

/-- `Option`-valued parts are made total for the composites: a failed part is reported before composing -/
def orThrow (o : Option String) : Option String := some (o.getD "throw")

def handle : List String → Option String
  | "prod" :: _ :: n :: u :: rest => do
      let n ← parseNat? n
      let (M, rest) ← takeMat? n rest
      let (x, _) ← takeVec? n rest
      let S ← if u == "0" then some M else (uplo? u).map (fun u => symMat u M)
      pure (okBlocks [(normInf S * vecInf x, fullProd S x)])
  | "hprod" :: _ :: n :: u :: rest => do
      let n ← parseNat? n
      let u ← uplo? u
      let (Mr, rest) ← takeMat? n rest
      let (Mi, rest) ← takeMat? n rest
      let (xr, rest) ← takeVec? n rest
      let (xi, _) ← takeVec? n rest
      let y := specHermMatProd u n (fun i j => (Mr.get i j, Mi.get i j)) (fun j => (vget xr j, vget xi j))
      -- ‖H‖∞ ≤ ‖ |Re| + |Im| ‖∞ of the Hermitian matrix
      let Habs : Mat F := matOfFn n (fun i j => let h := hermFromTri u (fun i j => (Mr.get i j, Mi.get i j)) i j; Float.abs h.1 + Float.abs h.2)
      let sc := normInf Habs * (vecInf xr + vecInf xi)
      pure (okBlocks [(sc, y.map (·.1)), (sc, y.map (·.2))])
  | "shift" :: _ :: n :: u :: sigma :: rest => do
      let n ← parseNat? n
      let sigma ← ofBits? sigma
      let (M, rest) ← takeMat? n rest
      let (x, _) ← takeVec? n rest
      let S ← if u == "0" then some M else (uplo? u).map (fun u => symMat u M)
      orThrow do
        let y ← fullShiftSolve S sigma x
        let c ← condInf (shifted S sigma)
        pure (okBlocks [(c * vecInf y, y)])
  | "cshift" :: _ :: n :: a :: b :: rest => do
      let n ← parseNat? n
      let a ← ofBits? a
      let b ← ofBits? b
      let (M, rest) ← takeMat? n rest
      let (x, _) ← takeVec? n rest
      orThrow do
        let y ← specGenComplexShiftSolve M a b x
        let blk : Mat F := matOfFn (2 * n) (cshiftBlock zero n (fun i j => M.get i j) a b)
        let c ← condInf blk
        pure (okBlocks [(c * vecInf y, y)])
  | "chol" :: _ :: n :: u :: rest => do
      let n ← parseNat? n
      let u ← uplo? u
      let (p, rest) ← takeNats? n rest
      let (M, rest) ← takeMat? n rest
      let (x, _) ← takeVec? n rest
      orThrow do
        let lo ← specSparseCholLower u p M x
        let up ← specSparseCholUpper u p M x
        let c ← condInf (symMat u M)
        pure (okBlocks [(c * c * vecInf lo, lo), (c * c * vecInf up, up)])
  | "reginv" :: _ :: n :: u :: rest => do
      let n ← parseNat? n
      let u ← uplo? u
      let (M, rest) ← takeMat? n rest
      let (x, _) ← takeVec? n rest
      let S := symMat u M
      orThrow do
        let y ← specRegularInverseSolve u M x
        let c ← condInf S
        pure (okBlocks [(c * vecInf y, y), (normInf S * vecInf x, specSymMatProd u M x)])
  | "ssi" :: _ :: n :: p :: ua :: ub :: sigma :: rest => do
      let n ← parseNat? n
      let p ← pairing? p
      let ua ← uplo? ua
      let ub ← uplo? ub
      let sigma ← ofBits? sigma
      let (A, rest) ← takeMat? n rest
      let (B, rest) ← takeMat? n rest
      let (x, _) ← takeVec? n rest
      orThrow do
        let y ← specSymShiftInvert p ua ub A B sigma x
        let c ← condInf (ssiMat p ua ub A B sigma)
        pure (okBlocks [(c * vecInf y, y)])
  -- composites with OpType = SymShiftInvert, BOpType = a symmetric product wrapper:  kind 0 shift-invert, 1 buckling, 2 Cayley
  | "comp2" :: _ :: n :: kind :: p :: ua :: ub :: uc :: sigma :: rest => do
      let n ← parseNat? n
      let p ← pairing? p
      let ua ← uplo? ua
      let ub ← uplo? ub
      let uc ← uplo? uc
      let sigma ← ofBits? sigma
      let (A, rest) ← takeMat? n rest
      let (B, rest) ← takeMat? n rest
      let (C, rest) ← takeMat? n rest
      let (x, _) ← takeVec? n rest
      orThrow do
        let Mm := ssiMat p ua ub A B sigma
        let Mi ← inverse Mm
        let c ← condInf Mm
        -- the parts (total on this input since the inverse exists)
        let op : Vec F → Vec F := fun v => (specSymShiftInvert p ua ub A B sigma v).getD v
        let bop : Vec F → Vec F := specSymMatProd uc C
        let inner := c * normInf Mi * normInf (symMat uc C) * vecInf x
        match kind with
        | "0" => pure (okBlocks [(inner, shiftInvertOp op bop x)])
        | "1" => pure (okBlocks [(inner, bucklingOp op bop x)])
        | "2" => pure (okBlocks [(vecInf x + 2 * Float.abs sigma * inner, cayleyOp op bop sigma x)])
        | _ => none
  -- SymGEigsCholeskyOp: op = symmetric product (ua, A), Bop = (Dense|Sparse)Cholesky (ub, B, permutation p)
  | "compch" :: _ :: n :: ua :: ub :: rest => do
      let n ← parseNat? n
      let ua ← uplo? ua
      let ub ← uplo? ub
      let (p, rest) ← takeNats? n rest
      let (A, rest) ← takeMat? n rest
      let (B, rest) ← takeMat? n rest
      let (x, _) ← takeVec? n rest
      orThrow do
        let SB := symMat ub B
        let _ ← cholesky (permuteSym p SB)
        let Bi ← inverse SB
        let c ← condInf SB
        let lower : Vec F → Vec F := fun v => (specSparseCholLower ub p B v).getD v
        let upper : Vec F → Vec F := fun v => (specSparseCholUpper ub p B v).getD v
        let sc := c * c * normInf Bi * normInf (symMat ua A) * vecInf x
        pure (okBlocks [(sc, choleskyOp (specSymMatProd ua A) lower upper x)])
  -- SymGEigsRegInvOp: op = symmetric product (ua, A), Bop = SparseRegularInverse (ub, B)
  | "compri" :: _ :: n :: ua :: ub :: rest => do
      let n ← parseNat? n
      let ua ← uplo? ua
      let ub ← uplo? ub
      let (A, rest) ← takeMat? n rest
      let (B, rest) ← takeMat? n rest
      let (x, _) ← takeVec? n rest
      orThrow do
        let SB := symMat ub B
        let Bi ← inverse SB
        let c ← condInf SB
        let solve : Vec F → Vec F := fun v => (specRegularInverseSolve ub B v).getD v
        let sc := c * normInf Bi * normInf (symMat ua A) * vecInf x
        pure (okBlocks [(sc, regInvOp (specSymMatProd ua A) solve x)])
  | _ => none

end Drv.C11
