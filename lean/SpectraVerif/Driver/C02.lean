/-
  Driver for solver-level histories on the GENERAL family (C02; reusable by C04/C06/C14 for the nonsymmetric classes).

  request:  gen <variant> <n> <nev> <ncv> <eps23> <near0> <eps> <sigmar> <sigmai> <M: n*n row-major> [<P: n*n row-major>] { | <call> }*
     variant 0 = GenEigsSolver            operator M = A
             1 = GenEigsRealShiftSolver   operator M = (A - sigmar I)^-1
             2 = GenEigsComplexShiftSolver operator M = Re[(A - (sigmar + i sigmai) I)^-1]; P = (A - r I)^-1 for the real probe shift r
                 the solver installs in sort_ritzpair (present only for variant 2)
     calls:   J                    init()                     I <n bits>          init(v0)
              C <sel> <maxit> <tol> <sort>   compute(...)     E                   eigenvalues()
              V <nvec>             eigenvectors(nvec)         S                   info / num_iterations / num_operations
              F                    hash of the factorization object (k, beta, H, f, first k columns of V)
  response: one segment per call, joined by " | ".  Floats that must agree bit for bit carry a prefix (`e:`), so that the
            framework's soft rule can never apply to them; the `rows=` segment (a matrix-matrix product in the C++) is soft.

  kernel requests (complex arithmetic of the back-transformations, bit-exact):
     ckern sqrt <re> <im>                      -> std::sqrt(std::complex<double>)
     ckern roots <sigmar> <sigmai> <re> <im>   -> root1, root2 of GenEigsComplexShiftSolver::sort_ritzpair
     ckern root2 <sigmar> <sigmai> <re> <im>   -> root2 only (nu = 0: root1 = 0.5/nu is inf/NaN and never selected)
     ckern rsback <sigma> <re> <im>            -> Scalar(1) / nu + sigma
     ckern probeshift <sigmar>                 -> the probe shift
-/
import SpectraVerif.Driver.Util
import SpectraVerif.Model.GenSolver

namespace Drv.C02
open Lin Orch GenSolver

abbrev CF := Float × Float
abbrev GSt := Orch.St (Arnoldi.State Float) CF CF (Vec CF)
abbrev GKern := Kern (Arnoldi.State Float) CF CF (Vec CF) (Vec Float) Float (Vec CF)

def splitBar : List String → List (List String)
  | [] => [[]]
  | "|" :: r => [] :: splitBar r
  | t :: r => match splitBar r with
    | [] => [[t]]
    | h :: tl => (t :: h) :: tl

def fnv (h : UInt64) (x : Float) : UInt64 :=
  (List.range 8).foldl (fun h b => (h ^^^ ((x.toBits >>> (8 * b.toUInt64)) &&& 0xff)) * 1099511628211) h

def hashState (s : Arnoldi.State Float) : UInt64 :=
  let h := fnv 1469598103934665603 s.beta
  let h := (List.range s.m).foldl (fun h j => (List.range s.m).foldl (fun h i => fnv h (s.H.get i j + 0.0)) h) h
  let h := s.f.foldl (fun h x => fnv h (x + 0.0)) h
  (List.range s.k).foldl (fun h j => (List.range s.n).foldl (fun h i => fnv h (s.V.get i j + 0.0)) h) h

def exnName (e : Exn) : String :=
  match e with
  | .logicError _ => "throw eigen_assert"
  | _ => "throw " ++ e.show

/-- how `compute` is run for the variant: plain / real shift through `Orch.compute`, complex shift through `computeCS` -/
structure Ctx where
  K : GKern
  c : Cfg
  n : Nat
  comp : Int → Nat → Float → Int → GSt → CompRes (Arnoldi.State Float) CF CF (Vec CF)
  /-- extra text after a successful compute (complex shift: the probe shift the model derived) -/
  extra : String

def cbits (z : CF) : String := "e:" ++ fbits z.1 ++ " e:" ++ fbits z.2

def runCall (x : Ctx) (s : GSt) (call : List String) : Option (GSt × String) :=
  match call with
  | ["J"] =>
      let v0 : Vec Float := Arnoldi.randomVec (α := Float) x.n 0
      let (s', e) := Orch.init x.K x.c v0 s
      some (s', match e with | none => s!"ok nmatop={s'.nmatop}" | some ex => exnName ex)
  | "I" :: vs => do
      let v ← floatArr? vs
      if v.size ≠ x.n then none else
      let (s', e) := Orch.init x.K x.c v s
      pure (s', match e with | none => s!"ok nmatop={s'.nmatop}" | some ex => exnName ex)
  | ["C", sel, maxit, tol, sort] => do
      let sel ← parseInt? sel; let maxit ← parseNat? maxit; let tol ← ofBits? tol; let sort ← parseInt? sort
      let r := x.comp sel maxit tol sort s
      pure (r.st, match r.out with
        | .ok k => s!"ret={k} info={r.st.info.code} niter={r.st.niter} nmatop={r.st.nmatop}{x.extra}"
        | .error ex => exnName ex)
  | ["E"] =>
      let ev := Orch.eigenvalues x.K x.c s
      some (s, joinSp (s!"k={ev.length}" :: ev.map cbits))
  | ["V", nvec] => do
      let nv ← parseNat? nvec
      let X := Orch.eigenvectors x.K x.c nv s
      pure (s, joinSp (s!"rows={x.n}" :: s!"cols={X.length}" ::
        X.map (fun col => joinSp (col.toList.map (fun z => fbits (z.1 + 0.0) ++ " " ++ fbits (z.2 + 0.0))))))
  | ["S"] => some (s, s!"info={s.info.code} niter={s.niter} nmatop={s.nmatop}")
  | ["F"] => some (s, s!"k={s.fac.k} beta=e:{fbits s.fac.beta} hash={hashState s.fac}")
  | _ => none

def handle : List String → Option String
  | "gen" :: variant :: n :: nev :: ncv :: eps23 :: near0 :: eps :: sigmar :: sigmai :: rest => do
      let variant ← parseNat? variant; let n ← parseNat? n; let nev ← parseNat? nev; let ncv ← parseNat? ncv
      let eps23 ← ofBits? eps23; let near0 ← ofBits? near0; let eps ← ofBits? eps
      let sigmar ← ofBits? sigmar; let sigmai ← ofBits? sigmai
      let (mt, rest) ← takeN? (n * n) rest
      let a ← floatArr? mt
      let (pt, rest) ← if variant = 2 then takeN? (n * n) rest else pure ([], rest)
      let p ← floatArr? pt
      let calls := match splitBar rest with | [] :: cs => cs | cs => cs
      let op : Arnoldi.Op Float := { n := n, A := Arnoldi.rowMajorOp n a, B := none }
      let c : Cfg := ⟨n, nev, ncv⟩
      let back : CF → CF := if variant = 1 then realShiftBack sigmar else id
      let K := genKern op c eps23 back
      let x : Ctx :=
        if variant = 2 then
          { K := K, c := c, n := n,
            comp := fun sel maxit tol sort s => computeCS op (Arnoldi.rowMajorOp n p) c eps23 sigmar sigmai sel maxit tol sort s,
            extra := " shiftr=e:" ++ fbits (probeShift sigmar) }
        else { K := K, c := c, n := n, comp := fun sel maxit tol sort s => Orch.compute K c sel maxit tol sort s, extra := "" }
      let s0 : GSt := Orch.construct (Arnoldi.State.mk0 n ncv near0 eps)
      let (_, outs) ← calls.foldlM (fun (acc : GSt × List String) call => do
          let (s', o) ← runCall x acc.1 call
          pure (s', o :: acc.2)) (s0, [])
      pure (String.intercalate " | " outs.reverse)
  | ["ckern", "sqrt", re, im] => do
      let re ← ofBits? re; let im ← ofBits? im
      let r := csqrt (re, im)
      pure (fbits r.1 ++ " " ++ fbits r.2)
  | ["ckern", "roots", sr, si, re, im] => do
      let sr ← ofBits? sr; let si ← ofBits? si; let re ← ofBits? re; let im ← ofBits? im
      let r := csRoots sr si (re, im)
      pure (joinSp [fbits r.1.1, fbits r.1.2, fbits r.2.1, fbits r.2.2])
  | ["ckern", "root2", sr, si, re, im] => do
      let sr ← ofBits? sr; let si ← ofBits? si; let re ← ofBits? re; let im ← ofBits? im
      let r := csRoots sr si (re, im)
      pure (joinSp [fbits r.2.1, fbits r.2.2])
  | ["ckern", "rsback", sg, re, im] => do
      let sg ← ofBits? sg; let re ← ofBits? re; let im ← ofBits? im
      let r := realShiftBack sg (re, im)
      pure (fbits r.1 ++ " " ++ fbits r.2)
  | ["ckern", "probeshift", sr] => do
      let sr ← ofBits? sr
      pure (fbits (probeShift sr))
  | _ => none

end Drv.C02
