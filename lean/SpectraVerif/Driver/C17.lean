/-
  Driver for C17: runs the LOBPCG bookkeeping model (`Model/LOBPCG.lean`) at `Float`, with the operators A, B, T given as sparse
  row lists and the numeric inner solvers replaced by the outputs recorded from the real run (orthonormalised blocks, raw Ritz
  values / coefficient matrices).  Everything else — products, residuals, column norms and the convergence test, column removal,
  `sort_epairs`, the update of X/AX/BX/D/AD/BD, the B-orthonormality guard `max |X' BX - I| < sqrt(eps)` in front of
  `m_info = Success` (threshold handed over in the request), `m_info` (reset at the top of `compute`), the accessors (`eigenvectors()` = X; the
  public member `m_evectors` is reported as `coef`) — is computed by the model.
  `hist` requests replay a whole history of public calls on ONE model object (`Lobpcg.Obj`: `setB`, `setPreconditioner`, `compute`
  from the state the previous call left, each `compute` with its own recorded kernel outputs).
-/
import SpectraVerif.Driver.Util
import SpectraVerif.Model.LOBPCG

namespace Drv.C17
open Lobpcg

abbrev P := StateT (List String) Option

def tok : P String := do
  match (← get) with
  | [] => failure
  | t :: ts => set ts; pure t
def expect (s : String) : P Unit := do let t ← tok; if t == s then pure () else failure
def nat : P Nat := do let t ← tok; match t.toNat? with | some n => pure n | none => failure
def int : P Int := do let t ← tok; match t.toInt? with | some n => pure n | none => failure
def flt : P Float := do let t ← tok; match ofBits? t with | some x => pure x | none => failure
def rep {β : Type} (n : Nat) (p : P β) : P (List β) := (List.range n).mapM (fun _ => p)

/-- `cnt` columns of height `n`, column-major -/
def block (n cnt : Nat) : P (List (Col Float)) := rep cnt (do let l ← rep n flt; pure ⟨l.toArray⟩)
def coefCols (rows cnt : Nat) : P (List (List Float)) := rep cnt (rep rows flt)

/-- sparse matrix as `nnz (i j bits)*`, row-major sorted: row lists with ascending column index -/
def sparse (n : Nat) : P (Array (List (Nat × Float))) := do
  let nnz ← nat
  let es ← rep nnz (do let i ← nat; let j ← nat; let v ← flt; pure (i, j, v))
  let rows : Array (List (Nat × Float)) := Array.replicate n []
  -- entries arrive in ascending (i, j): build reversed lists, then reverse
  let rows := es.foldl (fun (r : Array (List (Nat × Float))) (e : Nat × Nat × Float) => r.modify e.1 (fun l => (e.2.1, e.2.2) :: l)) rows
  pure (rows.map List.reverse)

structure ItRec where
  R : Option (List (Col Float))
  D : Option (List (Col Float))
  /-- `DenseCholesky(gramB).info() == Successful` (recorded; `true` if the iteration did not get that far) -/
  gramOk : Bool
  rr : RROut Float

def itRec (n nev : Nat) : P ItRec := do
  expect "R"; let okR ← nat; let bs ← nat
  let R ← if okR == 1 then (do let b ← block n bs; pure (some b)) else pure none
  expect "D"; let codeD ← int
  let D ← if codeD == 1 then (do let b ← block n bs; pure (some b)) else pure none
  expect "RR"; let code ← nat
  let rr ← if code == 0 then (do
      let rows ← nat; let th ← rep nev flt; let C ← coefCols rows nev; pure (RROut.ok th C))
    else if code == 1 then pure RROut.notConverged else pure RROut.threw
  pure { R := R, D := D, gramOk := code != 4, rr := rr }

def cz (x : Float) : String := if x == 0.0 then "0" else fbits x
def showCols (tag : String) (rowsIfEmpty : Nat) (cols : List (List Float)) : String :=
  let r := match cols with | [] => rowsIfEmpty | c :: _ => c.length
  joinSp (s!"{tag}={r}x{cols.length}" :: (cols.map (fun c => c.map cz)).flatten)

/-- trace of one run: the `columnsToDelete` of every pass through the loop top and the number of completed iterations -/
def traced (K : Kern Float (Col Float)) (c : Cfg) (t : Float) : Nat → Nat → St Float (Col Float) → Loc (Col Float) → List (List Nat) → Nat → List (List Nat) × Nat
  | 0, _, _, _, ds, done => (ds.reverse, done)
  | fuel + 1, iter, s, l, ds, done =>
    let del := delCols K c t (residual l.AX l.BX s.evals)
    match step K c t iter s l with
    | .stop _ _ _ => ((del :: ds).reverse, done)
    | .cont s' l' => traced K c t fuel (iter + 1) s' l' (del :: ds) (done + 1)

/-- the recorded kernel outputs of ONE `compute()` call: `OX … E0 … IT cnt rec*` -/
structure Rec where
  OX : Option (List (Col Float))
  E0 : Option (List Float × List (List Float))
  its : Array ItRec

def recOf (n nev : Nat) : P Rec := do
  expect "OX"; let okX ← nat; let OX ← if okX == 1 then (do let b ← block n nev; pure (some b)) else pure none
  expect "E0"; let okE ← nat
  let E0 ← if okE == 1 then (do let th ← rep nev flt; let C ← coefCols nev nev; pure (some (th, C))) else pure none
  expect "IT"; let cnt ← nat
  let recs ← rep cnt (itRec n nev)
  pure { OX := OX, E0 := E0, its := recs.toArray }

/-- numeric kernels of one call: explicit scalar code (norm test, `std::less`, the guard) computed, inner solvers replayed from the
    record.  The operator fields are placeholders here (`Obj.kern` / `runCase` put the problem's operators in). -/
def numKern (n : Nat) (gthr : Float) (r : Rec) : Kern Float (Col Float) :=
  { zeroV := ⟨Array.replicate n 0.0⟩
    applyA := id, applyB := id, applyT := id
    below := colBelow
    tolL2 := fun tl m => tl * m.toFloat
    lt := fun a b => decide (a < b)
    orth := fun st _ _ => match st with
      | .initX => r.OX
      | .resid i => (r.its[i]?).bind (·.R)
      | .dir i => (r.its[i]?).bind (·.D)
    eig0 := fun _ _ => r.E0
    gramSPD := fun inp => match r.its[inp.iter]? with | some x => x.gramOk | none => true
    rr := fun inp => match r.its[inp.iter]? with | some x => x.rr | none => .threw
    borth := gramOrthOk gthr }

/-- the observable answer of one `compute()`: `o` the model's result from state `s0` with kernels `K` -/
def answer (K : Kern Float (Col Float)) (c : Cfg) (maxit : Int) (tol : Float) (s0 : St Float (Col Float)) (o : Out Float (Col Float)) : String :=
  -- trace (same `step`, same initial phase)
  let t := K.tolL2 tol c.n
  let (s1, l1, ok) := initPhase K (reset s0)
  let maxIter := if ok then min c.n maxit.toNat else 0
  let (dels, done) := traced K c t maxIter 0 s1 l1 [] 0
  let delStr := String.join (dels.map (fun d => "[" ++ String.intercalate "," (d.map toString) ++ "]"))
  let colsOf (b : List (Col Float)) : List (List Float) := b.map (fun v => v.d.toList)
  joinSp [
    s!"threw={if o.threw then 1 else 0}", s!"info={(info o.s).code}", s!"iters={done}", s!"dels={delStr}",
    joinSp (s!"evals={(eigenvalues o.s).length}x1" :: (eigenvalues o.s).map cz),
    showCols "evecs" c.n (colsOf (eigenvectors o.s)),
    showCols "coef" 0 o.s.evecs,
    showCols "resid" c.n (colsOf (residuals o.s)),
    showCols "X" c.n (colsOf o.s.X),
    "sh=1"]

def runCase : P String := do
  let n ← nat; let nev ← nat; let maxit ← int; let tol ← flt
  expect "G"; let gthr ← flt        -- sqrt(NumTraits<Scalar>::epsilon()) as the real code computes it
  expect "A"; let rowsA ← sparse n
  expect "B"; let wB ← nat; let rowsB ← if wB == 1 then sparse n else pure #[]
  expect "T"; let wT ← nat; let rowsT ← if wT == 1 then sparse n else pure #[]
  expect "X0"; let X0 ← block n nev
  let r ← recOf n nev
  let K : Kern Float (Col Float) :=
    { numKern n gthr r with
      applyA := spApply rowsA
      applyB := if wB == 1 then spApply rowsB else id
      applyT := if wT == 1 then spApply rowsT else id }
  let c : Cfg := { n := n, nev := nev }
  let s0 : St Float (Col Float) := construct X0
  pure (answer K c maxit tol s0 (compute K c maxit tol s0))

/-- the calls of a history, until the tokens run out: `SB sparse | ST sparse | C maxit tol <record>`; one answer per `C` -/
def histLoop (n nev : Nat) (gthr : Float) : Nat → Obj Float (Col Float) → List String → P (List String)
  | 0, _, acc => pure acc.reverse
  | fuel + 1, o, acc => do
    match (← get) with
    | [] => pure acc.reverse
    | _ =>
      let t ← tok
      if t == "SB" then do
        let rows ← sparse n
        histLoop n nev gthr fuel (o.setB (spApply rows)) acc
      else if t == "ST" then do
        let rows ← sparse n
        histLoop n nev gthr fuel (o.setPreconditioner (spApply rows)) acc
      else if t == "C" then do
        let maxit ← int; let tol ← flt
        let r ← recOf n nev
        let N := numKern n gthr r
        let c : Cfg := { n := n, nev := nev }
        let out := o.computeOut N c maxit tol             -- from the state the previous call left, with the CURRENT operators
        histLoop n nev gthr fuel (o.compute N c maxit tol) (answer (o.kern N) c maxit tol o.st out :: acc)
      else failure

/-- `hist n k G thr A sparse B w [sparse] T w [sparse] X0 dense OPS call*`: a whole history on ONE model object -/
def runHist : P String := do
  let n ← nat; let nev ← nat
  expect "G"; let gthr ← flt
  expect "A"; let rowsA ← sparse n
  expect "B"; let wB ← nat; let rowsB ← if wB == 1 then sparse n else pure #[]
  expect "T"; let wT ← nat; let rowsT ← if wT == 1 then sparse n else pure #[]
  expect "X0"; let X0 ← block n nev
  expect "OPS"
  let o0 : Obj Float (Col Float) := Obj.ctor (spApply rowsA) X0
  let o1 := if wB == 1 then o0.setB (spApply rowsB) else o0
  let o2 := if wT == 1 then o1.setPreconditioner (spApply rowsT) else o1
  let fuel := (← get).length + 1
  let answers ← histLoop n nev gthr fuel o2 []
  pure (String.intercalate " ;; " answers)

def runSort : P String := do
  let m ← nat
  let th ← rep m flt
  let C ← coefCols m m
  let (th', C') := sortEpairs (fun (a b : Float) => decide (a < b)) th C
  pure (joinSp [joinSp (s!"evals={th'.length}x1" :: th'.map cz), showCols "evecs" 0 C'])

def handle : List String → Option String
  | "lobpcg" :: rest => (runCase.run rest).map (·.1)
  | "sortep" :: rest => (runSort.run rest).map (·.1)
  | "hist" :: rest => (runHist.run rest).map (·.1)
  | _ => none

end Drv.C17
