/-
  Driver for C17: runs the LOBPCG bookkeeping model (`Model/LOBPCG.lean`) at `Float`, with the operators A, B, T given as sparse
  row lists and the numeric inner solvers replaced by the outputs recorded from the real run (orthonormalised blocks, raw Ritz
  values / coefficient matrices).  Everything else — products, residuals, column norms and the convergence test, column removal,
  `sort_epairs`, the update of X/AX/BX/D/AD/BD, the B-orthonormality guard `max |X' BX - I| < sqrt(eps)` in front of
  `m_info = Success` (threshold handed over in the request), `m_info` (reset at the top of `compute`), the accessors (`eigenvectors()` = X; the
  public member `m_evectors` is reported as `coef`) — is computed by the model.
-/
import SpectraVerif.Driver.Util
import SpectraVerif.Model.LOBPCG

namespace Drv.C17
open Lobpcg

abbrev P := StateT (List String) Option

def tok : P String := do
  match (← get) with
  | [] => failure
  | t :: ts => set ts; pure t
def expect (s : String) : P Unit := do let t ← tok; if t == s then pure () else failure
def nat : P Nat := do let t ← tok; match t.toNat? with | some n => pure n | none => failure
def int : P Int := do let t ← tok; match t.toInt? with | some n => pure n | none => failure
def flt : P Float := do let t ← tok; match ofBits? t with | some x => pure x | none => failure
def rep {β : Type} (n : Nat) (p : P β) : P (List β) := (List.range n).mapM (fun _ => p)

/-- `cnt` columns of height `n`, column-major -/
def block (n cnt : Nat) : P (List (Col Float)) := rep cnt (do let l ← rep n flt; pure ⟨l.toArray⟩)
def coefCols (rows cnt : Nat) : P (List (List Float)) := rep cnt (rep rows flt)

/-- sparse matrix as `nnz (i j bits)*`, row-major sorted: row lists with ascending column index -/
def sparse (n : Nat) : P (Array (List (Nat × Float))) := do
  let nnz ← nat
  let es ← rep nnz (do let i ← nat; let j ← nat; let v ← flt; pure (i, j, v))
  let rows : Array (List (Nat × Float)) := Array.replicate n []
  -- entries arrive in ascending (i, j): build reversed lists, then reverse
  let rows := es.foldl (fun (r : Array (List (Nat × Float))) (e : Nat × Nat × Float) => r.modify e.1 (fun l => (e.2.1, e.2.2) :: l)) rows
  pure (rows.map List.reverse)

structure ItRec where
  R : Option (List (Col Float))
  D : Option (List (Col Float))
  /-- `DenseCholesky(gramB).info() == Successful` (recorded; `true` if the iteration did not get that far) -/
  gramOk : Bool
  rr : RROut Float

def itRec (n nev : Nat) : P ItRec := do
  expect "R"; let okR ← nat; let bs ← nat
  let R ← if okR == 1 then (do let b ← block n bs; pure (some b)) else pure none
  expect "D"; let codeD ← int
  let D ← if codeD == 1 then (do let b ← block n bs; pure (some b)) else pure none
  expect "RR"; let code ← nat
  let rr ← if code == 0 then (do
      let rows ← nat; let th ← rep nev flt; let C ← coefCols rows nev; pure (RROut.ok th C))
    else if code == 1 then pure RROut.notConverged else pure RROut.threw
  pure { R := R, D := D, gramOk := code != 4, rr := rr }

def cz (x : Float) : String := if x == 0.0 then "0" else fbits x
def showCols (tag : String) (rowsIfEmpty : Nat) (cols : List (List Float)) : String :=
  let r := match cols with | [] => rowsIfEmpty | c :: _ => c.length
  joinSp (s!"{tag}={r}x{cols.length}" :: (cols.map (fun c => c.map cz)).flatten)

/-- trace of one run: the `columnsToDelete` of every pass through the loop top and the number of completed iterations -/
def traced (K : Kern Float (Col Float)) (c : Cfg) (t : Float) : Nat → Nat → St Float (Col Float) → Loc (Col Float) → List (List Nat) → Nat → List (List Nat) × Nat
  | 0, _, _, _, ds, done => (ds.reverse, done)
  | fuel + 1, iter, s, l, ds, done =>
    let del := delCols K c t (residual l.AX l.BX s.evals)
    match step K c t iter s l with
    | .stop _ _ _ => ((del :: ds).reverse, done)
    | .cont s' l' => traced K c t fuel (iter + 1) s' l' (del :: ds) (done + 1)

def runCase : P String := do
  let n ← nat; let nev ← nat; let maxit ← int; let tol ← flt
  expect "G"; let gthr ← flt        -- sqrt(NumTraits<Scalar>::epsilon()) as the real code computes it
  expect "A"; let rowsA ← sparse n
  expect "B"; let wB ← nat; let rowsB ← if wB == 1 then sparse n else pure #[]
  expect "T"; let wT ← nat; let rowsT ← if wT == 1 then sparse n else pure #[]
  expect "X0"; let X0 ← block n nev
  expect "OX"; let okX ← nat; let OX ← if okX == 1 then (do let b ← block n nev; pure (some b)) else pure none
  expect "E0"; let okE ← nat
  let E0 ← if okE == 1 then (do let th ← rep nev flt; let C ← coefCols nev nev; pure (some (th, C))) else pure none
  expect "IT"; let cnt ← nat
  let recs ← rep cnt (itRec n nev)
  let recA := recs.toArray
  let K : Kern Float (Col Float) :=
    { zeroV := ⟨Array.replicate n 0.0⟩
      applyA := spApply rowsA
      applyB := if wB == 1 then spApply rowsB else id
      applyT := if wT == 1 then spApply rowsT else id
      below := colBelow
      tolL2 := fun tl m => tl * m.toFloat
      lt := fun a b => decide (a < b)
      orth := fun st _ _ => match st with
        | .initX => OX
        | .resid i => (recA[i]?).bind (·.R)
        | .dir i => (recA[i]?).bind (·.D)
      eig0 := fun _ _ => E0
      gramSPD := fun inp => match recA[inp.iter]? with | some r => r.gramOk | none => true
      rr := fun inp => match recA[inp.iter]? with | some r => r.rr | none => .threw
      borth := gramOrthOk gthr }
  let c : Cfg := { n := n, nev := nev }
  let s0 : St Float (Col Float) := construct X0
  let o := compute K c maxit tol s0
  -- trace (same `step`, same initial phase)
  let t := K.tolL2 tol n
  let (s1, l1, ok) := initPhase K s0
  let maxIter := if ok then min n maxit.toNat else 0
  let (dels, done) := traced K c t maxIter 0 s1 l1 [] 0
  let delStr := String.join (dels.map (fun d => "[" ++ String.intercalate "," (d.map toString) ++ "]"))
  let colsOf (b : List (Col Float)) : List (List Float) := b.map (fun v => v.d.toList)
  pure (joinSp [
    s!"threw={if o.threw then 1 else 0}", s!"info={(info o.s).code}", s!"iters={done}", s!"dels={delStr}",
    joinSp (s!"evals={(eigenvalues o.s).length}x1" :: (eigenvalues o.s).map cz),
    showCols "evecs" n (colsOf (eigenvectors o.s)),
    showCols "coef" 0 o.s.evecs,
    showCols "resid" n (colsOf (residuals o.s)),
    showCols "X" n (colsOf o.s.X),
    "sh=1"])

def runSort : P String := do
  let m ← nat
  let th ← rep m flt
  let C ← coefCols m m
  let (th', C') := sortEpairs (fun (a b : Float) => decide (a < b)) th C
  pure (joinSp [joinSp (s!"evals={th'.length}x1" :: th'.map cz), showCols "evecs" 0 C'])

def handle : List String → Option String
  | "lobpcg" :: rest => (runCase.run rest).map (·.1)
  | "sortep" :: rest => (runSort.run rest).map (·.1)
  | _ => none

end Drv.C17
