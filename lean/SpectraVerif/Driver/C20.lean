import SpectraVerif.Driver.Util
import SpectraVerif.Gen.Footprint
import SpectraVerif.Gen.Rand
import SpectraVerif.Model.Par
/-! C20 driver: answers footprint questions from `Gen.Footprint` (so the harness can cross-check them against the compiled
    code: symbol table, type traits) and runs the `Par` schedule model on the translated generator. -/
namespace Drv.C20
open Gen.Footprint

def b01 (b : Bool) : String := if b then "1" else "0"

/-- wrapper summary, phrased as what the compiled class can exhibit through type traits: "<exactly one data member, not
    mutable (sizeof = sizeof of the handle)> <some member const-qualified (class not assignable)> <all operation methods
    const (callable on a const object)> <no base class (not polymorphic)>" -/
def wrapperSummary (n : String) : Option String :=
  let fs := wrappers.filter (fun w => w.1 == n)
  let ms := wrapper_methods.filter (fun m => m.1 == n)
  if fs.isEmpty then none else
  some (joinSp [b01 (fs.length == 1 && fs.all (fun w => !w.2.2.1)),
                b01 (fs.any (fun w => w.2.2.2.1)),
                b01 (!ms.isEmpty && ms.all (fun m => m.2.2)),
                b01 (!(wrapper_bases.any (fun p => p.1 == n)))])

def handle : List String → Option String
  | ["footprint", "statics"] => some (toString statics_verif.length)
  | ["footprint", "statics_shipped"] => some (toString statics.length)
  | ["footprint", "thread_locals"] => some (toString thread_locals_verif.length)
  | ["footprint", "mutable"] => some (toString mutable_members.length)
  | ["footprint", "mutable_in", c] => some (b01 (mutable_members.any (fun m => m.1 == c)))
  | ["footprint", "blacklist"] => some (toString blacklist_uses.length)
  | ["footprint", "wrapper", n] => wrapperSummary n
  -- par_rng N seed_1..seed_N sched...: N private SimpleRandom generators (library seed normalisation), the schedule says
  -- which generator draws next; answer: the bit pattern of the NEXT draw of every generator (observes its final state)
  | "par_rng" :: n :: rest => do
      let n ← parseNat? n
      let (seeds, sched) ← takeN? n rest
      let seeds ← ints? seeds
      let sched ← sched.mapM parseNat?
      let st0 := (seeds.map Gen.Rand.seed_norm).toArray
      let st := Par.runSchedule (fun _ s => Gen.Rand.next_long_rand s) 0 sched st0
      pure (joinSp (st.toList.map (fun s => fbits (Gen.Rand.draw (α := Float) s).2)))
  | _ => none
end Drv.C20
