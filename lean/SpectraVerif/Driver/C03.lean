/-
  Driver for solver-level histories on the five symmetric generalized solver classes (C03).

  request:  gsym <mode> <n> <nev> <ncv> <eps23> <near0> <eps> <sigma> <A: n*n row-major> <B: n*n> <aux: n*n> { | <call> }*
     mode   0 Cholesky  1 RegularInverse  2 ShiftInvert  3 Buckling  4 Cayley           (Spectra::GEigsMode)
     A, B   the pencil (buckling: A = K, B = K_G);  aux = L^-1 / B^-1 / (A - sigma B)^-1   (see Model/GSymSolver.lean)
     calls  J                    init()                     I <n bits>          init(v0)
            C <sel> <maxit> <tol> <sort>   compute(...)     E                   eigenvalues()
            V <nvec>             eigenvectors(nvec)         S                   info / num_iterations / num_operations
            F                    hash of the factorization object (k, beta, H, f, first k columns of V)
  response: `throw std::invalid_argument` if the constructor rejects the arguments, else one segment per call joined by " | ".
            Floats that must agree bit for bit carry a prefix (`e:`) or sit inside the hash; the entries of `V` (segment `rows=`) are the
            result of a matrix-matrix product in the C++ and are compared under the framework's soft rule.
  (Self-contained on purpose: same line format as Driver/C05.lean, no dependency on that module.)
-/
import SpectraVerif.Driver.Util
import SpectraVerif.Model.GSymSolver

namespace Drv.C03
open Lin Orch GSymSolver

abbrev HSt := GSymSolver.St Float

def splitBar : List String → List (List String)
  | [] => [[]]
  | "|" :: r => [] :: splitBar r
  | t :: r => match splitBar r with
    | [] => [[t]]
    | h :: tl => (t :: h) :: tl

def fnv (h : UInt64) (x : Float) : UInt64 :=
  (List.range 8).foldl (fun h b => (h ^^^ ((x.toBits >>> (8 * b.toUInt64)) &&& 0xff)) * 1099511628211) h

def hashState (s : Arnoldi.State Float) : UInt64 :=
  let h := fnv 1469598103934665603 (s.beta + 0.0)
  let h := (List.range s.m).foldl (fun h j => (List.range s.m).foldl (fun h i => fnv h (s.H.get i j + 0.0)) h) h
  let h := s.f.foldl (fun h x => fnv h (x + 0.0)) h
  (List.range s.k).foldl (fun h j => (List.range s.n).foldl (fun h i => fnv h (s.V.get i j + 0.0)) h) h

def exnName (e : Exn) : String := "throw " ++ e.show

def runCall (m : Mode) (P : Pencil Float) (c : Cfg) (eps23 : Float) (s : HSt) (call : List String) : Option (HSt × String) :=
  match call with
  | ["J"] =>
      let v0 : Vec Float := Arnoldi.randomVec (α := Float) c.n 0
      let (s', e) := GSymSolver.init m P c eps23 v0 s
      some (s', match e with | none => s!"ok nmatop={s'.nmatop}" | some x => exnName x)
  | "I" :: vs => do
      let v ← floatArr? vs
      if v.size ≠ c.n then none else
      let (s', e) := GSymSolver.init m P c eps23 v s
      pure (s', match e with | none => s!"ok nmatop={s'.nmatop}" | some x => exnName x)
  | ["C", sel, maxit, tol, sort] => do
      let sel ← parseInt? sel; let maxit ← parseNat? maxit; let tol ← ofBits? tol; let sort ← parseInt? sort
      let r := GSymSolver.compute m P c eps23 sel maxit tol sort s
      pure (r.st, match r.out with
        | .ok k => s!"ret={k} info={r.st.info.code} niter={r.st.niter} nmatop={r.st.nmatop}"
        | .error x => exnName x)
  | ["E"] =>
      let ev := GSymSolver.eigenvalues m P c eps23 s
      some (s, joinSp (s!"k={ev.length}" :: ev.map (fun x => "e:" ++ fbits x)))
  | ["V", nvec] => do
      let nv ← parseNat? nvec
      let X := GSymSolver.eigenvectors m P c eps23 nv s
      pure (s, joinSp (s!"rows={c.n}" :: s!"cols={X.length}" :: X.map (fun col => showFloats (col.map (· + 0.0)))))
  | ["S"] => some (s, s!"info={s.info.code} niter={s.niter} nmatop={s.nmatop}")
  | ["F"] => some (s, s!"k={s.fac.k} beta=e:{fbits s.fac.beta} hash={hashState s.fac}")
  | _ => none

def handle : List String → Option String
  | "gsym" :: mode :: n :: nev :: ncv :: eps23 :: near0 :: eps :: sigma :: rest => do
      let mode ← parseNat? mode; let m ← Mode.ofNat? mode
      let n ← parseNat? n; let nev ← parseNat? nev; let ncv ← parseNat? ncv
      let eps23 ← ofBits? eps23; let near0 ← ofBits? near0; let eps ← ofBits? eps; let sigma ← ofBits? sigma
      let (ta, rest) ← takeN? (n * n) rest; let a ← floatArr? ta
      let (tb, rest) ← takeN? (n * n) rest; let b ← floatArr? tb
      let (tx, rest) ← takeN? (n * n) rest; let x ← floatArr? tx
      let calls := match splitBar rest with | [] :: cs => cs | cs => cs
      let P : Pencil Float := { n := n, A := a, B := b, aux := x, sigma := sigma }
      let c : Cfg := ⟨n, nev, ncv⟩
      match GSymSolver.construct m P c near0 eps with
      | .error e => pure (exnName e)
      | .ok s0 =>
        let (_, outs) ← calls.foldlM (fun (acc : HSt × List String) call => do
            let (s', o) ← runCall m P c eps23 acc.1 call
            pure (s', o :: acc.2)) (s0, [])
        pure (String.intercalate " | " outs.reverse)
  | _ => none

end Drv.C03
