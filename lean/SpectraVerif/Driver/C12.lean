import SpectraVerif.Driver.Util
import SpectraVerif.Gen.Guard
namespace Drv.C12
open Gen.Guard

def showRes : Res Unit → String
  | Res.ok _ => "ok"
  | Res.throw e => "throw " ++ e

def handle : List String → Option String
  | ["herm_ctor", nev, ncv, n] => do
      let nev ← parseInt? nev; let ncv ← parseInt? ncv; let n ← parseInt? n
      pure (showRes (herm_ctor_lvalue nev ncv n))
  | ["gen_ctor", nev, ncv, n] => do
      let nev ← parseInt? nev; let ncv ← parseInt? ncv; let n ← parseInt? n
      pure (showRes (gen_ctor nev ncv n))
  | ["jd_ctor", nev, n] => do
      let nev ← parseInt? nev; let n ← parseInt? n
      pure (showRes (jd_check_argument nev n))
  | ["sigma_guard", mode, bits] => do
      let mode ← parseInt? mode; let s ← ofBits? bits
      pure (showRes (sigma_guard (α := Float) mode s))
  | _ => none
end Drv.C12
