import SpectraVerif.Driver.Util
import SpectraVerif.Gen.Guard
import SpectraVerif.Gen.MatOpGuard
import SpectraVerif.Model.C12Geigs
namespace Drv.C12
open Gen.Guard

def showRes : Res Unit → String
  | Res.ok _ => "ok"
  | Res.throw e => "throw " ++ e

def handle : List String → Option String
  | ["herm_ctor", nev, ncv, n] => do
      let nev ← parseInt? nev; let ncv ← parseInt? ncv; let n ← parseInt? n
      pure (showRes (herm_ctor_lvalue nev ncv n))
  | ["gen_ctor", nev, ncv, n, cols] => do
      let nev ← parseInt? nev; let ncv ← parseInt? ncv; let n ← parseInt? n; let cols ← parseInt? cols
      pure (showRes (gen_ctor nev ncv n cols))
  | ["jd_ctor", nev, n] => do
      let nev ← parseInt? nev; let n ← parseInt? n
      pure (showRes (jd_check_argument nev n))
  | ["sigma_guard", mode, bits] => do
      let mode ← parseInt? mode; let s ← ofBits? bits
      pure (showRes (sigma_guard (α := Float) mode s))
  -- wrapper constructors: `_variant` names the template instantiation (scalar, Uplo, storage order), the guard is the class's
  | ["wrap1", cls, _variant, r, c] => do
      let r ← parseInt? r; let c ← parseInt? c
      let res ← Gen.MatOpGuard.wrap1 cls r c
      pure (showRes res)
  | ["wrap2", cls, _variant, ra, ca, rb, cb] => do
      let ra ← parseInt? ra; let ca ← parseInt? ca; let rb ← parseInt? rb; let cb ← parseInt? cb
      let res ← Gen.MatOpGuard.wrap2 cls ra ca rb cb
      pure (showRes res)
  | ["geigs_ctor", mode, nev, ncv, na, nb] => do
      let mode ← parseInt? mode; let nev ← parseInt? nev; let ncv ← parseInt? ncv; let na ← parseInt? na; let nb ← parseInt? nb
      pure (showRes (_root_.C12.geigs_solver_ctor mode nev ncv na nb))
  | _ => none
end Drv.C12
