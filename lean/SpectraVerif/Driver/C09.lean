import SpectraVerif.Driver.Util
import SpectraVerif.Model.TridiagEigen
import SpectraVerif.Model.HessSchur
import SpectraVerif.Model.HessEigen
import SpectraVerif.Model.C09Object
namespace Drv.C09
open Lin

/-- NaN sign/payload are not modelled: NaN travels as the token `nan` -/
def fb (x : Float) : String := if x.isNaN then "nan" else fbits x
def showFs (a : Array Float) : String := joinSp (a.toList.map fb)
def showMat (m : Mat Float) : String := showFs m.d

/-- complex values travel as `re im` pairs; `canon` adds `+0.0` (signed zeros canonicalised, as the harness does) -/
def showCplx (canon : Bool) (v : Array (Float × Float)) : String :=
  joinSp (v.toList.map (fun z => if canon then fb (z.1 + 0.0) ++ " " ++ fb (z.2 + 0.0) else fb z.1 ++ " " ++ fb z.2))

/-! ### histories on ONE object (`hist`)

  `hist <trideig|schur|hesseig>  { C mode vseed n <data> | X rows cols | Q k | W k rows cols <data> }*`
    `C`  `compute(M)` on the same object (`data`: trideig `d[0..n-1] e[0..n-2]`, else the `n × n` matrix column-major).  `mode` says how
         the harness hands the matrix to the real class (0 owning matrix, 1 block of a larger matrix, 2 `Map` with an outer stride,
         3 `const Ref`, 5 a strided/transposed expression that `Ref` has to copy): not visible to the model, the answer must not depend
         on it (`vseed`: seed of the view's paddings and canaries, likewise).  `mode ≥ 10`: `Class tmp(M); obj = tmp;`, i.e. the object is
         REPLACED by fresh + compute, and left untouched when the constructor throws.
    `X`  `compute` with a non-square `rows × cols` matrix (`std::invalid_argument`)
    `Q`  accessor `k`: trideig / hesseig `0 eigenvalues() 1 eigenvectors()`, schur `0 matrix_T() 1 matrix_U()`
    `W`  schur only: `swap_T(other)` (`k = 0`) / `swap_U(other)` (`k = 1`); the answer is the caller's matrix after the exchange
  one model object (`C09Obj.Tri / Sch / Eig`) is threaded through all steps;
  answer: per step `ok [rows cols <bits>]` or `throw <type> <message>`, joined by ` | `. -/
def showShaped (r c : Nat) (body : String) : String :=
  if body.isEmpty then s!"ok {r} {c}" else s!"ok {r} {c} {body}"
def showThrow (e : Option String) : String := match e with | none => "ok" | some m => "throw " ++ m

/-- `Class tmp(M); obj = tmp;`: the matrix constructor is `compute` on a fresh object; if it throws, `obj` is not assigned -/
def ctorStep {β : Type} (old : β) (r : β × Option String) : β × Option String :=
  match r.2 with | none => r | some e => (old, some e)

def triSteps : Nat → List String → C09Obj.Tri Float → List String → Option (List String)
  | _, [], _, acc => some acc.reverse
  | 0, _ :: _, _, _ => none
  | fuel + 1, "C" :: mode :: _vseed :: n :: rest, o, acc => do
      let mode ← parseNat? mode; let n ← parseNat? n
      if n < 1 then none else
      let (vals, rest) ← takeN? (2 * n - 1) rest
      let vs ← floatArr? vals
      let (o', e) := if mode ≥ 10 then ctorStep o (C09Obj.Tri.fresh.compute n (vs.extract 0 n) (vs.extract n (2 * n - 1)))
                     else o.compute n (vs.extract 0 n) (vs.extract n (2 * n - 1))
      triSteps fuel rest o' (showThrow e :: acc)
  | fuel + 1, "X" :: r :: _c :: rest, o, acc => do
      let r ← parseNat? r
      let (o', e) := o.computeNonSquare r
      triSteps fuel rest o' (showThrow e :: acc)
  | fuel + 1, "Q" :: k :: rest, o, acc => do
      let k ← parseNat? k
      let s := if k == 0 then (match o.eigenvalues with | Res.ok v => showShaped v.size 1 (showFs v) | Res.throw m => "throw " ++ m)
               else (match o.eigenvectors with | Res.ok m => showShaped m.rows m.cols (showMat m) | Res.throw m => "throw " ++ m)
      triSteps fuel rest o (s :: acc)
  | _, _, _, _ => none

def schSteps : Nat → List String → C09Obj.Sch Float → List String → Option (List String)
  | _, [], _, acc => some acc.reverse
  | 0, _ :: _, _, _ => none
  | fuel + 1, "C" :: mode :: _vseed :: n :: rest, o, acc => do
      let mode ← parseNat? mode; let n ← parseNat? n
      if n < 1 then none else
      let (vals, rest) ← takeN? (n * n) rest
      let vs ← floatArr? vals
      let (o', e) := if mode ≥ 10 then ctorStep o (C09Obj.Sch.fresh.compute n ⟨n, n, vs⟩) else o.compute n ⟨n, n, vs⟩
      schSteps fuel rest o' (showThrow e :: acc)
  | fuel + 1, "X" :: _r :: _c :: rest, o, acc =>
      let (o', e) := o.computeNonSquare
      schSteps fuel rest o' (showThrow e :: acc)
  | fuel + 1, "Q" :: k :: rest, o, acc => do
      let k ← parseNat? k
      let s := match (if k == 0 then o.matrix_T else o.matrix_U) with
               | Res.ok m => showShaped m.rows m.cols (showMat m) | Res.throw m => "throw " ++ m
      schSteps fuel rest o (s :: acc)
  | fuel + 1, "W" :: k :: r :: c :: rest, o, acc => do
      let k ← parseNat? k; let r ← parseNat? r; let c ← parseNat? c
      let (vals, rest) ← takeN? (r * c) rest
      let vs ← floatArr? vals
      let (o', back) := if k == 0 then o.swap_T ⟨r, c, vs⟩ else o.swap_U ⟨r, c, vs⟩
      schSteps fuel rest o' (showShaped back.rows back.cols (showMat back) :: acc)
  | _, _, _, _ => none

def eigSteps : Nat → List String → C09Obj.Eig Float → List String → Option (List String)
  | _, [], _, acc => some acc.reverse
  | 0, _ :: _, _, _ => none
  | fuel + 1, "C" :: mode :: _vseed :: n :: rest, o, acc => do
      let mode ← parseNat? mode; let n ← parseNat? n
      if n < 1 then none else
      let (vals, rest) ← takeN? (n * n) rest
      let vs ← floatArr? vals
      let (o', e) := if mode ≥ 10 then ctorStep o (C09Obj.Eig.fresh.compute n ⟨n, n, vs⟩) else o.compute n ⟨n, n, vs⟩
      eigSteps fuel rest o' (showThrow e :: acc)
  | fuel + 1, "X" :: _r :: _c :: rest, o, acc =>
      let (o', e) := o.computeNonSquare
      eigSteps fuel rest o' (showThrow e :: acc)
  | fuel + 1, "Q" :: k :: rest, o, acc => do
      let k ← parseNat? k
      let s := if k == 0 then (match o.eigenvalues with | Res.ok v => showShaped v.size 1 (showCplx false v) | Res.throw m => "throw " ++ m)
               else (match o.eigenvectors with
                     | Res.ok cols => showShaped o.eivec.cols o.eivec.cols (joinSp ((cols.map (showCplx true)).filter (fun s => !s.isEmpty)))
                     | Res.throw m => "throw " ++ m)
      eigSteps fuel rest o (s :: acc)
  | _, _, _, _ => none

def hist : List String → Option String
  | "trideig" :: rest => (triSteps rest.length rest C09Obj.Tri.fresh []).map (String.intercalate " | ")
  | "schur" :: rest => (schSteps rest.length rest C09Obj.Sch.fresh []).map (String.intercalate " | ")
  | "hesseig" :: rest => (eigSteps rest.length rest C09Obj.Eig.fresh []).map (String.intercalate " | ")
  | _ => none

def handle : List String → Option String
  | "hist" :: args => hist args
  | "trideig" :: n :: vals => do
      let n ← parseNat? n; let vs ← floatArr? vals
      if n < 2 || vs.size ≠ 2 * n - 1 then none else
      let d := vs.extract 0 n; let e := vs.extract n (2 * n - 1)
      match TridiagEigen.compute (α := Float) n d e with
      | Res.ok r => pure ("ok " ++ showFs (TridiagEigen.eigenvalues r) ++ " " ++ showMat (TridiagEigen.eigenvectors r))
      | Res.throw msg => pure ("throw " ++ msg)
  | "schur" :: n :: vals => do
      let n ← parseNat? n; let vs ← floatArr? vals
      if n < 1 || vs.size ≠ n * n then none else
      match HessSchur.compute (α := Float) n ⟨n, n, vs⟩ with
      | Res.ok r => pure ("ok " ++ showMat (HessSchur.matrix_T r) ++ " " ++ showMat (HessSchur.matrix_U r))
      | Res.throw msg => pure ("throw " ++ msg)
  | "hesseig" :: n :: vals => do
      let n ← parseNat? n; let vs ← floatArr? vals
      if n < 1 || vs.size ≠ n * n then none else
      match HessEigen.compute (α := Float) n ⟨n, n, vs⟩ with
      | Res.ok r => pure ("ok " ++ showCplx false (HessEigen.eigenvalues r) ++ " " ++ joinSp ((HessEigen.eigenvectors r).map (showCplx true)))
      | Res.throw msg => pure ("throw " ++ msg)
  | ["cdiv", a, b, c, d] => do
      let a ← ofBits? a; let b ← ofBits? b; let c ← ofBits? c; let d ← ofBits? d
      let q := HessEigen.cdiv a b c d
      pure (fb (q.1 + 0.0) ++ " " ++ fb (q.2 + 0.0))
  | ["lits"] => pure (joinSp [fbits (TridiagEigen.half : Float), fbits (Sc.lit 75 (-2) : Float), fbits (-(Sc.lit 4375 (-4) : Float)), fbits (Sc.lit 964 (-3) : Float)])
  | _ => none
end Drv.C09
