import SpectraVerif.Driver.Util
import SpectraVerif.Model.TridiagEigen
import SpectraVerif.Model.HessSchur
import SpectraVerif.Model.HessEigen
namespace Drv.C09
open Lin

/-- NaN sign/payload are not modelled: NaN travels as the token `nan` -/
def fb (x : Float) : String := if x.isNaN then "nan" else fbits x
def showFs (a : Array Float) : String := joinSp (a.toList.map fb)
def showMat (m : Mat Float) : String := showFs m.d

/-- complex values travel as `re im` pairs; `canon` adds `+0.0` (signed zeros canonicalised, as the harness does) -/
def showCplx (canon : Bool) (v : Array (Float × Float)) : String :=
  joinSp (v.toList.map (fun z => if canon then fb (z.1 + 0.0) ++ " " ++ fb (z.2 + 0.0) else fb z.1 ++ " " ++ fb z.2))

def handle : List String → Option String
  | "trideig" :: n :: vals => do
      let n ← parseNat? n; let vs ← floatArr? vals
      if n < 2 || vs.size ≠ 2 * n - 1 then none else
      let d := vs.extract 0 n; let e := vs.extract n (2 * n - 1)
      match TridiagEigen.compute (α := Float) n d e with
      | Res.ok r => pure ("ok " ++ showFs (TridiagEigen.eigenvalues r) ++ " " ++ showMat (TridiagEigen.eigenvectors r))
      | Res.throw msg => pure ("throw " ++ msg)
  | "schur" :: n :: vals => do
      let n ← parseNat? n; let vs ← floatArr? vals
      if n < 1 || vs.size ≠ n * n then none else
      match HessSchur.compute (α := Float) n ⟨n, n, vs⟩ with
      | Res.ok r => pure ("ok " ++ showMat (HessSchur.matrix_T r) ++ " " ++ showMat (HessSchur.matrix_U r))
      | Res.throw msg => pure ("throw " ++ msg)
  | "hesseig" :: n :: vals => do
      let n ← parseNat? n; let vs ← floatArr? vals
      if n < 1 || vs.size ≠ n * n then none else
      match HessEigen.compute (α := Float) n ⟨n, n, vs⟩ with
      | Res.ok r => pure ("ok " ++ showCplx false (HessEigen.eigenvalues r) ++ " " ++ joinSp ((HessEigen.eigenvectors r).map (showCplx true)))
      | Res.throw msg => pure ("throw " ++ msg)
  | ["cdiv", a, b, c, d] => do
      let a ← ofBits? a; let b ← ofBits? b; let c ← ofBits? c; let d ← ofBits? d
      let q := HessEigen.cdiv a b c d
      pure (fb (q.1 + 0.0) ++ " " ++ fb (q.2 + 0.0))
  | ["lits"] => pure (joinSp [fbits (TridiagEigen.half : Float), fbits (Sc.lit 75 (-2) : Float), fbits (-(Sc.lit 4375 (-4) : Float)), fbits (Sc.lit 964 (-3) : Float)])
  | _ => none
end Drv.C09
