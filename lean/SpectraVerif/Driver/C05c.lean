/-
  Driver for solver-level histories on `HermEigsSolver` with `Scalar = std::complex<double>` (numeric instance
  `HermCplx.hermCplxKern`, Model/HermCplx.lean).  `Driver/C05.lean` delegates `hermc …` lines to this module, so the lines travel
  in the ordinary C05 stream (and the module also has its own executable `drv_c05c`).

  request:  hermc <n> <nev> <ncv> <eps23> <near0> <eps> <n*n operator matrix, row-major, each entry as re im> { | <call> }*
     calls:   J                    init()                     I <n (re im) pairs>  init(v0)
              C <sel> <maxit> <tol> <sort>   compute(...)     E                    eigenvalues()
              V <nvec>             eigenvectors(nvec)         S                    info / num_iterations / num_operations
              F                    hash of the factorization object (k, beta, H, f, first k columns of V; re and im of every entry)
  response: one segment per call, joined by " | "; bit-exact floats carry the prefix `e:`; the `rows=` segment (eigenvectors, a
            complex × real matrix product in the C++) lists re im of every entry and is compared under the framework's soft rule.
-/
import SpectraVerif.Driver.Util
import SpectraVerif.Model.HermCplx

namespace Drv.C05c
open Lin Orch HermCplx

abbrev CSt := Orch.St (CState Float) Float Float (Vec Float)
abbrev CKern := Kern (CState Float) Float Float (Vec Float) (CVec Float) Float (CVec Float)

/-- the constants of libgcc's `__divdc3` for `double` -/
def divK : DivK Float :=
  let rbig := Float.ofBits 0x7FDFFFFFFFFFFFFF      -- DBL_MAX / 2
  let rmin2 := Float.ofBits 0x3CB0000000000000     -- DBL_EPSILON
  { rbig := rbig, rmin := Float.ofBits 0x0010000000000000, rmin2 := rmin2,
    rminscal := Float.ofBits 0x4330000000000000,   -- 1 / DBL_EPSILON = 2^52
    rmax2 := rbig * rmin2 }

def splitBar : List String → List (List String)
  | [] => [[]]
  | "|" :: r => [] :: splitBar r
  | t :: r => match splitBar r with
    | [] => [[t]]
    | h :: tl => (t :: h) :: tl

def fnv (h : UInt64) (x : Float) : UInt64 :=
  (List.range 8).foldl (fun h b => (h ^^^ (((x + 0.0).toBits >>> (8 * b.toUInt64)) &&& 0xff)) * 1099511628211) h
def fnvc (h : UInt64) (z : Cx Float) : UInt64 := fnv (fnv h z.1) z.2

def hashState (s : CState Float) : UInt64 :=
  let h := fnv 1469598103934665603 s.beta
  let h := (List.range s.m).foldl (fun h j => (List.range s.m).foldl (fun h i => fnvc h (s.H.get i j)) h) h
  let h := s.f.foldl fnvc h
  (List.range s.k).foldl (fun h j => (List.range s.n).foldl (fun h i => fnvc h (s.V.get i j)) h) h

/-- `re im re im …` -/
def carr? (l : List String) : Option (Array (Cx Float)) := do
  let xs ← l.mapM ofBits?
  let rec pair : List Float → Option (List (Cx Float))
    | [] => some []
    | a :: b :: r => (pair r).map ((a, b) :: ·)
    | _ => none
  (pair xs).map List.toArray

def exnName (e : Exn) : String := "throw " ++ e.show

def runCall (K : CKern) (c : Cfg) (n : Nat) (s : CSt) (call : List String) : Option (CSt × String) :=
  match call with
  | ["J"] =>
      let v0 : CVec Float := crandomVec (α := Float) n 0
      let (s', e) := Orch.init K c v0 s
      some (s', match e with | none => s!"ok nmatop={s'.nmatop}" | some x => exnName x)
  | "I" :: vs => do
      let v ← carr? vs
      if v.size ≠ n then none else
      let (s', e) := Orch.init K c v s
      pure (s', match e with | none => s!"ok nmatop={s'.nmatop}" | some x => exnName x)
  | ["C", sel, maxit, tol, sort] => do
      let sel ← parseInt? sel; let maxit ← parseNat? maxit; let tol ← ofBits? tol; let sort ← parseInt? sort
      let r := Orch.compute K c sel maxit tol sort s
      pure (r.st, match r.out with
        | .ok k => s!"ret={k} info={r.st.info.code} niter={r.st.niter} nmatop={r.st.nmatop}"
        | .error x => exnName x)
  | ["E"] =>
      let ev := Orch.eigenvalues K c s
      some (s, joinSp (s!"k={ev.length}" :: ev.map (fun x => "e:" ++ fbits x)))
  | ["V", nvec] => do
      let nv ← parseNat? nvec
      let X := Orch.eigenvectors K c nv s
      pure (s, joinSp (s!"rows={n}" :: s!"cols={X.length}" ::
        X.map (fun col => joinSp (col.toList.map (fun z => fbits (z.1 + 0.0) ++ " " ++ fbits (z.2 + 0.0))))))
  | ["S"] => some (s, s!"info={s.info.code} niter={s.niter} nmatop={s.nmatop}")
  | ["F"] => some (s, s!"k={s.fac.k} beta=e:{fbits s.fac.beta} hash={hashState s.fac}")
  | _ => none

def handle : List String → Option String
  | "hermc" :: n :: nev :: ncv :: eps23 :: near0 :: eps :: rest => do
      let n ← parseNat? n; let nev ← parseNat? nev; let ncv ← parseNat? ncv
      let eps23 ← ofBits? eps23; let near0 ← ofBits? near0; let eps ← ofBits? eps
      let (mt, rest) ← takeN? (2 * n * n) rest
      let a ← carr? mt
      let calls := match splitBar rest with | [] :: cs => cs | cs => cs
      let op : COp Float := { n := n, A := crowMajorOp n a, dk := divK }
      let c : Cfg := ⟨n, nev, ncv⟩
      let K := hermCplxKern op c eps23
      let s0 : CSt := Orch.construct (CState.mk0 n ncv near0 eps)
      let (_, outs) ← calls.foldlM (fun (acc : CSt × List String) call => do
          let (s', o) ← runCall K c n acc.1 call
          pure (s', o :: acc.2)) (s0, [])
      pure (String.intercalate " | " outs.reverse)
  | _ => none

end Drv.C05c
