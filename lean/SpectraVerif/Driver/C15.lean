import SpectraVerif.Driver.Util
import SpectraVerif.Gen.Guard
import SpectraVerif.Model.Davidson
namespace Drv.C15
open Dav Dav.Exec Lin

/-- `k` columns of length `n` from a flat column-major token list -/
def cols? (n k : Nat) (l : List String) : Option (List (Vec Float) × List String) := do
  let (h, t) ← takeN? (n * k) l
  let a ← floatArr? h
  pure ((List.range k).map (fun j => a.extract (j * n) (j * n + n)), t)

def vec? (k : Nat) (l : List String) : Option (Vec Float × List String) := do
  let (h, t) ← takeN? k l
  let a ← floatArr? h
  pure (a, t)

def matOfCols (n : Nat) (cs : List (Vec Float)) : Mat Float := ⟨n, cs.length, cs.foldl (fun acc c => acc ++ c) #[]⟩

def showNats (l : List Nat) : String := joinSp (l.map toString)

/-- residual of `b` after two Gram–Schmidt passes against the orthonormal list `q` -/
def residAgainst (q : List (Vec Float)) (b : Vec Float) : Float :=
  let p := fun (w : Vec Float) => q.foldl (fun acc v => vsub acc (vscale (dot v acc) v)) w
  norm (p (p b))

def orthoDev (q : List (Vec Float)) : Float :=
  let a := q.toArray
  (List.range a.size).foldl (fun m i => (List.range a.size).foldl (fun m j =>
    let d := Float.abs (dot a[i]! a[j]! - (if i = j then 1.0 else 0.0)); if d > m || d != d then d else m) m) 0.0

def handle : List String → Option String
  | ["sizes", n, nev, ni, nm] => do
      let n ← parseInt? n; let nev ← parseInt? nev; let ni ← parseInt? ni; let nm ← parseInt? nm
      match Gen.Guard.jd_check_argument nev n with
      | Res.throw _ => pure "throw"
      | Res.ok _ => let c := cfgOf nev ni nm n; pure s!"ok {c.maxSize} {c.initSize} {c.corrSize}"
  | "initspace" :: n :: ini :: rule :: rest => do
      let n ← parseNat? n; let ini ← parseNat? ini; let rule ← parseInt? rule
      let (d, _) ← vec? n rest
      let idx := (argsortList rule d.toList).take ini
      let vals := "v " ++ joinSp (idx.map (fun i => fbits (if rule = 0 || rule = 4 then Float.abs (vget d i) else vget d i)))
      pure (if n ≤ 16 then "r " ++ showNats idx ++ " " ++ vals else vals)
  | "dpr" :: n :: co :: rest => do
      let n ← parseNat? n; let co ← parseNat? co
      let (d, rest) ← vec? n rest
      let (th, rest) ← vec? co rest
      let (Rc, _) ← cols? n co rest
      let cols := (List.zip th.toList Rc).map (fun (θ, r) => dprColumn d θ r)
      pure (joinSp (cols.map (fun (col : Vec Float) => joinSp (col.toList.map (fun x => if x != x then "nan" else fbits x)))))
  | "run" :: n :: nev :: ni :: nm :: rule :: maxit :: tol :: g :: rest => do
      let n ← parseNat? n; let nev ← parseInt? nev; let ni ← parseInt? ni; let nm ← parseInt? nm
      let rule ← parseInt? rule; let maxit ← parseNat? maxit; let tol ← ofBits? tol; let g ← parseNat? g
      let (acols, rest) ← cols? n n rest
      let (gcols, _) ← cols? n g rest
      let A := matOfCols n acols
      let c := cfgOf nev ni nm n
      let (s, ret) := if g = 0 then Exec.compute A c rule maxit tol else Exec.computeGuess A c gcols rule maxit tol
      let ev := eigenvalues c s
      pure s!"{s.info.code} {ret} {s.niter} {s.sizes.length} {showNats s.sizes} {ev.length} {joinSp (ev.map fbits)}"
  | "step" :: n :: nev :: mx :: ini :: co :: rule :: maxit :: tol :: m :: rest => do
      let n ← parseNat? n; let nev ← parseNat? nev; let mx ← parseNat? mx; let ini ← parseNat? ini; let co ← parseNat? co
      let rule ← parseInt? rule; let maxit ← parseNat? maxit; let tol ← ofBits? tol; let m ← parseNat? m
      let (B, rest) ← cols? n m rest
      let (W, rest) ← cols? n m rest
      let (th, rest) ← vec? m rest
      let (Y, rest) ← cols? m m rest
      let (acols, rest) ← cols? n n rest
      let (m2s, rest) ← takeN? 1 rest
      let m2 ← parseNat? (m2s.headD "")
      let (B2, rest) ← cols? n m2 rest
      let (hd, rest) ← takeN? 2 rest
      let ok2 ← parseNat? (hd.headD ""); let k2 ← parseNat? (hd.getD 1 "")
      let (th2, rest) ← vec? k2 rest
      let (Y2, _) ← cols? k2 k2 rest
      let A := matOfCols n acols
      let c : Cfg := { nev := nev, maxSize := mx, initSize := ini, corrSize := co }
      let K0 := kern A
      -- state at the break of the previous iteration, Ritz pairs rebuilt from the recorded small eigenpairs
      let s0 : St Float (Vec Float) := { basis := B, opBasis := W, pairs := [], conv := [], niter := maxit - 2, info := .notConverging, sizes := [] }
      let s0 := { s0 with pairs := List.zipWith (mkPair K0 s0) th.toList (Y.map Array.toList) }
      let corrf := dprCorrection (diagOf A) co
      -- replay kernels: the recorded outputs of HouseholderQR (inside extend_basis) and SelfAdjointEigenSolver
      let K : Kern Float (Vec Float) :=
        { K0 with orth := (fun cs sk => if m2 = 0 then orthTwice cs sk else B2),
                  eig := (fun _ => (ok2 = 1, th2.toList, Y2.map Array.toList)) }
      let s1 := extendBasis K (corrf s0.pairs) s0
      let s2 := loop K c corrf rule tol maxit 1 { s1 with niter := s0.niter + 1 }
      let restart := decide (s1.basis.length > c.maxSize)
      -- specification checks of the recorded kernel outputs
      let spanok : String :=
        if m2 = 0 then "1 1 1 1" else
        let ts := corrf s0.pairs
        let leftSame := (B2.take m).map (fun v => v.toList.map Float.toBits) == B.map (fun v => v.toList.map Float.toBits)
        let lenOk := B2.length == m + co
        -- robust direction of "same span": every correction the MODEL computes lies in the span of the REAL extended basis,
        -- up to 1e-8 of the largest correction (Householder QR is backward stable relative to the block norm).  Needs an
        -- orthonormal real basis; its loss of orthonormality is reported by the harness oracle `basis-not-orthonormal`.
        let tmax := ts.foldl (fun m t => if norm t > m then norm t else m) 0.0
        let finite := ts.all (fun t => let x := norm t; x == x && x < 1e300)
        -- absolute floor: rounding of the residues (~ eps * max|A| * m) divided by the smallest DPR denominator
        let dg := diagOf A
        let amax := A.d.foldl (fun m x => if Float.abs x > m then Float.abs x else m) 0.0
        let dmin := (s0.pairs.take co).foldl (fun m p => dg.foldl (fun m d => if Float.abs (p.value - d) < m then Float.abs (p.value - d) else m) m) 1e300
        let floor := 1e-12 * (1.0 + amax) / dmin
        let inSpan := !(orthoDev B2 ≤ 1e-8) || !finite || ts.all (fun t => residAgainst B2 t ≤ 1e-8 * tmax + floor)
        -- the appended block is the leading part of a Householder Q factor: its columns are orthonormal AMONG THEMSELVES for every input
        -- block (rank deficient or not, whatever the old columns are): unit norms and |q_i . q_j| <= 1e-8.  A zero / non-unit column
        -- (what a Gram-Schmidt sweep leaves for linearly dependent corrections) is not a Q factor.
        let blockOk := orthoDev (B2.drop m) ≤ 1e-8
        s!"{if leftSame then 1 else 0} {if lenOk then 1 else 0} {if inSpan then 1 else 0} {if blockOk then 1 else 0}"
      let sU := updateOperatorBasisProduct K (if restart then Dav.restart K c.initSize s1 else s1)
      let G := smallMatrix K sU
      let gmax := G.foldl (fun m col => col.foldl (fun m x => if Float.abs x > m then Float.abs x else m) m) 0.0
      let eigok : Bool :=
        let ycols := Y2.map Array.toList
        let k := ycols.length
        let resOk := (List.zip th2.toList ycols).all (fun (θ, y) =>
          (List.range k).all (fun i =>
            let gy := (List.range k).foldl (fun acc j => acc + ((G.getD j []).getD i 0.0 + (G.getD i []).getD j 0.0) / 2.0 * y.getD j 0.0) 0.0
            Float.abs (gy - θ * y.getD i 0.0) ≤ 1e-9 * (1.0 + gmax)))
        let orthOk := orthoDev Y2 ≤ 1e-9
        k = G.length && resOk && orthOk
      let norms := s2.pairs.map (fun p => norm p.residue)
      pure s!"{if restart then 1 else 0} {s2.basis.length} {s2.info.code} {s2.niter} {returnValue c s2} {s2.conv.length} {joinSp (s2.conv.map (fun b => if b then "1" else "0"))} {spanok} {if eigok then 1 else 0} | {joinSp (norms.map fbits)} | {joinSp (s2.opBasis.map showFloats)}"
  | "recall" :: n :: nev :: mx :: ini :: co :: rule :: maxit :: tol :: pinfo :: pniter :: mb :: rest => do
      -- a call with maxit ∈ {0, 1} on a USED solver object: `computeWithGuess` is given the state the previous call left behind; its prologue
      -- (`resetResults`, `initializeSearchSpace`, `niter := 0`: /repo 6587027) overwrites every member, so the answer does not depend on it
      let n ← parseNat? n; let nev ← parseNat? nev; let mx ← parseNat? mx; let ini ← parseNat? ini; let co ← parseNat? co
      let rule ← parseInt? rule; let maxit ← parseNat? maxit; let tol ← ofBits? tol; let pinfo ← parseNat? pinfo; let pniter ← parseNat? pniter
      let mb ← parseNat? mb
      let (B, rest) ← cols? n mb rest
      let (t, rest) ← takeN? 1 rest; let mw ← parseNat? (t.headD "")
      let (W, rest) ← cols? n mw rest
      let (t, rest) ← takeN? 1 rest; let kp ← parseNat? (t.headD "")
      let (th, rest) ← vec? kp rest
      let (X, rest) ← cols? n kp rest
      let (Rp, rest) ← cols? n kp rest
      let (t, rest) ← takeN? 1 rest; let nfl ← parseNat? (t.headD "")
      let (fl, rest) ← takeN? nfl rest
      let (acols, rest) ← cols? n n rest
      let (t, rest) ← takeN? 1 rest; let g ← parseNat? (t.headD "")
      let (G, rest) ← cols? n g rest
      let (hd, rest) ← takeN? 2 rest
      let ok2 ← parseNat? (hd.headD ""); let k2 ← parseNat? (hd.getD 1 "")
      let (th2, rest) ← vec? k2 rest
      let (Y2, _) ← cols? k2 k2 rest
      let A := matOfCols n acols
      let c : Cfg := { nev := nev, maxSize := mx, initSize := ini, corrSize := co }
      let K0 := kern A
      let pinf : Info := match pinfo with | 0 => .successful | 1 => .notComputed | 2 => .notConverging | _ => .numericalIssue
      -- the used object: search space, Ritz values / vectors, flags, status and iteration count of the previous call
      let prev : St Float (Vec Float) :=
        { basis := B, opBasis := W,
          pairs := List.zipWith (fun θ xr => ({ value := θ, small := [], vector := xr.1, residue := xr.2 } : Pair Float (Vec Float))) th.toList (List.zip X Rp),
          conv := fl.map (fun t => t == "1"), niter := pniter, info := pinf, sizes := [] }
      let K : Kern Float (Vec Float) := { K0 with eig := (fun _ => (ok2 = 1, th2.toList, Y2.map Array.toList)) }
      let d := diagOf A
      let guess := if g = 0 then setupInitialSearchSpace d c.initSize rule else G
      let (s2, ret) := computeWithGuess K c (dprCorrection d co) guess rule maxit tol prev
      -- the recorded eigen-decomposition against the model's own small matrix (first Rayleigh–Ritz step of this call)
      let eigok : Bool :=
        if maxit = 0 then k2 = 0 else
        let sU := updateOperatorBasisProduct K (initializeSearchSpace guess prev)
        let Gm := smallMatrix K sU
        let gmax := Gm.foldl (fun m col => col.foldl (fun m x => if Float.abs x > m then Float.abs x else m) m) 0.0
        let ycols := Y2.map Array.toList
        let k := ycols.length
        let resOk := (List.zip th2.toList ycols).all (fun (θ, y) =>
          (List.range k).all (fun i =>
            let gy := (List.range k).foldl (fun acc j => acc + ((Gm.getD j []).getD i 0.0 + (Gm.getD i []).getD j 0.0) / 2.0 * y.getD j 0.0) 0.0
            Float.abs (gy - θ * y.getD i 0.0) ≤ 1e-9 * (1.0 + gmax)))
        k = Gm.length && resOk && orthoDev Y2 ≤ 1e-9
      let ev := eigenvalues c s2
      let norms := s2.pairs.map (fun p => norm p.residue)
      pure s!"{s2.info.code} {s2.niter} {ret} {s2.conv.length} {joinSp (s2.conv.map (fun b => if b then "1" else "0"))} {ev.length} {joinSp (ev.map fbits)} {if eigok then 1 else 0} | {joinSp (norms.map fbits)} | {joinSp (s2.opBasis.map showFloats)}"
  | _ => none
end Drv.C15
