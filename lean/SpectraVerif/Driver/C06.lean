/-
  Driver for C06.
    herm …       solver-level histories on the symmetric family: answered by the C05 solver driver (same protocol, same model).
    gen …        solver-level histories on the general family (GenEigsSolver / GenEigsRealShiftSolver, fresh / reused / second
                 solver): answered by `Drv.C02.handle` (numeric instance `GenSolver.genKern`, the record of `gen_respects`),
                 reached through `Drv.C05.handle`, which delegates `gen`.
    opshift <cls> <sigmar> <sigmai> <oldr> <oldi> { | I <napps> <throwAt|-1> }* { | C <nIter> <nProbe> <rs> <throwAt|-1> }*
                 operator-side events (`set_shift` / `perform_op`) of construct + the given public calls (`Model/OpShift.lean`):
                 cls 0 = real-shift classes, 1 = GenEigsComplexShiftSolver as the code is now.  The counts are the ones observed on
                 the real class; the model answers with the event sequence (where `set_shift` happens, with which values — the
                 probe shift is computed from the source-translated generator) and the shift installed after every call.
-/
import SpectraVerif.Driver.Util
import SpectraVerif.Driver.C05
import SpectraVerif.Model.OpShift

namespace Drv.C06
open OpShift

abbrev Sh := Float × Float

def showSh (s : Sh) : String := s!"{fbits s.1},{fbits s.2}"

def optNat (s : String) : Option (Option Nat) := do
  let i ← parseInt? s
  pure (if i < 0 then none else some i.toNat)

def segment (evs : List (Ev Sh)) (th : Option Nat) (s : Sh) : Sh × String :=
  let r := exec evs th s
  (r.1, joinSp (render showSh (truncate evs th) 0 ++ [if r.2 then "threw" else "ret", "shift=" ++ showSh r.1]))

def runCall (cls : Nat) (sigma : Sh) (s : Sh) : List String → Option (Sh × String)
  | ["I", napps, th] => do
      let napps ← parseNat? napps; let th ← optNat th
      pure (segment (initEv napps) th s)
  | ["C", nIter, nProbe, rs, th] => do
      let nIter ← parseNat? nIter; let nProbe ← parseNat? nProbe; let rs ← parseNat? rs; let th ← optNat th
      let evs : List (Ev Sh) :=
        if cls = 0 then computeReal (nIter + nProbe)
        else computeComplex sigma (probeShift (α := Float) sigma.1, 0.0) nIter nProbe (rs != 0)
      pure (segment evs th s)
  | _ => none

def handle : List String → Option String
  | "opshift" :: cls :: sr :: si :: oldr :: oldi :: rest => do
      let cls ← parseNat? cls
      let sr ← ofBits? sr; let si ← ofBits? si; let oldr ← ofBits? oldr; let oldi ← ofBits? oldi
      let sigma : Sh := (sr, if cls = 0 then 0.0 else si)
      let calls := match Drv.C05.splitBar rest with | [] :: cs => cs | cs => cs
      let (s0, o0) := segment (ctor sigma) none (oldr, oldi)
      let (_, outs) ← calls.foldlM (fun (acc : Sh × List String) call => do
          let (s', o) ← runCall cls sigma acc.1 call
          pure (s', o :: acc.2)) (s0, [o0])
      pure (String.intercalate " | " outs.reverse)
  | l => Drv.C05.handle l

end Drv.C06
