import SpectraVerif.Driver.Util
import SpectraVerif.Gen.Sort
namespace Drv.C18
open Gen.Sort

def pairs : List Float → List (Float × Float)
  | a :: b :: r => (a, b) :: pairs r
  | _ => []

def showIdx (ind : Int → Int) (n : Nat) : String :=
  joinSp ((List.range n).map (fun (i : Nat) => toString (ind (i : Int))))

def handle : List String → Option String
  | "argsort" :: sel :: n :: vals => do
      let sel ← parseInt? sel; let n ← parseNat? n; let vs ← floats? vals
      if vs.length ≠ n then none else
      let f := fnOfArray (0.0 : Float) vs.toArray
      match argsort (α := Float) sel f n with
      | Res.ok ind => pure ("ok " ++ showIdx ind n)
      | Res.throw e => pure ("throw " ++ e)
  | "argsortk" :: sel :: n :: vals => do   -- long vectors: key sequence along the order (tie order canonicalised)
      let sel ← parseInt? sel; let n ← parseNat? n; let vs ← floats? vals
      if vs.length ≠ n then none else
      let f := fnOfArray (0.0 : Float) vs.toArray
      match argsort (α := Float) sel f n with
      | Res.ok ind => pure ("ok " ++ joinSp ((List.range n).map (fun (i : Nat) => fbits ((if sel = 0 || sel = 4 then Float.abs (f (ind (i : Int))) else f (ind (i : Int))) + 0.0))))
      | Res.throw e => pure ("throw " ++ e)
  | "sortc" :: rule :: n :: vals => do
      let r ← parseInt? rule; let n ← parseNat? n; let vs ← floats? vals
      if vs.length ≠ 2 * n then none else
      if !(keyCplx_defined r) then pure "no-instance" else
      let a := (pairs vs).toArray
      let f := fnOfArray ((0.0 : Float), (0.0 : Float)) a
      let ind := sortIdx (fun i j => Sc.lt (keyCplx r (f i)) (keyCplx r (f j))) n
      pure ("ok " ++ showIdx ind n)
  | ["genrule_select", s] => do let s ← parseInt? s; pure (if gen_select_rule s = -1 then "throw std::invalid_argument" else s!"ok {gen_select_rule s}")
  | ["genrule_sort", s] => do let s ← parseInt? s; pure (if gen_sort_rule s = -1 then "throw std::invalid_argument" else s!"ok {gen_sort_rule s}")
  | ["hermrule_select", s] => do let s ← parseInt? s; pure (if argsort_rule s = -1 then "throw std::invalid_argument" else s!"ok {argsort_rule s}")
  | ["hermrule_sort", s] => do
      let s ← parseInt? s
      match herm_sort_guard s with
      | Res.ok _ => pure (if argsort_rule s = -1 then "throw std::invalid_argument" else s!"ok {argsort_rule s}")
      | Res.throw e => pure ("throw " ++ e)
  | _ => none
end Drv.C18
