/- line-protocol helpers for the model driver (core only) -/
import SpectraVerif.Prelude.Sc

namespace Drv

def toks (line : String) : List String :=
  (line.trimAscii.toString.splitOn " ").filter (· ≠ "")

def parseInt? (s : String) : Option Int := s.toInt?
def parseNat? (s : String) : Option Nat := s.toNat?

def fbits (x : Float) : String := toString x.toBits.toNat
def ofBits? (s : String) : Option Float := (s.toNat?).map (fun n => Float.ofBits n.toUInt64)

def ints? (l : List String) : Option (List Int) := l.mapM parseInt?
def floats? (l : List String) : Option (List Float) := l.mapM ofBits?

def joinSp (l : List String) : String := String.intercalate " " l

/-- array-as-function from a list -/
def fnOfList {β : Type} (d : β) (l : List β) : Int → β := fun i => if i < 0 then d else (l.getD i.toNat d)
def fnOfArray {β : Type} (d : β) (a : Array β) : Int → β := fun i => if i < 0 then d else (a.getD i.toNat d)

/-- float arrays travel as decimal UInt64 bit patterns -/
def floatArr? (l : List String) : Option (Array Float) := (l.mapM ofBits?).map List.toArray
def showFloats (a : Array Float) : String := joinSp (a.toList.map fbits)
/-- split a token list: first `n` tokens and the rest (none if too short) -/
def takeN? (n : Nat) (l : List String) : Option (List String × List String) :=
  if l.length < n then none else some (l.take n, l.drop n)

end Drv
