/-
  Scalar abstraction shared by generated (`Gen/`) and hand-written (`Model/`) definitions.

  Arithmetic uses the ordinary notation classes (`Add`, `Sub`, `Mul`, `Div`, `Neg`), so that the same
  definition instantiates to IEEE double operations at `Float` (executable, used by the driver) and
  to Mathlib's field operations at `ℝ`/any field (used by the theorems) without any instance
  mismatch.  Everything that has no standard notation class goes through `Sc`.
  Core only: no Mathlib import here (the driver must link).
-/

class Sc (α : Type) where
  abs  : α → α
  sqrt : α → α
  pow  : α → α → α
  ofInt : Int → α
  /-- decimal literal `m * 10^e` as written in the C++ source -/
  lit  : Nat → Int → α
  lt : α → α → Bool
  le : α → α → Bool
  eq : α → α → Bool
  /-- `std::numeric_limits<T>::epsilon()` and `::min()`: machine parameters, inputs of the model -/
  eps : α
  minPos : α
  /-- `std::abs(std::complex<T>)` (libstdc++: `hypot(re, im)`) -/
  cabs : α × α → α

namespace Sc
variable {α : Type} [Sc α]
@[inline] def gt (a b : α) : Bool := Sc.lt b a
@[inline] def ge (a b : α) : Bool := Sc.le b a
@[inline] def ne (a b : α) : Bool := !(Sc.eq a b)
/-- complex helpers: `std::complex<T>` is modelled as a pair -/
@[inline] def conj [Neg α] (z : α × α) : α × α := (z.1, -z.2)
@[inline] def ceq (z w : α × α) : Bool := Sc.eq z.1 w.1 && Sc.eq z.2 w.2
/-- `std::norm(z)` = re² + im² -/
@[inline] def cnorm [Add α] [Mul α] (z : α × α) : α := z.1 * z.1 + z.2 * z.2
end Sc

/-- C `hypot` from libm (the function libstdc++ calls for `std::abs(std::complex<double>)`); executable model only -/
@[extern "hypot"] opaque hypotF : Float → Float → Float

instance : Sc Float where
  abs := Float.abs
  sqrt := Float.sqrt
  pow := Float.pow
  ofInt := Float.ofInt
  lit m e := if e < 0 then OfScientific.ofScientific m true e.natAbs else OfScientific.ofScientific m false e.natAbs
  lt a b := decide (a < b)
  le a b := decide (a ≤ b)
  eq a b := a == b
  eps := Float.ofBits 0x3CB0000000000000      -- 2^-52
  minPos := Float.ofBits 0x0010000000000000   -- 2^-1022
  cabs z := hypotF z.1 z.2

/-- C integer helpers used by generated code.  All C integer variables live in `Int`. -/
def intRange (lo hi : Int) : List Int := (List.range (hi - lo).toNat).map (fun (k : Nat) => lo + (k : Int))

/-- value of an `unsigned long` expression: reduction modulo 2^64 (what the C standard prescribes) -/
@[inline] def u64 (x : Int) : Int := x % 18446744073709551616
@[inline] def u32 (x : Int) : Int := x % 4294967296
/-- a signed 64-bit result is representable (otherwise the C++ has undefined behaviour) -/
@[inline] def inS64 (x : Int) : Bool := decide (-9223372036854775808 ≤ x) && decide (x ≤ 9223372036854775807)
@[inline] def inS32 (x : Int) : Bool := decide (-2147483648 ≤ x) && decide (x ≤ 2147483647)

/-- functional array update: arrays are modelled as functions from the index -/
@[inline] def upd {β : Type} (f : Int → β) (i : Int) (v : β) : Int → β := fun j => if j = i then v else f j

@[simp] theorem upd_same {β : Type} (f : Int → β) (i : Int) (v : β) : upd f i v i = v := by simp [upd]
theorem upd_other {β : Type} (f : Int → β) (i j : Int) (v : β) (h : j ≠ i) : upd f i v j = f j := by simp [upd, h]

theorem intRange_length (lo hi : Int) : (intRange lo hi).length = (hi - lo).toNat := by
  simp [intRange]

theorem mem_intRange {lo hi i : Int} : i ∈ intRange lo hi ↔ lo ≤ i ∧ i < hi := by
  simp only [intRange, List.mem_map, List.mem_range]
  constructor
  · rintro ⟨k, hk, rfl⟩; omega
  · intro h; exact ⟨(i - lo).toNat, by omega, by omega⟩

theorem intRange_succ (lo hi : Int) (h : lo ≤ hi) : intRange lo (hi + 1) = intRange lo hi ++ [hi] := by
  have e : (hi + 1 - lo).toNat = (hi - lo).toNat + 1 := by omega
  simp only [intRange, e, List.range_succ, List.map_append, List.map_cons, List.map_nil]
  congr 2; omega

theorem intRange_empty (lo hi : Int) (h : hi ≤ lo) : intRange lo hi = [] := by
  have e : (hi - lo).toNat = 0 := by omega
  simp [intRange, e]

/-- outcome of a translated function that may `throw` -/
inductive Res (β : Type) where
  | ok : β → Res β
  | throw : String → Res β
  deriving Repr, DecidableEq, BEq

