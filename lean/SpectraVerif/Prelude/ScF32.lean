/- `Scalar = float`: the scalar class at `Float32` (C `float` operations; `powf`, `sqrtf`, `hypotf`).  Core only. -/
import SpectraVerif.Prelude.Sc

@[extern "hypotf"] opaque hypotF32 : Float32 → Float32 → Float32

instance instScFloat32 : Sc Float32 where
  abs := Float32.abs
  sqrt := Float32.sqrt
  pow := Float32.pow
  ofInt := Float32.ofInt
  lit m e := if e < 0 then OfScientific.ofScientific m true e.natAbs else OfScientific.ofScientific m false e.natAbs
  lt a b := decide (a < b)
  le a b := decide (a ≤ b)
  eq a b := a == b
  eps := Float32.ofBits 0x34000000      -- 2^-23
  minPos := Float32.ofBits 0x00800000   -- 2^-126
  cabs z := hypotF32 z.1 z.2
