/-
  Model of `std::sort` on an index array, as used through `SortEigenvalue` (core only).
  libstdc++'s `std::sort` is a plain insertion sort for at most 16 elements, which is *stable*; `sortIdx` is the stable
  insertion sort, so for `len ≤ 16` even the order of ties agrees with the implementation.  Above 16 elements libstdc++
  uses introsort (unstable): the correspondence check then compares key sequences, and the theorems are stated for
  every permutation that sorts (`IsSortingPerm`), not only for the model's.
-/
import SpectraVerif.Prelude.Sc

/-- insert `x` into a list sorted by `lt`, after all elements `y` with `¬ lt x y` (stable) -/
def insertSorted (lt : Int → Int → Bool) (x : Int) : List Int → List Int
  | [] => [x]
  | y :: ys => if lt x y then x :: y :: ys else y :: insertSorted lt x ys

/-- stable insertion sort of the indices `0..len-1` by the strict comparison `lt` -/
def sortIdxList (lt : Int → Int → Bool) (len : Int) : List Int :=
  (intRange 0 len).foldl (fun acc i => insertSorted lt i acc) []

/-- the sorted index array as a function (arrays are functions in generated code) -/
@[noinline] def sortIdxArr (lt : Int → Int → Bool) (len : Int) : Array Int := (sortIdxList lt len).toArray

@[noinline] def arrFn (a : Array Int) : Int → Int := fun i => if i < 0 then 0 else a.getD i.toNat 0

def sortIdx (lt : Int → Int → Bool) (len : Int) : Int → Int := arrFn (sortIdxArr lt len)

theorem sortIdx_eq (lt : Int → Int → Bool) (len : Int) (i : Int) :
    sortIdx lt len i = if i < 0 then 0 else (sortIdxList lt len).getD i.toNat 0 := by
  simp [sortIdx, arrFn, sortIdxArr]

/-- number of `true` entries among the first `n` (Eigen's `.count()` / `.cast<Index>().sum()` on a bool array) -/
def countTrue (f : Int → Bool) (n : Int) : Int :=
  (intRange 0 n).foldl (fun c i => if f i then c + 1 else c) 0
