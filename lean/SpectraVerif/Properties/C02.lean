/-
  C02 — the general (nonsymmetric) solvers `GenEigsSolver`, `GenEigsRealShiftSolver`, `GenEigsComplexShiftSolver` return only genuine
  unit-norm eigenpairs, reported in the spectrum of the user's matrix, distinct pairs distinct.

  What the theorems are about.  `Model/GenSolver.lean` is the executable numeric instance of the shared orchestration model
  (`Orch.compute` with the kernel record `GenSolver.genKern`; `GenSolver.computeWith … csBack` for the complex-shift class, which is
  `Orch.compute` with one state-dependent step, `c02_compute_with_id`).  At `Float` it is run against the real classes bit for bit.
  The theorems below are
    * exact-arithmetic algebra over a field `K` "containing" the real scalar field `R` through a ring homomorphism `ι`
      (the complex numbers abstracted: the Arnoldi relation is real, Ritz values and coefficient vectors are complex), and
    * discrete statements about the two pure loop functions the executable model runs: `GenSolver.pairLoop` (conjugate-pair loop of
      `GenEigsComplexShiftSolver::sort_ritzpair`, `c02_model_pairloop`) and `GenSolver.shiftPasses` (single/double-shift loop of
      `GenEigsBase::restart`, `c02_model_restart`), for every scalar instance and every outcome of every comparison.

  Full-strength clauses that are NOT theorems:
    (R) "‖A x − λ x‖ ≤ tol·scale + (rounding-level)·‖A‖ in floating point" — proved here in exact arithmetic only (`c02_residual`,
        `c02_residual_flag`, `c02_realshift`, `c02_cshift_residual`); the rounding term and the convergence of the restarted iteration
        are checked by the long-double oracle only.  Named `…` without `_partial` where the exact-arithmetic identity IS the clause's
        algebraic content.
    (S) root selection of the complex-shift solver by probing at a random real shift: validated (correspondence + oracle), not proved.
    (P) `c02_pairs_full` / `c02_restart_schedule_full` — the statements of `c02_pairs` and `c02_restart_schedule` WITHOUT hypothesis
        P1 (complex Ritz values of the transformed problem are adjacent exact conjugates) — are FALSE: machine-checked counter-models
        below.  P1 is the convention of `UpperHessenbergEigen` (`C09.c09_conj_compute`) before sorting; `std::sort` keeps pairs
        adjacent except under key ties above 16 elements / duplicated pairs (F9: until /repo commit c0124c3 an Eigen index assertion
        in `restart`, reproduced by this check's harness as `eigen-index-assertion`, then repaired: `c02_restart_reads_in_range`;
        what remains is `c02_restart_unpaired`).
        History of `c02_pairs`: before the repair of finding F14 the pair test of `sort_ritzpair` was made on the SELECTED ROOT
        (`|Im λ| > eps`) and the theorem needed a second hypothesis P2 ("the test fires exactly on the values that have a conjugate
        partner in the next slot"), false for a REAL transformed value ν with 1 − 4 (Im σ)² ν² < 0 (`c02_quadratic_negative`): at
        |λ − Re σ| = |Im σ| by rounding, and for an unconverged real Ritz value with |ν| > 1/(2|Im σ|); a converged neighbour was
        overwritten (replays in known_findings/C02.json, F14-*).  The repaired code tests `nu.imag() != 0`; P2 is gone, and the former
        P2 counter-model is now an `example` of the repaired behaviour.
-/
import SpectraVerif.Proofs.C02Algebra
import SpectraVerif.Proofs.C02Loops

set_option linter.unusedSectionVars false
set_option linter.unusedVariables false
open Matrix

namespace C02

/-! ## 1. residual and unit norm (complex Ritz data over a real Arnoldi relation) -/

section residual
variable {n m : Type} [Fintype n] [Fintype m] [DecidableEq m] {R K : Type} [CommRing R] [Field K]

/-- **Ritz estimate = true residual**, complex case: if `A V = V H + f e_lastᵀ` over the reals, `H y = θ y` over `K ⊇ R` and
    `x = V y`, then `A x − θ x = y_last • f`. -/
theorem c02_residual (ι : R →+* K) (A : Matrix n n R) (V : Matrix n m R) (H : Matrix m m R) (f : n → R) (last : m)
    (θ : K) (y : m → K)
    (hfac : A * V = V * H + vecMulVec f (Pi.single last 1)) (hy : (H.map ι) *ᵥ y = θ • y) :
    (A.map ι) *ᵥ ((V.map ι) *ᵥ y) - θ • ((V.map ι) *ᵥ y) = y last • (ι ∘ f) :=
  C02A.residual_embedded ι A V H f last θ y hfac hy

/-- hence the flag test of `num_converged` (`|y_last| ‖f‖ < tol · max(|θ|, eps^{2/3})`) bounds the norm of the true residual, for
    every absolutely homogeneous `nrm` (exact arithmetic; clause (R) of the header for the rounding term) -/
theorem c02_residual_flag {S : Type} [Mul S] [LinearOrder S] (nrm : (n → K) → S) (absK : K → S)
    (hnrm : ∀ (c : K) (v : n → K), nrm (c • v) = absK c * nrm v)
    (ι : R →+* K) (A : Matrix n n R) (V : Matrix n m R) (H : Matrix m m R) (f : n → R) (last : m)
    (θ : K) (y : m → K) (tol eps23 : S)
    (hfac : A * V = V * H + vecMulVec f (Pi.single last 1)) (hy : (H.map ι) *ᵥ y = θ • y)
    (hflag : absK (y last) * nrm (ι ∘ f) < tol * max (absK θ) eps23) :
    nrm ((A.map ι) *ᵥ ((V.map ι) *ᵥ y) - θ • ((V.map ι) *ᵥ y)) < tol * max (absK θ) eps23 :=
  C02A.residual_flag_bound nrm absK hnrm ι A V H f last θ y tol eps23 hfac hy hflag

end residual

section unitnorm
variable {n m : Type} [Fintype n] [Fintype m] [DecidableEq m] {R K : Type} [CommRing R] [Field K] [StarRing K]

/-- **‖x‖ = ‖y‖** when `VᵀV = I` (V real, y complex): `xᴴx = yᴴy` -/
theorem c02_unit_gram (ι : R →+* K) (hι : ∀ r, star (ι r) = ι r) (V : Matrix n m R) (hV : Vᵀ * V = 1) (y : m → K) :
    star ((V.map ι) *ᵥ y) ⬝ᵥ ((V.map ι) *ᵥ y) = star y ⬝ᵥ y :=
  C02A.unit_norm ι hι V hV y

/-- **unit norm**: `‖y‖ = 1` (the normalisation of `UpperHessenbergEigen::eigenvectors`, `C09.c09_eigvec_unit`) and `VᵀV = I` give
    `‖x‖ = 1`.  FALSE on the real code when `VᵀV = I` fails: rank-deficient operators (finding F13). -/
theorem c02_unit (ι : R →+* K) (hι : ∀ r, star (ι r) = ι r) (V : Matrix n m R) (hV : Vᵀ * V = 1) (y : m → K)
    (hy : star y ⬝ᵥ y = 1) :
    star ((V.map ι) *ᵥ y) ⬝ᵥ ((V.map ι) *ᵥ y) = 1 :=
  C02A.unit_norm_one ι hι V hV y hy

end unitnorm

/-! ## 2. real shift: λ = σ + 1/ν, and only back-transformed values are returned -/

section realshift
variable {K : Type} [Field K]

/-- `ν ↦ σ + 1/ν` is the inverse of `λ ↦ 1/(λ − σ)` (both directions) -/
theorem c02_realshift (σ lam ν : K) (h : lam - σ ≠ 0) (hν : ν ≠ 0) :
    σ + 1 / (1 / (lam - σ)) = lam ∧ 1 / ((σ + 1 / ν) - σ) = ν ∧ 1 / (lam - σ) ≠ 0 :=
  ⟨C02A.realshift_roundtrip σ lam h, C02A.realshift_roundtrip' σ ν hν, C02A.realshift_nu_ne_zero σ lam h⟩

/-- residual of the back-transformed pair: if `(A − σI)(ν x + r) = x` (the operator applied to `x` gave `ν x + r`) then
    `A x − (σ + 1/ν) x = −(1/ν)(A − σI) r` -/
theorem c02_realshift_residual {n : Type} [Fintype n] [DecidableEq n] (A : Matrix n n K) (σ ν : K) (x r y : n → K) (hν : ν ≠ 0)
    (hy : y = ν • x + r) (hM : (A - σ • (1 : Matrix n n K)) *ᵥ y = x) :
    A *ᵥ x - (σ + 1 / ν) • x = -(1 / ν) • ((A - σ • (1 : Matrix n n K)) *ᵥ r) :=
  C02A.realshift_residual A σ ν x r y hν hy hM

end realshift

/-- **never in the transformed spectrum**, for EVERY kernel record (every way the numerics could come out): after a successful
    `sort_ritzpair`, every value `eigenvalues()` hands back is `back ν` for one of the first `nev` Ritz values `ν` of the iteration.
    (`hidx`: the final sort returns indices `< nev`; a theorem for the real sort, `c02_realshift_model`.) -/
theorem c02_realshift_returned {φ ρ ε κ β τ ω : Type} (K : Orch.Kern φ ρ ε κ β τ ω) (c : Orch.Cfg) (back : ρ → ρ)
    (hback : K.backTransform = List.map back) (rule : Int) (s s' : Orch.St φ ρ ε κ)
    (h : Orch.sortRitz K c rule s = (s', none))
    (hlen : c.nev ≤ s.ritzVal.length) (hcfg : c.nev ≤ c.ncv)
    (hidx : ∀ vals ind, K.sortIdx rule vals c.nev = .ok ind → ∀ i < c.nev, ind.getD i 0 < c.nev) :
    ∀ v ∈ Orch.eigenvalues K c s', ∃ j < c.nev, v = back (s.ritzVal.getD j K.zeroρ) :=
  C02A.realshift_structural K c back hback rule s s' h hlen hcfg hidx

section concrete
variable {α : Type} [Add α] [Sub α] [Mul α] [Div α] [Neg α] [Sc α]

/-- the same for the executable kernel of `GenEigsRealShiftSolver` at every scalar instance (in particular `Float`): every returned
    value is `realShiftBack sigma ν = Scalar(1) / ν + sigma` of a Ritz value of the iteration -/
theorem c02_realshift_model (op : Arnoldi.Op α) (c : Orch.Cfg) (eps23 sigma : α) (rule : Int)
    (s s' : Orch.St (Arnoldi.State α) (GenSolver.Cx α) (GenSolver.Cx α) (Lin.Vec (GenSolver.Cx α)))
    (h : Orch.sortRitz (GenSolver.genKern op c eps23 (GenSolver.realShiftBack sigma)) c rule s = (s', none))
    (hlen : c.nev ≤ s.ritzVal.length) (hcfg : c.nev ≤ c.ncv) :
    ∀ v ∈ Orch.eigenvalues (GenSolver.genKern op c eps23 (GenSolver.realShiftBack sigma)) c s',
      ∃ j < c.nev, v = GenSolver.realShiftBack sigma (s.ritzVal.getD j GenSolver.czero) :=
  C02A.realshift_model op c eps23 sigma rule s s' h hlen hcfg

end concrete

/-! ## 3. complex shift: the quadratic, its two roots, the boundary behind F14 -/

section quadratic
variable {K : Type} [Field K]

/-- **the code's quadratic**: for σ = a + b i, `ν = ½ (1/(λ−σ) + 1/(λ−σ̄))` iff `ν ((λ−a)² + b²) = λ − a`; and with a square-root
    witness `s² = 1 − 4 b² ν²` (`sqrt_disc`, `1 + s ≠ 0`: the principal root has a non-negative real part) the solutions are exactly the
    two candidates of the code (as computed since 0117f45),
    `root1 = root_part1 + root_part2 = a + 1/(2ν) + s/(2ν)` and `root2 = m_sigmar + (2 σi σi) ν / (1 + sqrt_disc)`;
    the latter IS `root_part1 − root_part2` (third conjunct: the form used before the repair, `c02_quadratic_root2`). -/
theorem c02_quadratic (a b i lam ν s : K) (hi : i * i = -1) (h2 : (2 : K) ≠ 0)
    (h1 : lam - (a + b * i) ≠ 0) (h1c : lam - (a - b * i) ≠ 0) (hν : ν ≠ 0) (hs : s * s = 1 - 4 * b ^ 2 * ν ^ 2)
    (h1s : 1 + s ≠ 0) :
    (ν = (1 / 2) * (1 / (lam - (a + b * i)) + 1 / (lam - (a - b * i))) ↔ ν * ((lam - a) ^ 2 + b ^ 2) = lam - a) ∧
    (ν * ((lam - a) ^ 2 + b ^ 2) = lam - a ↔
      lam = a + 1 / (2 * ν) + s / (2 * ν) ∨ lam = a + (2 * b * b) * ν / (1 + s)) ∧
    (ν * ((lam - a) ^ 2 + b ^ 2) = lam - a ↔
      lam = a + 1 / (2 * ν) + s / (2 * ν) ∨ lam = a + 1 / (2 * ν) - s / (2 * ν)) :=
  ⟨C02A.cs_nu_iff a b i lam ν hi h2 h1 h1c, C02A.cs_roots_stable a b lam ν s h2 hν hs h1s, C02A.cs_roots a b lam ν s h2 hν hs⟩

/-- **the repaired second root**: `m_sigmar + (Scalar(2) * m_sigmai * m_sigmai) * nu / (Scalar(1) + sqrt_disc)` equals
    `root_part1 − root_part2` over any field (given `sqrt_disc² = 1 − 4 σi² ν²`, `1 + sqrt_disc ≠ 0`, `ν ≠ 0`), and together with
    `root1` it still has product `σi²` with it (Vieta) — so whichever candidate `sort_ritzpair` returns is a root of the quadratic
    (`c02_quadratic`). What the repair changes is rounding only: no difference of two numbers of size `1/(2|ν|)` is formed. -/
theorem c02_quadratic_root2 (a b ν s : K) (h2 : (2 : K) ≠ 0) (hν : ν ≠ 0) (hs : s * s = 1 - 4 * b ^ 2 * ν ^ 2)
    (h1s : 1 + s ≠ 0) :
    a + (2 * b * b) * ν / (1 + s) = a + 1 / (2 * ν) - s / (2 * ν) ∧
    (1 / (2 * ν) + s / (2 * ν)) * ((2 * b * b) * ν / (1 + s)) = b ^ 2 :=
  ⟨C02A.cs_root2_stable a b ν s h2 hν hs h1s, C02A.cs_roots_product_stable b ν s h2 hν h1s⟩

/-- **the clause finding C02-resigma-cancellation violated**: for the eigenvalue AT `Re σ` the transformed value is `ν = 0`; the
    code's second candidate is then `Re σ` EXACTLY (for every value of `sqrt_disc`, no hypothesis: nothing is divided by `ν`), and
    `Re σ` is the unique solution of the quadratic for `ν = 0` — before the repair the candidate was `(a + 1/(2ν)) − s/(2ν)`, which is
    not even defined at `ν = 0` and is the difference of two numbers ~ `1/|ν|` next to it. -/
theorem c02_quadratic_nu_zero (a b lam s : K) :
    a + (2 * b * b) * 0 / (1 + s) = a ∧ ((0 : K) * ((lam - a) ^ 2 + b ^ 2) = lam - a ↔ lam = a) :=
  C02A.cs_root2_nu_zero a b lam s

/-- the hypotheses are satisfiable: σ = i, ν = 2/5, sqrt_disc = 3/5, root1 = 2, root2 = 1/2 (product 1 = σi²) -/
example : (3 / 5 : ℚ) * (3 / 5) = 1 - 4 * 1 ^ 2 * (2 / 5) ^ 2 ∧ (1 : ℚ) + 3 / 5 ≠ 0 ∧
    (0 : ℚ) + (2 * 1 * 1) * (2 / 5) / (1 + 3 / 5) = 1 / 2 ∧ (0 : ℚ) + 1 / (2 * (2 / 5)) - (3 / 5) / (2 * (2 / 5)) = 1 / 2 := by
  norm_num

/-- Vieta: the two candidates `t = λ − a` have product `b²` and sum `1/ν` (so the "other root" is `a + b²/(λ − a)`) -/
theorem c02_quadratic_roots (b ν s : K) (h2 : (2 : K) ≠ 0) (hν : ν ≠ 0) (hs : s * s = 1 - 4 * b ^ 2 * ν ^ 2) :
    (1 / (2 * ν) + s / (2 * ν)) * (1 / (2 * ν) - s / (2 * ν)) = b ^ 2 ∧
    (1 / (2 * ν) + s / (2 * ν)) + (1 / (2 * ν) - s / (2 * ν)) = 1 / ν :=
  C02A.cs_roots_product b ν s h2 hν hs

/-- **the boundary configuration of F14**: a real eigenvalue at distance `|Im σ|` from `Re σ` gives `ν = 1/(2(λ−a))` and the
    discriminant `1 − 4b²ν²` is EXACTLY zero (double root: both candidates coincide with λ) -/
theorem c02_quadratic_boundary (a b lam ν : K) (h2 : (2 : K) ≠ 0) (hb : b ≠ 0) (hd : (lam - a) ^ 2 = b ^ 2)
    (hq : ν * ((lam - a) ^ 2 + b ^ 2) = lam - a) :
    (ν = 1 / (2 * (lam - a)) ∧ 1 - 4 * b ^ 2 * ν ^ 2 = 0) ∧
    (lam = a + 1 / (2 * ν) + 0 / (2 * ν) ∧ lam = a + 1 / (2 * ν) - 0 / (2 * ν)) :=
  ⟨C02A.cs_boundary a b lam ν h2 hb hd hq, C02A.cs_boundary_roots a b lam ν h2 hb hd hq⟩

/-- residual of the back-transformed pair of the complex-shift operator `Re[(A−σI)⁻¹] = (A−a)((A−a)² + b²)⁻¹`: if the operator
    applied to `x` gave `ν x + r`, λ is a root of the quadratic and λ' the other root, then
    `(A − λ'I)(A − λI) x = −ν⁻¹ ((A−a)² + b²) r`  (the oracle's back-transformation factor is the norm of `(A − λ'I)⁻¹ B / ν`) -/
theorem c02_cshift_residual {n : Type} [Fintype n] [DecidableEq n] (A B : Matrix n n K) (a b ν lam lam' : K) (x y r : n → K)
    (hν : ν ≠ 0)
    (hBdef : B = (A - a • (1 : Matrix n n K)) * (A - a • (1 : Matrix n n K)) + (b ^ 2) • (1 : Matrix n n K))
    (hB : B *ᵥ y = (A - a • (1 : Matrix n n K)) *ᵥ x) (hy : y = ν • x + r)
    (hq : ν * ((lam - a) ^ 2 + b ^ 2) = lam - a) (hp : (lam - a) * (lam' - a) = b ^ 2) (hl : lam - a ≠ 0) :
    (A - lam' • (1 : Matrix n n K)) *ᵥ ((A - lam • (1 : Matrix n n K)) *ᵥ x) = -ν⁻¹ • (B *ᵥ r) :=
  C02A.cs_residual A B a b ν lam lam' x y r hν hBdef hB hy hq hp hl

end quadratic

/-- **why P2 fails**: over an ordered field, ANY real transformed value with `ν'² > 1/(4b²)` — an over-estimate of the boundary value
    by rounding (F14), or an unconverged real Ritz value (F14b) — has a NEGATIVE discriminant: the two candidates are a complex pair
    (on the circle `|λ − a| = |b|`, `c02_quadratic_roots`) although no conjugate partner sits in the next slot -/
theorem c02_quadratic_negative {K : Type} [Field K] [LinearOrder K] [IsStrictOrderedRing K] (b ν' : K) (hb : b ≠ 0)
    (h : ν' ^ 2 > 1 / (4 * b ^ 2)) : 1 - 4 * b ^ 2 * ν' ^ 2 < 0 :=
  C02A.cs_boundary_neg b ν' hb h

/-! ## 4. the conjugate-pair loop of `GenEigsComplexShiftSolver::sort_ritzpair` (pair test on the transformed value ν) -/

/-- the quadratic has real coefficients: conjugation maps a root for `ν` to a root for `conj ν` — so the slot that held `conj ν` may
    be given `conj λ` (what the pair branch does), and a REAL `ν` has `λ`, `conj λ` as the two roots of its OWN slot (nothing to
    write into the next one) -/
theorem c02_quadratic_conj {K : Type} [Field K] (conj : K →+* K) (a b lam ν : K) (ha : conj a = a) (hb : conj b = b)
    (hq : ν * ((lam - a) ^ 2 + b ^ 2) = lam - a) :
    conj ν * ((conj lam - a) ^ 2 + b ^ 2) = conj lam - a ∧
    (conj ν = ν → ν * ((conj lam - a) ^ 2 + b ^ 2) = conj lam - a) :=
  ⟨C02A.cs_conj conj a b lam ν ha hb hq, fun hν => C02A.cs_conj_real conj a b lam ν ha hb hν hq⟩

section pairs
open GenSolver C02L
variable {ρ : Type} (pick : Nat → ρ → ρ) (isPair : ρ → Bool) (cj re : ρ → ρ) (nev : Nat) (dflt : ρ)

/-- **c02_pairs** (no P2 any more): under P1 alone (`NBlocks`: from slot 0 the TRANSFORMED values `v[j]` come as singletons on which
    the pair test `isPair` is false and adjacent pairs `(ν, conj ν)` on which it is true), every slot `j < nev` is exactly one of
      (real)    visited, test false: it ends with `re (own j)`, the real part of the root selected for its own `ν`;
      (start)   visited, test true:  it ends with `own j`, the root selected for its own `ν`;
      (partner) the slot after a visited pair start: it HELD `conj v[j−1]` and ends with `conj (own (j−1))`.
    So the only slots overwritten with a conjugate are slots that held the conjugate Ritz value; the length is kept and no slot
    `> nev` is touched. -/
theorem c02_pairs (v : List ρ) (fuel : Nat) (hb : NBlocks isPair cj (fun j => v.getD j dflt) nev 0)
    (hlen : nev ≤ v.length) (hf : nev ≤ fuel) :
    (∀ j, j < nev →
      (j ∈ pairVisits isPair nev dflt v fuel 0 ∧ isPair (v.getD j dflt) = false ∧
        (pairLoop pick isPair cj re nev dflt fuel 0 v).getD j dflt = re (own pick dflt v j)) ∨
      (j ∈ pairVisits isPair nev dflt v fuel 0 ∧ isPair (v.getD j dflt) = true ∧
        (pairLoop pick isPair cj re nev dflt fuel 0 v).getD j dflt = own pick dflt v j) ∨
      (0 < j ∧ j - 1 ∈ pairVisits isPair nev dflt v fuel 0 ∧ isPair (v.getD (j - 1) dflt) = true ∧
        v.getD j dflt = cj (v.getD (j - 1) dflt) ∧
        (pairLoop pick isPair cj re nev dflt fuel 0 v).getD j dflt = cj (own pick dflt v (j - 1)))) ∧
    (pairLoop pick isPair cj re nev dflt fuel 0 v).length = v.length ∧
    (∀ j, nev < j → (pairLoop pick isPair cj re nev dflt fuel 0 v).getD j dflt = v.getD j dflt) :=
  pairLoop_slots pick isPair cj re nev dflt v fuel hb hlen hf

/-- **what replaces P2**: a property of the ROOT SELECTION, not of the values — if selecting the root commutes with conjugation
    (`hE`: the root picked for `conj ν` in the next slot is the conjugate of the root picked for `ν`; true of the exact roots by
    `c02_quadratic_conj`, validated for the probing by the correspondence and the oracle) and the pair test is conjugation-invariant
    (`hcj`: trivial for `nu.imag() != 0`), then EVERY slot `j < nev` ends with its own eigenvalue -/
theorem c02_pairs_own (v : List ρ) (fuel : Nat) (hb : NBlocks isPair cj (fun j => v.getD j dflt) nev 0)
    (hE : ∀ i, i < nev → isPair (v.getD i dflt) = true → pick (i + 1) (cj (v.getD i dflt)) = cj (pick i (v.getD i dflt)))
    (hcj : ∀ i, i < nev → isPair (v.getD i dflt) = true → isPair (cj (v.getD i dflt)) = true)
    (hlen : nev ≤ v.length) (hf : nev ≤ fuel) :
    ∀ j, j < nev → (pairLoop pick isPair cj re nev dflt fuel 0 v).getD j dflt =
        if isPair (v.getD j dflt) then own pick dflt v j else re (own pick dflt v j) :=
  pairLoop_slots_own pick isPair cj re nev dflt v fuel hb hE hcj hlen hf

/-- **every slot is written exactly once** — UNCONDITIONALLY: the written slots are `i, i+1, …` without gap or repetition, at most
    one slot beyond `nev` (the conjugate of a pair that starts in the last slot; the base class discards it) -/
theorem c02_pairs_once (v : List ρ) (fuel i : Nat) (hi : i ≤ nev) (hf : nev - i ≤ fuel) :
    ∃ k, pairWrites isPair nev dflt v fuel i = List.range' i k ∧ nev - i ≤ k ∧ k ≤ nev - i + 1 :=
  pairWrites_contiguous isPair nev dflt v fuel i hi hf

/-- what the loop does WITHOUT P1 (the exact semantics used by the counter-model): a visited slot whose `ν` fails the test gets the
    real part of its own root and the next slot is NOT touched by this pass; a visited slot whose `ν` passes gets its own root and
    the NEXT slot gets the conjugate of it, whatever that slot held -/
theorem c02_pairs_visited (v : List ρ) (fuel j : Nat) (hj : j ∈ pairVisits isPair nev dflt v fuel 0) (hjl : j < v.length) :
    (isPair (v.getD j dflt) = false →
      (pairLoop pick isPair cj re nev dflt fuel 0 v).getD j dflt = re (own pick dflt v j)) ∧
    (isPair (v.getD j dflt) = true →
      (pairLoop pick isPair cj re nev dflt fuel 0 v).getD j dflt = own pick dflt v j ∧
      (j + 1 < v.length → (pairLoop pick isPair cj re nev dflt fuel 0 v).getD (j + 1) dflt = cj (own pick dflt v j))) :=
  pairLoop_visited pick isPair cj re nev dflt v fuel j hj hjl

end pairs

/-- the executable model runs exactly this loop (so `c02_pairs` is about the code path the correspondence check validates) -/
theorem c02_model_pairloop {α : Type} [Add α] [Sub α] [Mul α] [Div α] [Neg α] [Sc α]
    (probe : Lin.Vec α → Lin.Vec α) (c : Orch.Cfg) (sigmar sigmai : α)
    (s : Orch.St (Arnoldi.State α) (GenSolver.Cx α) (GenSolver.Cx α) (Lin.Vec (GenSolver.Cx α))) :
    GenSolver.csBack probe c sigmar sigmai s =
      GenSolver.pairLoop (GenSolver.csPick probe c.n c.ncv sigmar sigmai (GenSolver.probeShift sigmar) s.fac.V s.ritzVec)
        (fun nu => Sc.ne nu.2 Lin.zero) Sc.conj (fun lam => (lam.1, Lin.zero)) c.nev GenSolver.czero c.nev 0 s.ritzVal := rfl

/-- `GenEigsComplexShiftSolver::compute` of the model is `Orch.compute` with one extra step; with the identity step it IS `Orch.compute`
    (so the C05 orchestration theorems apply verbatim to `GenEigsSolver` / `GenEigsRealShiftSolver`) -/
theorem c02_compute_with_id {φ ρ ε κ β τ ω : Type} (K : Orch.Kern φ ρ ε κ β τ ω) (c : Orch.Cfg)
    (sel : Int) (maxit : Nat) (tol : τ) (sorting : Int) (s : Orch.St φ ρ ε κ) :
    GenSolver.computeWith K c id sel maxit tol sorting s = Orch.compute K c sel maxit tol sorting s :=
  GenSolver.computeWith_id K c sel maxit tol sorting s

/-- the pair test of the executable model is conjugation-invariant (`hcj` of `c02_pairs_own`) at an ordered field -/
theorem c02_pairtest_conj {K : Type} [Field K] [LinearOrder K] [IsStrictOrderedRing K] (F : FieldFns K) (nu : K × K)
    (h : @Sc.ne K (scOfField F) nu.2 0 = true) : @Sc.ne K (scOfField F) (Sc.conj nu).2 0 = true := by
  simp only [Sc.conj, ScF.ne, Bool.not_eq_true', decide_eq_false_iff_not, neg_eq_zero] at h ⊢
  exact h

/-! ### `c02_pairs_full` (no P1) is false: counter-model; the former P2 counter-model is the repaired behaviour -/

/-- P1 is satisfiable: a real value followed by an adjacent conjugate pair -/
example : C02L.NBlocks C02L.zPair C02L.zCj (fun j => [((3 : Int), (0 : Int)), (1, 2), (1, -2)].getD j (0, 0)) 3 0 :=
  .real (by omega) (by decide) (.pair (by omega) (by decide) (by decide) (.done (by omega)))

/-- WITHOUT P1 (a tie of the sort key — here `|1 ± 2i| = |2 ± i|` under LargestMagn — separates the conjugates): the eigenvalues
    `2 ± i` are lost and `1 ± 2i` are handed back twice -/
example :
    GenSolver.pairLoop (fun _ z => z) C02L.zPair C02L.zCj C02L.zRe 4 (0, 0) 4 0 [(1, 2), (2, 1), (1, -2), (2, -1), (0, 0)] =
      [(1, 2), (1, -2), (1, -2), (1, 2), (0, 0)] ∧
    ((2, 1) : Int × Int) ∉
      GenSolver.pairLoop (fun _ z => z) C02L.zPair C02L.zCj C02L.zRe 4 (0, 0) 4 0 [(1, 2), (2, 1), (1, -2), (2, -1), (0, 0)] := by
  refine ⟨by decide, by decide⟩

/-- the FORMER counter-model without P2 (finding F14: the selected root of a REAL transformed value carries a non-zero imaginary
    part, `c02_quadratic_negative`), on the repaired loop: slot 1 keeps its own eigenvalue `5`, slot 0 gets the real part `2` of its
    root; nothing is lost, nothing is duplicated.  (Before the repair the result was `[(2, -1), (2, 1), (0, 0)]`.) -/
example :
    GenSolver.pairLoop C02L.pickP2 C02L.zPair C02L.zCj C02L.zRe 2 (0, 0) 2 0 [(1, 0), (3, 0), (0, 0)] = [(2, 0), (5, 0), (0, 0)] ∧
    C02L.own C02L.pickP2 (0, 0) [(1, 0), (3, 0), (0, 0)] 1 = (5, 0) := by
  refine ⟨by decide, by decide⟩

/-! ## 5. the single/double-shift schedule of `GenEigsBase::restart` -/

section restart
open GenSolver C02L Gen.Restart
variable {α : Type} [Add α] [Sub α] [Mul α] [Div α] [Neg α] [Sc α] (ritz : Int → α × α) (ncv : Nat)

/-- **c02_restart_schedule**: under P1 on the unwanted part (`SBlocks ritz ncv k`: from slot `k` the Ritz values are real singletons
    and adjacent exact conjugate pairs, as decided by the source-translated `is_complex` / `is_conj`), for every scalar instance:
    the passes apply every unwanted slot `k … ncv−1` exactly once and in order, the total degree is `ncv − k` (so `m_k` ends at `k`),
    every index of `m_ritz_val` a pass evaluates is `< ncv`, every double pass sits on a complex value whose successor is its exact
    conjugate, and every single pass sits on a value with zero imaginary part (the real shift `Re ritz_i` is the whole value): each
    unwanted Ritz VALUE is applied exactly once. -/
theorem c02_restart_schedule {k : Nat} (hb : SBlocks ritz ncv k) (fuel : Nat) (hf : ncv - k ≤ fuel) :
    (shiftPasses ritz ncv fuel k).flatMap applied = List.range' k (ncv - k) ∧
    degree (shiftPasses ritz ncv fuel k) = ncv - k ∧
    (∀ p ∈ shiftPasses ritz ncv fuel k, ∀ j ∈ passReads ritz ncv p, j < ncv) ∧
    (∀ i, (i, true) ∈ shiftPasses ritz ncv fuel k →
      is_conj (ritz (i : Int)) (ritz ((i : Int) + 1)) = true ∧ is_complex (ritz (i : Int)) = true) ∧
    (∀ i, (i, false) ∈ shiftPasses ritz ncv fuel k → is_complex (ritz (i : Int)) = false) :=
  shiftPasses_schedule ritz ncv hb fuel hf

/-- UNCONDITIONALLY (no P1; the loop as repaired by /repo commit c0124c3, finding F9): every index of `m_ritz_val` the loop evaluates
    is in range, every unwanted SLOT is consumed exactly once and in order, and the degree is exactly `ncv − k` (`m_k` always ends
    at `k`).  Before the repair the model (without the bound test) had a pass reading index `ncv`; this check's correspondence broke
    when the repair landed and the model was updated. -/
theorem c02_restart_reads_in_range (fuel k : Nat) (hf : ncv - k ≤ fuel) :
    (∀ p ∈ shiftPasses ritz ncv fuel k, ∀ j ∈ passReads ritz ncv p, j < ncv) ∧
    (shiftPasses ritz ncv fuel k).flatMap applied = List.range' k (ncv - k) ∧
    degree (shiftPasses ritz ncv fuel k) = ncv - k :=
  ⟨shiftPasses_reads_in_range ritz ncv fuel k, (shiftPasses_contiguous ritz ncv fuel k hf).1, (shiftPasses_contiguous ritz ncv fuel k hf).2⟩

/-- what is lost WITHOUT P1: a complex value is consumed by a SINGLE pass — i.e. applied as the real shift `Re μ`, not as its own
    value — exactly when it sits in the last slot or its successor is not its exact conjugate -/
theorem c02_restart_unpaired (fuel k i : Nat) (b : Bool) (h : (i, b) ∈ shiftPasses ritz ncv fuel k)
    (hc : is_complex (ritz (i : Int)) = true) :
    b = false ↔ (i + 1 = ncv ∨ is_conj (ritz (i : Int)) (ritz ((i : Int) + 1)) = false) :=
  shiftPasses_single_complex_iff ritz ncv fuel k i b h hc

/-- the executable model's `restart` folds `shiftStep` (UpperHessenbergQR for `(i, false)`, DoubleShiftQR for `(i, true)`,
    `compress_H`, `Q ← Q Qi`) over exactly these passes, then `compress_V` and `factorize_from(k, ncv)` -/
theorem c02_model_restart (op : Arnoldi.Op α) (k : Nat) (ritzVal : List (Cx α)) (s : Arnoldi.State α) :
    restartFac op ncv k ritzVal s =
      (let r := (shiftPasses (clistFn ritzVal) ncv (ncv - k) k).foldl (shiftStep (clistFn ritzVal)) (s, Lin.Mat.identity ncv)
       let s2 := Arnoldi.compress_V op r.1 r.2
       match Arnoldi.factorize_from op s2 k ncv with
       | some s3 => ⟨s3, s3.ops - s.ops, none⟩
       | none => ⟨s2, 0, some (.invalidArgument "Arnoldi: from_k is larger than the current subspace dimension")⟩) := rfl

end restart

/-- over an ordered field: a double pass uses `s = 2 Re μ`, `t = |μ|²`, and `x² − s x + t = (x − Re μ)² + (Im μ)²` is the product
    `(x − μ)(x − conj μ)` — the pair `μ, conj μ = ritz (i+1)` is applied by ONE real quadratic -/
theorem c02_restart_double_shift {K : Type} [Field K] [LinearOrder K] [IsStrictOrderedRing K] (F : FieldFns K)
    (ritz : Int → K × K) (ncv fuel k i : Nat)
    (h : (i, true) ∈ @GenSolver.shiftPasses K _ _ _ _ _ (scOfField F) ritz ncv fuel k) :
    ritz ((i : Int) + 1) = ((ritz (i : Int)).1, -(ritz (i : Int)).2) ∧ (ritz (i : Int)).2 ≠ 0 ∧
    ∀ x : K, x * x - (@GenSolver.two K (scOfField F) * (ritz (i : Int)).1) * x + Sc.cnorm (ritz (i : Int)) =
      (x - (ritz (i : Int)).1) ^ 2 + (ritz (i : Int)).2 ^ 2 :=
  C02L.shiftPasses_double_field F ritz ncv fuel k i h

/-! ### `c02_restart_schedule_full` (no P1) is false: counter-model = finding F9 -/

/-- P1 is satisfiable on the shift loop: one real value and one conjugate pair, passes `[(0, single), (1, double)]` -/
example : @GenSolver.shiftPasses ℚ _ _ _ _ _ (scOfField C02L.F0) (C02L.ofList [(3, 0), (1, 2), (1, -2)]) 3 3 0 = [(0, false), (1, true)] := by
  decide

/-- conjugates NOT adjacent (`[1+2i, 2+i, 1−2i, 2−i]`, a key tie under LargestMagn): four SINGLE passes although all four values are
    complex — every unwanted complex value is applied as the real shift `Re μ`, none as its own value (before /repo commit c0124c3
    the loop moreover read `m_ritz_val[ncv]` here: F9) -/
example :
    @GenSolver.shiftPasses ℚ _ _ _ _ _ (scOfField C02L.F0) (C02L.ofList [(1, 2), (2, 1), (1, -2), (2, -1)]) 4 4 0 =
      [(0, false), (1, false), (2, false), (3, false)] ∧
    (∀ i : Nat, i < 4 →
      @Gen.Restart.is_complex ℚ _ _ _ _ _ (scOfField C02L.F0) (C02L.ofList [(1, 2), (2, 1), (1, -2), (2, -1)] (i : Int)) = true) := by
  refine ⟨by decide, by decide⟩

end C02
