/-
  C04 — the converged set is the part of the spectrum the selection rule asks for.

  WHAT IS AND IS NOT PROVED.  "When the solver reports Successful, the k eigenvalues returned are the k the rule names" has two
  ingredients.  (a) The iteration converges to the END of the spectrum the rule names.  That is a generic-position statement
  about Krylov methods — false for a start vector orthogonal to a wanted eigenvector — and is NOT provable for all inputs; it is
  NOT claimed here.  "Successful ⇒ the right k" itself is established ONLY ON THE EXPLORED INPUTS, by the acceptance oracle
  (`harness/c04.cpp`: prescribed spectra, every rule × every solver family, dense long-double reference).
  (b) Everything the CODE contributes to it, which is what the theorems below establish for all inputs:

    1. `c04_wanted_first*`   after `retrieve_ritzpair` (model `Orch.retrieve`, its `select` kernel being the source-translated
                             `argsort` resp. the general family's `SortEigenvalue` switch) the Ritz values are a permutation of
                             the eigenvalues of the projected matrix in which, for EVERY k (so for `nev` and for every adjusted
                             restart size), no value at a position ≥ k has a strictly better key than one at a position < k;
                             BothEnds: the first k positions hold the ⌈k/2⌉ largest and the ⌊k/2⌋ smallest; values, estimates
                             and vectors are permuted by ONE index vector.
    2. `c04_shifts_unwanted*` the shifts of a symmetric restart are a permutation of the Ritz values at positions k..ncv-1
                             (ordered by decreasing magnitude), ncv-k of them; the general family's shift loop consumes exactly
                             the positions k..ncv-1, each once, a conjugate pair by one double shift, provided complex values sit
                             in adjacent conjugate pairs.
    3. `c04_filter*`         one exact shift μ multiplies the start vector by (A - μI) (polynomial filter): the first column of
                             V⁺ = VQ is (A - μI)v₁ / R₁₁; steps compose.  So exactly the unwanted Ritz values are damped.
    4. `c04_rule_space*`     in the shift modes the rule acts on ν; what "largest ν" means in terms of λ for shift-invert,
                             buckling and Cayley (sign cases); the FINAL sorting rule acts on the back-transformed values.
    5. `c04_interlace*`      every Ritz value of a symmetric matrix lies between its smallest and largest eigenvalue
                             (any ordered field, for a matrix given with an orthogonal eigen-decomposition; over ℝ for every
                             symmetric matrix, through Mathlib's spectral theorem).

  Exact arithmetic: any linearly ordered field `K` (`scOfField F`); `Gen.Sort`, `Gen.Restart` are regenerated from the headers
  on every run.

  FULL-STRENGTH CLAUSE (not a theorem; not counted as an obligation):
      ∀ A with simple eigenvalues whose keys are ≥ 0.5 % of the spread apart, ∀ rule, nev, ncv ≥ 2 nev + 1, default start vector:
        info() = Successful  →  eigenvalues() = the top-nev of spec(A) (resp. of the transformed spectrum) under the rule's key.
  It is not provable (generic-position statement) and, on the implementation, it is FALSE for some inputs: the acceptance
  oracle finds runs of GenEigsSolver / GenEigsRealShiftSolver / GenEigsComplexShiftSolver (all six rules, a few per cent of
  the cases with ncv = 2 nev + 1 … 2 nev + 7) and, rarely, of the symmetric family with SmallestMagn on an indefinite spectrum,
  that report Successful with nev GENUINE eigenvalues which are not the ones the rule names, while the same problem with
  ncv = n returns the right set: `compute()` stops as soon as the current wanted Ritz pairs have small residuals, i.e. before
  the wanted eigenvalue has emerged in the Krylov space (known_findings/C04.json, signature `misconverged`; e.g. replay
  {fam 3, rule 2, rep 0, seed 1, tier quick}: n = 30, nev = 2, ncv = 6, LargestImag returns -10.30 ± 26.01i although
  4.49 ± 27.59i exists).  What the theorems below guarantee is that in every such run the code did what it is meant to do with
  the Ritz values it had: ordered them by the rule, kept the best k, filtered with the others.
-/
import SpectraVerif.Proofs.C04Lemmas
import SpectraVerif.Proofs.C04Filter
import SpectraVerif.Proofs.Spectral
import SpectraVerif.Properties.C05

namespace C04
open Orch C04L Gen.Sort

/-! ## 1. wanted Ritz values first -/
section wanted
variable {K : Type} [Field K] [LinearOrder K] [IsStrictOrderedRing K] (F : FieldFns K)
variable {φ ε κ β τ ω : Type}

/-- "`a` is at least as good as `b`" under a one-sided rule for real values -/
def betterReal (sel : Int) (a b : K) : Prop :=
  (sel = 0 → |b| ≤ |a|) ∧ (sel = 3 → b ≤ a) ∧ (sel = 4 → |a| ≤ |b|) ∧ (sel = 7 → a ≤ b)

/-- **Wanted first (symmetric family, LargestMagn / LargestAlge / SmallestMagn / SmallestAlge).**  For every kernel record whose
    `select` is the translated `argsort` and every outcome `evals` of the small eigen-solver: `retrieve` succeeds, stores a
    permutation of `evals` that is sorted by the rule's key, hence for EVERY k no value at a position ≥ k is strictly better than
    one at a position < k; values, estimates and vectors are gathered through one index vector. -/
theorem c04_wanted_first (Kn : Kern φ K ε κ β τ ω) (c : Cfg) (sel : Int) (s : St φ K ε κ)
    (evals : List K) (lastRow : List ε) (cols : List κ)
    (hsel : Kn.select = @HermSolver.argsortIdx K _ _ _ _ _ (scOfField F)) (hz : Kn.zeroρ = 0)
    (he : Kn.eig s.fac = .ok (evals, lastRow, cols)) (hlen : evals.length = c.ncv)
    (hrule : sel = 0 ∨ sel = 3 ∨ sel = 4 ∨ sel = 7) :
    (retrieve Kn c sel s).2 = none ∧
    (retrieve Kn c sel s).1.ritzVal.Perm evals ∧
    (retrieve Kn c sel s).1.ritzVal.Pairwise (betterReal sel) ∧
    (∀ k, ∀ a ∈ (retrieve Kn c sel s).1.ritzVal.take k, ∀ b ∈ (retrieve Kn c sel s).1.ritzVal.drop k, betterReal sel a b) ∧
    (∃ ind : List Nat,
      (retrieve Kn c sel s).1.ritzVal = (List.range c.ncv).map (fun i => evals.getD (ind.getD i 0) 0) ∧
      (retrieve Kn c sel s).1.ritzEst = (List.range c.ncv).map (fun i => lastRow.getD (ind.getD i 0) Kn.zeroε) ∧
      (retrieve Kn c sel s).1.ritzVec = (List.range c.nev).map (fun i => cols.getD (ind.getD i 0) Kn.zeroκ)) := by
  have hacc : argsort_rule sel ≠ -1 := (C18.c18_dispatch_real sel).mpr (by omega)
  have h8 : sel ≠ 8 := by omega
  obtain ⟨idx, hidx, _, hord⟩ := argsortIdx_ok F sel evals c.ncv hacc
  have hs : Kn.select sel evals c.ncv = .ok idx := by rw [hsel]; exact hidx
  obtain ⟨h1, h2, h3, h4⟩ := retrieve_ok Kn c sel s evals lastRow cols idx he hs
  rw [hz] at h2
  have hv : (retrieve Kn c sel s).1.ritzVal = (C18.baseOrder F sel (lf F evals) c.ncv).map (lf F evals) := by
    rw [h2, vals_of_order F sel evals c.ncv idx hord c.ncv (le_refl _), order_map F sel evals c.ncv h8]
  have hperm : (retrieve Kn c sel s).1.ritzVal.Perm evals := by
    rw [hv]
    have := (C18.c18_perm_base F sel (lf F evals) c.ncv).map (lf F evals)
    rwa [map_lf F evals c.ncv hlen] at this
  have hsorted : (retrieve Kn c sel s).1.ritzVal.Pairwise (betterReal sel) := by
    rw [hv, List.pairwise_map]
    refine (C18.c18_sorted F sel (lf F evals) c.ncv).imp ?_
    intro a b hab
    exact ⟨hab.1, fun h => hab.2.1 (Or.inl h), hab.2.2.1, hab.2.2.2⟩
  exact ⟨h1, hperm, hsorted, fun k => pairwise_split _ hsorted k, idx, h2, h3, h4⟩

/-- **Wanted first, BothEnds.**  With `desc` = the eigenvalues of the projected matrix in descending order, for EVERY k ≤ ncv the
    first k stored Ritz values are `desc[0], …, desc[⌈k/2⌉-1]` (the ⌈k/2⌉ largest) together with
    `desc[ncv-1], …, desc[ncv-⌊k/2⌋]` (the ⌊k/2⌋ smallest): the odd one comes from the TOP. -/
theorem c04_wanted_first_bothends (Kn : Kern φ K ε κ β τ ω) (c : Cfg) (s : St φ K ε κ)
    (evals : List K) (lastRow : List ε) (cols : List κ)
    (hsel : Kn.select = @HermSolver.argsortIdx K _ _ _ _ _ (scOfField F)) (hz : Kn.zeroρ = 0)
    (he : Kn.eig s.fac = .ok (evals, lastRow, cols)) (hlen : evals.length = c.ncv) :
    (retrieve Kn c 8 s).2 = none ∧
    ∃ desc : List K, desc.Perm evals ∧ desc.Pairwise (fun a b => b ≤ a) ∧
      ∀ k, k ≤ c.ncv →
        ((List.range k).map (fun i => (retrieve Kn c 8 s).1.ritzVal.getD i 0)).Perm
          ((List.range ((k + 1) / 2)).map (fun j => desc.getD j 0) ++
           (List.range (k / 2)).map (fun j => desc.getD (c.ncv - 1 - j) 0)) := by
  have hacc : argsort_rule 8 ≠ -1 := by decide
  obtain ⟨idx, hidx, _, hord⟩ := argsortIdx_ok F 8 evals c.ncv hacc
  have hs : Kn.select 8 evals c.ncv = .ok idx := by rw [hsel]; exact hidx
  obtain ⟨h1, h2, _, _⟩ := retrieve_ok Kn c 8 s evals lastRow cols idx he hs
  rw [hz] at h2
  have hv : (retrieve Kn c 8 s).1.ritzVal = (List.range c.ncv).map (fun i => lf F evals (order F 8 evals c.ncv i)) := by
    rw [h2, vals_of_order F 8 evals c.ncv idx hord c.ncv (le_refl _)]
  have hbl := base_length F 8 (lf F evals) c.ncv
  refine ⟨h1, (C18.baseOrder F 8 (lf F evals) c.ncv).map (lf F evals), ?_, ?_, ?_⟩
  · have := (C18.c18_perm_base F 8 (lf F evals) c.ncv).map (lf F evals)
    rwa [map_lf F evals c.ncv hlen] at this
  · rw [List.pairwise_map]
    exact (C18.c18_sorted F 8 (lf F evals) c.ncv).imp (fun hab => hab.2.1 (Or.inr rfl))
  · intro k hk
    -- the first k stored values are the interleaved base order, mapped through the values
    have e1 : (List.range k).map (fun i => (retrieve Kn c 8 s).1.ritzVal.getD i 0) =
        ((List.range k).map (fun i : Nat =>
          C18.interleave (fun j => (C18.baseOrder F 8 (lf F evals) c.ncv).getD j.toNat 0) c.ncv i)).map (lf F evals) := by
      rw [List.map_map]
      apply List.map_congr_left
      intro i hi
      have hik : i < c.ncv := by have := List.mem_range.mp hi; omega
      rw [hv, getD_range_map _ _ _ _ hik]
      simp [order]
    have e2 : (List.range ((k + 1) / 2)).map (fun j => ((C18.baseOrder F 8 (lf F evals) c.ncv).map (lf F evals)).getD j 0) =
        ((List.range ((k + 1) / 2)).map (fun j : Nat => (fun j : Int => (C18.baseOrder F 8 (lf F evals) c.ncv).getD j.toNat 0) j)).map (lf F evals) := by
      rw [List.map_map]
      apply List.map_congr_left
      intro j hj
      have hjk : j < c.ncv := by have := List.mem_range.mp hj; omega
      rw [getD_map_lt _ _ _ _ (by omega)]; simp
    have e3 : (List.range (k / 2)).map (fun j => ((C18.baseOrder F 8 (lf F evals) c.ncv).map (lf F evals)).getD (c.ncv - 1 - j) 0) =
        ((List.range (k / 2)).map (fun j : Nat =>
          (fun j : Int => (C18.baseOrder F 8 (lf F evals) c.ncv).getD j.toNat 0) ((c.ncv : Int) - 1 - j))).map (lf F evals) := by
      rw [List.map_map]
      apply List.map_congr_left
      intro j hj
      have hjk : j < k / 2 := List.mem_range.mp hj
      rw [getD_map_lt _ _ _ _ (by omega)]
      simp only [Function.comp]
      congr 2; omega
    rw [e1, e2, e3, ← List.map_append]
    exact (C18.c18_bothends _ c.ncv k).map _

/-- "`a` is at least as good as `b`" under one of the six rules of the general family (complex values as pairs);
    `|z|` is `F.sqrt (re² + im²)` -/
def betterCplx (r : Int) (a b : K × K) : Prop :=
  (r = 0 → F.sqrt (b.1 * b.1 + b.2 * b.2) ≤ F.sqrt (a.1 * a.1 + a.2 * a.2)) ∧ (r = 1 → b.1 ≤ a.1) ∧ (r = 2 → |b.2| ≤ |a.2|) ∧
  (r = 4 → F.sqrt (a.1 * a.1 + a.2 * a.2) ≤ F.sqrt (b.1 * b.1 + b.2 * b.2)) ∧ (r = 5 → a.1 ≤ b.1) ∧ (r = 6 → |a.2| ≤ |b.2|)

/-- **Wanted first, general family** (LargestMagn/Real/Imag, SmallestMagn/Real/Imag on complex Ritz values). -/
theorem c04_wanted_first_complex (Kn : Kern φ (K × K) ε κ β τ ω) (c : Cfg) (r : Int) (s : St φ (K × K) ε κ)
    (evals : List (K × K)) (lastRow : List ε) (cols : List κ)
    (hsel : Kn.select = @C04M.genSelectIdx K _ _ _ _ _ (scOfField F)) (hz : Kn.zeroρ = (0, 0))
    (he : Kn.eig s.fac = .ok (evals, lastRow, cols)) (hlen : evals.length = c.ncv)
    (hrule : r = 0 ∨ r = 1 ∨ r = 2 ∨ r = 4 ∨ r = 5 ∨ r = 6) :
    (retrieve Kn c r s).2 = none ∧
    (retrieve Kn c r s).1.ritzVal.Perm evals ∧
    (retrieve Kn c r s).1.ritzVal.Pairwise (betterCplx F r) ∧
    (∀ k, ∀ a ∈ (retrieve Kn c r s).1.ritzVal.take k, ∀ b ∈ (retrieve Kn c r s).1.ritzVal.drop k, betterCplx F r a b) ∧
    (∃ ind : List Nat,
      (retrieve Kn c r s).1.ritzVal = (List.range c.ncv).map (fun i => evals.getD (ind.getD i 0) (0, 0)) ∧
      (retrieve Kn c r s).1.ritzEst = (List.range c.ncv).map (fun i => lastRow.getD (ind.getD i 0) Kn.zeroε) ∧
      (retrieve Kn c r s).1.ritzVec = (List.range c.nev).map (fun i => cols.getD (ind.getD i 0) Kn.zeroκ)) := by
  have hs : Kn.select r evals c.ncv = .ok ((C18.baseOrderC F r (clf F evals) c.ncv).map Int.toNat) := by
    rw [hsel]; exact genSelectIdx_ok F r evals c.ncv hrule
  obtain ⟨h1, h2, h3, h4⟩ := retrieve_ok Kn c r s evals lastRow cols _ he hs
  rw [hz] at h2
  have hv : (retrieve Kn c r s).1.ritzVal = (C18.baseOrderC F r (clf F evals) c.ncv).map (clf F evals) := by
    rw [h2]
    exact vals_of_base F _ c.ncv (baseC_length F r _ c.ncv) (fun j hj => baseC_mem F r _ c.ncv j hj) evals
  have hperm : (retrieve Kn c r s).1.ritzVal.Perm evals := by
    rw [hv]
    have := (C18.c18_perm_complex F r (clf F evals) c.ncv).map (clf F evals)
    rwa [map_clf F evals c.ncv hlen] at this
  have hsorted : (retrieve Kn c r s).1.ritzVal.Pairwise (betterCplx F r) := by
    rw [hv, List.pairwise_map]
    exact (C18.c18_sorted_complex F r (clf F evals) c.ncv).imp (fun hab => hab)
  exact ⟨h1, hperm, hsorted, fun k => pairwise_split _ hsorted k, _, h2, h3, h4⟩

omit [Field K] [LinearOrder K] [IsStrictOrderedRing K] in
/-- every restart that completes re-establishes the ordering: `restart` = the factorization update followed by `retrieve` -/
theorem c04_restart_reorders (Kn : Kern φ K ε κ β τ ω) (c : Cfg) (k : Nat) (sel : Int) (s : St φ K ε κ) (hk : k < c.ncv)
    (hex : (Kn.restartFac k s.ritzVal s.fac).exn = none) :
    restart Kn c k sel s =
      retrieve Kn c sel { s with fac := (Kn.restartFac k s.ritzVal s.fac).fac,
                                 nmatop := s.nmatop + (Kn.restartFac k s.ritzVal s.fac).ops } :=
  restart_is_retrieve Kn c k sel s hk hex

end wanted

/-! ## 2. the shifts are the unwanted Ritz values -/
section shifts
variable {K : Type} [Field K] [LinearOrder K] [IsStrictOrderedRing K] (F : FieldFns K)

/-- **Symmetric restart.**  `restart(k)` applies `restartShifts ncv k m_ritz_val` (this IS the shift list of the solver model:
    `restartFac` folds over it, first clause), which is a permutation of the Ritz values at positions k..ncv-1 — the ones
    `c04_wanted_first` puts behind the k wanted ones —, has ncv-k entries and is ordered by decreasing magnitude. -/
theorem c04_shifts_unwanted (ncv k : Nat) (ritzVal : List K) (hlen : ritzVal.length = ncv) :
    (@HermSolver.restartShifts K (scOfField F) ncv k ritzVal).Perm (ritzVal.drop k) ∧
    (@HermSolver.restartShifts K (scOfField F) ncv k ritzVal).length = ncv - k ∧
    (@HermSolver.restartShifts K (scOfField F) ncv k ritzVal).Pairwise (fun a b => |b| ≤ |a|) ∧
    (∀ x ∈ ritzVal.take k, (ritzVal.take k).count x + (@HermSolver.restartShifts K (scOfField F) ncv k ritzVal).count x = ritzVal.count x) := by
  have hp := restartShifts_perm F ncv k ritzVal hlen
  refine ⟨hp, ?_, restartShifts_sorted F ncv k ritzVal, ?_⟩
  · rw [hp.length_eq]; simp [hlen]
  · intro x _
    rw [hp.count_eq, ← List.count_append, List.take_append_drop]

/-- the solver model's restart uses exactly that list (definitional) and the translated loop frame applies ncv-k shifts -/
theorem c04_shifts_model {α : Type} [Add α] [Sub α] [Mul α] [Div α] [Neg α] [Sc α]
    (op : Arnoldi.Op α) (c : Cfg) (eps23 : α) (back : α → α) (k : Nat) (ritzVal : List α) (s : Arnoldi.State α) :
    (HermSolver.hermKern op c eps23 back).restartFac k ritzVal s = HermSolver.restartFac op c.ncv k ritzVal s ∧
    (∀ ncv kk : Int, kk < ncv → Gen.Restart.hermShiftSkel ncv kk = (false, ncv - kk, kk, ncv)) :=
  ⟨rfl, fun ncv kk h => RestartIdx.hermShiftSkel_lt ncv kk h⟩

/-- **General restart.**  The translated loop body of `GenEigsBase::restart`, iterated from `k` to the loop bound: if the complex
    Ritz values from position k on sit in adjacent conjugate pairs (`AdjacentConj`; what `retrieve_ritzpair`'s ordering delivers
    for keys that are symmetric under conjugation and what `nev_adjusted`'s last clause protects at position k), then the
    positions consumed as shifts are exactly k, k+1, …, ncv-1, each once and in this order; a pass is a double shift exactly when
    the value it reads is complex, and then it consumes that value AND its conjugate at the next position; the total degree of the
    filter is ncv-k. -/
theorem c04_shifts_unwanted_gen {α : Type} [Add α] [Sub α] [Mul α] [Div α] [Neg α] [Sc α]
    (ritz : Int → α × α) (ncv k : Int) (hadj : RestartIdx.AdjacentConj ritz ncv k) :
    (RestartIdx.genPasses ritz ncv k).flatMap consumed = intRange k ncv ∧
    (∀ p ∈ RestartIdx.genPasses ritz ncv k, p.double = Gen.Restart.is_complex (ritz p.i) ∧
      (p.double = true → Gen.Restart.is_conj (ritz p.i) (ritz (p.i + 1)) = true ∧ p.i + 1 < ncv)) ∧
    (k ≤ ncv → RestartIdx.degree (RestartIdx.genPasses ritz ncv k) = ncv - k) ∧
    -- the translated loop header: `if (k >= m_ncv) return; for (Index i = k; i < m_ncv; …)`, then `factorize_from(k, m_ncv, …)`
    Gen.Restart.genShiftSkel_frame ncv k = (decide (k ≥ ncv), k, ncv, k, ncv) := by
  obtain ⟨h1, h2⟩ := genPasses_cover ritz ncv k hadj
  refine ⟨h1, h2, ?_, rfl⟩
  intro hk
  -- degree = number of consumed positions
  have hdeg : ∀ ps : List RestartIdx.Pass, RestartIdx.degree ps = ((ps.flatMap consumed).length : Int) := by
    intro ps
    induction ps with
    | nil => simp [RestartIdx.degree]
    | cons p ps ih =>
      rw [RestartIdx.degree_cons, ih, List.flatMap_cons, List.length_append]
      cases hd : p.double <;> simp [consumed, hd]
  rw [hdeg, h1, intRange_length]; omega

end shifts

/-! ## 3. polynomial filter -/
section filter
open Matrix
variable {n m : Type} [Fintype n] [Fintype m] [DecidableEq n] [DecidableEq m] {R : Type} [CommRing R]

/-- **One exact shift is one factor of the filter polynomial.**  If `A V = V H + f gᵀ` (`g = e_last` for a Krylov factorization;
    only `g first = 0` is used), `H - μI = Q R` with `R` upper triangular in its first column, then the first column of
    `V⁺ = V Q` satisfies `(A - μI) v₁ = R₁₁ · v₁⁺`: the new start vector is the old one multiplied by `(A - μI)` and rescaled.
    An eigen-component of `v₁` belonging to the eigenvalue λ is multiplied by (λ - μ): components at the shifts (the unwanted
    Ritz values) are damped, nothing else happens to the start vector. -/
theorem c04_filter (A : Matrix n n R) (V : Matrix n m R) (H Q Rm : Matrix m m R) (f : n → R) (g : m → R) (first : m) (μ : R)
    (hfac : A * V = V * H + vecMulVec f g) (hg : g first = 0)
    (hqr : H - μ • (1 : Matrix m m R) = Q * Rm) (hR : ∀ i, i ≠ first → Rm i first = 0) :
    (A - μ • (1 : Matrix n n R)) *ᵥ (V *ᵥ Pi.single first 1) = Rm first first • ((V * Q) *ᵥ Pi.single first 1) :=
  C04Filter.filter_step A V H Q Rm f g first μ hfac hg hqr hR

/-- the relation is handed on in the same shape (`V⁺ = VQ`, `H⁺ = Q⁻¹HQ`, `g⁺ = gᵀQ`), so the steps compose … -/
theorem c04_filter_relation (A : Matrix n n R) (V : Matrix n m R) (H Q Qinv : Matrix m m R) (f : n → R) (g : m → R)
    (hfac : A * V = V * H + vecMulVec f g) (hQ : Q * Qinv = 1) :
    A * (V * Q) = (V * Q) * (Qinv * H * Q) + vecMulVec f (g ᵥ* Q) :=
  C04Filter.filter_relation A V H Q Qinv f g hfac hQ

/-- … two shifts give `(A - μ₂I)(A - μ₁I) v₁ = R¹₁₁ R²₁₁ · v₁⁺⁺` (and so on: `C04Filter.filter_list` for any number) -/
theorem c04_filter_two (A : Matrix n n R) (V : Matrix n m R) (H Q₁ Qinv₁ R₁ Q₂ R₂ : Matrix m m R) (f : n → R) (g : m → R)
    (first : m) (μ₁ μ₂ : R)
    (hfac : A * V = V * H + vecMulVec f g) (hg : g first = 0) (hQ : Q₁ * Qinv₁ = 1)
    (hqr₁ : H - μ₁ • (1 : Matrix m m R) = Q₁ * R₁) (hR₁ : ∀ i, i ≠ first → R₁ i first = 0)
    (hg₂ : (g ᵥ* Q₁) first = 0)
    (hqr₂ : Qinv₁ * H * Q₁ - μ₂ • (1 : Matrix m m R) = Q₂ * R₂) (hR₂ : ∀ i, i ≠ first → R₂ i first = 0) :
    (A - μ₂ • (1 : Matrix n n R)) *ᵥ ((A - μ₁ • (1 : Matrix n n R)) *ᵥ (V *ᵥ Pi.single first 1)) =
      (R₁ first first * R₂ first first) • ((V * Q₁ * Q₂) *ᵥ Pi.single first 1) :=
  C04Filter.filter_two A V H Q₁ Qinv₁ R₁ Q₂ R₂ f g first μ₁ μ₂ hfac hg hqr₁ hR₁ hQ hg₂ hqr₂ hR₂

end filter

/-! ## 4. the space the rule acts on -/
section rulespace
variable {K : Type} [Field K] [LinearOrder K] [IsStrictOrderedRing K]

/-- **Shift-and-invert** (`SymEigsShiftSolver`, `GenEigsRealShiftSolver`, `SymGEigsShiftSolver<ShiftInvert>`): the iteration sees
    ν = 1/(λ-σ); LargestMagn on ν ⇔ closest to σ; and on one side of σ "larger ν" ⇔ "smaller λ" (LargestAlge on ν picks the
    eigenvalues just ABOVE σ, nearest first). -/
theorem c04_rule_space (σ l1 l2 : K) (h1 : l1 - σ ≠ 0) (h2 : l2 - σ ≠ 0) :
    (|(l2 - σ)⁻¹| < |(l1 - σ)⁻¹| ↔ |l1 - σ| < |l2 - σ|) ∧
    (0 < (l1 - σ) * (l2 - σ) → ((l2 - σ)⁻¹ < (l1 - σ)⁻¹ ↔ l1 < l2)) ∧
    (l2 - σ < 0 → 0 < l1 - σ → (l2 - σ)⁻¹ < (l1 - σ)⁻¹) := by
  refine ⟨Spectral.shift_invert_monotone σ l1 l2 h1 h2, ?_, ?_⟩
  · intro hpos
    rcases lt_or_gt_of_ne h1 with hn | hp
    · have hn2 : l2 - σ < 0 := by
        by_contra hc; push Not at hc
        have : (l1 - σ) * (l2 - σ) ≤ 0 := mul_nonpos_of_nonpos_of_nonneg hn.le hc
        linarith
      rw [inv_lt_inv_of_neg hn2 hn]; constructor <;> intro h <;> linarith
    · have hp2 : 0 < l2 - σ := by
        by_contra hc; push Not at hc
        have : (l1 - σ) * (l2 - σ) ≤ 0 := mul_nonpos_of_nonneg_of_nonpos hp.le hc
        linarith
      rw [inv_lt_inv₀ hp2 hp]; constructor <;> intro h <;> linarith
  · intro hn hp
    exact lt_trans (inv_lt_zero.mpr hn) (inv_pos.mpr hp)

/-- **Buckling** (`SymGEigsShiftSolver<Buckling>`): ν = λ/(λ-σ) = 1 + σ/(λ-σ).  For two eigenvalues on the SAME side of σ:
    σ > 0: ν₁ > ν₂ ⇔ λ₁ < λ₂;  σ < 0: ν₁ > ν₂ ⇔ λ₁ > λ₂.  On different sides (λ₂ < σ < λ₁): ν₂ < 1 < ν₁ if σ > 0 and
    ν₁ < 1 < ν₂ if σ < 0.  Magnitudes: |ν₁| > |ν₂| ⇔ |λ₁|·|λ₂-σ| > |λ₂|·|λ₁-σ| (largest |λ|/|λ-σ|), and the distance of ν from 1
    is large exactly when λ is close to σ. -/
theorem c04_rule_space_buckling (σ l1 l2 : K) (h1 : l1 - σ ≠ 0) (h2 : l2 - σ ≠ 0) :
    (l1 / (l1 - σ) = 1 + σ / (l1 - σ)) ∧
    (0 < (l1 - σ) * (l2 - σ) → (0 < σ → (l2 / (l2 - σ) < l1 / (l1 - σ) ↔ l1 < l2)) ∧
                                (σ < 0 → (l2 / (l2 - σ) < l1 / (l1 - σ) ↔ l2 < l1))) ∧
    (l2 - σ < 0 → 0 < l1 - σ → (0 < σ → l2 / (l2 - σ) < 1 ∧ 1 < l1 / (l1 - σ)) ∧ (σ < 0 → l1 / (l1 - σ) < 1 ∧ 1 < l2 / (l2 - σ))) ∧
    (|l2 / (l2 - σ)| < |l1 / (l1 - σ)| ↔ |l2| * |l1 - σ| < |l1| * |l2 - σ|) ∧
    (σ ≠ 0 → (|l2 / (l2 - σ) - 1| < |l1 / (l1 - σ) - 1| ↔ |l1 - σ| < |l2 - σ|)) := by
  have k1 := Spectral.buckling_key σ l1 h1
  have k2 := Spectral.buckling_key σ l2 h2
  have e1 : l1 / (l1 - σ) = 1 + σ / (l1 - σ) := by linarith
  have e2 : l2 / (l2 - σ) = 1 + σ / (l2 - σ) := by linarith
  have p1 : 0 < |l1 - σ| := abs_pos.mpr h1
  have p2 : 0 < |l2 - σ| := abs_pos.mpr h2
  refine ⟨e1, ?_, ?_, ?_, ?_⟩
  · intro hside
    obtain ⟨a, b⟩ := C04L.nu_order σ σ l1 l2 h1 h2 hside
    rw [e1, e2]
    exact ⟨fun h => by rw [add_lt_add_iff_left]; exact a h, fun h => by rw [add_lt_add_iff_left]; exact b h⟩
  · intro hn hp
    rw [e1, e2]
    constructor
    · intro hs
      exact ⟨by have := div_neg_of_pos_of_neg hs hn; linarith, by have := div_pos hs hp; linarith⟩
    · intro hs
      exact ⟨by have := div_neg_of_neg_of_pos hs hp; linarith, by have := div_pos_of_neg_of_neg hs hn; linarith⟩
  · rw [abs_div, abs_div, div_lt_div_iff₀ p2 p1]
  · intro hσ
    have pσ : 0 < |σ| := abs_pos.mpr hσ
    rw [k1, k2, abs_div, abs_div, div_lt_div_iff_of_pos_left pσ p2 p1]

/-- **Cayley** (`SymGEigsShiftSolver<Cayley>`): ν = (λ+σ)/(λ-σ) = 1 + 2σ/(λ-σ): the same case table as buckling with 2σ in place
    of σ; |ν₁| > |ν₂| ⇔ |λ₁+σ|·|λ₂-σ| > |λ₂+σ|·|λ₁-σ|. -/
theorem c04_rule_space_cayley (σ l1 l2 : K) (h1 : l1 - σ ≠ 0) (h2 : l2 - σ ≠ 0) :
    ((l1 + σ) / (l1 - σ) = 1 + 2 * σ / (l1 - σ)) ∧
    (0 < (l1 - σ) * (l2 - σ) → (0 < σ → ((l2 + σ) / (l2 - σ) < (l1 + σ) / (l1 - σ) ↔ l1 < l2)) ∧
                                (σ < 0 → ((l2 + σ) / (l2 - σ) < (l1 + σ) / (l1 - σ) ↔ l2 < l1))) ∧
    (l2 - σ < 0 → 0 < l1 - σ → (0 < σ → (l2 + σ) / (l2 - σ) < 1 ∧ 1 < (l1 + σ) / (l1 - σ)) ∧
                               (σ < 0 → (l1 + σ) / (l1 - σ) < 1 ∧ 1 < (l2 + σ) / (l2 - σ))) ∧
    (|(l2 + σ) / (l2 - σ)| < |(l1 + σ) / (l1 - σ)| ↔ |l2 + σ| * |l1 - σ| < |l1 + σ| * |l2 - σ|) ∧
    (σ ≠ 0 → (|(l2 + σ) / (l2 - σ) - 1| < |(l1 + σ) / (l1 - σ) - 1| ↔ |l1 - σ| < |l2 - σ|)) := by
  have k1 := Spectral.cayley_key σ l1 h1
  have k2 := Spectral.cayley_key σ l2 h2
  have e1 : (l1 + σ) / (l1 - σ) = 1 + 2 * σ / (l1 - σ) := by linarith
  have e2 : (l2 + σ) / (l2 - σ) = 1 + 2 * σ / (l2 - σ) := by linarith
  have p1 : 0 < |l1 - σ| := abs_pos.mpr h1
  have p2 : 0 < |l2 - σ| := abs_pos.mpr h2
  refine ⟨e1, ?_, ?_, ?_, ?_⟩
  · intro hside
    obtain ⟨a, b⟩ := C04L.nu_order (2 * σ) σ l1 l2 h1 h2 hside
    rw [e1, e2]
    exact ⟨fun h => by rw [add_lt_add_iff_left]; exact a (by linarith), fun h => by rw [add_lt_add_iff_left]; exact b (by linarith)⟩
  · intro hn hp
    rw [e1, e2]
    constructor
    · intro hs
      have h2s : 0 < 2 * σ := by linarith
      exact ⟨by have := div_neg_of_pos_of_neg h2s hn; linarith, by have := div_pos h2s hp; linarith⟩
    · intro hs
      have h2s : 2 * σ < 0 := by linarith
      exact ⟨by have := div_neg_of_neg_of_pos h2s hp; linarith, by have := div_pos_of_neg_of_neg h2s hn; linarith⟩
  · rw [abs_div, abs_div, div_lt_div_iff₀ p2 p1]
  · intro hσ
    have pσ : 0 < |2 * σ| := abs_pos.mpr (by intro h; apply hσ; linarith)
    rw [k1, k2, abs_div, abs_div, div_lt_div_iff_of_pos_left pσ p2 p1]

variable (F : FieldFns K) {φ ε κ β τ ω : Type}

/-- **The FINAL sorting rule acts on the back-transformed values.**  `sort_ritzpair` (model `Orch.sortRitz`) first replaces the
    first `nev` Ritz values ν by `back ν` (`1/ν + σ` in `SymEigsShiftSolver`, `σν/(ν-1)`, `σ(ν+1)/(ν-1)` in buckling / Cayley mode,
    identity in the plain solvers) and only THEN calls `argsort(sorting, …, nev)`: for every kernel record whose `backTransform`
    is `map back` and whose `sortIdx` is the guarded translated `argsort`, the `nev` values handed out are a permutation of the
    back-transformed wanted values, sorted by the sorting rule's key evaluated on λ (not on ν). -/
theorem c04_rule_space_final_sort (Kn : Kern φ K ε κ β τ ω) (c : Cfg) (back : K → K) (rule : Int) (s s' : St φ K ε κ)
    (hback : Kn.backTransform = fun l => l.map back)
    (hsort : Kn.sortIdx = @HermSolver.hermSortIdx K _ _ _ _ _ (scOfField F)) (hz : Kn.zeroρ = 0)
    (hcfg : c.nev ≤ c.ncv) (hlen : s.ritzVal.length = c.ncv)
    (hrule : rule = 0 ∨ rule = 3 ∨ rule = 4 ∨ rule = 7)
    (h : sortRitz Kn c rule s = (s', none)) :
    (s'.ritzVal.take c.nev).Perm ((s.ritzVal.take c.nev).map back) ∧
    (s'.ritzVal.take c.nev).Pairwise (betterReal rule) := by
  obtain ⟨ind, hind, hpair⟩ := C05.c05_sort_pairing Kn c hcfg rule s s' h
  have hL : mapHead c.nev Kn.backTransform s.ritzVal = (s.ritzVal.take c.nev).map back ++ s.ritzVal.drop c.nev := by
    simp only [mapHead, hback]
    rw [List.take_of_length_le (by simp)]
  set L := mapHead c.nev Kn.backTransform s.ritzVal with hLdef
  have hLlen : c.nev ≤ L.length := by rw [hL]; simp [hlen]; omega
  have hLtake : L.take c.nev = (s.ritzVal.take c.nev).map back := by
    rw [hL, List.take_left' (by simp [hlen]; omega)]
  have hacc : argsort_rule rule ≠ -1 := (C18.c18_dispatch_real rule).mpr (by omega)
  have h8 : rule ≠ 8 := by omega
  have hguard : herm_sort_guard rule = Res.ok () := ((C18.c18_herm_sorting_guard rule).1).mpr hrule
  obtain ⟨idx, hidx, _, hord⟩ := argsortIdx_ok F rule L c.nev hacc
  have hind' : ind = idx := by
    rw [hsort] at hind
    simp only [HermSolver.hermSortIdx, hguard] at hind
    rw [hidx] at hind
    exact (Except.ok.inj hind).symm
  subst hind'
  have hs'len : c.nev ≤ s'.ritzVal.length := by
    have hfr := h
    simp only [sortRitz] at hfr
    rw [← hLdef] at hfr
    simp only [hind] at hfr
    have := (Prod.mk.inj hfr).1
    rw [← this]; simp [hcfg]
  have hvals : s'.ritzVal.take c.nev = (C18.baseOrder F rule (lf F L) c.nev).map (lf F L) := by
    have e0 : s'.ritzVal.take c.nev = (List.range c.nev).map (fun i => s'.ritzVal.getD i 0) := by
      apply List.ext_getElem
      · simp [hs'len]
      · intro i h1 h2
        simp at h1
        simp [List.getD_eq_getElem?_getD]
        rw [List.getElem?_eq_getElem (by omega)]; simp
    rw [e0, ← order_map F rule L c.nev h8, ← vals_of_order F rule L c.nev ind hord c.nev (le_refl _)]
    apply List.map_congr_left
    intro i hi
    have := (hpair i (List.mem_range.mp hi)).1
    rw [hz] at this; exact this
  constructor
  · rw [hvals, ← hLtake]
    have := (C18.c18_perm_base F rule (lf F L) c.nev).map (lf F L)
    rwa [map_lf_take F L c.nev hLlen] at this
  · rw [hvals, List.pairwise_map]
    refine (C18.c18_sorted F rule (lf F L) c.nev).imp ?_
    intro a b hab
    exact ⟨hab.1, fun h => hab.2.1 (Or.inl h), hab.2.2.1, hab.2.2.2⟩

/-- the back-transformations invert the spectral maps (so "mapped back to λ" is the identity on the true eigenvalues) -/
theorem c04_rule_space_back (σ lam : K) (h : lam - σ ≠ 0) (hσ : σ ≠ 0) :
    σ + ((lam - σ)⁻¹)⁻¹ = lam ∧ σ * (lam / (lam - σ)) / (lam / (lam - σ) - 1) = lam ∧
    σ * ((lam + σ) / (lam - σ) + 1) / ((lam + σ) / (lam - σ) - 1) = lam :=
  ⟨Spectral.shift_invert_inverse σ lam h, Spectral.buckling_inverse σ lam h hσ, Spectral.cayley_inverse σ lam h hσ two_ne_zero⟩

end rulespace

/-! ## 5. Ritz values lie inside the spectrum (symmetric case) -/
section interlace
open Matrix
variable {n m : Type} [Fintype n] [Fintype m] [DecidableEq n] [DecidableEq m]
variable {K : Type} [Field K] [LinearOrder K] [IsStrictOrderedRing K]

/-- **Interlacing, outer bounds.**  `A = U diag(d) Uᵀ` with `U` orthogonal (a symmetric matrix with its eigenvalues `d`), `V` with orthonormal columns,
    `H = Vᵀ A V`, `H y = θ y`, `y ≠ 0`: then `min d ≤ θ ≤ max d`.  So a Ritz value can never lie outside the spectrum, and by the
    residual identity (`Ritz.residual`, C01) a converged Ritz pair is a true eigenpair; what no theorem excludes is convergence
    to an eigenvalue that is not the extreme one — that is the part decided by the oracle. -/
theorem c04_interlace (A U : Matrix n n K) (d : n → K) (V : Matrix n m K) (H : Matrix m m K) (y : m → K) (θ lo hi : K)
    (hA : A = U * diagonal d * Uᵀ) (hU : U * Uᵀ = 1)
    (hV : Vᵀ * V = 1) (hH : H = Vᵀ * A * V) (hy : H *ᵥ y = θ • y) (hy0 : 0 < y ⬝ᵥ y)
    (hlo : ∀ i, lo ≤ d i) (hhi : ∀ i, d i ≤ hi) : lo ≤ θ ∧ θ ≤ hi :=
  C04Filter.ritz_value_bounds A U d hA hU lo hi hlo hhi V H hH hV y θ hy hy0

/-- the same over ℝ with Mathlib's spectral theorem supplying the decomposition: for EVERY real symmetric `A`, every Ritz value of
    every orthonormal basis lies between the smallest and the largest eigenvalue of `A` -/
theorem c04_interlace_real (A : Matrix n n ℝ) (hA : A.IsHermitian) (V : Matrix n m ℝ) (H : Matrix m m ℝ) (y : m → ℝ) (θ lo hi : ℝ)
    (hV : Vᵀ * V = 1) (hH : H = Vᵀ * A * V) (hy : H *ᵥ y = θ • y) (hy0 : 0 < y ⬝ᵥ y)
    (hlo : ∀ i, lo ≤ hA.eigenvalues i) (hhi : ∀ i, hA.eigenvalues i ≤ hi) : lo ≤ θ ∧ θ ≤ hi :=
  C04Filter.ritz_value_bounds_real A hA lo hi hlo hhi V H hH hV y θ hy hy0

end interlace

/-! ## non-vacuity (tests on concrete data, labelled as such) -/

-- BothEnds on five descending values: positions 0..4 hold desc[0], desc[4], desc[1], desc[3], desc[2]
example : (List.range 5).map (fun i : Nat => C18.interleave (fun j => j) 5 i) = [0, 4, 1, 3, 2] := by decide
section witness
attribute [local instance] RestartIdx.scInt
open RestartIdx in
-- the hypothesis of c04_shifts_unwanted_gen is satisfiable with a genuine pair: [5, a, ā, 7] from k = 1; the schedule is then
-- [double at 1, single at 3] and consumes positions 1, 2, 3
example : AdjacentConj (ofL [(5, 0), (1, 2), (1, -2), (7, 0)]) 4 1 ∧
    (genPasses (ofL [(5, 0), (1, 2), (1, -2), (7, 0)]) 4 1).flatMap consumed = [1, 2, 3] := by
  have hadj : AdjacentConj (ofL [(5, 0), (1, 2), (1, -2), (7, 0)]) 4 1 := by
    rw [adj_lt _ _ _ (by decide), if_pos (by decide)]; refine ⟨by decide, by decide, ?_⟩
    rw [adj_lt _ _ _ (by decide), if_neg (by decide)]
    exact adj_ge _ _ _ (by decide)
  refine ⟨hadj, ?_⟩
  rw [(c04_shifts_unwanted_gen _ 4 1 hadj).1]; decide
end witness

-- shift-invert, σ = 0: λ = 1/2 is closer to σ than λ = 3, and indeed ν = 2 is larger in magnitude than ν = 1/3
example : |((3 : ℚ) - 0)⁻¹| < |((1 / 2 : ℚ) - 0)⁻¹| := (c04_rule_space (0 : ℚ) (1 / 2) 3 (by norm_num) (by norm_num)).1.mpr (by norm_num)

end C04
