/-
  C03 — generalized symmetric solvers: true pencil eigenpairs `A x = λ B x` (`K x = λ K_G x` in buckling mode), vectors orthonormal in
  the inner product of the positive definite matrix of the pencil.

  Every theorem is about the definitions of `Model/GSymSolver.lean` — the composite operator `performOp m P`, the inner product
  `arnoldiOp m P`, the back-transformation `back m σ`, the accessor post-processing `vecBack m P`, the constructor `construct` (which calls
  the source-translated `Gen.Guard.sigma_guard`) and the solver `kern m P c eps23` as an instance of the orchestration model `Orch` —
  instantiated at an EXACT field (`ScExact`: integer literals are the field's; true of `scOfField F` for every ordered field).  The same
  definitions at `Float` are what the correspondence check runs against the five real classes, bit for bit.

  Notation: `Amat P`, `Bmat P` the user's pencil (buckling: `Amat P` = K, `Bmat P` = K_G), `Xmat P` the matrix of the user's solve
  (`L⁻¹`, `B⁻¹`, `(A - σB)⁻¹`), characterised by the linear system it solves (hypotheses `L * Xmat = 1`, `Bmat * Xmat = 1`,
  `(Amat - σ • Bmat) * Xmat = 1`: that the library's wrappers meet them is C11).  `x`, `y` are MODEL vectors (`Array`), `toFn` reads them.

  Hypothesis shape `Op y = ν y + r`: `r` is the Ritz residual of the transformed problem, which `HermEigsBase` bounds by its convergence
  test (`c03_flag_bound` + `c03_ritz_residual`: `r = y_last • f`, `|y_last| β < tol max(eps^(2/3), |ν|)`).

  NOT proved (out of reach, said in the evidence): rounding.  The clause "plus rounding scaled by the conditioning of the matrix that is
  factorized" and the constants of "tol-level" need a floating-point error analysis of the Lanczos recurrence, the tridiagonal eigen-solver
  and the user's solves; the exact-arithmetic identities below are what that analysis would perturb.  Covered instead by the long double
  oracle on the real classes (checks/c03.py) with stated constants.

  Known findings on the unchanged tree (known_findings/C03.json; reproduced by the oracle with their signatures on every run):
  * C03-F22  buckling (and Cayley) hand back ±Inf/NaN as converged eigenvalues when the pencil has an eigenvalue mapped to ν = 1 (singular K_G):
             on the model this is `c03_buckling_infinite`; `c03_buckling`/`c03_cayley` carry the excluding hypothesis `ν - 1 ≠ 0`.
  * C03-F12a/F12c  the hypothesis `Vᵀ G V = I` of `c03_borth` fails in floating point after a weak hand-over (Arnoldi::init / compress_V residual
             with β < 1e-2 ‖Op‖ normalised without re-orthogonalisation: finding F12a of C07); returned vectors lose G-orthonormality and the
             Lanczos relation behind `c03_ritz_residual` degrades by ‖Op‖/β.  Pure rounding: no exact-arithmetic counterpart.
  * C03-F12d  the factorization discards residuals under ABSOLUTE thresholds (eps√n, √eps): on transformed operators of norm ≲ 1e-7 the discarded
             part exceeds tol·|ν| (error term of C07's `c07_breakdown`).
-/
import SpectraVerif.Proofs.C03Lemmas
import SpectraVerif.Properties.C05
import SpectraVerif.Gen.Footprint
import SpectraVerif.Proofs.C03Members
import SpectraVerif.Proofs.ScField

set_option linter.unusedSectionVars false
set_option linter.unusedVariables false
open Matrix

namespace C03
open GSymSolver C03L Lin

section residual
variable {K : Type} [Field K] [Sc K] (hS : ScExact K) (P : Pencil K)
include hS

/-- the operator each mode iterates with IS the documented one (all five modes; given that the user's solve solves its system):
    `L⁻¹ A L⁻ᵀ`, `B⁻¹ A`, `(A - σB)⁻¹ B`, `(K - σK_G)⁻¹ K`, and for Cayley `(A - σB) (Op x) = (A + σB) x` -/
theorem c03_operator (x : Vec K) :
    toFn P.n (performOp .cholesky P x) = (Xmat P * Amat P * (Xmat P)ᵀ) *ᵥ toFn P.n x ∧
    (Bmat P * Xmat P = 1 → Bmat P *ᵥ toFn P.n (performOp .regularInverse P x) = Amat P *ᵥ toFn P.n x) ∧
    ((Amat P - P.sigma • Bmat P) * Xmat P = 1 →
      (Amat P - P.sigma • Bmat P) *ᵥ toFn P.n (performOp .shiftInvert P x) = Bmat P *ᵥ toFn P.n x ∧
      (Amat P - P.sigma • Bmat P) *ᵥ toFn P.n (performOp .buckling P x) = Amat P *ᵥ toFn P.n x ∧
      (Amat P - P.sigma • Bmat P) *ᵥ toFn P.n (performOp .cayley P x) = (Amat P + P.sigma • Bmat P) *ᵥ toFn P.n x) := by
  refine ⟨performOp_toFn hS .cholesky P x, ?_, ?_⟩
  · intro hB
    rw [performOp_toFn hS]; simp only [opMat]
    rw [mulVec_mulVec, ← Matrix.mul_assoc, hB, Matrix.one_mul]
  · intro hM
    have key : ∀ v : Fin P.n → K, (Amat P - P.sigma • Bmat P) *ᵥ (Xmat P *ᵥ v) = v := by
      intro v; rw [mulVec_mulVec, hM, one_mulVec]
    refine ⟨?_, ?_, ?_⟩
    · rw [performOp_toFn hS]; simp only [opMat]; rw [← mulVec_mulVec, key]
    · rw [performOp_toFn hS]; simp only [opMat]; rw [← mulVec_mulVec, key]
    · rw [performOp_toFn hS]; simp only [opMat]
      rw [add_mulVec, one_mulVec, smul_mulVec, ← mulVec_mulVec]
      exact Spectral.cayley_op (Amat P) (Bmat P) P.sigma (toFn P.n x) _ (key _)

/-- **Cholesky mode.**  `B = L Lᵀ`, the user's triangular solves are `L⁻¹·`, `L⁻ᵀ·`.  If the Ritz pair `(θ, y)` of the operator the model
    builds has residual `r` (`Op y = θ y + r`) then the vector `eigenvectors()` hands back, `x = vecBack y = L⁻ᵀ y`, satisfies
    `A x - θ B x = L r` in the user's pencil. -/
theorem c03_cholesky (L : Matrix (Fin P.n) (Fin P.n) K) (hL : L * Xmat P = 1) (hB : Bmat P = L * Lᵀ)
    (θ : K) (y : Vec K) (r : Fin P.n → K)
    (hritz : toFn P.n (performOp .cholesky P y) = θ • toFn P.n y + r) :
    Amat P *ᵥ toFn P.n (vecBack .cholesky P y) - θ • (Bmat P *ᵥ toFn P.n (vecBack .cholesky P y)) = L *ᵥ r := by
  have hLt := transpose_inv_mul L (Xmat P) hL
  rw [hB]
  apply Spectral.cholesky (Amat P) L θ _ (toFn P.n y) r
  · rw [vecBack_toFn hS]; simp only [if_true]; rw [mulVec_mulVec, hLt, one_mulVec]
  · rw [← hritz, performOp_toFn hS, vecBack_toFn hS]; simp only [if_true, opMat]
    rw [mulVec_mulVec, mulVec_mulVec, ← Matrix.mul_assoc, ← Matrix.mul_assoc, hL, Matrix.one_mul]

/-- Cholesky mode, Gram matrix: for any family of Ritz vectors `ys`, the vectors handed back satisfy `Xᵀ B X = Yᵀ Y` -/
theorem c03_cholesky_gram {ι : Type} [Fintype ι] (L : Matrix (Fin P.n) (Fin P.n) K) (hL : L * Xmat P = 1) (hB : Bmat P = L * Lᵀ)
    (ys : ι → Vec K) :
    (Matrix.of fun i c => toFn P.n (vecBack .cholesky P (ys c)) i)ᵀ * Bmat P * (Matrix.of fun i c => toFn P.n (vecBack .cholesky P (ys c)) i) =
      (Matrix.of fun i c => toFn P.n (ys c) i)ᵀ * (Matrix.of fun i c => toFn P.n (ys c) i) := by
  have hLt := transpose_inv_mul L (Xmat P) hL
  rw [hB]
  apply Spectral.cholesky_gram
  ext i c
  have := congrFun (vecBack_toFn hS .cholesky P (ys c))
  simp only [if_true] at this
  simp only [Matrix.mul_apply, Matrix.of_apply, this]
  have h2 : (Lᵀ *ᵥ ((Xmat P)ᵀ *ᵥ toFn P.n (ys c))) i = toFn P.n (ys c) i := by rw [mulVec_mulVec, hLt, one_mulVec]
  simpa [mulVec, dotProduct] using h2

/-- **Regular-inverse mode** (`B`-inner product, returned vector = Ritz vector): `A x - θ B x = B r` -/
theorem c03_reginv (hB : Bmat P * Xmat P = 1) (θ : K) (x : Vec K) (r : Fin P.n → K)
    (hritz : toFn P.n (performOp .regularInverse P x) = θ • toFn P.n x + r) :
    Amat P *ᵥ toFn P.n (vecBack .regularInverse P x) - θ • (Bmat P *ᵥ toFn P.n (vecBack .regularInverse P x)) = Bmat P *ᵥ r := by
  rw [vecBack_toFn hS]; simp only [reduceCtorEq, if_false]
  exact Spectral.reg_inverse (Amat P) (Bmat P) θ (toFn P.n x) r _ hritz ((c03_operator hS P x).2.1 hB)

/-- **Shift-and-invert mode**: the value handed back is `λ = back ν = σ + 1/ν` and `A x - λ B x = -(1/ν) (A - σB) r` -/
theorem c03_shiftinvert (hM : (Amat P - P.sigma • Bmat P) * Xmat P = 1) (ν : K) (hν : ν ≠ 0) (x : Vec K) (r : Fin P.n → K)
    (hritz : toFn P.n (performOp .shiftInvert P x) = ν • toFn P.n x + r) :
    Amat P *ᵥ toFn P.n (vecBack .shiftInvert P x) - back .shiftInvert P.sigma ν • (Bmat P *ᵥ toFn P.n (vecBack .shiftInvert P x)) =
      -ν⁻¹ • ((Amat P - P.sigma • Bmat P) *ᵥ r) := by
  rw [vecBack_toFn hS, back_shiftInvert hS]; simp only [reduceCtorEq, if_false]
  exact Spectral.gen_shift_invert (Amat P) (Bmat P) P.sigma ν (toFn P.n x) r _ hν hritz ((c03_operator hS P x).2.2 hM).1

/-- **Buckling mode** (`Amat P` = K positive definite, `Bmat P` = K_G): `λ = back ν = σν/(ν-1)` and `K x - λ K_G x = (K - σK_G) r / (1 - ν)` -/
theorem c03_buckling (hM : (Amat P - P.sigma • Bmat P) * Xmat P = 1) (ν : K) (hν : ν - 1 ≠ 0) (x : Vec K) (r : Fin P.n → K)
    (hritz : toFn P.n (performOp .buckling P x) = ν • toFn P.n x + r) :
    Amat P *ᵥ toFn P.n (vecBack .buckling P x) - back .buckling P.sigma ν • (Bmat P *ᵥ toFn P.n (vecBack .buckling P x)) =
      (1 - ν)⁻¹ • ((Amat P - P.sigma • Bmat P) *ᵥ r) := by
  rw [vecBack_toFn hS, back_buckling hS]; simp only [reduceCtorEq, if_false]
  exact Spectral.buckling (Amat P) (Bmat P) P.sigma ν (toFn P.n x) r _ hν hritz ((c03_operator hS P x).2.2 hM).2.1

/-- **known finding C03-F22 on the model.**  The hypothesis `ν - 1 ≠ 0` of `c03_buckling` cannot be dropped, and for `σ ≠ 0` it fails exactly on
    the infinite eigenvalues of the pencil (`c03_sigma0`): every null vector `x` of `K_G` is an eigenvector of the operator the buckling mode
    iterates with, for the eigenvalue `ν = 1` EXACTLY (Ritz residual 0, so the pair converges immediately), and `back .buckling σ 1` divides by
    zero (`±Inf`/`NaN` at `Float`; replayed on the real class: K = I₃, K_G = diag(1,0,0), σ = 2, nev = 2, ncv = 3 returns the eigenvalues (inf, 1)
    with `info() == Successful`).  Full-strength wish — "every value handed back is a finite generalized eigenvalue" — is therefore false for
    singular `K_G`; `c03_buckling` is the part that holds. -/
theorem c03_buckling_infinite (hM : (Amat P - P.sigma • Bmat P) * Xmat P = 1) (x : Vec K) (hnull : Bmat P *ᵥ toFn P.n x = 0) :
    toFn P.n (performOp .buckling P x) = (1 : K) • toFn P.n x + 0 ∧ (1 : K) - 1 = 0 := by
  have hM' : Xmat P * (Amat P - P.sigma • Bmat P) = 1 := mul_eq_one_comm.mp hM
  refine ⟨?_, sub_self _⟩
  rw [performOp_toFn hS]; simp only [opMat]
  have hK : Amat P *ᵥ toFn P.n x = (Amat P - P.sigma • Bmat P) *ᵥ toFn P.n x := by
    rw [sub_mulVec, smul_mulVec, hnull, smul_zero, sub_zero]
  rw [← mulVec_mulVec, hK, mulVec_mulVec, hM', one_mulVec, one_smul, add_zero]

/-- **Cayley mode**: `λ = back ν = σ(ν+1)/(ν-1)` and `A x - λ B x = (A - σB) r / (1 - ν)` -/
theorem c03_cayley (hM : (Amat P - P.sigma • Bmat P) * Xmat P = 1) (ν : K) (hν : ν - 1 ≠ 0) (x : Vec K) (r : Fin P.n → K)
    (hritz : toFn P.n (performOp .cayley P x) = ν • toFn P.n x + r) :
    Amat P *ᵥ toFn P.n (vecBack .cayley P x) - back .cayley P.sigma ν • (Bmat P *ᵥ toFn P.n (vecBack .cayley P x)) =
      (1 - ν)⁻¹ • ((Amat P - P.sigma • Bmat P) *ᵥ r) := by
  rw [vecBack_toFn hS, back_cayley hS]; simp only [reduceCtorEq, if_false]
  exact Spectral.cayley (Amat P) (Bmat P) P.sigma ν (toFn P.n x) r _ hν hritz ((c03_operator hS P x).2.2 hM).2.2

/-- **the back-transformations of the model are the inverses of the spectral maps**: a generalized eigenvalue `λ ≠ σ` that the operator
    sees as `ν = 1/(λ-σ)`, `λ/(λ-σ)`, `(λ+σ)/(λ-σ)` is handed back as `λ` (so values are reported in the spectrum of the user's pencil) -/
theorem c03_back_inverse (σ lam : K) (h : lam - σ ≠ 0) :
    back .shiftInvert σ (lam - σ)⁻¹ = lam ∧
    (σ ≠ 0 → back .buckling σ (lam / (lam - σ)) = lam) ∧
    (σ ≠ 0 → (2 : K) ≠ 0 → back .cayley σ ((lam + σ) / (lam - σ)) = lam) ∧
    back .cholesky σ lam = lam ∧ back .regularInverse σ lam = lam := by
  refine ⟨?_, ?_, ?_, rfl, rfl⟩
  · rw [back_shiftInvert hS]; exact Spectral.shift_invert_inverse σ lam h
  · intro hσ; rw [back_buckling hS]; exact Spectral.buckling_inverse σ lam h hσ
  · intro hσ h2; rw [back_cayley hS]; exact Spectral.cayley_inverse σ lam h hσ h2

/-- **orthonormality** in the four `B`-inner-product modes.  `ipMat m P` is the matrix of the inner product the model's `ArnoldiOp` uses
    (`c03_inner`): `B`, and `K` (= `Amat P`) in buckling mode because the solver is built with `Bop` = product with `K`.  If the Lanczos basis
    is orthonormal in it (`Vᵀ G V = I`: C07) and the Ritz coordinate vectors are orthonormal (`Yᵀ Y = I`: C09), then the vectors
    `eigenvectors()` hands back — `vecBack (assemble fac y)`, as the model computes them — satisfy `Xᵀ G X = I`. -/
theorem c03_borth {ι : Type} [Fintype ι] [DecidableEq ι] (m : Mode) (hm : m ≠ .cholesky) (ncv : ℕ) (s : Arnoldi.State K) (hrows : s.V.rows = P.n)
    (ys : ι → Vec K)
    (hV : (Matrix.of fun (i : Fin P.n) (j : Fin ncv) => s.V.get i.val j.val)ᵀ * ipMat m P * (Matrix.of fun (i : Fin P.n) (j : Fin ncv) => s.V.get i.val j.val) = 1)
    (hY : (Matrix.of fun (j : Fin ncv) (c : ι) => vget (ys c) j.val)ᵀ * (Matrix.of fun (j : Fin ncv) (c : ι) => vget (ys c) j.val) = 1) :
    (Matrix.of fun i c => toFn P.n (vecBack m P (HermSolver.assemble ncv s (ys c))) i)ᵀ * ipMat m P *
      (Matrix.of fun i c => toFn P.n (vecBack m P (HermSolver.assemble ncv s (ys c))) i) = 1 := by
  have hX : (Matrix.of fun i c => toFn P.n (vecBack m P (HermSolver.assemble ncv s (ys c))) i) =
      (Matrix.of fun (i : Fin P.n) (j : Fin ncv) => s.V.get i.val j.val) * (Matrix.of fun (j : Fin ncv) (c : ι) => vget (ys c) j.val) := by
    ext i c
    rw [Matrix.of_apply, vecBack_toFn hS, if_neg hm, assemble_toFn hS P.n ncv s hrows]
    simp [Matrix.mul_apply, mulVec, dotProduct]
  rw [hX]
  exact gram_of_orth _ _ _ hV hY

/-- **orthonormality, Cholesky mode**: Euclidean inner product (`VᵀV = I`), vectors mapped back with `L⁻ᵀ`: `Xᵀ B X = I` -/
theorem c03_borth_cholesky {ι : Type} [Fintype ι] [DecidableEq ι] (L : Matrix (Fin P.n) (Fin P.n) K) (hL : L * Xmat P = 1) (hB : Bmat P = L * Lᵀ)
    (ncv : ℕ) (s : Arnoldi.State K) (hrows : s.V.rows = P.n) (ys : ι → Vec K)
    (hV : (Matrix.of fun (i : Fin P.n) (j : Fin ncv) => s.V.get i.val j.val)ᵀ * (Matrix.of fun (i : Fin P.n) (j : Fin ncv) => s.V.get i.val j.val) = 1)
    (hY : (Matrix.of fun (j : Fin ncv) (c : ι) => vget (ys c) j.val)ᵀ * (Matrix.of fun (j : Fin ncv) (c : ι) => vget (ys c) j.val) = 1) :
    (Matrix.of fun i c => toFn P.n (vecBack .cholesky P (HermSolver.assemble ncv s (ys c))) i)ᵀ * Bmat P *
      (Matrix.of fun i c => toFn P.n (vecBack .cholesky P (HermSolver.assemble ncv s (ys c))) i) = 1 := by
  rw [c03_cholesky_gram hS P L hL hB (fun c => HermSolver.assemble ncv s (ys c))]
  have hX : (Matrix.of fun i c => toFn P.n (HermSolver.assemble ncv s (ys c)) i) =
      (Matrix.of fun (i : Fin P.n) (j : Fin ncv) => s.V.get i.val j.val) * (Matrix.of fun (j : Fin ncv) (c : ι) => vget (ys c) j.val) := by
    ext i c
    rw [Matrix.of_apply, assemble_toFn hS P.n ncv s hrows]
    simp [Matrix.mul_apply, mulVec, dotProduct]
  rw [hX]
  have := gram_of_orth (1 : Matrix (Fin P.n) (Fin P.n) K) _ _ (by rw [Matrix.mul_one]; exact hV) hY
  rwa [Matrix.mul_one] at this

/-- the inner product the model's Lanczos factorization uses (`ArnoldiOp::inner_product`), per mode: Euclidean in Cholesky mode,
    `xᵀ K y` in buckling mode (the `Bop` argument is the product with `K = Amat P`), `xᵀ B y` in the other three -/
theorem c03_inner (m : Mode) (x y : Vec K) (hx : x.size = P.n) :
    (arnoldiOp m P).inner x y = toFn P.n x ⬝ᵥ (ipMat m P *ᵥ toFn P.n y) ∧
    ipMat .cholesky P = 1 ∧ ipMat .buckling P = Amat P ∧
    ipMat .regularInverse P = Bmat P ∧ ipMat .shiftInvert P = Bmat P ∧ ipMat .cayley P = Bmat P :=
  ⟨inner_toFn hS m P x y hx, rfl, rfl, rfl, rfl, rfl⟩

/-- **the shift guard.**  The model's constructor runs the source-translated `Gen.Guard.sigma_guard` first: buckling and Cayley mode reject
    `σ = 0` with `std::invalid_argument`, and ONLY that (for every other mode/shift the outcome is the base-class guard's).  The rejected shift
    is exactly the one for which the spectral map is degenerate: for `σ = 0` every finite `λ ≠ 0` is mapped to `ν = 1`, where the
    back-transformation divides by zero; for `σ ≠ 0` every finite eigenvalue `λ ≠ σ` has `ν ≠ 1` (`ν = 1` then only arises from an
    INFINITE eigenvalue, i.e. a null vector of `K_G` resp. `B`: see the known finding on singular `K_G`). -/
theorem c03_sigma0 (m : Mode) (c : Orch.Cfg) (near0 eps : K) :
    (((m = .buckling ∨ m = .cayley) ∧ P.sigma = 0) →
      construct m P c near0 eps = .error (.invalidArgument "SymGEigsShiftSolver: sigma cannot be zero in this mode")) ∧
    (¬((m = .buckling ∨ m = .cayley) ∧ P.sigma = 0) → Gen.Guard.herm_ctor_rvalue (c.nev : Int) (c.ncv : Int) (c.n : Int) = Res.ok () →
      construct m P c near0 eps = .ok (Orch.construct (Arnoldi.State.mk0 c.n c.ncv near0 eps))) ∧
    (∀ σ lam : K, lam - σ ≠ 0 → (σ ≠ 0 ↔ lam / (lam - σ) - 1 ≠ 0) ∧ ((2 : K) ≠ 0 → (σ ≠ 0 ↔ (lam + σ) / (lam - σ) - 1 ≠ 0))) := by
  have hz : ∀ a : K, Sc.eq a (Sc.ofInt 0) = true ↔ a = 0 := by intro a; rw [hS.eq_iff, hS.ofInt]; simp
  refine ⟨?_, ?_, ?_⟩
  · rintro ⟨hm, hσ⟩
    have : Sc.eq P.sigma (Sc.ofInt 0) = true := (hz _).mpr hσ
    rcases hm with rfl | rfl <;> simp [construct, Gen.Guard.sigma_guard, Mode.code, this]
  · intro hn hc
    have hg : Gen.Guard.sigma_guard m.code P.sigma = Res.ok () := by
      cases m <;> simp only [Gen.Guard.sigma_guard, Mode.code] <;> simp
      · have : ¬ Sc.eq P.sigma (Sc.ofInt 0) = true := by rw [hz]; intro h; exact hn ⟨Or.inl rfl, h⟩
        simp [this]
      · have : ¬ Sc.eq P.sigma (Sc.ofInt 0) = true := by rw [hz]; intro h; exact hn ⟨Or.inr rfl, h⟩
        simp [this]
    simp only [construct, hg, hc]
  · intro σ lam h
    refine ⟨?_, ?_⟩
    · rw [Spectral.buckling_key σ lam h]
      constructor
      · intro hσ; exact div_ne_zero hσ h
      · intro hd hσ; apply hd; rw [hσ, zero_div]
    · intro h2; rw [Spectral.cayley_key σ lam h]
      constructor
      · intro hσ; exact div_ne_zero (mul_ne_zero h2 hσ) h
      · intro hd hσ; apply hd; rw [hσ, mul_zero, zero_div]

end residual

/-- the convergence flag of the model's kernel: a set flag means `|y_last| · β < tol · max(|θ|, eps^(2/3))` (the code's test), where by
    `c03_ritz_residual` `|y_last| β` is the norm of the Ritz residual `r` in the inner product of the mode — the `r` of the five identities above. -/
theorem c03_flag_bound {K : Type} [Field K] [LinearOrder K] [IsStrictOrderedRing K] (F : FieldFns K)
    (eps23 tol : K) (s : Arnoldi.State K) (θ est : K)
    (h : (letI := scOfField F; HermSolver.convTest eps23 tol s θ est) = true) :
    |est| * s.beta < tol * max |θ| eps23 := by
  simp only [HermSolver.convTest, ScF.lt, ScF.abs, decide_eq_true_eq] at h
  split at h
  · rename_i hlt; rwa [max_eq_right (le_of_lt hlt)]
  · rename_i hlt; rwa [max_eq_left (not_lt.mp hlt)]


/-- the Ritz residual: if the factorization satisfies `Op V = V H + f e_lastᵀ` (C07, for the operator matrix `opMat m P` the model builds)
    and `H y = θ y`, then the Ritz vector `V y` has `Op (V y) = θ (V y) + y_last • f`: the `r` of `c03_*` is `y_last • f` -/
theorem c03_ritz_residual {K : Type} [Field K] [Sc K] (m : Mode) (P : Pencil K) {k : Type} [Fintype k] [DecidableEq k]
    (V : Matrix (Fin P.n) k K) (H : Matrix k k K) (f : Fin P.n → K) (last : k) (θ : K) (y : k → K)
    (hfac : opMat m P * V = V * H + vecMulVec f (Pi.single last 1)) (hy : H *ᵥ y = θ • y) :
    opMat m P *ᵥ (V *ᵥ y) = θ • (V *ᵥ y) + y last • f := by
  have := Ritz.residual (opMat m P) V H f last θ y hfac hy
  rw [← this]; abel

/-! ### composition over the orchestration model: every history, every kernel behaviour -/
section orch
variable {α : Type} [Add α] [Sub α] [Mul α] [Div α] [Neg α] [Sc α]

/-- **flags belong to the pairs handed back, on the final factorization** — for every mode, every pencil, every scalar type (so also for
    `Float`), every history of `init`/`compute` calls before the observed `compute`, every prior state: the flags `compute` hands back were
    computed by the convergence test (`c03_flag_bound`) from the Ritz pairs of the factorization `eigenvectors()` multiplies with, then
    permuted with values and vectors by the index vector of the sort applied to the BACK-TRANSFORMED first `nev` values. -/
theorem c03_flags_fresh (m : Mode) (P : Pencil α) (c : Orch.Cfg) (eps23 : α) (hist : List (Orch.Call (Vec α) α)) (s0 : St α)
    (sel : Int) (maxit : Nat) (tol : α) (sorting : Int) (r : Nat)
    (h : (compute m P c eps23 sel maxit tol sorting (Orch.run (kern m P c eps23) c s0 hist)).out = .ok r) :
    let fin := (compute m P c eps23 sel maxit tol sorting (Orch.run (kern m P c eps23) c s0 hist)).st
    ∃ s3 : St α, ∃ ind, s3.ritzConv = Orch.convFlags (kern m P c eps23) c tol s3 ∧ fin.fac = s3.fac ∧
      HermSolver.hermSortIdx sorting (Orch.mapHead c.nev (List.map (back m P.sigma)) s3.ritzVal) c.nev = .ok ind ∧
      fin.ritzConv = (List.range c.nev).map (fun i => s3.ritzConv.getD (ind.getD i 0) false) ∧
      fin.ritzVec = (List.range c.nev).map (fun i => s3.ritzVec.getD (ind.getD i 0) (vzero c.ncv)) :=
  C05.c05_flags_fresh (kern m P c eps23) c sel maxit tol sorting _ r h

/-- counts and status for the generalized solvers (instance of `C05.c05_counts`; the sort is a permutation by C18) -/
theorem c03_counts (m : Mode) (P : Pencil α) (c : Orch.Cfg) (eps23 : α) (hperm : C05.SortPerm (kern m P c eps23) c)
    (hist : List (Orch.Call (Vec α) α)) (s0 : St α) (sel : Int) (maxit : Nat) (tol : α) (sorting : Int) (r : Nat)
    (h : (compute m P c eps23 sel maxit tol sorting (Orch.run (kern m P c eps23) c s0 hist)).out = .ok r) :
    let fin := (compute m P c eps23 sel maxit tol sorting (Orch.run (kern m P c eps23) c s0 hist)).st
    (eigenvalues m P c eps23 fin).length = r ∧ (∀ nvec, (eigenvectors m P c eps23 nvec fin).length = min nvec r) ∧ r ≤ c.nev := by
  have := C05.c05_counts (kern m P c eps23) c hperm sel maxit tol sorting _ r h
  refine ⟨this.2.1, ?_, this.2.2.2.1⟩
  intro nvec
  unfold eigenvectors
  rw [List.length_map]; exact this.2.2.1 nvec

/-- the values handed back are back-transformed Ritz values: `sort_ritzpair` of the model applies `back m σ` to the first `nev` Ritz values
    and permutes values, vectors and flags by one index vector -/
theorem c03_values_backtransformed (m : Mode) (P : Pencil α) (c : Orch.Cfg) (eps23 : α) (hcfg : c.nev ≤ c.ncv) (rule : Int) (s s' : St α)
    (h : Orch.sortRitz (kern m P c eps23) c rule s = (s', none)) :
    ∃ ind : List Nat, ∀ i, i < c.nev →
      s'.ritzVal.getD i zero = (Orch.mapHead c.nev (List.map (back m P.sigma)) s.ritzVal).getD (ind.getD i 0) zero ∧
      s'.ritzVec.getD i (vzero c.ncv) = s.ritzVec.getD (ind.getD i 0) (vzero c.ncv) ∧
      s'.ritzConv.getD i false = s.ritzConv.getD (ind.getD i 0) false := by
  obtain ⟨ind, _, hp⟩ := C05.c05_sort_pairing (kern m P c eps23) c hcfg rule s s' h
  exact ⟨ind, hp⟩

/-- what `eigenvectors(nvec)` of the model returns: for each selected Ritz coordinate vector `κ` (flag set, stored order, first `min(nvec, count)`:
    `C05.c05_accessor_pairing`) the column `vecBack m P (assemble fac κ)` — the `X` of `c03_borth` / `c03_borth_cholesky` and the `x` of the
    residual identities (with `y = assemble fac κ`) -/
theorem c03_eigenvectors_shape (m : Mode) (P : Pencil α) (c : Orch.Cfg) (eps23 : α) (nvec : Nat) (s : St α) :
    eigenvectors m P c eps23 nvec s =
      (Orch.eigenvectorCoords (kern m P c eps23) c nvec s).map (fun κ => vecBack m P (HermSolver.assemble c.ncv s.fac κ)) := by
  simp [eigenvectors, Orch.eigenvectors, kern, HermSolver.hermKern, List.map_map, Function.comp_def]

end orch

/-! ### the composite operator object lives as long as the solver -/
open Gen.Footprint in
/-- **rvalue operator.**  Regenerated from the headers on every run (`Gen.Footprint`): each of the five composite operator classes reaches
    its solver ONLY as the operator argument of the base class `HermEigsBase` (a temporary `ModeMatOp(op, Bop)` moved through
    `set_shift_and_move` into the rvalue constructor), `HermEigsBase` stores it BY VALUE in `m_op_container` (`create_op_container` moves it into
    a `std::vector<OpType>` member, declared before `m_op`) and `m_op` is a const reference (bound to `m_op_container.front()` in the rvalue
    constructor); the factorization object `m_fac` is a by-value member constructed after both.  By the C++ lifetime rules (trusted, DESIGN §3.3
    item 6) a by-value member lives exactly as long as the object: the composite operator is alive in every `init`/`compute`/accessor call.
    A change that holds the temporary by reference, or drops the container, changes these generated lists and breaks this theorem. -/
theorem c03_rvalue_op :
    (∀ p ∈ [("SymGEigsCholeskyOp", "SymGEigsSolver"), ("SymGEigsRegInvOp", "SymGEigsSolver"), ("SymGEigsShiftInvertOp", "SymGEigsShiftSolver"),
            ("SymGEigsBucklingOp", "SymGEigsShiftSolver"), ("SymGEigsCayleyOp", "SymGEigsShiftSolver")],
        (p.1, p.2, "base:HermEigsBase", "base-argument") ∈ holders ∧
        ∀ h ∈ holders, h.1 = p.1 → h.2.2.2 = "base-argument") ∧
    ("HermEigsBase", "m_op_container", "value", "std::vector<OpType>") ∈ solver_members ∧
    ("HermEigsBase", "m_op", "cref", "const OpType &") ∈ solver_members ∧
    ("HermEigsBase", "m_fac", "value", "Spectra::HermEigsBase::LanczosFac") ∈ solver_members := by
  refine ⟨by decide, by decide, by decide, by decide⟩

/-! ### the shift the back-transformation uses is the shift the solver was constructed with -/
open Gen.GSymMembers in
/-- **shift held by value.**  Regenerated from the headers on every run (`Gen.GSymMembers`, xlate/tgt_c03.py): `members` lists ALL data members of the
    five generalized solver specializations, of `HermEigsBase` and of the five composite operator classes (name, declared type, reference?, pointer /
    non-owning handle?, top-level `const`?, `mutable`?), `sigma_sinks` every constructor initializer / assignment through which a parameter named
    `sigma` flows into a member or base, `back_reads` the own members each solver member function reads.
    (1) every member that STORES THE SHIFT (a `sigma` parameter is written into it, or `sort_ritzpair` reads it) is held by value — not a reference,
        not a pointer, not an Eigen::Ref/Map or other non-owning handle — in every class and specialization (incl. `SymGEigsCayleyOp::m_sigma`);
    (2) every member a `sigma` parameter is written into is a row of the table (a renamed or added shift member cannot escape (1));
    (3) in EVERY specialization `SymGEigsShiftSolver<ShiftInvert|Buckling|Cayley>` there is a by-value, `const`, non-`mutable` member which the
        constructor initializes as a COPY of its `sigma` argument (the same argument it hands to `set_shift_and_move`), which `sort_ritzpair` reads and
        which is the ONLY own member `sort_ritzpair` reads.
    By the C++ rules for a by-value `const` member (trusted, as for `c03_rvalue_op`) its value at every later `compute()` is the constructor argument:
    the `σ` of `back m σ` in `c03_values_backtransformed` / `c03_back_inverse` is the `σ` of `construct`, whatever the caller does with the variable
    (or temporary) it passed.  Proof: the boolean checker `C03M.sigmaByValueB`, sound for EVERY table (`C03M.sigmaByValueB_sound`), evaluated by
    the kernel on the regenerated table.  `const Scalar& m_sigma`, `const Scalar* m_sigma`, `Eigen::Ref<...>`: the evaluation yields `false`. -/
theorem c03_sigma_by_value :
    (∀ m ∈ members, C03M.storesShift sigma_sinks back_reads m = true → m.isRef = false ∧ m.isPtr = false) ∧
    (∀ s ∈ sigma_sinks, s.isBase = false → ∃ m ∈ members, m.cls = s.cls ∧ m.spec = s.spec ∧ m.name = s.target) ∧
    (∀ spec ∈ ["ShiftInvert", "Buckling", "Cayley"], ∃ m ∈ members, m.cls = "SymGEigsShiftSolver" ∧ m.spec = spec ∧
        m.isRef = false ∧ m.isPtr = false ∧ m.isConst = true ∧ m.isMutable = false ∧
        ({ cls := "SymGEigsShiftSolver", spec := spec, fn := "SymGEigsShiftSolver", target := m.name, isBase := false, how := "copy" } : Sink) ∈ sigma_sinks ∧
        ("SymGEigsShiftSolver", spec, "sort_ritzpair", m.name) ∈ back_reads ∧
        ∀ r ∈ back_reads, r.1 = "SymGEigsShiftSolver" → r.2.1 = spec → r.2.2.1 = "sort_ritzpair" → r.2.2.2 = m.name) := by
  have h := C03M.sigmaByValueB_sound members sigma_sinks back_reads (by decide)
  exact ⟨h.by_value, h.resolved, h.every_spec⟩

open Gen.GSymMembers in
/-- **no hidden state behind the accessors.**  The five solver specializations found in the headers are exactly the five modes, each derived from
    `HermEigsBase` over its own composite operator; none of them, nor `HermEigsBase`, has a `mutable` data member: the `const` accessors
    (`eigenvalues()`, `eigenvectors(nvec)`, `info()`, `num_iterations()`, `num_operations()`) cannot record anything between calls, so what they
    hand back is a function of the state the last `init`/`compute` left (what `c03_eigenvectors_shape` / `C05.c05_accessor_pairing` say of the model).
    The only `mutable` members in the footprint are the work vectors `m_cache` of the composite operators (overwritten before being read in every
    `perform_op`).  A memo of earlier results kept in a `mutable` member changes the table and makes this evaluation `false`. -/
theorem c03_accessors_stateless :
    spec_classes.map (fun c => (c.1, c.2.1)) =
      [("SymGEigsShiftSolver", "ShiftInvert"), ("SymGEigsShiftSolver", "Buckling"), ("SymGEigsShiftSolver", "Cayley"),
       ("SymGEigsSolver", "Cholesky"), ("SymGEigsSolver", "RegularInverse")] ∧
    (∀ m ∈ members, m.cls ∈ ["SymGEigsSolver", "SymGEigsShiftSolver", "HermEigsBase"] → m.isMutable = false) ∧
    (∀ m ∈ members, m.isMutable = true → m.name = "m_cache" ∧ m.isRef = false ∧ m.isPtr = false) := by
  refine ⟨by decide, by decide, by decide⟩

/-! ### non-vacuity: the hypotheses are satisfiable (exact arithmetic over ℚ) -/

/-- `ScExact` holds for the field instance of every ordered field -/
example : @ScExact ℚ _ (scOfField ⟨id, fun x _ => x, 0, 0⟩) := scExact_ofField _

/-- a 1×1 pencil `A = 3`, `B = 4 = L Lᵀ` with `L = 2`, `aux = L⁻¹ = 1/2`: the hypotheses of `c03_cholesky` hold -/
example : letI := scOfField (⟨id, fun x _ => x, 0, 0⟩ : FieldFns ℚ)
    let P : Pencil ℚ := { n := 1, A := #[3], B := #[4], aux := #[1/2], sigma := 0 }
    (Matrix.of fun _ _ => (2 : ℚ) : Matrix (Fin 1) (Fin 1) ℚ) * Xmat P = 1 ∧
    Bmat P = (Matrix.of fun _ _ => (2 : ℚ)) * (Matrix.of fun _ _ => (2 : ℚ) : Matrix (Fin 1) (Fin 1) ℚ)ᵀ := by
  constructor <;> ext i j <;> fin_cases i <;> fin_cases j <;>
    simp [Xmat, Bmat, matOf, Matrix.mul_apply, Array.getD_eq_getD_getElem?] <;> norm_num

/-- a 1×1 shift pencil `A = 3`, `B = 1`, `σ = 1`, `aux = (A - σB)⁻¹ = 1/2`: the hypothesis of the three shift theorems holds, and the
    shift guard accepts it in every mode while `σ = 0` is rejected in buckling mode -/
example : letI := scOfField (⟨id, fun x _ => x, 0, 0⟩ : FieldFns ℚ)
    let P : Pencil ℚ := { n := 1, A := #[3], B := #[1], aux := #[1/2], sigma := 1 }
    (Amat P - P.sigma • Bmat P) * Xmat P = 1 := by
  ext i j; fin_cases i; fin_cases j
  simp [Xmat, Amat, Bmat, matOf, Matrix.mul_apply, Array.getD_eq_getD_getElem?]; norm_num

end C03
