/-
  C12 — invalid arguments are rejected with std::invalid_argument, valid ones accepted, nothing leaks.
  Theorems are about `Gen/Guard.lean` and `Gen/Sort.lean`, regenerated on every run from HermEigsBase.h, GenEigsBase.h,
  JDSymEigsBase.h, SymGEigsShiftSolver.h, Util/SelectionRule.h and (for the raw-`new` footprint) every constructor in
  namespace Spectra, and about `Gen/MatOpGuard.lean`, regenerated from the constructors of every class of MatOp/*.h and of the
  internal SymGEigs*Op adapters.  Integer statements hold for all n, nev, ncv, rows, cols ∈ ℤ.
-/
import SpectraVerif.Gen.Guard
import SpectraVerif.Gen.Sort
import SpectraVerif.Gen.MatOpGuard
import SpectraVerif.Model.C12Geigs
import SpectraVerif.Proofs.ScField
import SpectraVerif.Proofs.C12Lemmas

namespace C12
open Gen.Guard Gen.MatOpGuard

/-- symmetric/Hermitian family (both constructor overloads): accepted ⇔ 1 ≤ nev ≤ n-1 ∧ nev < ncv ≤ n,
    and every rejection is `std::invalid_argument` -/
theorem c12_herm_iff (nev ncv n : Int) :
    (herm_ctor_lvalue nev ncv n = Res.ok () ↔ (1 ≤ nev ∧ nev ≤ n - 1 ∧ nev < ncv ∧ ncv ≤ n)) ∧
    (herm_ctor_lvalue nev ncv n ≠ Res.ok () → herm_ctor_lvalue nev ncv n = Res.throw "std::invalid_argument") ∧
    herm_ctor_rvalue nev ncv n = herm_ctor_lvalue nev ncv n := by
  refine ⟨?_, ?_, rfl⟩
  · simp only [herm_ctor_lvalue, Bool.or_eq_true, decide_eq_true_eq]
    constructor
    · intro h; split at h
      · exact absurd h (by simp)
      · split at h
        · exact absurd h (by simp)
        · omega
    · intro h; rw [if_neg (by omega), if_neg (by omega)]
  · simp only [herm_ctor_lvalue, Bool.or_eq_true, decide_eq_true_eq]
    split
    · intro _; rfl
    · split
      · intro _; rfl
      · intro h; exact absurd rfl h

/-- for accepted arguments the stored subspace dimension is exactly `ncv` (the `ncv > n ? n : ncv` clamp is a no-op) -/
theorem c12_herm_ncv (nev ncv n : Int) (h : herm_ctor_lvalue nev ncv n = Res.ok ()) : herm_ncv_member nev ncv n = ncv := by
  have := ((c12_herm_iff nev ncv n).1).mp h
  simp only [herm_ncv_member, decide_eq_true_eq]
  rw [if_neg (by omega)]

/-- general family, operator with `n` rows and `cols` columns: accepted ⇔ the operator is square ∧ 1 ≤ nev ≤ n-2 ∧ nev+2 ≤ ncv ≤ n,
    every rejection is `std::invalid_argument` (the squareness clause is the repair of finding F23: before it a 4x7
    `DenseGenMatProd` was accepted and `init()` read past the end of a vector) -/
theorem c12_gen_iff (nev ncv n cols : Int) :
    (gen_ctor nev ncv n cols = Res.ok () ↔ (cols = n ∧ 1 ≤ nev ∧ nev ≤ n - 2 ∧ nev + 2 ≤ ncv ∧ ncv ≤ n)) ∧
    (gen_ctor nev ncv n cols ≠ Res.ok () → gen_ctor nev ncv n cols = Res.throw "std::invalid_argument") := by
  refine ⟨?_, ?_⟩
  · simp only [gen_ctor, Bool.or_eq_true, decide_eq_true_eq, ne_eq]
    constructor
    · intro h
      repeat' (split at h)
      all_goals first | omega | exact absurd h (by simp)
    · intro h; rw [if_neg (by omega), if_neg (by omega), if_neg (by omega)]
  · simp only [gen_ctor, Bool.or_eq_true, decide_eq_true_eq, ne_eq]
    repeat' split
    all_goals first | (intro _; rfl) | (intro h; exact absurd rfl h)

/-- a non-square operator is rejected whatever (nev, ncv) are (F23 repaired), with invalid_argument -/
theorem c12_gen_nonsquare_rejected (nev ncv n cols : Int) (h : cols ≠ n) :
    gen_ctor nev ncv n cols = Res.throw "std::invalid_argument" := by
  have h1 := c12_gen_iff nev ncv n cols
  exact h1.2 (fun hok => h (h1.1.mp hok).1)

theorem c12_gen_ncv (nev ncv n cols : Int) (h : gen_ctor nev ncv n cols = Res.ok ()) : gen_ncv_member nev ncv n = ncv := by
  have := ((c12_gen_iff nev ncv n cols).1).mp h
  simp only [gen_ncv_member, decide_eq_true_eq]
  rw [if_neg (by omega)]

/-- Davidson: accepted ⇔ 1 ≤ nev ≤ n-1 -/
theorem c12_jd_iff (nev n : Int) :
    (jd_check_argument nev n = Res.ok () ↔ (1 ≤ nev ∧ nev ≤ n - 1)) ∧
    (jd_check_argument nev n ≠ Res.ok () → jd_check_argument nev n = Res.throw "std::invalid_argument") := by
  simp only [jd_check_argument, Bool.or_eq_true, decide_eq_true_eq]
  refine ⟨⟨?_, ?_⟩, ?_⟩
  · intro h; split at h
    · exact absurd h (by simp)
    · omega
  · intro h; rw [if_neg (by omega)]
  · split
    · intro _; rfl
    · intro h; exact absurd rfl h

/-- partial SVD forwards (ncomp, ncv) to the symmetric solver on an operator of size min(rows, cols); with that `n`
    `c12_herm_iff` is the statement (the forwarding itself is checked by the correspondence sweep, all shapes) -/
theorem c12_svd_iff (ncomp ncv rows cols : Int) :
    herm_ctor_lvalue ncomp ncv (min rows cols) = Res.ok () ↔
      (1 ≤ ncomp ∧ ncomp ≤ min rows cols - 1 ∧ ncomp < ncv ∧ ncv ≤ min rows cols) :=
  (c12_herm_iff ncomp ncv (min rows cols)).1

/-! ### shape guards of the matrix-operation wrappers (MatOp/*.h)

  `Validates g dom` (Proofs/C12Lemmas.lean): `g = ok ⇔ dom`, and every rejection is `std::invalid_argument`; hence
  (`Validates.throws_iff`) `g = throw invalid_argument ⇔ ¬ dom`.  One theorem per wrapper, for ALL integer shapes, about the
  constructor regenerated from the header: a rewritten guard either still proves (harmless) or breaks its theorem.
  `size()` is translated as `rows * cols`, so a test on coefficient counts is not a test on shapes. -/

/-- `DenseSymMatProd(mat)`: accepted ⇔ the matrix is square -/
theorem c12_wrap_DenseSymMatProd (rows cols : Int) : Validates (ctor_DenseSymMatProd rows cols) (rows = cols) :=
  validates_of_eq (by shape_guard_eq ctor_DenseSymMatProd)

/-- `DenseHermMatProd(mat)`: accepted ⇔ the matrix is square -/
theorem c12_wrap_DenseHermMatProd (rows cols : Int) : Validates (ctor_DenseHermMatProd rows cols) (rows = cols) :=
  validates_of_eq (by shape_guard_eq ctor_DenseHermMatProd)

/-- `SparseSymMatProd(mat)`: accepted ⇔ the matrix is square -/
theorem c12_wrap_SparseSymMatProd (rows cols : Int) : Validates (ctor_SparseSymMatProd rows cols) (rows = cols) :=
  validates_of_eq (by shape_guard_eq ctor_SparseSymMatProd)

/-- `SparseHermMatProd(mat)`: accepted ⇔ the matrix is square -/
theorem c12_wrap_SparseHermMatProd (rows cols : Int) : Validates (ctor_SparseHermMatProd rows cols) (rows = cols) :=
  validates_of_eq (by shape_guard_eq ctor_SparseHermMatProd)

/-- `DenseSymShiftSolve(mat)`: accepted ⇔ the matrix is square -/
theorem c12_wrap_DenseSymShiftSolve (rows cols : Int) : Validates (ctor_DenseSymShiftSolve rows cols) (rows = cols) :=
  validates_of_eq (by shape_guard_eq ctor_DenseSymShiftSolve)

/-- `SparseSymShiftSolve(mat)`: accepted ⇔ the matrix is square -/
theorem c12_wrap_SparseSymShiftSolve (rows cols : Int) : Validates (ctor_SparseSymShiftSolve rows cols) (rows = cols) :=
  validates_of_eq (by shape_guard_eq ctor_SparseSymShiftSolve)

/-- `DenseGenRealShiftSolve(mat)`: accepted ⇔ the matrix is square -/
theorem c12_wrap_DenseGenRealShiftSolve (rows cols : Int) : Validates (ctor_DenseGenRealShiftSolve rows cols) (rows = cols) :=
  validates_of_eq (by shape_guard_eq ctor_DenseGenRealShiftSolve)

/-- `SparseGenRealShiftSolve(mat)`: accepted ⇔ the matrix is square -/
theorem c12_wrap_SparseGenRealShiftSolve (rows cols : Int) : Validates (ctor_SparseGenRealShiftSolve rows cols) (rows = cols) :=
  validates_of_eq (by shape_guard_eq ctor_SparseGenRealShiftSolve)

/-- `DenseGenComplexShiftSolve(mat)`: accepted ⇔ the matrix is square -/
theorem c12_wrap_DenseGenComplexShiftSolve (rows cols : Int) : Validates (ctor_DenseGenComplexShiftSolve rows cols) (rows = cols) :=
  validates_of_eq (by shape_guard_eq ctor_DenseGenComplexShiftSolve)

/-- `SparseGenComplexShiftSolve(mat)`: accepted ⇔ the matrix is square -/
theorem c12_wrap_SparseGenComplexShiftSolve (rows cols : Int) : Validates (ctor_SparseGenComplexShiftSolve rows cols) (rows = cols) :=
  validates_of_eq (by shape_guard_eq ctor_SparseGenComplexShiftSolve)

/-- `DenseCholesky(mat)`: accepted ⇔ the matrix is square -/
theorem c12_wrap_DenseCholesky (rows cols : Int) : Validates (ctor_DenseCholesky rows cols) (rows = cols) :=
  validates_of_eq (by shape_guard_eq ctor_DenseCholesky)

/-- `SparseCholesky(mat)`: accepted ⇔ the matrix is square -/
theorem c12_wrap_SparseCholesky (rows cols : Int) : Validates (ctor_SparseCholesky rows cols) (rows = cols) :=
  validates_of_eq (by shape_guard_eq ctor_SparseCholesky)

/-- `SparseRegularInverse(mat)`: accepted ⇔ the matrix is square -/
theorem c12_wrap_SparseRegularInverse (rows cols : Int) : Validates (ctor_SparseRegularInverse rows cols) (rows = cols) :=
  validates_of_eq (by shape_guard_eq ctor_SparseRegularInverse)

/-- `DenseGenMatProd(mat)`: every shape is accepted (general rectangular product `y = A x`; squareness is the solver's business) -/
theorem c12_wrap_DenseGenMatProd (rows cols : Int) : Validates (ctor_DenseGenMatProd rows cols) True :=
  validates_of_eq (by shape_guard_eq ctor_DenseGenMatProd)

/-- `SparseGenMatProd(mat)`: every shape is accepted (general rectangular product `y = A x`; squareness is the solver's business) -/
theorem c12_wrap_SparseGenMatProd (rows cols : Int) : Validates (ctor_SparseGenMatProd rows cols) True :=
  validates_of_eq (by shape_guard_eq ctor_SparseGenMatProd)

/-- `SymShiftInvert(A, B)`: accepted ⇔ A and B are square of the same order (NOT: of the same coefficient count) -/
theorem c12_wrap_SymShiftInvert (a_rows a_cols b_rows b_cols : Int) :
    Validates (ctor_SymShiftInvert a_rows a_cols b_rows b_cols) (a_rows = a_cols ∧ b_rows = a_rows ∧ b_cols = a_rows) :=
  validates_of_eq (by shape_guard_eq ctor_SymShiftInvert)

/-- the statement in the "throws ⇔ outside the documented domain" form, for the two-matrix wrapper -/
theorem c12_wrap_SymShiftInvert_throws (a_rows a_cols b_rows b_cols : Int) :
    ctor_SymShiftInvert a_rows a_cols b_rows b_cols = Res.throw "std::invalid_argument" ↔
      ¬ (a_rows = a_cols ∧ b_rows = a_rows ∧ b_cols = a_rows) :=
  (c12_wrap_SymShiftInvert a_rows a_cols b_rows b_cols).throws_iff

/-! ### generalized solvers: two operators

  Full statement (provable since the repair of finding F22: every SymGEigs*Op adapter constructor now compares `op.rows()`
  with `Bop.rows()`): for all sizes `a` of op and `b` of Bop
  `Validates (geigs_solver_ctor mode nev ncv a b) (a = b ∧ 1 ≤ nev ∧ nev ≤ a - 1 ∧ nev < ncv ∧ ncv ≤ a)`.
  Before the repair the regenerated `geigs_ctor_*` were all `Res.ok ()`, (nev, ncv) were validated against whichever size the
  adapter's `rows()` returns, and `init()` read past the end of the shorter operand (heap-buffer-overflow). -/

/-- the regenerated adapter constructors: accepted ⇔ the two operators have the same size; rejection is invalid_argument;
    the size reported to the solver is then that common size -/
theorem c12_geigs_adapter (mode a b : Int) (hm : 0 ≤ mode ∧ mode ≤ 4) :
    (geigs_ctor mode a b = Res.ok () ↔ a = b) ∧
    (geigs_ctor mode a b ≠ Res.ok () → geigs_ctor mode a b = Res.throw "std::invalid_argument") ∧
    (a = b → geigs_rows mode a b = a) := by
  have hcases : mode = 0 ∨ mode = 1 ∨ mode = 2 ∨ mode = 3 ∨ mode = 4 := by omega
  rcases hcases with h | h | h | h | h <;> subst h <;>
    simp only [geigs_ctor, geigs_ctor_SymGEigsCholeskyOp, geigs_ctor_SymGEigsRegInvOp, geigs_ctor_SymGEigsShiftInvertOp,
      geigs_ctor_SymGEigsBucklingOp, geigs_ctor_SymGEigsCayleyOp, geigs_rows, geigs_rows_SymGEigsCholeskyOp,
      geigs_rows_SymGEigsRegInvOp, geigs_rows_SymGEigsShiftInvertOp, geigs_rows_SymGEigsBucklingOp, geigs_rows_SymGEigsCayleyOp,
      decide_eq_true_eq, ne_eq] <;>
    (refine ⟨?_, ?_, ?_⟩
     · constructor
       · intro h; by_contra hab; simp [hab] at h
       · intro hab; simp [hab]
     · by_cases hab : a = b <;> simp [hab]
     · intro hab; simp [hab])

theorem c12_geigs_equal_sizes (mode n : Int) (hm : 0 ≤ mode ∧ mode ≤ 4) : geigs_ctor mode n n = Res.ok () ∧ geigs_rows mode n n = n :=
  ⟨(c12_geigs_adapter mode n n hm).1.mpr rfl, (c12_geigs_adapter mode n n hm).2.2 rfl⟩

/-- every GEigsMode, FULL statement: accepted ⇔ the two operators have one common size n = a = b ∧ 1 ≤ nev ≤ n-1 ∧ nev < ncv ≤ n;
    every rejection (mismatched operators included) is `std::invalid_argument` -/
theorem c12_geigs_iff (mode nev ncv a b : Int) (hm : 0 ≤ mode ∧ mode ≤ 4) :
    (geigs_solver_ctor mode nev ncv a b = Res.ok () ↔ (a = b ∧ 1 ≤ nev ∧ nev ≤ a - 1 ∧ nev < ncv ∧ ncv ≤ a)) ∧
    (geigs_solver_ctor mode nev ncv a b ≠ Res.ok () → geigs_solver_ctor mode nev ncv a b = Res.throw "std::invalid_argument") := by
  obtain ⟨h1, h2, h3⟩ := c12_geigs_adapter mode a b hm
  by_cases hab : a = b
  · have hok := h1.mpr hab
    have hr := h3 hab
    unfold geigs_solver_ctor
    rw [hok, hr]
    have hh := c12_herm_iff nev ncv a
    exact ⟨⟨fun h => ⟨hab, hh.1.mp h⟩, fun h => hh.1.mpr h.2⟩, hh.2.1⟩
  · have hne : geigs_ctor mode a b ≠ Res.ok () := fun h => hab (h1.mp h)
    have hthrow := h2 hne
    unfold geigs_solver_ctor
    rw [hthrow]
    exact ⟨⟨fun h => absurd h (by simp), fun h => absurd h.1 hab⟩, fun _ => rfl⟩

/-- operators of one common size n (the statement that was all that could be proved before the repair of F22) -/
theorem c12_geigs_iff_partial (mode nev ncv n : Int) (hm : 0 ≤ mode ∧ mode ≤ 4) :
    Validates (geigs_solver_ctor mode nev ncv n n) (1 ≤ nev ∧ nev ≤ n - 1 ∧ nev < ncv ∧ ncv ≤ n) := by
  have h := c12_geigs_equal_sizes mode n hm
  unfold geigs_solver_ctor
  rw [h.1, h.2]
  exact ⟨(c12_herm_iff nev ncv n).1, (c12_herm_iff nev ncv n).2.1⟩

/-- mismatched operators are rejected whatever (nev, ncv) are -/
theorem c12_geigs_mismatch_rejected (mode nev ncv a b : Int) (hm : 0 ≤ mode ∧ mode ≤ 4) (h : a ≠ b) :
    geigs_solver_ctor mode nev ncv a b = Res.throw "std::invalid_argument" := by
  have h1 := c12_geigs_iff mode nev ncv a b hm
  exact h1.2 (fun hok => h (h1.1.mp hok).1)

section field
variable {K : Type} [Field K] [LinearOrder K] [IsStrictOrderedRing K] (F : FieldFns K)

/-- buckling (mode 3) and Cayley (mode 4) reject exactly σ = 0, with invalid_argument; shift-invert (mode 2) has no such guard -/
theorem c12_sigma (mode : Int) (sigma : K) :
    (@sigma_guard K _ _ _ _ _ (scOfField F) mode sigma = Res.throw "std::invalid_argument" ↔ ((mode = 3 ∨ mode = 4) ∧ sigma = 0)) ∧
    (@sigma_guard K _ _ _ _ _ (scOfField F) mode sigma ≠ Res.throw "std::invalid_argument" →
      @sigma_guard K _ _ _ _ _ (scOfField F) mode sigma = Res.ok ()) := by
  simp only [sigma_guard]
  by_cases h2 : mode = 2 <;> by_cases h3 : mode = 3 <;> by_cases h4 : mode = 4 <;> by_cases hs : sigma = 0 <;>
    simp_all

end field

/-- selection / sorting rules: the accepted sets per solver family are the documented ones, everything else throws
    invalid_argument (restated from the generated dispatch functions; the order theorems are C18) -/
theorem c12_rules (r : Int) :
    (Gen.Sort.argsort_rule r ≠ -1 ↔ (r = 0 ∨ r = 3 ∨ r = 4 ∨ r = 7 ∨ r = 8)) ∧
    (Gen.Sort.herm_sort_guard r = Res.ok () ↔ (r = 0 ∨ r = 3 ∨ r = 4 ∨ r = 7)) ∧
    (Gen.Sort.gen_select_rule r ≠ -1 ↔ (r = 0 ∨ r = 1 ∨ r = 2 ∨ r = 4 ∨ r = 5 ∨ r = 6)) ∧
    (Gen.Sort.gen_sort_rule r ≠ -1 ↔ (r = 0 ∨ r = 1 ∨ r = 2 ∨ r = 4 ∨ r = 5 ∨ r = 6)) := by
  simp only [Gen.Sort.argsort_rule, Gen.Sort.herm_sort_guard, Gen.Sort.gen_select_rule, Gen.Sort.gen_sort_rule,
    decide_eq_true_eq, Bool.or_eq_true, Bool.and_eq_true]
  by_cases h0 : r = 0 <;> by_cases h1 : r = 1 <;> by_cases h2 : r = 2 <;> by_cases h3 : r = 3 <;> by_cases h4 : r = 4 <;>
    by_cases h5 : r = 5 <;> by_cases h6 : r = 6 <;> by_cases h7 : r = 7 <;> by_cases h8 : r = 8 <;> simp_all <;> omega

/-! ### nothing leaks from a rejected constructor

  Model of C++ constructor unwinding: a constructor is a list of actions; an action may acquire a resource that is either
  owned by a fully constructed member/local (released by its destructor during unwinding) or held only by a raw pointer
  (released by nobody: the destructor of a partially constructed object does not run).  -/

inductive Own | raii | raw deriving DecidableEq, Repr

/-- resources live after the constructor throws at action `k` (actions before `k` completed): exactly the raw ones -/
def leakedAt (acts : List (Own × Nat)) (k : Nat) : List Nat :=
  ((acts.take k).filter (fun a => a.1 = Own.raw)).map (·.2)

theorem c12_ctor_unwind (acts : List (Own × Nat)) (k : Nat) :
    leakedAt acts k = [] ↔ ∀ a ∈ acts.take k, a.1 ≠ Own.raw := by
  simp only [leakedAt, List.map_eq_nil_iff, List.filter_eq_nil_iff, decide_eq_true_eq]

/-- in particular a constructor all of whose acquisitions are RAII-owned leaks nothing, wherever it throws -/
theorem c12_no_raw_no_leak (acts : List (Own × Nat)) (h : ∀ a ∈ acts, a.1 = Own.raii) (k : Nat) : leakedAt acts k = [] := by
  rw [c12_ctor_unwind]; intro a ha
  have := h a (List.mem_of_mem_take ha); rw [this]; decide

/-- the source fact that makes `c12_no_raw_no_leak` applicable to every Spectra class: no constructor holds the result of
    a raw `new` across a later action that can throw (regenerated from the clang AST of all constructors on every run;
    before the repair of PartialSVDSolver's constructor this list read `[("PartialSVDSolver", 1)]`) -/
theorem c12_no_leak : ∀ p ∈ ctor_raw_new, p.2 = 0 := by decide

-- non-vacuity
example : herm_ctor_lvalue 3 6 10 = Res.ok () ∧ gen_ctor 3 6 10 10 = Res.ok () ∧ jd_check_argument 3 10 = Res.ok () := by decide
example : herm_ctor_lvalue 10 11 10 = Res.throw "std::invalid_argument" ∧ gen_ctor 9 11 10 10 = Res.throw "std::invalid_argument" ∧ gen_ctor 1 4 4 7 = Res.throw "std::invalid_argument" := by decide
example : leakedAt [(Own.raw, 1), (Own.raii, 2)] 1 = [1] := by decide
example : ctor_SymShiftInvert 3 3 3 3 = Res.ok () ∧ ctor_SymShiftInvert 2 2 1 4 = Res.throw "std::invalid_argument" ∧
    ctor_SymShiftInvert 2 2 4 1 = Res.throw "std::invalid_argument" ∧ ctor_DenseCholesky 2 3 = Res.throw "std::invalid_argument" ∧
    ctor_DenseGenMatProd 2 3 = Res.ok () ∧ geigs_solver_ctor 0 2 4 6 6 = Res.ok () ∧
    geigs_solver_ctor 0 2 4 8 5 = Res.throw "std::invalid_argument" ∧ geigs_solver_ctor 2 2 4 5 8 = Res.throw "std::invalid_argument" := by decide

end C12
