/-
  C05 — result accessors, counts, ordering and status are mutually consistent.

  All theorems are about `Model/Orch.lean`, the one orchestration model shared by `HermEigsBase` and `GenEigsBase`, and hold for
  EVERY kernel record `K` (every way the numerics, the small eigen-solver, the sort and the user's operator could behave,
  including throwing at any call), every configuration, every argument tuple and every prior object state or history, except
  where a hypothesis is spelled out.  The executable instance of the same definitions is what the correspondence check runs
  against the real classes.

  Hypothesis `SortPerm K c`: the index vector `sort_ritzpair` obtains is a permutation of `0..nev-1`.  It is a theorem for the
  real sort (`C18.c18_perm_base` on the source-translated `argsort`/`SortEigenvalue`), stated here as a hypothesis so that the
  orchestration theorems do not depend on which sort is plugged in.
-/
import SpectraVerif.Proofs.OrchLemmas
import SpectraVerif.Gen.Status
import SpectraVerif.Gen.Restart
import SpectraVerif.Proofs.AccessLemmas
import SpectraVerif.Gen.Conv
import SpectraVerif.Proofs.CopyLemmas
import SpectraVerif.Model.HermSolver
import SpectraVerif.Model.GenSolver

namespace C05
open Orch

variable {φ ρ ε κ β τ ω : Type} (K : Kern φ ρ ε κ β τ ω) (c : Cfg)

/-- the final sort returns a permutation of the index range (true of `argsort`: C18) -/
def SortPerm : Prop := ∀ rule vals ind, K.sortIdx rule vals c.nev = .ok ind → ind.Perm (List.range c.nev)

/--
  **Counts and status** (the full clause, every history, every prior state, every kernel behaviour, every `maxit` including 0):
  the return value equals `eigenvalues().size()` equals `eigenvectors().cols()` and is at most `nev`; `eigenvectors(m)` has
  `min(m, count)` columns; `info()` is Successful exactly when that number is `nev` and NotConverging otherwise.

  History of this theorem: for the code before `fix:` c774a83 it was provable only under `0 < maxit ∨ CleanFlags` (a preceding
  `init()`), and the model refuted the unconditional statement with `init(); compute(); compute(maxit = 0)` (return value 0, one
  eigenvalue still handed out) — replayed on the real classes and repaired; the `refresh` step of the model is that repair.
-/
theorem c05_counts (hperm : SortPerm K c) (sel : Int) (maxit : Nat) (tol : τ) (sorting : Int) (s : St φ ρ ε κ) (r : Nat)
    (h : (compute K c sel maxit tol sorting s).out = .ok r) :
    r = Orch.countTrue (compute K c sel maxit tol sorting s).st.ritzConv ∧
    (eigenvalues K c (compute K c sel maxit tol sorting s).st).length = r ∧
    (∀ nvec, (eigenvectors K c nvec (compute K c sel maxit tol sorting s).st).length = min nvec r) ∧
    r ≤ c.nev ∧
    ((compute K c sel maxit tol sorting s).st.info = .successful ↔ r = c.nev) ∧
    ((compute K c sel maxit tol sorting s).st.info = .notConverging ↔ r ≠ c.nev) := by
  obtain ⟨s2, s4, _, hr, hl, hs, hst, hret, _, _⟩ := compute_ok_unfold K c sel maxit tol sorting s r h
  obtain ⟨hflags1, hflags2, _, _, _⟩ := refresh_spec K c sel tol maxit s2
  -- the sort permutes the flags, so their number is unchanged
  obtain ⟨ind, hind, hconv⟩ := sortRitz_flags K c sorting _ s4 hs
  have hcount : Orch.countTrue s4.ritzConv = (refresh K c tol maxit (loop K c sel tol maxit 0 0 0 s2)).2 := by
    rw [hconv, hflags1]
    exact count_perm_index _ ind c.nev hflags2 (hperm _ _ _ hind)
  have hlen4 : s4.ritzConv.length = c.nev := by rw [hconv]; simp
  have hle : (refresh K c tol maxit (loop K c sel tol maxit 0 0 0 s2)).2 ≤ c.nev := by
    rw [← hcount]; unfold Orch.countTrue; rw [← hlen4]; exact List.count_le_length
  have hr' : r = (refresh K c tol maxit (loop K c sel tol maxit 0 0 0 s2)).2 := by rw [hret]; omega
  have hstc : (compute K c sel maxit tol sorting s).st.ritzConv = s4.ritzConv := by rw [hst]
  have hinfo : (compute K c sel maxit tol sorting s).st.info =
      if (refresh K c tol maxit (loop K c sel tol maxit 0 0 0 s2)).2 ≥ c.nev then .successful else .notConverging := by rw [hst]
  have hev : (eigenvalues K c (compute K c sel maxit tol sorting s).st).length = r := by
    unfold eigenvalues
    rw [hstc]
    split
    · rename_i h0; simp; omega
    · simp only [List.length_map, convIdx, hstc]
      rw [filter_range_getD_length _ _ hlen4]; unfold Orch.countTrue at hcount; omega
  refine ⟨by rw [hstc, hcount, hr'], hev, ?_, by omega, ?_, ?_⟩
  · intro nvec
    unfold eigenvectors eigenvectorCoords
    simp only [List.length_map, List.length_take, convIdx, hstc]
    rw [filter_range_getD_length _ _ hlen4]; unfold Orch.countTrue at hcount ⊢; omega
  · rw [hinfo]; split <;> simp <;> omega
  · rw [hinfo]; split <;> simp <;> omega

/-- the same, spelled out for an arbitrary history of `init`/`compute` calls from an arbitrary state before the observed `compute` -/
theorem c05_counts_any_history (hperm : SortPerm K c) (hist : List (Call β τ)) (s0 : St φ ρ ε κ)
    (sel : Int) (maxit : Nat) (tol : τ) (sorting : Int) (r : Nat)
    (h : (compute K c sel maxit tol sorting (run K c s0 hist)).out = .ok r) :
    let s' := (compute K c sel maxit tol sorting (run K c s0 hist)).st
    r = Orch.countTrue s'.ritzConv ∧ (eigenvalues K c s').length = r ∧ (∀ nvec, (eigenvectors K c nvec s').length = min nvec r) ∧
    r ≤ c.nev ∧ (s'.info = .successful ↔ r = c.nev) ∧ (s'.info = .notConverging ↔ r ≠ c.nev) :=
  c05_counts K c hperm sel maxit tol sorting _ r h

/--
  **The status logic is the source's**: on a normal return, the loop counter `i` and the final `nconv` of the model determine
  `num_iterations()`, `info()` and the return value through the functions REGENERATED from the statements that follow the restart
  loop in `HermEigsBase::compute` and `GenEigsBase::compute` (`Gen.Status.*Tail_*`), and the model refreshes the flags exactly when
  the source's condition `i >= maxit` holds.  (An edit of `m_niter += i + 1`, of the `nconv >= m_nev` status test, of the return
  expression or of the refresh condition changes the generated definitions and breaks this theorem.)
-/
theorem c05_status_from_source (sel : Int) (maxit : Nat) (tol : τ) (sorting : Int) (s : St φ ρ ε κ) (r : Nat)
    (h : (compute K c sel maxit tol sorting s).out = .ok r) :
    ∃ (L : LoopRes φ ρ ε κ) (nconv : Nat),
      (compute K c sel maxit tol sorting s).i = L.i ∧
      nconv = (refresh K c tol maxit L).2 ∧
      (L.i ≥ maxit ↔ Gen.Status.hermTail_refresh (L.i : Int) (maxit : Int) = true) ∧
      (((compute K c sel maxit tol sorting s).st.niter : Nat) : Int) = Gen.Status.hermTail_niter (s.niter : Int) (L.i : Int) ∧
      (((compute K c sel maxit tol sorting s).st.info.code : Nat) : Int) = Gen.Status.hermTail_info (c.nev : Int) (nconv : Int) ∧
      ((r : Nat) : Int) = Gen.Status.hermTail_ret (c.nev : Int) (nconv : Int) := by
  obtain ⟨s2, s4, _, hr, hl, hs, hst, hret, hi, _⟩ := compute_ok_unfold K c sel maxit tol sorting s r h
  have hL := loop_spec K c sel tol maxit 0 0 0 s2
  have hrf := retrieve_frame K c sel (afterFactorize K c s)
  rw [hr] at hrf
  have hsf := sortRitz_frame K c sorting (refresh K c tol maxit (loop K c sel tol maxit 0 0 0 s2)).1
  rw [hs] at hsf
  have hR := refresh_spec K c sel tol maxit s2
  refine ⟨loop K c sel tol maxit 0 0 0 s2, (refresh K c tol maxit (loop K c sel tol maxit 0 0 0 s2)).2, hi, rfl, ?_, ?_, ?_, ?_⟩
  · simp only [Gen.Status.hermTail_refresh, decide_eq_true_eq]; omega
  · rw [hst]
    show ((s4.niter + ((loop K c sel tol maxit 0 0 0 s2).i + 1) : Nat) : Int) = _
    rw [hsf.2.1, hR.2.2.2.1, hrf.2.2.1]
    simp only [Gen.Status.hermTail_niter, afterFactorize]; omega
  · rw [hst]
    simp only [Gen.Status.hermTail_info]
    split <;> rename_i hc
    · have : ((refresh K c tol maxit (loop K c sel tol maxit 0 0 0 s2)).2 : Int) ≥ (c.nev : Int) := by omega
      simp [Info.code, this]
    · have : ¬ ((refresh K c tol maxit (loop K c sel tol maxit 0 0 0 s2)).2 : Int) ≥ (c.nev : Int) := by omega
      simp [Info.code, this]
  · rw [hret]; simp only [Gen.Status.hermTail_ret]; omega

/--
  **The loop frame is the source's**: the arguments of the factorization call that opens `compute`, the range of the restart loop
  and its `break` condition, as REGENERATED from both `compute()` functions (`Gen.Restart.*ComputeSkel_*`), are the ones the
  orchestration model uses: it starts from `max 1 subspace_dim()`, factorizes up to `ncv`, counts `i` from 0 while `i < maxit`,
  and leaves the loop exactly when `nconv >= nev`.
-/
theorem c05_loop_from_source (k nev ncv maxit nconv : Nat) :
    Gen.Restart.hermComputeSkel_frame (ncv : Int) (maxit : Int) (k : Int) = (((max 1 k : Nat) : Int), (ncv : Int), 0, (maxit : Int)) ∧
    Gen.Restart.genComputeSkel_frame (ncv : Int) (maxit : Int) (k : Int) = (((max 1 k : Nat) : Int), (ncv : Int), 0, (maxit : Int)) ∧
    (Gen.Restart.hermComputeSkel_break (nev : Int) (nconv : Int) = true ↔ nconv ≥ nev) ∧
    (Gen.Restart.genComputeSkel_break (nev : Int) (nconv : Int) = true ↔ nconv ≥ nev) := by
  refine ⟨?_, ?_, ?_, ?_⟩
  · simp only [Gen.Restart.hermComputeSkel_frame]; congr 1; omega
  · simp only [Gen.Restart.genComputeSkel_frame]; congr 1; omega
  · simp only [Gen.Restart.hermComputeSkel_break, decide_eq_true_eq]; omega
  · simp only [Gen.Restart.genComputeSkel_break, decide_eq_true_eq]; omega

/-- both base classes have the same status logic (the general family's regenerated tail equals the symmetric one's) -/
theorem c05_status_same_both_families (i maxit niter nev nconv : Int) :
    Gen.Status.genTail_refresh i maxit = Gen.Status.hermTail_refresh i maxit ∧
    Gen.Status.genTail_niter niter i = Gen.Status.hermTail_niter niter i ∧
    Gen.Status.genTail_info nev nconv = Gen.Status.hermTail_info nev nconv ∧
    Gen.Status.genTail_ret nev nconv = Gen.Status.hermTail_ret nev nconv := ⟨rfl, rfl, rfl, rfl⟩

/-- **Flags are fresh**: the flags `compute` hands back were computed by the convergence test from the Ritz pairs of the FINAL
    factorization (the one `eigenvectors()` multiplies with), then permuted together with them — whether the loop ended by
    convergence or by exhausting `maxit`.  (For the code before `fix:` c774a83 this failed after exhaustion: finding F1.) -/
theorem c05_flags_fresh (sel : Int) (maxit : Nat) (tol : τ) (sorting : Int) (s : St φ ρ ε κ) (r : Nat)
    (h : (compute K c sel maxit tol sorting s).out = .ok r) :
    ∃ s3 : St φ ρ ε κ, ∃ ind, s3.ritzConv = convFlags K c tol s3 ∧
      (compute K c sel maxit tol sorting s).st.fac = s3.fac ∧
      K.sortIdx sorting (mapHead c.nev K.backTransform s3.ritzVal) c.nev = .ok ind ∧
      (compute K c sel maxit tol sorting s).st.ritzConv = (List.range c.nev).map (fun i => s3.ritzConv.getD (ind.getD i 0) false) ∧
      (compute K c sel maxit tol sorting s).st.ritzVec = (List.range c.nev).map (fun i => s3.ritzVec.getD (ind.getD i 0) K.zeroκ) := by
  obtain ⟨s2, s4, _, hr, hl, hs, hst, hret, _, _⟩ := compute_ok_unfold K c sel maxit tol sorting s r h
  obtain ⟨hfr, hfac⟩ := refresh_fresh K c sel tol maxit s2 hl
  refine ⟨(refresh K c tol maxit (loop K c sel tol maxit 0 0 0 s2)).1, ?_⟩
  unfold sortRitz at hs
  dsimp only at hs
  split at hs
  · simp at hs
  · rename_i ind hind
    simp only [Prod.mk.injEq, and_true] at hs
    refine ⟨ind, hfr, ?_, hind, ?_, ?_⟩
    · rw [hst, ← hs]
    · rw [hst, ← hs]
    · rw [hst, ← hs]

/--
  **Accessor pairing**: `eigenvalues()` and `eigenvectors(nvec)` walk the SAME index list (the flagged positions `< nev`, in stored
  order): the j-th returned value and the j-th returned column come from one stored position whose flag is set, and
  `eigenvectors(m)` is the first `min(m, count)` columns of `eigenvectors()`.
-/
theorem c05_accessor_pairing (s : St φ ρ ε κ) (hlen : s.ritzConv.length = c.nev) (nvec : Nat) :
    eigenvalues K c s = (convIdx c s).map (fun i => s.ritzVal.getD i K.zeroρ) ∧
    eigenvectorCoords K c nvec s = ((convIdx c s).map (fun i => s.ritzVec.getD i K.zeroκ)).take (min nvec (Orch.countTrue s.ritzConv)) ∧
    eigenvectorCoords K c nvec s = (eigenvectorCoords K c c.nev s).take (min nvec (Orch.countTrue s.ritzConv)) ∧
    (∀ i ∈ convIdx c s, i < c.nev ∧ s.ritzConv.getD i false = true) ∧
    (convIdx c s).Pairwise (· < ·) := by
  have hcnt : (convIdx c s).length = Orch.countTrue s.ritzConv := by
    unfold convIdx Orch.countTrue; exact filter_range_getD_length _ _ hlen
  refine ⟨?_, ?_, ?_, ?_, ?_⟩
  · unfold eigenvalues
    split
    · rename_i h0
      have : convIdx c s = [] := by apply List.eq_nil_of_length_eq_zero; omega
      simp [this]
    · rfl
  · unfold eigenvectorCoords; rw [List.map_take]
  · unfold eigenvectorCoords
    have hle : Orch.countTrue s.ritzConv ≤ c.nev := by unfold Orch.countTrue; rw [← hlen]; exact List.count_le_length
    rw [List.map_take, List.map_take, List.take_take]
    congr 1; omega
  · intro i hi
    simp only [convIdx, List.mem_filter, List.mem_range] at hi
    exact hi
  · unfold convIdx
    exact List.Pairwise.filter _ (List.pairwise_lt_range)

/-- **Sort pairing**: values, vectors and flags are permuted by ONE index vector, the one the sorting rule produced on the
    (back-transformed) first `nev` values; with C18 (`c18_sorted`) this is "the values appear in the order named by `sorting`". -/
theorem c05_sort_pairing (hcfg : c.nev ≤ c.ncv) (rule : Int) (s s' : St φ ρ ε κ) (h : sortRitz K c rule s = (s', none)) :
    ∃ ind, K.sortIdx rule (mapHead c.nev K.backTransform s.ritzVal) c.nev = .ok ind ∧
      ∀ i, i < c.nev →
        s'.ritzVal.getD i K.zeroρ = (mapHead c.nev K.backTransform s.ritzVal).getD (ind.getD i 0) K.zeroρ ∧
        s'.ritzVec.getD i K.zeroκ = s.ritzVec.getD (ind.getD i 0) K.zeroκ ∧
        s'.ritzConv.getD i false = s.ritzConv.getD (ind.getD i 0) false :=
  sortRitz_pairing K c hcfg rule s s' h

/-- **Iteration count**: at most `maxit` restarts, whatever the kernels do and however `compute` ends; on a normal return the
    number of restarts equals the loop counter `i ≤ maxit` and `num_iterations()` has grown by exactly `i + 1`. -/
theorem c05_maxit (sel : Int) (maxit : Nat) (tol : τ) (sorting : Int) (s : St φ ρ ε κ) :
    (compute K c sel maxit tol sorting s).restarts ≤ maxit ∧
    (∀ r, (compute K c sel maxit tol sorting s).out = .ok r →
      (compute K c sel maxit tol sorting s).restarts = (compute K c sel maxit tol sorting s).i ∧
      (compute K c sel maxit tol sorting s).i ≤ maxit ∧
      (compute K c sel maxit tol sorting s).st.niter = s.niter + (compute K c sel maxit tol sorting s).i + 1) := by
  constructor
  · unfold compute
    dsimp only
    split
    · simp
    · split
      · simp
      · rename_i s2 _
        have hl := loop_spec K c sel tol maxit 0 0 0 s2
        have : (loop K c sel tol maxit 0 0 0 s2).restarts ≤ maxit := by have := hl.2.2.2.2.2.2.1; omega
        split
        · exact this
        · split <;> exact this
  · intro r h
    obtain ⟨s2, s4, _, hr, hl, hs, hst, _, hi, hres⟩ := compute_ok_unfold K c sel maxit tol sorting s r h
    have hL := loop_spec K c sel tol maxit 0 0 0 s2
    have hrf := retrieve_frame K c sel (afterFactorize K c s)
    rw [hr] at hrf
    have hsf := sortRitz_frame K c sorting (refresh K c tol maxit (loop K c sel tol maxit 0 0 0 s2)).1
    rw [hs] at hsf
    have hR := refresh_spec K c sel tol maxit s2
    have h6 := hL.2.2.2.2.2.1 hl
    refine ⟨by rw [hi, hres, h6]; omega, by rw [hi]; have := hL.2.2.2.2.1; omega, ?_⟩
    rw [hst, hi]
    show s4.niter + ((loop K c sel tol maxit 0 0 0 s2).i + 1) = _
    rw [hsf.2.1, hR.2.2.2.1, hrf.2.2.1]
    show s.niter + _ = _
    omega

/-- **Before any compute()**: after the constructor and any number of `init` calls, `info()` is NotComputed and the accessors
    return empty objects. -/
theorem c05_before_compute (fac0 : φ) (vs : List β) (nvec : Nat) :
    let s := run K c (construct fac0) (vs.map Call.init)
    s.info = .notComputed ∧ eigenvalues K c s = [] ∧ eigenvectors K c nvec s = [] ∧ s.niter = 0 := by
  have key : ∀ (vs : List β) (s : St φ ρ ε κ), s.info = .notComputed → Orch.countTrue s.ritzConv = 0 → s.niter = 0 →
      (run K c s (vs.map Call.init)).info = .notComputed ∧ Orch.countTrue (run K c s (vs.map Call.init)).ritzConv = 0 ∧
      (run K c s (vs.map Call.init)).niter = 0 := by
    intro vs
    induction vs with
    | nil => intro s h1 h2 h3; exact ⟨h1, h2, h3⟩
    | cons v vs ih =>
      intro s h1 h2 h3
      simp only [List.map_cons, run, List.foldl_cons]
      apply ih
      · simp [step, init, h1]
      · simp [step, init, Orch.countTrue, count_true_replicate_false]
      · simp [step, init]
  obtain ⟨h1, h2, h3⟩ := key vs (construct fac0) rfl rfl rfl
  refine ⟨h1, ?_, ?_, h3⟩
  · simp [eigenvalues, h2]
  · simp [eigenvectors, eigenvectorCoords, h2]

/-- **A throwing compute()** (unsupported rule, failing operator, failing small eigen-solver — any exception at any point)
    leaves `info()` and `num_iterations()` exactly as they were. -/
theorem c05_throwing_compute (sel : Int) (maxit : Nat) (tol : τ) (sorting : Int) (s : St φ ρ ε κ) (e : Exn)
    (h : (compute K c sel maxit tol sorting s).out = .error e) :
    (compute K c sel maxit tol sorting s).st.info = s.info ∧ (compute K c sel maxit tol sorting s).st.niter = s.niter :=
  compute_error_info K c sel maxit tol sorting s e h

/-- `init()` never changes `info()`; it resets both counters, and `num_operations()` then holds exactly what the factorization's
    `init` counted. -/
theorem c05_init_counters (v0 : β) (s : St φ ρ ε κ) :
    (init K c v0 s).1.info = s.info ∧ (init K c v0 s).1.niter = 0 ∧ (init K c v0 s).1.nmatop = (K.facInit v0 s.fac).ops := by
  simp [init]

/-- `num_operations()` never decreases during `compute` and grows by exactly the applications the kernels report
    (initial factorization + every restart's factorization); with no restart it is `old + ops(factorize)`. -/
theorem c05_nmatop_monotone (sel : Int) (maxit : Nat) (tol : τ) (sorting : Int) (s : St φ ρ ε κ) :
    s.nmatop ≤ (compute K c sel maxit tol sorting s).st.nmatop := by
  unfold compute
  dsimp only
  split
  · simp
  · have hrf := retrieve_frame K c sel (afterFactorize K c s)
    unfold afterFactorize at hrf
    split
    · rename_i s2 e hr; rw [hr] at hrf; dsimp only at hrf ⊢; rw [hrf.2.2.2.1]; omega
    · rename_i s2 hr; rw [hr] at hrf; dsimp only at hrf
      have hl := loop_spec K c sel tol maxit 0 0 0 s2
      have h3 := hl.2.2.1
      have hR := (refresh_spec K c sel tol maxit s2).2.2.2.2
      split
      · dsimp only; omega
      · have hsf := sortRitz_frame K c sorting (refresh K c tol maxit (loop K c sel tol maxit 0 0 0 s2)).1
        split
        · rename_i s4 e hs; rw [hs] at hsf; dsimp only at hsf ⊢; omega
        · rename_i s4 hs; rw [hs] at hsf; dsimp only at hsf ⊢; omega

/-! ### The accessor loops as the source has them (`Gen.Access`, regenerated from /repo on every run) -/

section access
open AccessLemmas

/-- the model's list of flagged indices is the index list the source loops walk -/
theorem convIdx_eq_idx (s : St φ ρ ε κ) :
    convIdx c s = idx (fun i => s.ritzConv.getD i.toNat false) c.nev := by
  simp [convIdx, idx]

/--
  **`eigenvalues()` as written in `HermEigsBase.h`** (loop translated from the source): for every object state, the output
  positions `0 .. j-1` of the translated loop, read back, are exactly the model's `eigenvalues` list (the values at the flagged
  indices among the first `nev`, in increasing index order), `j` is its length, and no position `≥ j` is written.  With
  `c05_counts` this ties "returned count = eigenvalues().size()" to the loop the source contains, not only to the model's
  `filter`/`map`. -/
theorem c05_eigenvalues_loop_from_source {α : Type} [Add α] [Sub α] [Mul α] [Div α] [Neg α] [Sc α]
    {φ ε κ β τ ω : Type} (K : Kern φ α ε κ β τ ω) (c : Cfg) (s : St φ α ε κ) (res0 : Int → α) :
    let r := Gen.Access.hermEigenvalues_loop (c.nev : Int) (fun i => s.ritzConv.getD i.toNat false)
                (fun i => s.ritzVal.getD i.toNat K.zeroρ) res0
    r.1 = ((convIdx c s).length : Int) ∧
    (convIdx c s).map (fun i => s.ritzVal.getD i K.zeroρ) = (List.range (convIdx c s).length).map (fun (t : Nat) => r.2 (t : Int)) ∧
    (∀ x : Int, ¬ (0 ≤ x ∧ x < ((convIdx c s).length : Int)) → r.2 x = res0 x) := by
  intro r
  have hr : r = _ := hermEigenvalues_loop_eq c.nev _ _ res0
  rw [intRange_zero] at hr
  have sp := valFold_spec (fun i => s.ritzConv.getD i.toNat false) (fun i => s.ritzVal.getD i.toNat K.zeroρ) res0 c.nev
  dsimp only at sp
  rw [← convIdx_eq_idx] at sp
  obtain ⟨sj, sr⟩ := sp
  refine ⟨by rw [hr]; exact sj, ?_, ?_⟩
  · have := readback (convIdx c s) (fun i => s.ritzVal.getD i K.zeroρ) r.2 (convIdx c s).length (Nat.le_refl _)
      (by intro x hx; rw [hr]; dsimp only; rw [sr x, if_pos hx]; simp)
    rw [List.take_length] at this
    exact this
  · intro x hx; rw [hr]; dsimp only; rw [sr x, if_neg hx]

/-- the same for `GenEigsBase::eigenvalues()` (complex Ritz values as pairs) -/
theorem c05_eigenvalues_loop_from_source_gen {α : Type} [Add α] [Sub α] [Mul α] [Div α] [Neg α] [Sc α]
    {φ ε κ β τ ω : Type} (K : Kern φ (α × α) ε κ β τ ω) (c : Cfg) (s : St φ (α × α) ε κ) (res0 : Int → α × α) :
    let r := Gen.Access.genEigenvalues_loop (c.nev : Int) (fun i => s.ritzConv.getD i.toNat false)
                (fun i => s.ritzVal.getD i.toNat K.zeroρ) res0
    r.1 = ((convIdx c s).length : Int) ∧
    (convIdx c s).map (fun i => s.ritzVal.getD i K.zeroρ) = (List.range (convIdx c s).length).map (fun (t : Nat) => r.2 (t : Int)) ∧
    (∀ x : Int, ¬ (0 ≤ x ∧ x < ((convIdx c s).length : Int)) → r.2 x = res0 x) := by
  intro r
  have hr : r = _ := genEigenvalues_loop_eq c.nev _ _ res0
  rw [intRange_zero] at hr
  have sp := valFold_spec (fun i => s.ritzConv.getD i.toNat false) (fun i => s.ritzVal.getD i.toNat K.zeroρ) res0 c.nev
  dsimp only at sp
  rw [← convIdx_eq_idx] at sp
  obtain ⟨sj, sr⟩ := sp
  refine ⟨by rw [hr]; exact sj, ?_, ?_⟩
  · have := readback (convIdx c s) (fun i => s.ritzVal.getD i K.zeroρ) r.2 (convIdx c s).length (Nat.le_refl _)
      (by intro x hx; rw [hr]; dsimp only; rw [sr x, if_pos hx]; simp)
    rw [List.take_length] at this
    exact this
  · intro x hx; rw [hr]; dsimp only; rw [sr x, if_neg hx]

/--
  **`eigenvectors(nvec)` as written in both base classes**: the translated loop copies stored Ritz vector `colsel[t]` into output
  column `t`; for every object state, every `nvec` and every `nconv`, the columns it fills are `0 .. j-1` with
  `j = min(min(nvec, nconv), #flagged)`, and the stored vectors it picks are, in order, the first `j` flagged indices — the
  model's `eigenvectorCoords` selection `(convIdx).take (min nvec nconv)`. -/
theorem c05_eigenvectors_loop_from_source (s : St φ ρ ε κ) (nvec : Nat) (c0 : Int → Int) :
    let r := Gen.Access.hermEigenvectors_loop (c.nev : Int) (fun i => s.ritzConv.getD i.toNat false) (nvec : Int)
                ((Orch.countTrue s.ritzConv : Nat) : Int) c0
    let m := min (min nvec (Orch.countTrue s.ritzConv)) (convIdx c s).length
    r.2.1 = (m : Int) ∧
    (convIdx c s).take (min nvec (Orch.countTrue s.ritzConv)) = (List.range m).map (fun (t : Nat) => (r.2.2 (t : Int)).toNat) ∧
    (∀ x : Int, ¬ (0 ≤ x ∧ x < (m : Int)) → r.2.2 x = c0 x) ∧
    Gen.Access.genEigenvectors_loop (c.nev : Int) (fun i => s.ritzConv.getD i.toNat false) (nvec : Int)
                ((Orch.countTrue s.ritzConv : Nat) : Int) c0 = r := by
  intro r m
  have hr : r = _ := hermEigenvectors_loop_eq c.nev _ nvec (Orch.countTrue s.ritzConv) c0
  rw [intRange_zero] at hr
  have sp := colFold_spec (fun i => s.ritzConv.getD i.toNat false) (min nvec (Orch.countTrue s.ritzConv)) c0 c.nev
  dsimp only at sp
  rw [← convIdx_eq_idx] at sp
  obtain ⟨sj, sr⟩ := sp
  refine ⟨by rw [hr]; exact sj, ?_, ?_, rfl⟩
  · have h1 : (convIdx c s).take (min nvec (Orch.countTrue s.ritzConv)) = (convIdx c s).take m := by
      apply List.take_eq_take_iff.mpr; omega
    have := readback (convIdx c s) (fun i => i) (fun x => (r.2.2 x).toNat) m (Nat.min_le_right _ _)
      (by intro x hx; rw [hr]; dsimp only; rw [sr x, if_pos hx]; simp)
    rw [List.map_id'] at this
    rw [h1, this]
  · intro x hx; rw [hr]; dsimp only; rw [sr x, if_neg hx]

end access

/-! ### `num_converged` as the source has it (`Gen.Conv`, the Eigen array expressions translated elementwise on every run) -/

section conv
variable {α : Type} [Add α] [Sub α] [Mul α] [Div α] [Neg α] [Sc α]

/--
  **The convergence flags of the symmetric family are the source's** : for every operator, configuration, tolerance and object
  state, the flag list the numeric instance of the orchestration model stores (`Orch.convFlags (hermKern …)`, the list every
  theorem about `ritzConv` talks about) is, entry by entry, the array `HermEigsBase::num_converged` assigns to `m_ritz_conv`:
  `abs(ritz_est[i]) * f_norm < tol * max(abs(ritz_val[i]), eps23)` over `head(m_nev)` with `f_norm() = beta`, and it has `m_nev`
  entries. -/
theorem c05_flags_from_source_herm (op : Arnoldi.Op α) (c : Cfg) (eps23 : α) (back : α → α) (tol : α)
    (s : St (Arnoldi.State α) α α (Lin.Vec α)) :
    convFlags (HermSolver.hermKern op c eps23 back) c tol s =
      (List.range c.nev).map (fun (j : Nat) => Gen.Conv.hermNumConverged_flag tol eps23 s.fac.beta
        (fun i => s.ritzVal.getD i.toNat Lin.zero) (fun i => s.ritzEst.getD i.toNat Lin.zero) (j : Int)) ∧
    Gen.Conv.hermNumConverged_len (c.nev : Int) = (c.nev : Int) := by
  refine ⟨?_, rfl⟩
  simp [convFlags, HermSolver.hermKern, HermSolver.convTest, Gen.Conv.hermNumConverged_flag]

/-- the same for the general family (`GenEigsBase::num_converged`, complex `abs`) -/
theorem c05_flags_from_source_gen (op : Arnoldi.Op α) (c : Cfg) (eps23 : α) (back : GenSolver.Cx α → GenSolver.Cx α) (tol : α)
    (s : St (Arnoldi.State α) (GenSolver.Cx α) (GenSolver.Cx α) (Lin.Vec (GenSolver.Cx α))) :
    convFlags (GenSolver.genKern op c eps23 back) c tol s =
      (List.range c.nev).map (fun (j : Nat) => Gen.Conv.genNumConverged_flag tol eps23 s.fac.beta
        (fun i => s.ritzVal.getD i.toNat GenSolver.czero) (fun i => s.ritzEst.getD i.toNat GenSolver.czero) (j : Int)) ∧
    Gen.Conv.genNumConverged_len (c.nev : Int) = (c.nev : Int) := by
  refine ⟨?_, rfl⟩
  simp [convFlags, GenSolver.genKern, GenSolver.convTest, Gen.Conv.genNumConverged_flag]

end conv

/-! ### The copy loops of `retrieve_ritzpair` / `sort_ritzpair` as the source has them (`Gen.Copy`) -/

section copy
open CopyLemmas

local macro "range_if" : tactic =>
  `(tactic| (apply List.map_congr_left; intro i hi; have hlt := List.mem_range.mp hi; rw [if_pos ⟨by omega, by omega⟩]; simp))

/--
  **`retrieve_ritzpair` as written in `HermEigsBase.h`**: whenever the small eigen-solver and the selection sort succeed, the
  Ritz values, the Ritz estimates (last row of the eigenvector matrix, row `m_ncv - 1`) and the choice of eigenvector columns the
  model's `retrieve` stores are exactly what the source's two loops leave in `m_ritz_val[0..ncv)`, `m_ritz_est[0..ncv)` and
  `m_ritz_vec.col(0..nev)` — for every kernel behaviour, every index vector and every prior content of the targets. -/
theorem c05_retrieve_from_source {α : Type} [Add α] [Sub α] [Mul α] [Div α] [Neg α] [Sc α]
    {φ κ β τ ω : Type} (K : Kern φ α α κ β τ ω) (c : Cfg) (sel : Int) (s : St φ α α κ)
    (evals lastRow : List α) (cols : List κ) (ind : List Nat)
    (he : K.eig s.fac = .ok (evals, lastRow, cols)) (hs : K.select sel evals c.ncv = .ok ind)
    (v0 e0 : Int → α) (s0 : Int → Int) :
    let r := Gen.Copy.hermRetrieve_loops (c.nev : Int) (c.ncv : Int) (fun i => evals.getD i.toNat K.zeroρ)
                (fun i => lastRow.getD i.toNat K.zeroε) (fun i => ((ind.getD i.toNat 0 : Nat) : Int)) v0 e0 s0
    (retrieve K c sel s).1.ritzVal = (List.range c.ncv).map (fun (i : Nat) => r.1 i) ∧
    (retrieve K c sel s).1.ritzEst = (List.range c.ncv).map (fun (i : Nat) => r.2.1 i) ∧
    (retrieve K c sel s).1.ritzVec = (List.range c.nev).map (fun (i : Nat) => cols.getD (r.2.2 i).toNat K.zeroκ) ∧
    Gen.Copy.hermRetrieve_loops_estRow (c.ncv : Int) = (c.ncv : Int) - 1 := by
  intro r
  have hr : r = _ := hermRetrieve_spec c.nev c.ncv _ _ _ v0 e0 s0
  simp only [retrieve, he, hs, hr]
  refine ⟨?_, ?_, ?_, rfl⟩
  · range_if
  · range_if
  · range_if

/-- the same for `GenEigsBase::retrieve_ritzpair` -/
theorem c05_retrieve_from_source_gen {α : Type} [Add α] [Sub α] [Mul α] [Div α] [Neg α] [Sc α]
    {φ κ β τ ω : Type} (K : Kern φ (α × α) (α × α) κ β τ ω) (c : Cfg) (sel : Int) (s : St φ (α × α) (α × α) κ)
    (evals lastRow : List (α × α)) (cols : List κ) (ind : List Nat)
    (he : K.eig s.fac = .ok (evals, lastRow, cols)) (hs : K.select sel evals c.ncv = .ok ind)
    (v0 e0 : Int → α × α) (s0 : Int → Int) :
    let r := Gen.Copy.genRetrieve_loops (c.nev : Int) (c.ncv : Int) (fun i => evals.getD i.toNat K.zeroρ)
                (fun i => lastRow.getD i.toNat K.zeroε) (fun i => ((ind.getD i.toNat 0 : Nat) : Int)) v0 e0 s0
    (retrieve K c sel s).1.ritzVal = (List.range c.ncv).map (fun (i : Nat) => r.1 i) ∧
    (retrieve K c sel s).1.ritzEst = (List.range c.ncv).map (fun (i : Nat) => r.2.1 i) ∧
    (retrieve K c sel s).1.ritzVec = (List.range c.nev).map (fun (i : Nat) => cols.getD (r.2.2 i).toNat K.zeroκ) ∧
    Gen.Copy.genRetrieve_loops_estRow (c.ncv : Int) = (c.ncv : Int) - 1 := by
  intro r
  have hr : r = _ := genRetrieve_spec c.nev c.ncv _ _ _ v0 e0 s0
  simp only [retrieve, he, hs, hr]
  refine ⟨?_, ?_, ?_, rfl⟩
  · range_if
  · range_if
  · range_if

/--
  **`sort_ritzpair` as written in `HermEigsBase.h`**: when the final sort succeeds with index vector `ind`, the values, the
  vector columns and the convergence flags the model's `sortRitz` stores are what the source's single loop writes to
  `new_ritz_val[0..nev)`, `new_ritz_vec.col(0..nev)`, `new_ritz_conv[0..nev)` (which the three `swap`s — checked by the
  translator — then install): one index vector for all three, for every kernel and every state. -/
theorem c05_sort_from_source {α : Type} [Add α] [Sub α] [Mul α] [Div α] [Neg α] [Sc α]
    {φ ε κ β τ ω : Type} (K : Kern φ α ε κ β τ ω) (c : Cfg) (rule : Int) (s : St φ α ε κ) (ind : List Nat)
    (hs : K.sortIdx rule (mapHead c.nev K.backTransform s.ritzVal) c.nev = .ok ind)
    (v0 : Int → α) (s0 : Int → Int) (c0 : Int → Bool) :
    let vals := mapHead c.nev K.backTransform s.ritzVal
    let r := Gen.Copy.hermSort_loop (c.nev : Int) (c.ncv : Int) (fun i => vals.getD i.toNat K.zeroρ)
                (fun i => s.ritzConv.getD i.toNat false) (fun i => ((ind.getD i.toNat 0 : Nat) : Int)) v0 s0 c0
    (sortRitz K c rule s).1.ritzVal = (List.range c.ncv).map (fun (i : Nat) => if i < c.nev then r.1 i else K.zeroρ) ∧
    (sortRitz K c rule s).1.ritzVec = (List.range c.nev).map (fun (i : Nat) => s.ritzVec.getD (r.2.1 i).toNat K.zeroκ) ∧
    (sortRitz K c rule s).1.ritzConv = (List.range c.nev).map (fun (i : Nat) => r.2.2 i) := by
  intro vals r
  have hr : r = _ := hermSort_spec c.nev c.ncv _ _ _ v0 s0 c0
  simp only [sortRitz, hs, hr]
  refine ⟨?_, ?_, ?_⟩
  · apply List.map_congr_left
    intro i _
    by_cases h : i < c.nev
    · rw [if_pos h, if_pos h, if_pos ⟨by omega, by omega⟩]; simp [vals]
    · rw [if_neg h, if_neg h]
  · range_if
  · range_if

/-- the same for `GenEigsBase::sort_ritzpair` -/
theorem c05_sort_from_source_gen {α : Type} [Add α] [Sub α] [Mul α] [Div α] [Neg α] [Sc α]
    {φ ε κ β τ ω : Type} (K : Kern φ (α × α) ε κ β τ ω) (c : Cfg) (rule : Int) (s : St φ (α × α) ε κ) (ind : List Nat)
    (hs : K.sortIdx rule (mapHead c.nev K.backTransform s.ritzVal) c.nev = .ok ind)
    (v0 : Int → α × α) (s0 : Int → Int) (c0 : Int → Bool) :
    let vals := mapHead c.nev K.backTransform s.ritzVal
    let r := Gen.Copy.genSort_loop (c.nev : Int) (c.ncv : Int) (fun i => vals.getD i.toNat K.zeroρ)
                (fun i => s.ritzConv.getD i.toNat false) (fun i => ((ind.getD i.toNat 0 : Nat) : Int)) v0 s0 c0
    (sortRitz K c rule s).1.ritzVal = (List.range c.ncv).map (fun (i : Nat) => if i < c.nev then r.1 i else K.zeroρ) ∧
    (sortRitz K c rule s).1.ritzVec = (List.range c.nev).map (fun (i : Nat) => s.ritzVec.getD (r.2.1 i).toNat K.zeroκ) ∧
    (sortRitz K c rule s).1.ritzConv = (List.range c.nev).map (fun (i : Nat) => r.2.2 i) := by
  intro vals r
  have hr : r = _ := genSort_spec c.nev c.ncv _ _ _ v0 s0 c0
  simp only [sortRitz, hs, hr]
  refine ⟨?_, ?_, ?_⟩
  · apply List.map_congr_left
    intro i _
    by_cases h : i < c.nev
    · rw [if_pos h, if_pos h, if_pos ⟨by omega, by omega⟩]; simp [vals]
    · rw [if_neg h, if_neg h]
  · range_if
  · range_if

end copy

/-! ### Non-vacuity and the refuted full-strength statement -/

/-- a concrete kernel record (everything trivial; every Ritz pair passes the convergence test) -/
def toyK : Kern Unit Nat Nat Nat Unit Unit Nat :=
  { zeroρ := 0, zeroε := 0, zeroκ := 0,
    facInit := fun _ f => ⟨f, 1, none⟩, factorize := fun _ _ f => ⟨f, 1, none⟩, facDim := fun _ => 1,
    eig := fun _ => .ok ([5, 7], [0, 0], [1, 2]), select := fun _ _ n => .ok (List.range n),
    convTest := fun _ _ _ _ => true, nevAdj := fun c _ _ _ => c.nev, restartFac := fun _ _ f => ⟨f, 1, none⟩,
    backTransform := id, sortIdx := fun _ _ n => .ok (List.range n), assemble := fun _ k => k }
def toyC : Cfg := ⟨3, 1, 2⟩

/-- the hypotheses of the theorems above are satisfiable, and a run through them gives a consistent answer -/
example : SortPerm toyK toyC ∧
    (compute toyK toyC 0 5 () 0 (init toyK toyC () (construct ())).1).out = .ok 1 ∧
    (eigenvalues toyK toyC (compute toyK toyC 0 5 () 0 (init toyK toyC () (construct ())).1).st) = [5] := by
  refine ⟨?_, rfl, rfl⟩
  intro rule vals ind h
  simp only [toyK, Except.ok.injEq] at h
  subst h; exact List.Perm.refl _

/-- the history that refuted the counts clause before the repair (`init(); compute(); compute(maxit = 0)`) now gives a consistent
    answer on the model: the second call re-evaluates the flags (return value 1, one eigenvalue) -/
example :
    (compute toyK toyC 0 0 () 0 (compute toyK toyC 0 5 () 0 (init toyK toyC () (construct ())).1).st).out = .ok 1 ∧
    (eigenvalues toyK toyC (compute toyK toyC 0 0 () 0 (compute toyK toyC 0 5 () 0 (init toyK toyC () (construct ())).1).st).st).length = 1 :=
  ⟨rfl, rfl⟩

end C05
