/-
  C13 — compute() is memory-safe, terminates within its work bound, hands the operator valid distinct vectors, never emits NaN.

  What is PROVED here (for every scalar type α and every `Sc α` instance, i.e. for every outcome of every floating comparison;
  all sizes; all oracle histories):
    * about definitions regenerated from the headers on every run (`Gen.Restart`: both `nev_adjusted`, `is_complex`, `is_conj`,
      one pass of the general shift loop with its Ritz reads, the frames of both `restart`s and both `compute`s):
        c13_herm_k, c13_gen_k, c13_herm_shift_count, c13_gen_shift_reads, c13_gen_shift_inbounds, c13_gen_shift_degree,
        c13_gen_restart_safe, c13_gen_restart_pairs_partial
    * about the hand-written index programs / operator-call skeleton `Model/RestartIdx.lean` (which are built from those
      translated pieces): c13_work_bound_herm, c13_work_bound_gen, c13_cshift_extra_solves, c13_op_args_herm, c13_op_args_gen,
      c13_termination, c13_compress_indices, c13_factorize_indices
    * about the regenerated storage table of every `perform_op` call site (`Gen.Restart.opSites`, `opParamBinds`) and its lift to
      the skeleton: c13_op_buffers_owned (no static / thread_local / global buffer is ever handed to the operator)
  What is NOT a theorem (stated, with witnesses, at the end): in-bounds Ritz reads of `GenEigsBase::restart` WITHOUT a pairing
  hypothesis (false: `example`s), NaN-freedom (false when A·v0 = 0; depends on rounding otherwise).

  Findings on the unchanged tree that the witnesses below predict and harness/c13x.cpp reproduces through the PUBLIC API on every
  run (known_findings/C13.json): the read of `m_ritz_val[ncv]` in `GenEigsBase::restart` (Eigen index assertion) on matrices with
  a repeated complex eigenvalue pair — (a) bit-identical duplicated pairs: exactly the third witness (`nev_adjusted` moves k into
  a pair), GenEigsSolver n=18, nev=1, ncv=15 on nine identical 2x2 rotation blocks; (b) ncv > 16: key ties + unstable std::sort
  break adjacency (first witness), n=21, nev=13, ncv=21.  With the one-line guard `i + 1 < m_ncv &&` before `is_conj` in restart()
  (tried in an isolated copy) 31 208 exploration cases show no crash; `step_pair`/`step_orphan` and the statements
  c13_gen_shift_oob_exact / c13_gen_restart_safe_partial then have to be restated (in-bounds becomes unconditional).
-/
import SpectraVerif.Proofs.C13Lemmas

namespace C13
open Gen.Restart RestartIdx

section
variable {α : Type} [Add α] [Sub α] [Mul α] [Div α] [Neg α] [Sc α]

/-! ## (1) restart size, symmetric / Hermitian family (translated `HermEigsBase::nev_adjusted`) -/

/-- ∀ 1 ≤ nev < ncv, ∀ Ritz estimates (any values, any comparison outcomes), ∀ nconv ≥ 0:  nev ≤ k ≤ ncv - 1.
    Hence `restart(k)` never takes its `k >= m_ncv` exit, `compress_V` sees 1 ≤ m_k ≤ ncv-1 and at least one shift is applied. -/
theorem c13_herm_k (nev ncv : Int) (est : Int → α) (nconv : Int) (h1 : 1 ≤ nev) (h2 : nev < ncv) (h3 : 0 ≤ nconv) :
    nev ≤ hermNevAdj nev ncv est nconv ∧ hermNevAdj nev ncv est nconv ≤ ncv - 1 :=
  herm_k nev ncv est nconv h1 h2 h3

/-- the Hermitian shift loop (translated frame of `HermEigsBase::restart`) applies exactly `ncv - k` single shifts, so that
    `m_k = k` when `factorize_from(k, ncv)` is entered (its guard `from_k > m_k` cannot fire) -/
theorem c13_herm_shift_count (ncv k : Int) (h : k < ncv) :
    hermShiftSkel ncv k = (false, ncv - k, k, ncv) ∧ ∀ bd, (hermRestartCalls ncv k bd).2 = Stop.none := by
  refine ⟨hermShiftSkel_lt ncv k h, fun bd => ?_⟩
  rw [hermRestartCalls_lt ncv k bd h]

/-! ## (2) restart size, general family (translated `GenEigsBase::nev_adjusted`) -/

/-- ∀ 1 ≤ nev ≤ ncv - 2, ∀ estimates, ∀ Ritz values, ∀ nconv ≥ 0:
    the two reads `m_ritz_val[p-1]`, `m_ritz_val[p]` of the conjugate test (p = `genNevPre`, the value of `nev_new` at that point)
    are inside `[0, ncv)`, and the result satisfies nev ≤ k ≤ ncv - 1 (in particular 1 ≤ k), k ∈ {p, p+1}. -/
theorem c13_gen_k (nev ncv : Int) (est val : Int → α × α) (nconv : Int) (h1 : 1 ≤ nev) (h2 : nev ≤ ncv - 2) (h3 : 0 ≤ nconv) :
    (0 ≤ genNevPre nev ncv est nconv - 1 ∧ genNevPre nev ncv est nconv < ncv) ∧
    (nev ≤ genNevAdj nev ncv est val nconv ∧ genNevAdj nev ncv est val nconv ≤ ncv - 1) ∧
    (genNevAdj nev ncv est val nconv = genNevPre nev ncv est nconv ∨ genNevAdj nev ncv est val nconv = genNevPre nev ncv est nconv + 1) := by
  have hp := gen_pre nev ncv est nconv h1 h2 h3
  have he := gen_adj_eq nev ncv est val nconv
  refine ⟨by omega, ?_, ?_⟩ <;> (rw [he]; split <;> omega)

/-! ## (3) Ritz reads of the general shift loop `for (i = k; i < ncv; i++)` (translated pass `genShiftSkel_step`) -/

/-- EXACT statement of when the loop is safe and pairs correctly:
    the Ritz values from k on are adjacent conjugate pairs (`AdjacentConj`)  ⇔  every read `m_ritz_val[i]`, `m_ritz_val[i+1]` is inside
    `[0, ncv)` AND every complex value met is consumed by a double shift together with its successor. -/
theorem c13_gen_shift_reads (ritz : Int → α × α) (ncv k : Int) (hk : 0 ≤ k) :
    AdjacentConj ritz ncv k ↔ InBounds ncv (genPasses ritz ncv k) ∧ AllPaired ritz (genPasses ritz ncv k) :=
  shift_iff_aux ritz ncv _ k rfl hk

/-- with the bounds guard `i + 1 < m_ncv` in front of the conjugate test, EVERY Ritz read of the shift loop is inside [0, ncv),
    for all Ritz data (no pairing hypothesis): the clause "never trips an internal index assertion" for this loop, at full strength -/
theorem c13_gen_shift_inbounds (ritz : Int → α × α) (ncv k : Int) (hk : 0 ≤ k) : InBounds ncv (genPasses ritz ncv k) :=
  inBounds_always ritz ncv k hk

/-- the shifts applied have total degree exactly `ncv - k`: `m_k = k` afterwards, so that `compress_V` touches `Q(m-1, k-1)`,
    `H(k, k-1)` with 1 ≤ k ≤ ncv-1 and `factorize_from(k, ncv)` does not throw (model: stop = none) — for all Ritz data -/
theorem c13_gen_shift_degree (ritz : Int → α × α) (ncv k : Int) (hk : 0 ≤ k) (hlt : k < ncv) :
    (genRestart ritz ncv k).mkAfter = k ∧ ∀ bd, (genRestartCalls ncv k ritz bd).2 = Stop.none := by
  have hb := inBounds_always ritz ncv k hk
  have hd := inbounds_degree_aux ritz ncv _ k rfl hk (by omega) hb
  have hf := genRestart_frame ritz ncv k hlt
  refine ⟨by rw [hf]; show ncv - degree (genPasses ritz ncv k) = k; omega, fun bd => ?_⟩
  simp only [genRestartCalls, hf, Bool.false_eq_true, if_false]
  have : firstOob ncv (allReads (genPasses ritz ncv k)) = none := by
    simp only [firstOob, List.find?_eq_none, decide_eq_true_eq]
    intro r hr; have := hb r hr; omega
  rw [this]; simp only []
  rw [if_neg (by omega)]

/-- FULL CHAIN on the translated code, full strength: restart size from `nev_adjusted`, then the shift loop — for ALL Ritz data the
    reads are in bounds, m_k = k, factorize_from does not throw -/
theorem c13_gen_restart_safe (nev ncv : Int) (est ritz : Int → α × α) (nconv : Int)
    (h1 : 1 ≤ nev) (h2 : nev ≤ ncv - 2) (h3 : 0 ≤ nconv) :
    let k := genNevAdj nev ncv est ritz nconv
    InBounds ncv (genPasses ritz ncv k) ∧ (genRestart ritz ncv k).mkAfter = k ∧ ∀ bd, (genRestartCalls ncv k ritz bd).2 = Stop.none := by
  intro k
  have hk := (c13_gen_k nev ncv est ritz nconv h1 h2 h3)
  exact ⟨inBounds_always ritz ncv k (by have := hk.2.1.1; omega),
         c13_gen_shift_degree ritz ncv k (by have := hk.2.1.1; omega) (by have := hk.2.1.2; omega)⟩

/-- what still needs hypotheses is NUMERICAL adequacy, not safety: every complex Ritz value is treated together with its conjugate
    (one double shift) provided (a) complex values sit next to their conjugates and (b) no complex pair is duplicated across the
    boundary that `nev_adjusted` tests (both needed: witnesses below) -/
theorem c13_gen_restart_pairs_partial (nev ncv : Int) (est ritz : Int → α × α) (nconv : Int)
    (h1 : 1 ≤ nev) (h2 : nev ≤ ncv - 2) (h3 : 0 ≤ nconv)
    (hadj : AdjacentConj ritz ncv 0)
    (hns : let p := genNevPre nev ncv est nconv
           AdjacentConj ritz ncv p → ¬(is_complex (ritz (p - 1)) = true ∧ is_conj (ritz (p - 1)) (ritz p) = true)) :
    AllPaired ritz (genPasses ritz ncv (genNevAdj nev ncv est ritz nconv)) := by
  have hk := (c13_gen_k nev ncv est ritz nconv h1 h2 h3)
  have hp := gen_pre nev ncv est nconv h1 h2 h3
  have hadjk : AdjacentConj ritz ncv (genNevAdj nev ncv est ritz nconv) := by
    rw [gen_adj_eq]
    exact bump_boundary ritz ncv _ (by omega) hadj hns
  exact ((c13_gen_shift_reads ritz ncv _ (by have := hk.2.1.1; omega)).mp hadjk).2

/-! ## (4) work bound: number of operator applications of `init(); compute(maxit)` -/

/-- Hermitian family, every oracle outcome (convergence counts ≥ 0, Ritz estimates, breakdown pattern of every factorization step),
    every subspace dimension `k0` at entry (`k0 = initSubspaceDim = 1` is `init(); compute()`; other values: compute() repeated
    without init(), which since the `fix:` of compute() continues from the existing factorization):
    #perform_op ≤ 2 + 2(ncv-1)(maxit+1) ≤ 2 + 2·ncv·(maxit+1)  (the property's bound) -/
theorem c13_work_bound_herm (nev ncv maxit k0 : Int) (bd0 : Int → Bool) (orc : Nat → IterOracle α α)
    (h1 : 1 ≤ nev) (h2 : nev < ncv) (hnc : ∀ it, 0 ≤ (orc it).nconv) :
    (initCalls ++ (hermCompute nev ncv maxit k0 bd0 orc).calls).length ≤ 2 + 2 * (ncv - 1).toNat * (maxit.toNat + 1) ∧
    2 + 2 * (ncv - 1).toNat * (maxit.toNat + 1) ≤ 2 + 2 * ncv.toNat * (maxit.toNat + 1) := by
  constructor
  · have hl := (computeLoop_calls (fun (o : IterOracle α α) => hermComputeSkel_break nev o.nconv) (fun o => hermNevAdj nev ncv o.est o.nconv)
      (fun o k => hermRestartCalls ncv k o.bd) orc (2 * (ncv - 1).toNat) (fun _ => True)
      (fun it _ => ⟨(hermRestart_bound ncv _ (orc it).bd (by have := (herm_k nev ncv (orc it).est (orc it).nconv h1 h2 (hnc it)).1; omega)).1,
                    fun _ _ => trivial⟩) (maxit - 0).toNat 0).1
    have h0 := factorizeCalls_len bd0 (max 1 k0) ncv
    simp only [hermCompute, hermComputeSkel_frame, List.length_append, initCalls, List.length_cons, List.length_nil]
    have e : (maxit - 0).toNat = maxit.toNat := by simp
    rw [e] at hl ⊢
    rw [Nat.mul_add, Nat.mul_one, Nat.mul_comm (2 * (ncv - 1).toNat) maxit.toNat]
    omega
  · have : (ncv - 1).toNat ≤ ncv.toNat := by omega
    have := Nat.mul_le_mul_right (maxit.toNat + 1) (Nat.mul_le_mul_left 2 this)
    omega

/-- general family, every oracle outcome, INCLUDING runs that stop early by an out-of-range read or a factorize_from throw -/
theorem c13_work_bound_gen (nev ncv maxit k0 : Int) (bd0 : Int → Bool) (orc : Nat → IterOracle (α × α) α)
    (h1 : 1 ≤ nev) (h2 : nev ≤ ncv - 2) (hnc : ∀ it, 0 ≤ (orc it).nconv) :
    (initCalls ++ (genCompute nev ncv maxit k0 bd0 orc).calls).length ≤ 2 + 2 * (ncv - 1).toNat * (maxit.toNat + 1) ∧
    2 + 2 * (ncv - 1).toNat * (maxit.toNat + 1) ≤ 2 + 2 * ncv.toNat * (maxit.toNat + 1) := by
  constructor
  · have hl := (computeLoop_calls (fun (o : IterOracle (α × α) α) => genComputeSkel_break nev o.nconv) (fun o => genNevAdj nev ncv o.est o.val o.nconv)
      (fun o k => genRestartCalls ncv k o.val o.bd) orc (2 * (ncv - 1).toNat) (fun _ => True)
      (fun it _ => ⟨(genRestart_bound ncv _ (orc it).val (orc it).bd
                      (by have := (c13_gen_k nev ncv (orc it).est (orc it).val (orc it).nconv h1 h2 (hnc it)).2.1.1; omega)).1,
                    fun _ _ => trivial⟩) (maxit - 0).toNat 0).1
    have h0 := factorizeCalls_len bd0 (max 1 k0) ncv
    simp only [genCompute, genComputeSkel_frame, List.length_append, initCalls, List.length_cons, List.length_nil]
    have e : (maxit - 0).toNat = maxit.toNat := by simp
    rw [e] at hl ⊢
    rw [Nat.mul_add, Nat.mul_one, Nat.mul_comm (2 * (ncv - 1).toNat) maxit.toNat]
    omega
  · have : (ncv - 1).toNat ≤ ncv.toNat := by omega
    have := Nat.mul_le_mul_right (maxit.toNat + 1) (Nat.mul_le_mul_left 2 this)
    omega

/-- `GenEigsComplexShiftSolver::sort_ritzpair` applies the operator (at the probe shift) at most 2·nev more times — these calls
    are NOT counted by `num_operations()` and come ON TOP of `c13_work_bound_gen`; its writes `m_ritz_val[i+1]` stay ≤ nev < ncv. -/
theorem c13_cshift_extra_solves (nev : Int) (cplx : Int → Bool) :
    (cshiftLoop nev cplx 0).1.length ≤ 2 * nev.toNat ∧ (∀ w ∈ (cshiftLoop nev cplx 0).2, 0 ≤ w ∧ w ≤ nev) ∧
    (∀ c ∈ (cshiftLoop nev cplx 0).1, c.x ≠ c.y) := by
  have := cshift_aux nev cplx _ 0 rfl (Int.le_refl 0)
  simpa using this

/-! ## (5) arguments of every `perform_op(x, y)` -/

/-- Hermitian family: in every call x and y are different buffers of length n; when x (or y) is a column j of V, 0 ≤ j < ncv
    (V is n × ncv, so the n entries starting at `&V(0,j)` are inside V's allocation) -/
theorem c13_op_args_herm (nev ncv maxit k0 : Int) (bd0 : Int → Bool) (orc : Nat → IterOracle α α)
    (h1 : 1 ≤ nev) (h2 : nev < ncv) (hnc : ∀ it, 0 ≤ (orc it).nconv) :
    ∀ c ∈ initCalls ++ (hermCompute nev ncv maxit k0 bd0 orc).calls, Call.valid ncv c := by
  intro c hc
  rcases List.mem_append.mp hc with hc | hc
  · exact initCalls_valid ncv (by omega) c hc
  · simp only [hermCompute, hermComputeSkel_frame] at hc
    rcases List.mem_append.mp hc with hc | hc
    · exact factorizeCalls_valid bd0 (max 1 k0) ncv ncv (by omega) (Int.le_refl _) c hc
    · exact (computeLoop_calls _ _ _ orc (2 * (ncv - 1).toNat) (Call.valid ncv)
        (fun it _ => hermRestart_bound ncv _ (orc it).bd (by have := (herm_k nev ncv (orc it).est (orc it).nconv h1 h2 (hnc it)).1; omega))
        _ 0).2.1 c hc

theorem c13_op_args_gen (nev ncv maxit k0 : Int) (bd0 : Int → Bool) (orc : Nat → IterOracle (α × α) α)
    (h1 : 1 ≤ nev) (h2 : nev ≤ ncv - 2) (hnc : ∀ it, 0 ≤ (orc it).nconv) :
    ∀ c ∈ initCalls ++ (genCompute nev ncv maxit k0 bd0 orc).calls, Call.valid ncv c := by
  intro c hc
  rcases List.mem_append.mp hc with hc | hc
  · exact initCalls_valid ncv (by omega) c hc
  · simp only [genCompute, genComputeSkel_frame] at hc
    rcases List.mem_append.mp hc with hc | hc
    · exact factorizeCalls_valid bd0 (max 1 k0) ncv ncv (by omega) (Int.le_refl _) c hc
    · exact (computeLoop_calls _ _ _ orc (2 * (ncv - 1).toNat) (Call.valid ncv)
        (fun it _ => genRestart_bound ncv _ (orc it).val (orc it).bd
          (by have := (c13_gen_k nev ncv (orc it).est (orc it).val (orc it).nconv h1 h2 (hnc it)).2.1.1; omega))
        _ 0).2.1 c hc

/-! ## (5b) storage class of every buffer handed to the operator -/

/-- STORAGE of every vector handed to the user's operator (the clause "touches no memory outside its own buffers and hands the
    operator only valid, distinct vectors", structural part).  `Gen.Restart.opSites` lists, regenerated from the headers on every run,
    EVERY `perform_op(x, y)` call made by a class that is not itself an operator, with the root object of each pointer (followed through
    `.data()`, `&M(0,i)`, Map views, references, parameters -> `opParamBinds`) and that object's storage class.
    (1) every root is owned by the running call: an AUTOMATIC local of the calling function or the data member m_fac_V / m_fac_f of
        the factorization object (parameters: at every call in the library; `init`'s v0: the vector the user passed) — never
        static / thread_local / global / unresolved storage, so two activations (nested inside perform_op, other solver objects,
        other threads) cannot be handed the same vector;
    (2) the call sites are exactly the seven known ones;
    (3)-(5) lifted to the skeleton: for all sizes, all oracle outcomes, all histories, every call of `init(); compute()` of the
        Hermitian family, of the general family, and every probe solve of the complex-shift post-processing hands buffers that some
        call site of that family's functions hands, and every such call site hands only owned storage.
    Closed facts (1), (2) and the four buffer shapes by `decide` over the finite table; (3)-(5) by the shape lemmas
    `factorizeCalls_shape` / `cshift_shape` and induction over the restart loop (`computeLoop_all`). -/
theorem c13_op_buffers_owned :
    (∀ s ∈ opSites, siteOwned s = true) ∧
    opSites.map (fun s => (s.cls, s.fn, s.ord)) =
      [("Arnoldi", "expand_basis", 0), ("Arnoldi", "init", 0), ("Arnoldi", "init", 1), ("Arnoldi", "factorize_from", 0),
       ("GenEigsComplexShiftSolver", "sort_ritzpair", 0), ("GenEigsComplexShiftSolver", "sort_ritzpair", 1), ("Lanczos", "factorize_from", 0)] ∧
    (∀ (nev ncv maxit k0 : Int) (bd0 : Int → Bool) (orc : Nat → IterOracle α α),
      ∀ c ∈ initCalls ++ (hermCompute nev ncv maxit k0 bd0 orc).calls, Call.owned .herm c) ∧
    (∀ (nev ncv maxit k0 : Int) (bd0 : Int → Bool) (orc : Nat → IterOracle (α × α) α),
      ∀ c ∈ initCalls ++ (genCompute nev ncv maxit k0 bd0 orc).calls, Call.owned .gen c) ∧
    (∀ (nev : Int) (cplx : Int → Bool), ∀ c ∈ (cshiftLoop nev cplx 0).1, Call.owned .cshift c) := by
  refine ⟨sites_owned, by decide, ?_, ?_, ?_⟩
  · intro nev ncv maxit k0 bd0 orc c hc
    rcases List.mem_append.mp hc with hc | hc
    · exact initCalls_owned .herm (Or.inl rfl) c hc
    · simp only [hermCompute] at hc
      rcases List.mem_append.mp hc with hc | hc
      · exact factorizeCalls_owned .herm (Or.inl rfl) bd0 _ _ c hc
      · exact computeLoop_all _ _ _ orc (Call.owned .herm)
          (fun it => hermRestartCalls_all _ ncv _ (orc it).bd (fun a b => factorizeCalls_owned .herm (Or.inl rfl) _ a b)) _ 0 c hc
  · intro nev ncv maxit k0 bd0 orc c hc
    rcases List.mem_append.mp hc with hc | hc
    · exact initCalls_owned .gen (Or.inr rfl) c hc
    · simp only [genCompute] at hc
      rcases List.mem_append.mp hc with hc | hc
      · exact factorizeCalls_owned .gen (Or.inr rfl) bd0 _ _ c hc
      · exact computeLoop_all _ _ _ orc (Call.owned .gen)
          (fun it => genRestartCalls_all _ ncv _ (orc it).val (orc it).bd (fun a b => factorizeCalls_owned .gen (Or.inr rfl) _ a b)) _ 0 c hc
  · intro nev cplx c hc
    rcases cshift_shape nev cplx _ 0 rfl c hc with rfl | rfl
    · exact owned_probe.1
    · exact owned_probe.2

/-! ## (6) termination: the model functions are total Lean functions without fuel; their explicit loop bounds -/

/-- the general shift loop makes at most `ncv - k` passes; compute's restart loop makes at most `maxit` restarts (`iters ≤ maxit`);
    the complex-shift loop at most `nev` passes (2 solves each).  [`expand_basis` (≤ 5 tries × ≤ 3 corrections), the
    re-orthogonalisation loops (≤ 5), TridiagEigen (≤ 30·n) and UpperHessenbergSchur (≤ 40·n, throw on failure) have constant bounds in
    the source and apply the operator 1 resp. 0 times; they enter the skeleton only through those counts.] -/
theorem c13_termination (ritz : Int → α × α) (nev ncv maxit k k0 : Int) (bd0 : Int → Bool) (orcH : Nat → IterOracle α α)
    (orcG : Nat → IterOracle (α × α) α) (cplx : Int → Bool) :
    (genPasses ritz ncv k).length ≤ (ncv - k).toNat ∧
    (hermCompute nev ncv maxit k0 bd0 orcH).iters ≤ maxit.toNat ∧
    (genCompute nev ncv maxit k0 bd0 orcG).iters ≤ maxit.toNat ∧
    (cshiftLoop nev cplx 0).1.length ≤ 2 * nev.toNat := by
  refine ⟨passes_len_aux ritz ncv _ k rfl, ?_, ?_, (c13_cshift_extra_solves nev cplx).1⟩
  · have := (computeLoop_iters (fun (o : IterOracle α α) => hermComputeSkel_break nev o.nconv) (fun o => hermNevAdj nev ncv o.est o.nconv)
      (fun o k => hermRestartCalls ncv k o.bd) orcH (maxit - 0).toNat 0).2
    simp only [hermCompute, hermComputeSkel_frame]; simpa using this
  · have := (computeLoop_iters (fun (o : IterOracle (α × α) α) => genComputeSkel_break nev o.nconv) (fun o => genNevAdj nev ncv o.est o.val o.nconv)
      (fun o k => genRestartCalls ncv k o.val o.bd) orcG (maxit - 0).toNat 0).2
    simp only [genCompute, genComputeSkel_frame]; simpa using this
end

/-! ## index programs of compress_V / factorize_from (hand-written access lists, all sizes) -/

/-- every access of `compress_V` is inside its matrix when 1 ≤ m_k ≤ m-1 (guaranteed by c13_herm_k / c13_gen_k + c13_*_shift_*) -/
theorem c13_compress_indices (n m k : Int) (hn : 1 ≤ n) (hk1 : 1 ≤ k) (hk2 : k ≤ m - 1) : ∀ a ∈ compressAcc n m k, a.ok := by
  intro a ha
  simp only [compressAcc, List.mem_append, List.mem_flatMap, List.mem_cons, List.not_mem_nil, or_false] at ha
  rcases ha with ⟨i, hi, ha⟩ | ha
  · rw [mem_intRange] at hi
    rcases ha with rfl | rfl | rfl <;> (simp only [Acc.ok]; omega)
  · rcases ha with rfl | rfl | rfl | rfl | rfl | rfl <;> (simp only [Acc.ok]; omega)

/-- every access of `factorize_from(from_k, to_m)` is inside its matrix when 1 ≤ from_k and to_m ≤ m (= ncv) -/
theorem c13_factorize_indices (n m fromK toM : Int) (hn : 1 ≤ n) (h1 : 1 ≤ fromK) (h2 : toM ≤ m) :
    ∀ a ∈ factorizeAcc n m fromK toM, a.ok := by
  intro a ha
  simp only [factorizeAcc] at ha
  split at ha
  · exact absurd ha (by simp)
  · simp only [List.mem_append, List.mem_flatMap, List.mem_cons, List.not_mem_nil, or_false] at ha
    rcases ha with ha | ⟨i, hi, ha⟩
    · rcases ha with rfl | rfl | rfl <;> (simp only [Acc.ok]; omega)
    · rw [mem_intRange] at hi
      rcases ha with rfl | rfl | rfl | rfl | rfl | rfl | rfl <;> (simp only [Acc.ok]; omega)


end C13

/-! ## witnesses: what is false without the hypotheses, and that the hypotheses are satisfiable -/
namespace C13W
open Gen.Restart RestartIdx

attribute [local instance] scInt

-- notation of the witnesses: 5, 7 real; a = 1+2i, ā = 1-2i, b = 2+i
/-- the former out-of-range witness (ncv = 3, k = 1, Ritz values [5, a, b]): with the guard the loop reads only indices 1, 2 —
    but the complex values a, b are each given a single real shift (numerically inadequate, memory-safe) -/
example : InBounds 3 (genPasses (ofL [(5, 0), (1, 2), (2, 1)]) 3 1) ∧ ¬ AllPaired (ofL [(5, 0), (1, 2), (2, 1)]) (genPasses (ofL [(5, 0), (1, 2), (2, 1)]) 3 1) := by
  have h : genPasses (ofL [(5, 0), (1, 2), (2, 1)]) 3 1 = [⟨1, [1, 1, 2], false, 2⟩, ⟨2, [2], false, 3⟩] := by
    rw [genPasses_lt _ _ _ (by decide), genPasses_lt _ _ _ (by decide), genPasses_ge _ _ _ (by decide)]
    decide
  rw [h]; refine ⟨by decide, ?_⟩
  intro hp; have := hp ⟨1, [1, 1, 2], false, 2⟩ (by simp) (by decide); exact absurd this (by decide)

/-- in-bounds does NOT imply adjacency: [a, b, 5] from k = 0 is read in bounds (two single shifts with the real parts of a and b:
    numerically wrong, but memory-safe) although no complex value has its conjugate next to it -/
example : InBounds 3 (genPasses (ofL [(1, 2), (2, 1), (5, 0)]) 3 0) ∧ ¬ AdjacentConj (ofL [(1, 2), (2, 1), (5, 0)]) 3 0 := by
  have h : genPasses (ofL [(1, 2), (2, 1), (5, 0)]) 3 0 = [⟨0, [0, 0, 1], false, 1⟩, ⟨1, [1, 1, 2], false, 2⟩, ⟨2, [2], false, 3⟩] := by
    rw [genPasses_lt _ _ _ (by decide), genPasses_lt _ _ _ (by decide), genPasses_lt _ _ _ (by decide), genPasses_ge _ _ _ (by decide)]
    decide
  refine ⟨by rw [h]; decide, ?_⟩
  rw [adj_lt _ _ _ (by decide), if_pos (by decide)]; intro hh; exact absurd hh.2.1 (by decide)

/-- ADJACENCY ALONE IS NOT ENOUGH for correct pairing (hypothesis `hns` of c13_gen_restart_pairs_partial): Ritz values
    [5, a, ā, a, ā] (ncv = 5, nev = 3, nconv = 0) ARE adjacent conjugate pairs, `nev_adjusted` computes p = 3 — a block boundary —
    but m_ritz_val[2] = ā and m_ritz_val[3] = a are conjugates of each other, so it returns k = 4, INSIDE the second pair; with the
    guard the loop is memory-safe (reads index 4 only) but shifts with Re ā alone -/
example : AdjacentConj (ofL [(5, 0), (1, 2), (1, -2), (1, 2), (1, -2)]) 5 0 ∧
    genNevAdj 3 5 (fun _ => ((100 : Int), (100 : Int))) (ofL [(5, 0), (1, 2), (1, -2), (1, 2), (1, -2)]) 0 = 4 ∧
    InBounds 5 (genPasses (ofL [(5, 0), (1, 2), (1, -2), (1, 2), (1, -2)]) 5 4) ∧
    ¬ AllPaired (ofL [(5, 0), (1, 2), (1, -2), (1, 2), (1, -2)]) (genPasses (ofL [(5, 0), (1, 2), (1, -2), (1, 2), (1, -2)]) 5 4) := by
  have h : genPasses (ofL [(5, 0), (1, 2), (1, -2), (1, 2), (1, -2)]) 5 4 = [⟨4, [4], false, 5⟩] := by
    rw [genPasses_lt _ _ _ (by decide), genPasses_ge _ _ _ (by decide)]
    decide
  refine ⟨?_, by decide, by rw [h]; decide, ?_⟩
  · rw [adj_lt _ _ _ (by decide), if_neg (by decide)]
    rw [adj_lt _ _ _ (by decide), if_pos (by decide)]; refine ⟨by decide, by decide, ?_⟩
    rw [adj_lt _ _ _ (by decide), if_pos (by decide)]; refine ⟨by decide, by decide, ?_⟩
    exact adj_ge _ _ _ (by decide)
  · rw [h]; intro hp; have := hp ⟨4, [4], false, 5⟩ (by simp) (by decide); exact absurd this (by decide)

/-- the hypotheses of c13_gen_restart_pairs_partial are satisfiable: [5, a, ā, 7], ncv = 4, nev = 1 (restart size becomes k = 3) -/
example : AdjacentConj (ofL [(5, 0), (1, 2), (1, -2), (7, 0)]) 4 0 ∧
    genNevPre 1 4 (fun _ => ((100 : Int), (100 : Int))) 0 = 2 ∧
    genNevAdj 1 4 (fun _ => ((100 : Int), (100 : Int))) (ofL [(5, 0), (1, 2), (1, -2), (7, 0)]) 0 = 3 ∧
    ¬ AdjacentConj (ofL [(5, 0), (1, 2), (1, -2), (7, 0)]) 4 2 := by
  refine ⟨?_, by decide, by decide, ?_⟩
  · rw [adj_lt _ _ _ (by decide), if_neg (by decide)]
    rw [adj_lt _ _ _ (by decide), if_pos (by decide)]; refine ⟨by decide, by decide, ?_⟩
    rw [adj_lt _ _ _ (by decide), if_neg (by decide)]
    exact adj_ge _ _ _ (by decide)
  · rw [adj_lt _ _ _ (by decide), if_pos (by decide)]; intro hh; exact absurd hh.2.1 (by decide)

/-- hypotheses of c13_herm_k / c13_gen_k / the work bounds are satisfiable; the bounds are attained:
    nev = 1, ncv = 2 (Herm) gives k = 1 = ncv - 1 = nev -/
example : hermNevAdj 1 2 (fun _ => (100 : Int)) 0 = 1 ∧ hermNevAdj 3 8 (fun _ => (0 : Int)) 2 = 7 ∧ hermNevAdj 1 6 (fun _ => (100 : Int)) 0 = 3 := by decide

/-
  NaN-freedom is NOT a theorem.  Where a NaN / Inf can enter (read off the code; the failing-input search targets these):
    1. `Arnoldi::init`:  `v /= vnorm` with vnorm = ‖A·v0‖ — no zero test: A·v0 = 0 (v0 in the null space, zero matrix, nilpotent
       matrix) gives 0/0 = NaN in V(:,0), H(0,0), f  (observed on the real code: the NaN is caught later by TridiagEigen /
       UpperHessenbergEigen → std::runtime_error; see the harness report);
    2. `factorize_from`:  `m_fac_f / m_beta` after `expand_basis` left `fnorm` = 0 (all five tries failed) or tiny;
    3. `UpperHessenbergEigen::compute`: `mat / scale` with scale = 0 (zero H) — handled by throwing;
    4. `GenEigsComplexShiftSolver::sort_ritzpair`: `0.5 / nu` with a zero Ritz value nu.
-/
end C13W
