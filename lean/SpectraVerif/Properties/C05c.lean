/-
  C05 for `HermEigsSolver` with `Scalar = std::complex<Real>` (companion of Properties/C05.lean; a separate file only because
  importing the numeric kernels brings `_root_.countTrue` of Prelude/Sort.lean into scope, which clashes with the unqualified
  `Orch.countTrue` used throughout Properties/C05.lean).  Built and audited by `checks/c05.py` together with Properties/C05.lean.
-/
import SpectraVerif.Properties.C05
import SpectraVerif.Proofs.HermCplxEmbed

namespace C05c
open Orch C05

variable (c : Cfg)

/-! ### The complex Hermitian instance (`HermEigsSolver`, `Scalar = std::complex<Real>`; Model/HermCplx.lean)

  `HermCplx.hermCplxKern` is a kernel record like any other (Ritz data real, basis / start vector / eigenvectors complex), so every
  theorem above applies to `Orch.compute (hermCplxKern …)` verbatim; the two central ones are stated as corollaries.  The instance
  is the one the `hermc` correspondence lines run bit for bit against the real class. -/
section cplx
open HermCplx HermCplxEmbed
variable {α : Type} [Add α] [Sub α] [Mul α] [Div α] [Neg α] [Sc α]

/-- the final sort of the complex instance is the SAME function as the real symmetric instance's (`argsort` behind the rule guard;
    a permutation by `C18.c18_perm_base`), so `SortPerm` is the same hypothesis for both -/
theorem c05c_sort_same (op : COp α) (opr : Arnoldi.Op α) (eps23 : α) (back : α → α) :
    (hermCplxKern op c eps23).sortIdx = (HermSolver.hermKern opr c eps23 back).sortIdx ∧
    (hermCplxKern op c eps23).select = (HermSolver.hermKern opr c eps23 back).select ∧
    (SortPerm (hermCplxKern op c eps23) c ↔ SortPerm (HermSolver.hermKern opr c eps23 back) c) := ⟨rfl, rfl, Iff.rfl⟩

/-- `c05_counts` for the complex Hermitian solver: return value = `eigenvalues().size()` = `eigenvectors().cols()` ≤ `nev`,
    `eigenvectors(m)` has `min(m, count)` columns, `info()` Successful iff that number is `nev`, NotConverging otherwise -/
theorem c05c_counts (op : COp α) (eps23 : α) (hperm : SortPerm (hermCplxKern op c eps23) c)
    (sel : Int) (maxit : Nat) (tol : α) (sorting : Int) (s : St (CState α) α α (Lin.Vec α)) (r : Nat)
    (h : (compute (hermCplxKern op c eps23) c sel maxit tol sorting s).out = .ok r) :
    r = Orch.countTrue (compute (hermCplxKern op c eps23) c sel maxit tol sorting s).st.ritzConv ∧
    (eigenvalues (hermCplxKern op c eps23) c (compute (hermCplxKern op c eps23) c sel maxit tol sorting s).st).length = r ∧
    (∀ nvec, (eigenvectors (hermCplxKern op c eps23) c nvec (compute (hermCplxKern op c eps23) c sel maxit tol sorting s).st).length
      = min nvec r) ∧
    r ≤ c.nev ∧
    ((compute (hermCplxKern op c eps23) c sel maxit tol sorting s).st.info = .successful ↔ r = c.nev) ∧
    ((compute (hermCplxKern op c eps23) c sel maxit tol sorting s).st.info = .notConverging ↔ r ≠ c.nev) :=
  c05_counts (hermCplxKern op c eps23) c hperm sel maxit tol sorting s r h

/-- `c05_flags_fresh` for the complex Hermitian solver: the flags handed back were computed by the (real) convergence test from the
    Ritz pairs of the final complex factorization, then permuted together with values and vectors -/
theorem c05c_flags_fresh (op : COp α) (eps23 : α)
    (sel : Int) (maxit : Nat) (tol : α) (sorting : Int) (s : St (CState α) α α (Lin.Vec α)) (r : Nat)
    (h : (compute (hermCplxKern op c eps23) c sel maxit tol sorting s).out = .ok r) :
    ∃ s3 : St (CState α) α α (Lin.Vec α), ∃ ind, s3.ritzConv = convFlags (hermCplxKern op c eps23) c tol s3 ∧
      (compute (hermCplxKern op c eps23) c sel maxit tol sorting s).st.fac = s3.fac ∧
      HermSolver.hermSortIdx sorting (mapHead c.nev (fun l => l) s3.ritzVal) c.nev = .ok ind ∧
      (compute (hermCplxKern op c eps23) c sel maxit tol sorting s).st.ritzConv
        = (List.range c.nev).map (fun i => s3.ritzConv.getD (ind.getD i 0) false) ∧
      (compute (hermCplxKern op c eps23) c sel maxit tol sorting s).st.ritzVec
        = (List.range c.nev).map (fun i => s3.ritzVec.getD (ind.getD i 0) (Lin.vzero c.ncv)) :=
  c05_flags_fresh (hermCplxKern op c eps23) c sel maxit tol sorting s r h

/--
  **Real embedding** (exact-field instance; ties the complex model to the real one the C01/C07 theorems are about): on data with
  zero imaginary parts every complex kernel of the model computes the real kernel's result with zero imaginary parts —
  scalar `*`, `conj(·)*·`, `/real`, libgcc's complex `÷` (the `v /= vnorm` of `Arnoldi::init`, for every scaling branch),
  `dot`, `norm`, `cwiseAbs().maxCoeff()`, `Vᴴy`, `f -= V g` (with its `alpha = (-1, 0)` product), `V y` for real `y`
  (`compress_V`, `eigenvectors`), and the explicit-loop operator.
  The assembly of these kernels into `Arnoldi::init` is `c05c_init_embedding` below.  NOT covered: the assembly into
  `cfactorize_from` / `ccompress_V` (array bookkeeping only, no new arithmetic), and `expand_basis` — a complex random draw consumes
  two real draws and has a non-zero imaginary part, so after a breakdown restart the complex solver legitimately leaves the real
  subspace (a whole-run embedding can only hold for runs without breakdown restarts).
-/
theorem c05c_real_embedding {K : Type} [Field K] [LinearOrder K] [IsStrictOrderedRing K] [Sc K] (E : EmbSc K)
    (D : DivK K) (hD : D.rminscal ≠ 0) :
    (∀ a b : K, cmul (emb a) (emb b) = emb (a * b) ∧ cmul (cconj (emb a)) (emb b) = emb (a * b) ∧
        cdivR (emb a) b = emb (a / b) ∧ cdiv D (emb a) (emb b) = emb (a / b) ∧ cabs (emb a) = Sc.abs a) ∧
    (∀ x y : Lin.Vec K, cdot (embV x) (embV y) = emb (Lin.dot x y) ∧ cnorm (embV x) = Lin.norm x ∧
        cmaxAbs (embV x) = Lin.maxAbs x) ∧
    (∀ (V : Lin.Mat K) (k : Nat) (y f : Lin.Vec K),
        cadjoint (embM V) k (embV y) = embV (Arnoldi.tmulVecK0 V k y) ∧
        csubMulVecK0 (embV f) (embM V) k (embV y) = embV (Arnoldi.subMulVecK0 f V k y) ∧
        cmulVecRealK0 (embM V) k y = embV (Arnoldi.mulVecK0 V k y)) ∧
    (∀ (n : Nat) (a : Array K) (x : Lin.Vec K), crowMajorOp n (a.map emb) (embV x) = embV (Arnoldi.rowMajorOp n a x)) :=
  ⟨fun a b => ⟨emb_cmul a b, emb_cmul_conj a b, emb_cdivR a b, emb_cdiv E D hD a b, emb_cabs E a⟩,
   fun x y => ⟨cdot_emb E x y, cnorm_emb E x, cmaxAbs_emb E x⟩,
   fun V k y f => ⟨cadjoint_emb E V k y, csubMulVecK0_emb E f V k y, cmulVecRealK0_emb E V k y⟩,
   fun n a x => crowMajorOp_emb E n a x⟩

/--
  **`init(v0)` through the complex code path on real data is the real `init(v0)`** (exact-field instance): for a real operator
  (`op.A (embV x) = embV (opr.A x)`, identity `B`) and a real start vector, the `facInit` kernel of the complex instance returns the
  embedding of what the `facInit` kernel of the real symmetric instance (`HermSolver.hermKern`, the one C01/C07 are proved about)
  returns: same acceptance decision and exception, same operation count, and `V`, `H`, `f`, `beta`, `k` equal with zero imaginary
  parts — including the complex ÷ complex normalisation `v /= vnorm` (libgcc `__divdc3`) specific to the complex instantiation.
-/
theorem c05c_init_embedding {K : Type} [Field K] [LinearOrder K] [IsStrictOrderedRing K] [Sc K] (E : EmbSc K)
    (op : COp K) (opr : Arnoldi.Op K) (hB : opr.B = none) (hD : op.dk.rminscal ≠ 0)
    (hA : ∀ x : Lin.Vec K, op.A (embV x) = embV (opr.A x)) (eps23 : K) (back : K → K)
    (s : Arnoldi.State K) (v0 : Lin.Vec K) :
    ((hermCplxKern op c eps23).facInit (embV v0) (embS s)).fac = embS ((HermSolver.hermKern opr c eps23 back).facInit v0 s).fac ∧
    ((hermCplxKern op c eps23).facInit (embV v0) (embS s)).ops = ((HermSolver.hermKern opr c eps23 back).facInit v0 s).ops ∧
    ((hermCplxKern op c eps23).facInit (embV v0) (embS s)).exn = ((HermSolver.hermKern opr c eps23 back).facInit v0 s).exn := by
  have h := cinit_emb E op opr hB hD hA { s with ops := 0 } v0
  have hs : ({ embS s with ops := 0 } : CState K) = embS { s with ops := 0 } := rfl
  simp only [hermCplxKern, HermSolver.hermKern, hs, h]
  cases Arnoldi.init opr { s with ops := 0 } v0 with
  | none => exact ⟨rfl, rfl, rfl⟩
  | some s' => exact ⟨rfl, rfl, rfl⟩

/-- the hypotheses of `c05c_real_embedding` are satisfiable: the exact-field scalar class over ℚ-like fields with `sqrt (x*x) = |x|` -/
example {K : Type} [Field K] [LinearOrder K] [IsStrictOrderedRing K] (F : FieldFns K) (hsqrt : ∀ x : K, F.sqrt (x * x) = |x|) :
    @EmbSc K _ _ _ (scOfField F) := embSc_scOfField F hsqrt

end cplx

end C05c
