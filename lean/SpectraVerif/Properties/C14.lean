/-
  C14 — a failing user operator is contained: the exception propagates unchanged, the solver stays usable.

  Orchestration level (all kernels, all fault positions): the model of `init`/`compute` contains no `catch` and no `throw` of its
  own, so (1) an exception reported by any kernel call is the outcome of the public call, unchanged, and no later kernel call is
  made (`c14_propagates_*`), (2) every exception that leaves the public call is one a kernel reported (`c14_no_invention`), and
  (3) from ANY state — in particular the state an interrupted call left behind, at whatever point — a new `init(v); compute(args)`
  is observationally identical to the same calls on a solver that never saw the fault (`c14_recover`).
  Kernel level (operator throws at its k-th application inside the Lanczos/Arnoldi recurrences): `Proofs`/`Properties` of the
  factorization models, plus the exhaustive fault-index sweep of the correspondence check.
-/
import SpectraVerif.Properties.C06

namespace C14
open Orch

variable {φ ρ ε κ β τ ω : Type} (K : Kern φ ρ ε κ β τ ω) (c : Cfg) {R : φ → φ → Prop}

/-- a fault in `m_fac.init` is the outcome of `init()` -/
theorem c14_propagates_init (v0 : β) (s : St φ ρ ε κ) : (init K c v0 s).2 = (K.facInit v0 s.fac).exn :=
  init_propagates K c v0 s

/-- a fault in the initial factorization is the outcome of `compute()` -/
theorem c14_propagates_factorize (sel : Int) (maxit : Nat) (tol : τ) (sorting : Int) (s : St φ ρ ε κ) (e : Exn)
    (h : (K.factorize (max 1 (K.facDim s.fac)) c.ncv s.fac).exn = some e) : (compute K c sel maxit tol sorting s).out = .error e :=
  compute_propagates_factorize K c sel maxit tol sorting s e h

/-- a fault inside a restart's re-factorization is the outcome of that restart (and thereby of the loop and of `compute`) -/
theorem c14_propagates_restart (k : Nat) (sel : Int) (s : St φ ρ ε κ) (e : Exn) (hk : k < c.ncv)
    (h : (K.restartFac k s.ritzVal s.fac).exn = some e) : (restart K c k sel s).2 = some e :=
  restart_propagates K c k sel s e hk h

/-- nothing is invented or translated: whatever leaves `compute` was reported by a kernel -/
theorem c14_no_invention (sel : Int) (maxit : Nat) (tol : τ) (sorting : Int) (s : St φ ρ ε κ) (e : Exn)
    (h : (compute K c sel maxit tol sorting s).out = .error e) : Raised K e :=
  compute_raised K c sel maxit tol sorting s e h

/-- **recovery**: for EVERY state `sFault` (reachable or not — in particular whatever an interrupted `init`/`compute` left
    behind, after one fault or several) a new `init(v); compute(args)` is observationally identical to the same calls on a
    solver whose history `hist` never saw a fault. -/
theorem c14_recover (hK : Respects K R) (sFault : St φ ρ ε κ) (fac0 : φ) (hist : List (Call β τ))
    (v0 : β) (sel : Int) (maxit : Nat) (tol : τ) (sorting : Int) (nvecs : List Nat) :
    C06.SameObs K c nvecs
      (compute K c sel maxit tol sorting (init K c v0 sFault).1)
      (compute K c sel maxit tol sorting (init K c v0 (run K c (construct fac0) hist)).1) :=
  (C06.c06_init_total K c hK sFault _ v0 sel maxit tol sorting nvecs).2

/-- the state at the throw point keeps `info()` and `num_iterations()` of before the call (nothing half-updated is visible there) -/
theorem c14_fault_keeps_status (sel : Int) (maxit : Nat) (tol : τ) (sorting : Int) (s : St φ ρ ε κ) (e : Exn)
    (h : (compute K c sel maxit tol sorting s).out = .error e) :
    (compute K c sel maxit tol sorting s).st.info = s.info ∧ (compute K c sel maxit tol sorting s).st.niter = s.niter :=
  compute_error_info K c sel maxit tol sorting s e h

end C14
