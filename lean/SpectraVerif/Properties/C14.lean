/-
  C14 — a failing user operator is contained: the exception propagates unchanged, the solver stays usable.

  Orchestration level (all kernels, all fault positions): the model of `init`/`compute` contains no `catch` and no `throw` of its
  own, so (1) an exception reported by any kernel call is the outcome of the public call, unchanged, and no later kernel call is
  made (`c14_propagates_*`), (2) every exception that leaves the public call is one a kernel reported (`c14_no_invention`), and
  (3) from ANY state — in particular the state an interrupted call left behind, at whatever point — a new `init(v); compute(args)`
  is observationally identical to the same calls on a solver that never saw the fault (`c14_recover`).
  Kernel level (`Model/FaultOp.lean`: the Arnoldi/Lanczos kernels written once as computations over an operator that may fail):
  with an operator that never fails they ARE the total models of C07/C05 (`c14_kernel_faultfree*`); if the k-th application
  fails with `e` the kernel call ends with exactly `e`, makes no later application and leaves the operation counter at k-1
  (`c14_kernel_propagates`, `c14_opcount_prefix`) — proved for EVERY computation over the operator, hence for every kernel, size,
  input and fault index; lifted through `Orch.init`/`Orch.compute` to the whole solver for every fault index from 1 to the number
  of applications of the fault-free run (`c14_propagates`).
  General family (`Model/FaultOpGen.lean`: `genKernF` = `GenSolver.genKern` with `Arnoldi::init`, `Arnoldi::factorize_from` and the
  re-factorization that ends `GenEigsBase::restart` routed through the fallible operator): `c14_gen_kernel_faultfree`
  (`genKernF op (never op.A) = genKern op`), `c14_gen_propagates` (every fault index 1 ≤ k ≤ `num_operations()` of the fault-free
  `init; compute`, from any prior object state), `c14_gen_opcount_at_throw`, `c14_gen_recover` (recovery with `Respects`
  discharged by C06's `gen_respects`: unconditional).
  Source facts regenerated on every run (`Gen.FaultFootprint`): no raw allocation in any function of the solver, factorization and
  helper classes, and the only try/catch is a catch-all `catch (...)` that restores the operator's shift and rethrows the same exception
  object with a bare `throw;`; no caught object is re-thrown by value anywhere (`c14_no_leak`, `c14_rethrow_same_object`), `SparseRegularInverse::solve` is a conforming thrower (`c14_lib_thrower`).
-/
import SpectraVerif.Properties.C06
import SpectraVerif.Properties.C12
import SpectraVerif.Proofs.C14Orch
import SpectraVerif.Proofs.C14Gen
import SpectraVerif.Gen.FaultFootprint

set_option linter.unusedSectionVars false

namespace C14
open Orch

variable {φ ρ ε κ β τ ω : Type} (K : Kern φ ρ ε κ β τ ω) (c : Cfg) {R : φ → φ → Prop}

/-- a fault in `m_fac.init` is the outcome of `init()` -/
theorem c14_propagates_init (v0 : β) (s : St φ ρ ε κ) : (init K c v0 s).2 = (K.facInit v0 s.fac).exn :=
  init_propagates K c v0 s

/-- a fault in the initial factorization is the outcome of `compute()` -/
theorem c14_propagates_factorize (sel : Int) (maxit : Nat) (tol : τ) (sorting : Int) (s : St φ ρ ε κ) (e : Exn)
    (h : (K.factorize (max 1 (K.facDim s.fac)) c.ncv s.fac).exn = some e) : (compute K c sel maxit tol sorting s).out = .error e :=
  compute_propagates_factorize K c sel maxit tol sorting s e h

/-- a fault inside a restart's re-factorization is the outcome of that restart (and thereby of the loop and of `compute`) -/
theorem c14_propagates_restart (k : Nat) (sel : Int) (s : St φ ρ ε κ) (e : Exn) (hk : k < c.ncv)
    (h : (K.restartFac k s.ritzVal s.fac).exn = some e) : (restart K c k sel s).2 = some e :=
  restart_propagates K c k sel s e hk h

/-- nothing is invented or translated: whatever leaves `compute` was reported by a kernel -/
theorem c14_no_invention (sel : Int) (maxit : Nat) (tol : τ) (sorting : Int) (s : St φ ρ ε κ) (e : Exn)
    (h : (compute K c sel maxit tol sorting s).out = .error e) : Raised K e :=
  compute_raised K c sel maxit tol sorting s e h

/-- **recovery**: for EVERY state `sFault` (reachable or not — in particular whatever an interrupted `init`/`compute` left
    behind, after one fault or several) a new `init(v); compute(args)` is observationally identical to the same calls on a
    solver whose history `hist` never saw a fault. -/
theorem c14_recover (hK : Respects K R) (sFault : St φ ρ ε κ) (fac0 : φ) (hist : List (Call β τ))
    (v0 : β) (sel : Int) (maxit : Nat) (tol : τ) (sorting : Int) (nvecs : List Nat) :
    C06.SameObs K c nvecs
      (compute K c sel maxit tol sorting (init K c v0 sFault).1)
      (compute K c sel maxit tol sorting (init K c v0 (run K c (construct fac0) hist)).1) :=
  (C06.c06_init_total K c hK sFault _ v0 sel maxit tol sorting nvecs).2

/-- the state at the throw point keeps `info()` and `num_iterations()` of before the call (nothing half-updated is visible there) -/
theorem c14_fault_keeps_status (sel : Int) (maxit : Nat) (tol : τ) (sorting : Int) (s : St φ ρ ε κ) (e : Exn)
    (h : (compute K c sel maxit tol sorting s).out = .error e) :
    (compute K c sel maxit tol sorting s).st.info = s.info ∧ (compute K c sel maxit tol sorting s).st.niter = s.niter :=
  compute_error_info K c sel maxit tol sorting s e h

/-! ### kernel level: operator that throws at its k-th application -/

section kernel
open FaultOp FaultOp.Prog Lin Arnoldi
variable {α : Type} [Add α] [Sub α] [Mul α] [Div α] [Neg α] [Sc α]

/-- **fault-free = the existing total models** (every computation over the operator): the run with an operator that never
    fails returns the total evaluation, the counter advances by the number of applications, the operator sees the same vectors -/
theorem c14_kernel_faultfree {β : Type} (A : Vec α → Vec α) (p : Prog α β) (c0 : Nat) :
    p.runF (never A) c0 = ⟨.ok (p.evalT A), c0 + p.count A, p.log A⟩ :=
  runF_never A p c0

/-- … and the total evaluation of the fault-aware kernels is `Arnoldi.init`, `Arnoldi.expand_basis`, `Arnoldi.factorize_from`,
    `Lanczos.factorize_from` of `Model/Arnoldi.lean` / `Model/Lanczos.lean` (the models tied bit-exactly to the C++ by C07/C05),
    with the state's operation counter advanced by exactly the number of applications -/
theorem c14_kernel_faultfree_models (op : Op α) (s : State α) (v0 : Vec α) (a b : Nat) (eps : α) (V : Mat α) (i : Nat) (seed : Int)
    (f0 : Vec α) (fn0 : α) (ops0 : Nat) :
    (initF op s v0).evalT op.A = Arnoldi.init op s v0 ∧
    (expand_basisF op eps V i seed f0 fn0 ops0).evalT op.A = Arnoldi.expand_basis op eps V i seed f0 fn0 ops0 ∧
    (arnoldiFactorizeF op s a b).evalT op.A = Arnoldi.factorize_from op s a b ∧
    (lanczosFactorizeF op s a b).evalT op.A = Lanczos.factorize_from op s a b ∧
    (∀ s', Arnoldi.init op s v0 = some s' → s'.ops = s.ops + (initF op s v0).count op.A) ∧
    (∀ s', Arnoldi.factorize_from op s a b = some s' → s'.ops = s.ops + (arnoldiFactorizeF op s a b).count op.A) ∧
    (∀ s', Lanczos.factorize_from op s a b = some s' → s'.ops = s.ops + (lanczosFactorizeF op s a b).count op.A) :=
  ⟨initF_eval op s v0, expand_basisF_eval op eps V i seed f0 fn0 ops0, arnoldiFactorizeF_eval op s a b,
    lanczosFactorizeF_eval op s a b, (initF_count op s v0).1, (arnoldiFactorizeF_count op s a b).1,
    (lanczosFactorizeF_count op s a b).1⟩

/-- … and so are the solver's kernels: `hermKernF` with an operator that never fails IS `HermSolver.hermKern` -/
theorem c14_kernel_faultfree_solver (op : Op α) (c : Cfg) (eps23 : α) (back : α → α) :
    hermKernF op (never op.A) c eps23 back = HermSolver.hermKern op c eps23 back :=
  hermKernF_never op c eps23 back

/-- **propagation at kernel level**, every computation `p` over the operator (in particular `initF`, `expand_basisF`, both
    `factorizeF`, `restartFacF`), every start value `c0` of the application counter, every fault index `k` in the window of the
    call (`c0 < k ≤ c0 + number of applications the fault-free call makes`): the call ends with exactly `e` — nothing is caught,
    nothing else is thrown — and the vectors handed to the operator are the first `k - c0` of the fault-free call: no later
    application is made -/
theorem c14_kernel_propagates {β : Type} (A : Vec α → Vec α) (k : Nat) (e : Exn) (p : Prog α β) (c0 : Nat)
    (h1 : c0 < k) (h2 : k ≤ c0 + p.count A) :
    (p.runF (faultAt A k e) c0).out = .error e ∧
    (p.runF (faultAt A k e) c0).entered = (p.log A).take (k - c0) ∧
    (p.runF (faultAt A k e) c0).entered.length = k - c0 := by
  rw [runF_faultAt_hit A k e p c0 h1 h2]
  refine ⟨rfl, rfl, ?_⟩
  simp only [List.length_take, log_length]
  omega

/-- **the counter passed by reference** holds `k - 1` when the exception of the `k`-th application leaves the call
    (`op_counter++` follows `perform_op`), while the operator has been entered `k` times (previous theorem) -/
theorem c14_opcount_prefix {β : Type} (A : Vec α → Vec α) (k : Nat) (e : Exn) (p : Prog α β) (c0 : Nat)
    (h1 : c0 < k) (h2 : k ≤ c0 + p.count A) : (p.runF (faultAt A k e) c0).cnt = k - 1 := by
  rw [runF_faultAt_hit A k e p c0 h1 h2]

/-- a fault index outside the window of a call leaves the call exactly as the fault-free one -/
theorem c14_kernel_unaffected {β : Type} (A : Vec α → Vec α) (k : Nat) (e : Exn) (p : Prog α β) (c0 : Nat)
    (h : k ≤ c0 ∨ c0 + p.count A < k) : p.runF (faultAt A k e) c0 = p.runF (never A) c0 :=
  runF_faultAt_miss A k e p c0 h

/-- **propagation through the whole solver**: symmetric solver built from the fault-aware kernels, operator whose `k`-th
    application since `init()` throws `e`, ANY object state `s` before the call, any arguments.  If the fault-free `init(v)`
    succeeds and `1 ≤ k ≤` the number of applications of the fault-free `init(v); compute(args)` (its `num_operations()`),
    then the faulted `init(v)` ends with `e`, or it returns normally and the faulted `compute(args)` ends with `e`. -/
theorem c14_propagates (op : Op α) (c : Cfg) (eps23 : α) (back : α → α) (k : Nat) (e : Exn) (hk : 1 ≤ k)
    (s : St (State α) α α (Vec α)) (v0 : Vec α) (sel : Int) (maxit : Nat) (tol : α) (sorting : Int)
    (hinit : (init (HermSolver.hermKern op c eps23 back) c v0 s).2 = none)
    (hK : k ≤ (compute (HermSolver.hermKern op c eps23 back) c sel maxit tol sorting
      (init (HermSolver.hermKern op c eps23 back) c v0 s).1).st.nmatop) :
    (init (hermKernF op (faultAt op.A k e) c eps23 back) c v0 s).2 = some e ∨
    ((init (hermKernF op (faultAt op.A k e) c eps23 back) c v0 s).2 = none ∧
      (compute (hermKernF op (faultAt op.A k e) c eps23 back) c sel maxit tol sorting
        (init (hermKernF op (faultAt op.A k e) c eps23 back) c v0 s).1).out = .error e) := by
  rw [hermKernF_eq]
  exact init_compute_faulted _ c _ _ _ (hermKernF_faultedBy op c eps23 back k e hk) v0 sel maxit tol sorting s hinit hK

/-- the same for EVERY kernel record (general solvers, generalized solvers, B-operator faults): kernels that agree with the
    fault-free ones or report `e`, and never complete a `k`-th application -/
theorem c14_propagates_any_kernels (fi : β → φ → FacRes φ) (fz : Nat → Nat → φ → FacRes φ) (rf : Nat → List ρ → φ → FacRes φ)
    (cnt : φ → Nat) (k : Nat) (e : Exn) (hF : FaultedBy K fi fz rf cnt k e)
    (s : St φ ρ ε κ) (v0 : β) (sel : Int) (maxit : Nat) (tol : τ) (sorting : Int)
    (hinit : (init K c v0 s).2 = none) (hK : k ≤ (compute K c sel maxit tol sorting (init K c v0 s).1).st.nmatop) :
    (init (withFac K fi fz rf) c v0 s).2 = some e ∨
    ((init (withFac K fi fz rf) c v0 s).2 = none ∧
      (compute (withFac K fi fz rf) c sel maxit tol sorting (init (withFac K fi fz rf) c v0 s).1).out = .error e) :=
  init_compute_faulted K c fi fz rf hF v0 sel maxit tol sorting s hinit hK

end kernel


/-! ### the general family: GenEigsSolver / GenEigsRealShiftSolver with an operator that throws at its k-th application -/

section genkernel
open FaultOp FaultOp.Prog FaultOpGen Lin Arnoldi
variable {α : Type} [Add α] [Sub α] [Mul α] [Div α] [Neg α] [Sc α]

/-- **fault-free = the existing total model**: `genKernF` with an operator that never fails IS `GenSolver.genKern` (the record
    tied bit for bit to `GenEigsSolver` / `GenEigsRealShiftSolver` by C02/C05/C06) -/
theorem c14_gen_kernel_faultfree (op : Op α) (c : Cfg) (eps23 : α) (back : GenSolver.Cx α → GenSolver.Cx α) :
    genKernF op (never op.A) c eps23 back = GenSolver.genKern op c eps23 back :=
  genKernF_never op c eps23 back

/-- … and the re-factorization of the general family's restart under a total operator is `GenSolver.restartFac`; the shift loop
    (single and double shifts), `compress_H` and `compress_V` apply no operator and do not move the counter -/
theorem c14_gen_kernel_faultfree_restart (op : Op α) (c : Cfg) (k : Nat) (ritzVal : List (GenSolver.Cx α)) (s : State α) :
    GenSolver.restartFac op c.ncv k ritzVal s =
      (match (restartFacGF op c.ncv k ritzVal s).evalT op.A with
       | some s3 => ⟨s3, s3.ops - s.ops, none⟩
       | none => ⟨restartPreG op c.ncv k ritzVal s, 0,
           some (.invalidArgument "Arnoldi: from_k is larger than the current subspace dimension")⟩) ∧
    (restartPreG op c.ncv k ritzVal s).ops = s.ops :=
  ⟨restartFacGF_eval op c k ritzVal s, restartPreG_ops op c.ncv k ritzVal s⟩

/-- **propagation through the whole solver, general family**: solver built from the fault-aware kernels, operator whose `k`-th
    application since `init()` throws `e`, ANY object state `s` before the call, any arguments.  If the fault-free `init(v)`
    succeeds and `1 ≤ k ≤` the number of applications of the fault-free `init(v); compute(args)` (its `num_operations()`), then
    the faulted `init(v)` ends with `e`, or it returns normally and the faulted `compute(args)` ends with `e`. -/
theorem c14_gen_propagates (op : Op α) (c : Cfg) (eps23 : α) (back : GenSolver.Cx α → GenSolver.Cx α) (k : Nat) (e : Exn) (hk : 1 ≤ k)
    (s : St (State α) (GenSolver.Cx α) (GenSolver.Cx α) (Vec (GenSolver.Cx α))) (v0 : Vec α)
    (sel : Int) (maxit : Nat) (tol : α) (sorting : Int)
    (hinit : (init (GenSolver.genKern op c eps23 back) c v0 s).2 = none)
    (hK : k ≤ (compute (GenSolver.genKern op c eps23 back) c sel maxit tol sorting
      (init (GenSolver.genKern op c eps23 back) c v0 s).1).st.nmatop) :
    (init (genKernF op (faultAt op.A k e) c eps23 back) c v0 s).2 = some e ∨
    ((init (genKernF op (faultAt op.A k e) c eps23 back) c v0 s).2 = none ∧
      (compute (genKernF op (faultAt op.A k e) c eps23 back) c sel maxit tol sorting
        (init (genKernF op (faultAt op.A k e) c eps23 back) c v0 s).1).out = .error e) := by
  rw [genKernF_eq]
  exact c14_propagates_any_kernels _ c _ _ _ (fun s => s.ops) k e (genKernF_faultedBy op c eps23 back k e hk)
    s v0 sel maxit tol sorting hinit hK

/-- **the counter at the throw**: a `factorize_from` call of the general family whose window contains the fault index reports
    exactly `e`, counts `k - 1 - (counter before)` applications into `m_nmatop` and leaves the counter at `k - 1` -/
theorem c14_gen_opcount_at_throw (op : Op α) (c : Cfg) (eps23 : α) (back : GenSolver.Cx α → GenSolver.Cx α) (k : Nat) (e : Exn)
    (a b : Nat) (s : State α) (h1 : s.ops < k) (h2 : k ≤ s.ops + (arnoldiFactorizeF op s a b).count op.A) :
    ((genKernF op (faultAt op.A k e) c eps23 back).factorize a b s).exn = some e ∧
    ((genKernF op (faultAt op.A k e) c eps23 back).factorize a b s).ops = k - 1 - s.ops ∧
    ((genKernF op (faultAt op.A k e) c eps23 back).factorize a b s).fac.ops = k - 1 := by
  rw [genKernF_factorize_hit op c eps23 back k e a b s h1 h2]
  exact ⟨rfl, rfl, rfl⟩

/-- **recovery, general family, no hypothesis on the kernels**: for EVERY well-formed state `sFault` (whatever an interrupted
    `init`/`compute` left behind: the faulted kernels never write the `const` members) a new `init(v); compute(args)` with the
    fault cleared is observationally identical to the same calls on a solver whose history never saw a fault. -/
theorem c14_gen_recover (op : Op α) (c : Cfg) (eps23 : α) (back : GenSolver.Cx α → GenSolver.Cx α) (near0 eps : α)
    (sFault : C06Footprint.GSt α) (hwf : C06Footprint.WfG c near0 eps sFault) (hist : List (Call (Vec α) α))
    (v0 : Vec α) (sel : Int) (maxit : Nat) (tol : α) (sorting : Int) (nvecs : List Nat)
    (hacc : (init (GenSolver.genKern op c eps23 back) c v0 sFault).2 = none) :
    C06.SameObs (GenSolver.genKern op c eps23 back) c nvecs
      (compute (GenSolver.genKern op c eps23 back) c sel maxit tol sorting (init (GenSolver.genKern op c eps23 back) c v0 sFault).1)
      (compute (GenSolver.genKern op c eps23 back) c sel maxit tol sorting (init (GenSolver.genKern op c eps23 back) c v0
        (run (GenSolver.genKern op c eps23 back) c (construct (State.mk0 c.n c.ncv near0 eps)) hist)).1) :=
  (C06.c06_gen_init_total op c eps23 back near0 eps sFault _ hwf
    (C06Footprint.gen_run_wf op c eps23 back near0 eps hist (C06Footprint.gen_construct_wf c near0 eps))
    v0 sel maxit tol sorting nvecs).2 hacc

/-- the faulted kernels keep the object well formed (so `c14_gen_recover` applies to whatever a faulted call leaves behind):
    on the exception path `facRes` returns the object of before the call with only the counter changed -/
theorem c14_gen_fault_keeps_consts (op : Op α) (c : Cfg) (eps23 : α) (back : GenSolver.Cx α → GenSolver.Cx α) (k : Nat) (e : Exn)
    (a b : Nat) (s : State α) (h1 : s.ops < k) (h2 : k ≤ s.ops + (arnoldiFactorizeF op s a b).count op.A) :
    C06Footprint.consts ((genKernF op (faultAt op.A k e) c eps23 back).factorize a b s).fac = C06Footprint.consts s := by
  rw [genKernF_factorize_hit op c eps23 back k e a b s h1 h2]
  rfl

end genkernel

/-! ### nothing leaks, nothing swallows: source facts regenerated on every run -/

open Gen.FaultFootprint in
/-- in every function (constructors, destructors, all members) of every solver, factorization, decomposition and wrapper class
    of namespace Spectra outside the contrib/Davidson families there is NO raw `new`/`delete`/`malloc`/`free` expression; every
    member function the property names was found and scanned; the ONLY `try`/`catch` is the one in
    `GenEigsComplexShiftSolver::sort_ritzpair` (repair of C14-F1), whose single handler is a catch-all `catch (...)` with exactly
    two statements: the call `m_op.set_shift(m_sigmar, m_sigmai)` (re-install the constructor's shift in the user's operator) and
    a bare `throw;` as the LAST statement — a rethrow of the SAME exception object — and no other throw; the only rethrow in the
    scanned classes is that one, every other thrown type is one of the three standard ones.
    So every local of `restart`/`compute`/`factorize_from`/`expand_basis`/`retrieve_ritzpair`/`sort_ritzpair` is an automatic
    object (unwinding destroys it: `c14_unwind_frees_all`), and nothing between the operator and the caller swallows the user's
    exception or replaces it by another one (any other handler, a handler that does not end in `throw;`, a typed handler, or
    any further call inside the handler changes the regenerated lists and breaks this theorem).
    The handler IS A CATCH-ALL: the third component `true` of `catch_handlers` and the exception-declaration `"..."` in
    `catch_handler_decl` say `catch (...)`, not `catch (const std::exception&)` — the user's operator may signal failure with
    ANY type (`throw 42;`, a struct that is not derived from `std::exception`), and a typed handler lets those pass without
    re-installing the shift (seeded change C14b/patch3; failing input: harness fault kinds raw_struct / int / cstring in a
    probing solve).  The re-throw is the BARE `throw;` (fourth component `true`, the handler's only throw expression), and
    `rethrow_by_value = []`: nowhere in the scanned classes is a caught object thrown again by value (`throw e;` creates a new
    object of the handler's declared type: the user's exception is sliced, dynamic type and payload are lost; seeded change
    C14b/patch2, failing input: `exception-sliced`), nor transported through `std::exception_ptr`/`throw_with_nested`.
    `catch_handler_decl` lists the exception-declaration of EVERY catch clause of the scanned classes with its function, so a
    typed handler anywhere — e.g. `catch (const std::invalid_argument&) { throw std::invalid_argument("friendlier text"); }`
    around `m_fac.init()` in `HermEigsBase::init`, which also intercepts a USER exception derived from `std::invalid_argument`
    thrown by the operator during `init()` and replaces it by another object (seeded change C14c/patch3; failing input:
    harness fault kind invalid_argument_rich at an application inside `init()`, `exception-replaced`) — adds an entry
    (and entries to `try_catch`, `catch_handlers`, `throws`) and breaks this theorem and `c14_rethrow_same_object`. -/
theorem c14_no_leak :
    raw_alloc = [] ∧ required_missing = [] ∧
    try_catch = [("GenEigsComplexShiftSolver", "sort_ritzpair", "catch"), ("GenEigsComplexShiftSolver", "sort_ritzpair", "try")] ∧
    catch_handlers = [("GenEigsComplexShiftSolver", "sort_ritzpair", true, true, ["m_op.set_shift(m_sigmar,m_sigmai)"])] ∧
    catch_handler_shape = [("GenEigsComplexShiftSolver", "sort_ritzpair", 2, 1)] ∧
    catch_handler_decl = [("GenEigsComplexShiftSolver", "sort_ritzpair", "...")] ∧
    rethrow_by_value = [] ∧
    (∀ t ∈ throws, t.2.2 = "std::invalid_argument" ∨ t.2.2 = "std::logic_error" ∨ t.2.2 = "std::runtime_error" ∨
      t = ("GenEigsComplexShiftSolver", "sort_ritzpair", "rethrow")) ∧
    (throws.filter (fun t => t.2.2 == "rethrow")).length = catch_handlers.length ∧
    scanned.length ≥ 40 :=
  ⟨by decide, by decide, by decide, by decide, by decide, by decide, by decide, by decide, by decide, by decide⟩

open Gen.FaultFootprint in
/-- the same facts in the form the property uses them, for EVERY handler of the scanned classes (however many there are): each
    handler is a catch-all `catch (...)` — it runs for an exception of ANY type, derived from `std::exception` or not —, its last
    statement is a bare `throw;` and that is its only throw expression, so the exception object that entered the handler is the
    one that leaves it (same dynamic type, same payload, no copy); no `throw <caught variable>;` and no exception-transport call
    exists in any scanned function; and every `throw;` of the scanned classes sits in a function that has such a handler. -/
theorem c14_rethrow_same_object :
    (∀ h ∈ catch_handlers, h.2.2.1 = true ∧ h.2.2.2.1 = true) ∧
    (∀ d ∈ catch_handler_decl, d.2.2 = "...") ∧
    (∀ sh ∈ catch_handler_shape, sh.2.2.2 = 1) ∧
    rethrow_by_value = [] ∧
    (∀ t ∈ throws, t.2.2 = "rethrow" → ∃ h ∈ catch_handlers, h.1 = t.1 ∧ h.2.1 = t.2.1) ∧
    catch_handlers.length = catch_handler_decl.length :=
  ⟨by decide, by decide, by decide, by decide, by decide, by decide⟩

/-- unwinding model (the one of C12): if every resource acquired before the throw point is owned by an automatic object,
    nothing is live after unwinding, wherever the exception is raised -/
theorem c14_unwind_frees_all (acts : List (C12.Own × Nat)) (h : ∀ a ∈ acts, a.1 = C12.Own.raii) (j : Nat) :
    C12.leakedAt acts j = [] :=
  C12.c12_no_raw_no_leak acts h j

open Gen.FaultFootprint in
/-- `SparseRegularInverse::solve` is a conforming thrower: it throws `std::runtime_error` exactly when CG did not converge,
    returns normally otherwise, assigns no member but its own (mutable) status `m_info` (`Successful` / `NotConverging`), and no
    solver/factorization class ever reads an operator's `info()` — so a failed solve leaves nothing behind the solver depends on -/
theorem c14_lib_thrower :
    (∀ ok, sri_solve_outcome ok = if ok then Res.ok () else Res.throw "std::runtime_error") ∧
    (∀ ok, sri_solve_info ok = if ok then 0 else 2) ∧
    sri_solve_assigned = ["m_info"] ∧ sri_mutable_members = ["m_info"] ∧ solver_reads_op_info = [] := by decide

-- non-vacuity of the kernel-level hypotheses: a two-application computation, fault at the second application
example : (((FaultOp.Prog.app #[(1 : Nat)] (fun y => FaultOp.Prog.app y (fun z => FaultOp.Prog.ret z.size))).runF
    (FaultOp.faultAt (fun x => x.push 0) 2 (Exn.user 7)) 0).out = Except.error (Exn.user 7)) := rfl
example : C12.leakedAt [(C12.Own.raii, 1), (C12.Own.raii, 2)] 1 = [] := by decide

end C14
