/-
  C16 — partial SVD (`include/Spectra/contrib/PartialSVDSolver.h` on top of `SymEigsSolver`).

  Two layers.
  (A) Exact-arithmetic linear algebra (Mathlib `Matrix` over any linearly ordered field, `ℝ` with `Real.sqrt` as the instance the
      code means): what the class computes IS a set of singular triplets whenever the inner solver returns genuine orthonormal
      eigenpairs of `AᵀA` (tall) resp. `AAᵀ` (wide) — `c16_triplets*`; the operator is positive semidefinite, so every Ritz value the
      inner solver can produce in exact arithmetic is ≥ 0 and `sqrt` is applied to non-negative numbers — `c16_psd`.
  (B) The state machine `Model/SVD.lean` (m_nconv, the eigenvector cache, the shape switch, column counts, which side is cached and
      which is computed), built on the generic orchestration model `Orch` of the inner solver: `c16_counts`, `c16_order`,
      `c16_latest` hold for EVERY kernel record `K` (every behaviour of the inner numerics, exceptions included), every
      matrix, every scalar type, every history.  The same definitions run at `Float` against the real class (correspondence).

  History of two clauses.  Until the `fix:` commits d08c57f / a913b0d both were FALSE for the code and were stated here only
  as `_partial` theorems next to refuting witnesses (`c16_latest_counterexample`, `c16_latest_assert_counterexample`):
    * "matrix_U/V always describe the most recent compute()" — the cache `m_evecs` was filled once and never invalidated (finding F4:
      `compute(1000,1e-10); matrix_V(3); compute(1000,1e-2); matrix_V(3)` returned the vectors of the first run; with a shorter
      cached matrix `leftCols` ran out of range).  `compute()` now starts with `m_evecs.resize(0, 0)`: `c16_cache_invalidated`, and
      `c16_latest` / `c16_latest_equals_fresh` hold at full strength (every history); the old witnesses are kept as `example`s that
      now show the repaired behaviour.
    * "singular values are finite and non-negative" on exactly rank-deficient input — a converged Ritz value of size −1e-31…−1e-17
      went into `sqrt` unclamped and came back NaN, and a zero singular value was divided by (finding F5).  The values are now
      `sqrt(max(λ, 0))` and the other factor's column for `σ = 0` is the zero vector: `c16_nonneg`, `c16_zero_column` (exact
      arithmetic; at `Float`: bit-exact correspondence + oracle on rank-deficient inputs).
  Not provable here and NOT claimed: that the inner Lanczos solver returns eigenpairs of the operator to the requested tolerance
  (rounding/convergence: property C01).  The oracle checks it on the real class against a long double Jacobi SVD and has found two
  input classes where it fails (recorded, not hidden): small-norm matrices (absolute breakdown thresholds applied to `AᵀA`, whose
  norm is `‖A‖²`: finding F12) and a missing re-orthogonalisation of the first residual in `Arnoldi::init` (finding F20).
  (C) The object model, regenerated from the clang AST of the header on every run (`Gen.SVDMem`, xlate/tgt_c16.py) and decided by the
      kernel: which members are handles / pointers and who owns them (`c16_members_nonowning`), which members each accessor writes
      (`c16_accessor_writes`), that `compute()` empties the cache first (`c16_compute_resets_cache`: the source-level twin of
      `c16_cache_invalidated`, which is about the model), and the state of the copy operations (`c16_copy_operations`).
  (A) and (B) are connected by `c16_operator`, `c16_model_triplet_tall/wide` (the model's explicit loops at exact arithmetic ARE
  Mathlib's `mulVec`), `c16_order_argsort` (C18 discharges the sort hypothesis) and `c16_latest_equals_fresh` (C06).
-/
import SpectraVerif.Proofs.C16Matrix
import SpectraVerif.Proofs.C16Order
import SpectraVerif.Proofs.C16Sort
import SpectraVerif.Proofs.C16Bridge
import SpectraVerif.Proofs.C16Nonint
import SpectraVerif.Proofs.C16Mem
import Mathlib.Analysis.Real.Sqrt

namespace C16
open Matrix

/-! ### (A) exact arithmetic -/

section exact
variable {K : Type} [Field K] [LinearOrder K] [IsStrictOrderedRing K]
variable {m n k : Type} [Fintype m] [Fintype n] [Fintype k]

/-- **Triplets, tall case** (`m_m > m_n`: the eigenproblem is `AᵀA v = λ v`, `matrix_V` returns `v`, `matrix_U` returns `A (v/σ)`):
    a unit eigenvector with positive eigenvalue `λ = σ²`, `σ > 0`, gives a unit `u` with `A v = σ u` and `Aᵀ u = σ v`. -/
theorem c16_triplets (A : Matrix m n K) (v : n → K) (lam σ : K)
    (hv : (Aᵀ * A) *ᵥ v = lam • v) (hn : v ⬝ᵥ v = 1) (hσ : 0 < σ) (hσ2 : σ * σ = lam) :
    let u := A *ᵥ (fun i => v i / σ)
    u ⬝ᵥ u = 1 ∧ A *ᵥ v = σ • u ∧ Aᵀ *ᵥ u = σ • v :=
  C16M.triplet A v lam σ hv hn hσ hσ2

/-- ... and orthonormal eigenvectors `vᵢ` give orthonormal `uᵢ = A (vᵢ/σᵢ)`: `UᵀU = I` -/
theorem c16_triplets_orthonormal {ι : Type} [DecidableEq ι] (A : Matrix m n K) (v : ι → n → K) (lam σ : ι → K)
    (hv : ∀ i, (Aᵀ * A) *ᵥ v i = lam i • v i) (hσ : ∀ i, 0 < σ i) (hσ2 : ∀ i, σ i * σ i = lam i)
    (hon : ∀ i j, v i ⬝ᵥ v j = if i = j then 1 else 0) (i j : ι) :
    (A *ᵥ (fun a => v i a / σ i)) ⬝ᵥ (A *ᵥ (fun a => v j a / σ j)) = if i = j then 1 else 0 :=
  C16M.other_factor_orthonormal A v lam σ hv hσ hσ2 hon i j

/-- **Triplets, wide/square case** (`m_m ≤ m_n`: `AAᵀ u = λ u`, `matrix_U` returns `u`, `matrix_V` returns `Aᵀ (u/σ)`) -/
theorem c16_triplets_wide (A : Matrix m n K) (u : m → K) (lam σ : K)
    (hu : (A * Aᵀ) *ᵥ u = lam • u) (hn : u ⬝ᵥ u = 1) (hσ : 0 < σ) (hσ2 : σ * σ = lam) :
    let v := Aᵀ *ᵥ (fun i => u i / σ)
    v ⬝ᵥ v = 1 ∧ Aᵀ *ᵥ u = σ • v ∧ A *ᵥ v = σ • u :=
  C16M.triplet_wide A u lam σ hu hn hσ hσ2

theorem c16_triplets_wide_orthonormal {ι : Type} [DecidableEq ι] (A : Matrix m n K) (u : ι → m → K) (lam σ : ι → K)
    (hu : ∀ i, (A * Aᵀ) *ᵥ u i = lam i • u i) (hσ : ∀ i, 0 < σ i) (hσ2 : ∀ i, σ i * σ i = lam i)
    (hon : ∀ i j, u i ⬝ᵥ u j = if i = j then 1 else 0) (i j : ι) :
    (Aᵀ *ᵥ (fun a => u i a / σ i)) ⬝ᵥ (Aᵀ *ᵥ (fun a => u j a / σ j)) = if i = j then 1 else 0 :=
  C16M.other_factor_orthonormal_wide A u lam σ hu hσ hσ2 hon i j

/-- **PSD**: `xᵀ(AᵀA)x ≥ 0` and `xᵀ(AAᵀ)x ≥ 0`; every Rayleigh quotient is ≥ 0; every eigenvalue `θ` of a projection `Qᵀ(AᵀA)Q`
    (a Ritz value with respect to ANY basis `Q`, orthonormal or not — in particular the tridiagonal matrix of an exact Lanczos run)
    is ≥ 0.  Hence in exact arithmetic `sqrt` is only ever applied to non-negative numbers. -/
theorem c16_psd (A : Matrix m n K) :
    (∀ x : n → K, 0 ≤ x ⬝ᵥ ((Aᵀ * A) *ᵥ x)) ∧ (∀ x : m → K, 0 ≤ x ⬝ᵥ ((A * Aᵀ) *ᵥ x)) ∧
    (∀ x : n → K, 0 ≤ (x ⬝ᵥ ((Aᵀ * A) *ᵥ x)) / (x ⬝ᵥ x)) ∧
    (∀ (Q : Matrix n k K) (y : k → K) (θ : K), 0 < y ⬝ᵥ y → (Qᵀ * (Aᵀ * A) * Q) *ᵥ y = θ • y → 0 ≤ θ) ∧
    (∀ (Q : Matrix m k K) (y : k → K) (θ : K), 0 < y ⬝ᵥ y → (Qᵀ * (A * Aᵀ) * Q) *ᵥ y = θ • y → 0 ≤ θ) := by
  refine ⟨C16M.gram_psd A, C16M.gram_psd_wide A, C16M.rayleigh_nonneg A, fun Q y θ hy h => C16M.ritz_nonneg A Q y θ hy h, ?_⟩
  intro Q y θ hy h
  have := C16M.ritz_nonneg Aᵀ Q y θ hy (by simpa [transpose_transpose] using h)
  exact this

end exact

/-- the real-number instance the code means: `σ = √λ` with `λ > 0` satisfies the hypotheses of `c16_triplets` -/
theorem c16_triplets_real {m n : Type} [Fintype m] [Fintype n] (A : Matrix m n ℝ) (v : n → ℝ) (lam : ℝ)
    (hv : (Aᵀ * A) *ᵥ v = lam • v) (hn : v ⬝ᵥ v = 1) (hlam : 0 < lam) :
    let u := A *ᵥ (fun i => v i / Real.sqrt lam)
    u ⬝ᵥ u = 1 ∧ A *ᵥ v = Real.sqrt lam • u ∧ Aᵀ *ᵥ u = Real.sqrt lam • v :=
  c16_triplets A v lam (Real.sqrt lam) hv hn (Real.sqrt_pos.mpr hlam) (Real.mul_self_sqrt (le_of_lt hlam))

/-- exact arithmetic: a singular value `√θ` of a (non-negative, by `c16_psd`) Ritz value is a non-negative real with `(√θ)² = θ` -/
theorem c16_nonneg_exact (θ : ℝ) (h : 0 ≤ θ) : 0 ≤ Real.sqrt θ ∧ Real.sqrt θ * Real.sqrt θ = θ :=
  ⟨Real.sqrt_nonneg θ, Real.mul_self_sqrt h⟩
/-
  Clause `c16_finite_nonneg` ("finite, non-negative singular values for arbitrary, including exactly rank-deficient, matrices").
  Before a913b0d it was FALSE at `Float` (witness: 10×7 integer matrix of rank < ncomp = 6, eigenvalue −7.9e-31 ↦ NaN; a zero
  eigenvalue ↦ 0/0 in matrix_U/V).  With the clamp it is `c16_nonneg` below in exact arithmetic; finiteness at `Float` is not a
  theorem (Lean's `Float` is opaque) and rests on the bit-exact correspondence plus the oracle, which keeps searching rank-deficient
  inputs on every run.
-/

/-! ### (B) the state machine, for every inner kernel -/

section machine
open SVD Lin
variable {φ α ε κ β τ : Type} [Add α] [Sub α] [Mul α] [Div α] [Neg α] [Sc α]
variable (K : Orch.Kern φ α ε κ β τ (Vec α)) (c : Orch.Cfg) (A : Mat α) (v0 : β)

/-- **Counts**, every history: after ANY state `s` (any earlier history, any junk in `m_nconv`, any stale cache), a `compute` that
    returns `r`, and ANY sequence `acc` of accessor calls: `singular_values()` has `r ≤ ncomp` entries; `matrix_U(k)` / `matrix_V(k)`
    DO return (no out-of-range block) and return exactly `min(k, r)` columns.
    (Before d08c57f the "do return" part needed the cache to be empty or long enough at the time of `compute`.) -/
theorem c16_counts (hperm : C05.SortPerm K c) (s : St φ α ε κ) (maxit : Nat) (tol : τ) (r : Nat)
    (h : (compute K c v0 maxit tol s).2 = .ok r) (acc : List (Call τ)) (hacc : ∀ a ∈ acc, a.isAccessor = true) (k : Nat) :
    let s' := run K c A v0 (compute K c v0 maxit tol s).1 acc
    r ≤ c.nev ∧ s'.nconv = r ∧ (singular_values K c s').length = r ∧
    (∃ cols, (matrix_U K c A k s').2 = .ok cols ∧ cols.length = min k r) ∧
    (∃ cols, (matrix_V K c A k s').2 = .ok cols ∧ cols.length = min k r) := by
  intro s'
  have hg0 := good_after_compute K c v0 hperm maxit tol s r h
  have hg : Good K c r s' := good_run_accessors K c A v0 r _ acc hacc hg0
  -- the cache after the accessor calls: still empty, or filled with r columns
  have hfit : CacheFits r s' := by
    have key : ∀ (acc : List (Call τ)) (t : St φ α ε κ), (∀ a ∈ acc, a.isAccessor = true) → Good K c r t → CacheFits r t →
        CacheFits r (run K c A v0 t acc) := by
      intro acc
      induction acc with
      | nil => intro t _ _ hf; exact hf
      | cons a acc ih =>
        intro t ha hgt hf
        have ha1 := ha a (List.mem_cons_self)
        have hrest : ∀ b ∈ acc, b.isAccessor = true := fun b hb => ha b (List.mem_cons_of_mem _ hb)
        simp only [run, List.foldl_cons]
        have hstep : Good K c r (step K c A v0 t a) ∧ CacheFits r (step K c A v0 t a) := by
          cases a with
          | compute _ _ => simp [Call.isAccessor] at ha1
          | singular_values => exact ⟨hgt, hf⟩
          | matrix_U k =>
            simp only [step]; rw [matrix_U_state]
            exact ⟨good_fillCache K c r t hgt, Or.inr (fillCache_length K c r t hgt hf)⟩
          | matrix_V k =>
            simp only [step]; rw [matrix_V_state]
            exact ⟨good_fillCache K c r t hgt, Or.inr (fillCache_length K c r t hgt hf)⟩
        exact ih _ hrest hstep.1 hstep.2
    apply key acc _ hacc hg0
    exact Or.inl (compute_evecs K c v0 maxit tol s)
  obtain ⟨cu, hu⟩ := (matrix_U_count K c A r k s' hg).2 hfit
  obtain ⟨cv, hv⟩ := (matrix_V_count K c A r k s' hg).2 hfit
  exact ⟨hg.le, hg.nconv, singular_values_length K c r s' hg,
    ⟨cu, hu, (matrix_U_count K c A r k s' hg).1 cu hu⟩, ⟨cv, hv, (matrix_V_count K c A r k s' hg).1 cv hv⟩⟩

/-- **Order**: after a successful `compute` (and any accessor calls) the singular values are non-increasing — selection and final
    sort are both LargestAlge.  Hypotheses: the kernel's final sort lists the values it is given in non-increasing order
    (`SortDesc`: C18's `c18_sorted` for the library's `argsort`, see `c16_order_argsort`), and `x ↦ sqrt(max(x, 0))` is monotone
    (`c16_order_sqrt_mono` for `Real.sqrt`; IEEE sqrt). -/
theorem c16_order [LE α] (hcfg : c.nev ≤ c.ncv) (hs : SortDesc K c)
    (hmono : ∀ a b : α, a ≤ b → (Sc.sqrt (clamp0 a) : α) ≤ Sc.sqrt (clamp0 b))
    (s : St φ α ε κ) (maxit : Nat) (tol : τ) (r : Nat) (h : (compute K c v0 maxit tol s).2 = .ok r)
    (acc : List (Call τ)) (hacc : ∀ a ∈ acc, a.isAccessor = true) :
    (singular_values K c (run K c A v0 (compute K c v0 maxit tol s).1 acc)).Pairwise (fun a b => b ≤ a) := by
  have h1 := singular_values_sorted K c v0 hcfg hs hmono maxit tol s r h
  obtain ⟨he, _, _⟩ := run_accessors K c A v0 (compute K c v0 maxit tol s).1 acc hacc
  unfold singular_values at h1 ⊢
  rw [he]; exact h1

/-- **The cache is invalidated by every `compute`** — returning or throwing, with any arguments — (`m_evecs.resize(0, 0)` is its
    first statement).  Before d08c57f the theorem here was the opposite: `(compute …).1.evecs = s.evecs`. -/
theorem c16_cache_invalidated (maxit : Nat) (tol : τ) (s : St φ α ε κ) :
    (compute K c v0 maxit tol s).1.evecs = [] :=
  compute_evecs K c v0 maxit tol s

/--
  **Latest compute**, full strength: from ANY state `s` (any history of earlier `compute`/accessor calls, with any `maxit`/`tol`,
  any stale cache), after a `compute` that returns `r` and any further accessor calls, both factors and the singular values are
  functions of the inner solver state left by THAT `compute` alone: the cached side is the first `min(k,r)` columns of
  `m_eigs->eigenvectors()`, the other side is `B·(e_j / σ_j)` (`B·0` where `σ_j = 0`) with the current singular values `σ` and
  eigenvectors `e`, and the values are `sqrt(max(λ_j, 0))` of the current eigenvalues.
  (Before d08c57f this was provable only under the hypothesis `s.evecs = []` — `c16_latest_partial` — and refuted otherwise.)
-/
theorem c16_latest (hperm : C05.SortPerm K c) (s : St φ α ε κ)
    (maxit : Nat) (tol : τ) (r : Nat) (h : (compute K c v0 maxit tol s).2 = .ok r)
    (acc : List (Call τ)) (hacc : ∀ a ∈ acc, a.isAccessor = true) (k : Nat) :
    let latest := (compute K c v0 maxit tol s).1.eigs
    let s' := run K c A v0 (compute K c v0 maxit tol s).1 acc
    let E := Orch.eigenvectors K c c.nev latest
    let sv := (Orch.eigenvalues K c latest).map (fun x => Sc.sqrt (clamp0 x))
    (matrix_U K c A k s').2 = .ok (if isTall A then specComputed (A.mulVec) sv E k r else specCached E k r) ∧
    (matrix_V K c A k s').2 = .ok (if isTall A then specCached E k r else specComputed (tmulVec A) sv E k r) ∧
    singular_values K c s' = sv := by
  intro latest s' E sv
  have hg0 := good_after_compute K c v0 hperm maxit tol s r h
  have hg : Good K c r s' := good_run_accessors K c A v0 r _ acc hacc hg0
  obtain ⟨he, _, hfr⟩ := run_accessors K c A v0 (compute K c v0 maxit tol s).1 acc hacc
  have hf0 : Fresh K c (compute K c v0 maxit tol s).1 := Or.inl (compute_evecs K c v0 maxit tol s)
  have hf : Fresh K c s' := hfr hf0
  have hU := matrix_U_fresh K c A r k s' hg hf
  have hV := matrix_V_fresh K c A r k s' hg hf
  have hsv : singular_values K c s' = sv := by unfold singular_values; rw [he]
  rw [he, hsv] at hU hV
  exact ⟨hU, hV, hsv⟩

/-- ... and they are exactly what a FRESH solver object returns for the same `compute` arguments (the predicate the harness
    evaluates on the real class), because `compute` re-initialises the inner solver itself (C06: `init` is total, for kernels that
    read only what the factorization's own `init` rebuilds — `Orch.Respects`) and empties the cache. -/
theorem c16_latest_equals_fresh {R : φ → φ → Prop} (hperm : C05.SortPerm K c) (hK : Orch.Respects K R)
    (s : St φ α ε κ) (fac0 : φ) (junk : Nat) (maxit : Nat) (tol : τ) (r : Nat)
    (h : (compute K c v0 maxit tol s).2 = .ok r) (k : Nat) :
    let fresh := (compute K c v0 maxit tol (construct fac0 junk)).1
    (compute K c v0 maxit tol (construct fac0 junk)).2 = .ok r ∧
    singular_values K c (compute K c v0 maxit tol s).1 = singular_values K c fresh ∧
    (matrix_U K c A k (compute K c v0 maxit tol s).1).2 = (matrix_U K c A k fresh).2 ∧
    (matrix_V K c A k (compute K c v0 maxit tol s).1).2 = (matrix_V K c A k fresh).2 := by
  intro fresh
  obtain ⟨hout, hacc⟩ := compute_history_independent K c v0 hK maxit tol s (construct fac0 junk)
  have hf : (compute K c v0 maxit tol (construct fac0 junk)).2 = .ok r := by rw [← hout]; exact h
  obtain ⟨hval, hvec⟩ := hacc r h
  obtain ⟨u1, v1, _⟩ := c16_latest K c A v0 hperm s maxit tol r h [] (by simp) k
  obtain ⟨u2, v2, _⟩ := c16_latest K c A v0 hperm (construct fac0 junk) maxit tol r hf [] (by simp) k
  simp only [run, List.foldl_nil] at u1 v1 u2 v2
  refine ⟨hf, ?_, ?_, ?_⟩
  · unfold singular_values; rw [hval]
  · rw [u1, u2, hval, hvec]
  · rw [v1, v2, hval, hvec]

/-- a throwing `compute` (failing operator, failing small eigen-solver, …) leaves `m_nconv` as it was and the cache empty.
    (Residual hazard, not part of F4: `m_nconv` then no longer matches the inner solver, so a following `matrix_U/V(k)` asks for
    `leftCols(min(k, old m_nconv))` of the refilled cache — the `.error` outcome of the model.) -/
theorem c16_throwing_compute (maxit : Nat) (tol : τ) (s : St φ α ε κ) (e : Orch.Exn)
    (h : (compute K c v0 maxit tol s).2 = .error e) :
    (compute K c v0 maxit tol s).1.nconv = s.nconv ∧ (compute K c v0 maxit tol s).1.evecs = [] :=
  ⟨compute_error_nconv K c v0 maxit tol s e h, compute_evecs K c v0 maxit tol s⟩

end machine

/-! ### (A) ∘ (B): the model at exact arithmetic returns singular triplets -/

section bridge
open SVD Lin
variable {K : Type} [Field K] [LinearOrder K] [IsStrictOrderedRing K] (F : FieldFns K)

/-- the `SortDesc` hypothesis of `c16_order` is a theorem for every kernel whose final sort is the library's own `argsort`
    (`SVD.hermSortIdx`/`SVD.argsortIdx` = Gen/Sort.lean, translated from the source on every run): C18 discharges it. -/
theorem c16_order_argsort {φ ε κ β τ ω : Type} (Kn : Orch.Kern φ K ε κ β τ ω) (c : Orch.Cfg)
    (hsort : ∀ vals n, Kn.sortIdx LARGEST_ALGE vals n = @argsortIdx K _ _ _ _ _ (scOfField F) LARGEST_ALGE vals n)
    (hzero : Kn.zeroρ = 0) : SortDesc Kn c := by
  intro vals ind h i j hij hj
  obtain ⟨ind', h1, _, h3⟩ := argsortIdx_desc F vals c.nev
  rw [hsort, h1] at h
  simp only [Except.ok.injEq] at h
  subst h
  rw [hzero]
  exact h3 i j hij hj

/-- the operators the constructor installs are `AᵀA` (tall) and `AAᵀ` (wide): the model's explicit loops, at exact arithmetic,
    are Mathlib's matrix–vector products -/
theorem c16_operator (A : Mat K) (x : Vec K) :
    toVec F A.cols (@tallPerformOp K _ _ (scOfField F) A x).1 = ((toMatrix F A)ᵀ * toMatrix F A) *ᵥ toVec F A.cols x ∧
    toVec F A.rows (@widePerformOp K _ _ (scOfField F) A x).1 = (toMatrix F A * (toMatrix F A)ᵀ) *ᵥ toVec F A.rows x :=
  ⟨tallPerformOp_eq F A x, widePerformOp_eq F A x⟩

/-- **what `matrix_U` returns in the tall case is a left singular vector**: column `j` of the model's computed side
    (`c16_latest`: `specComputed (A.mulVec) σ E k r`), read at exact arithmetic, is the unit vector `u` with `A v = σ u`,
    `Aᵀ u = σ v` — provided the `j`-th singular value is positive with `σ_j² = λ_j` (`c16_sigma`) and the inner solver's pair
    `(λ_j, e_j)` is a unit eigenpair of `AᵀA` (which is property C01 of the inner solver). -/
theorem c16_model_triplet_tall (A : Mat K) (sv : List K) (E : List (Vec K)) (k r j : Nat) (hj : j < min k r)
    (lamj : K) (hσ : 0 < sv.getD j 0) (hσ2 : sv.getD j 0 * sv.getD j 0 = lamj)
    (hev : ((toMatrix F A)ᵀ * toMatrix F A) *ᵥ toVec F A.cols (E.getD j #[]) = lamj • toVec F A.cols (E.getD j #[]))
    (hn : toVec F A.cols (E.getD j #[]) ⬝ᵥ toVec F A.cols (E.getD j #[]) = 1) :
    let u := toVec F A.rows ((@specComputed K _ (scOfField F) (@Mat.mulVec K _ _ (scOfField F) A) sv E k r).getD j #[])
    let v := toVec F A.cols (E.getD j #[])
    let σ := sv.getD j 0
    u ⬝ᵥ u = 1 ∧ toMatrix F A *ᵥ v = σ • u ∧ (toMatrix F A)ᵀ *ᵥ u = σ • v := by
  intro u v σ
  have hu : u = toMatrix F A *ᵥ (fun i => v i / σ) := by
    show toVec F A.rows ((@specComputed K _ (scOfField F) (@Mat.mulVec K _ _ (scOfField F) A) sv E k r).getD j #[]) = _
    rw [specComputed_getD F _ sv E k r j hj, computed_col_tall F A _ _ hσ]
  rw [hu]
  exact C16M.triplet (toMatrix F A) v lamj σ hev hn hσ hσ2

/-- the same for `matrix_V` in the wide/square case -/
theorem c16_model_triplet_wide (A : Mat K) (sv : List K) (E : List (Vec K)) (k r j : Nat) (hj : j < min k r)
    (lamj : K) (hσ : 0 < sv.getD j 0) (hσ2 : sv.getD j 0 * sv.getD j 0 = lamj)
    (hev : (toMatrix F A * (toMatrix F A)ᵀ) *ᵥ toVec F A.rows (E.getD j #[]) = lamj • toVec F A.rows (E.getD j #[]))
    (hn : toVec F A.rows (E.getD j #[]) ⬝ᵥ toVec F A.rows (E.getD j #[]) = 1) :
    let v := toVec F A.cols ((@specComputed K _ (scOfField F) (@tmulVec K _ _ (scOfField F) A) sv E k r).getD j #[])
    let u := toVec F A.rows (E.getD j #[])
    let σ := sv.getD j 0
    v ⬝ᵥ v = 1 ∧ (toMatrix F A)ᵀ *ᵥ u = σ • v ∧ toMatrix F A *ᵥ v = σ • u := by
  intro v u σ
  have hv : v = (toMatrix F A)ᵀ *ᵥ (fun i => u i / σ) := by
    show toVec F A.cols ((@specComputed K _ (scOfField F) (@tmulVec K _ _ (scOfField F) A) sv E k r).getD j #[]) = _
    rw [specComputed_getD F _ sv E k r j hj, computed_col_wide F A _ _ hσ]
  rw [hv]
  exact C16M.triplet_wide (toMatrix F A) u lamj σ hev hn hσ hσ2

/-- a singular value the model returns is `sqrt(max(λ, 0))`: positive with `σ² = λ` for `λ > 0` (given a genuine square root),
    and — **non-negativity**, the exact-arithmetic content of the F5 repair — never negative whatever sign rounding gave `λ` -/
theorem c16_sigma (hsqrt : ∀ x, 0 < x → 0 < F.sqrt x ∧ F.sqrt x * F.sqrt x = x) (lam : K) (hlam : 0 < lam) :
    0 < F.sqrt (@clamp0 K (scOfField F) lam) ∧ F.sqrt (@clamp0 K (scOfField F) lam) * F.sqrt (@clamp0 K (scOfField F) lam) = lam := by
  rw [clamp0_eq, max_eq_left (le_of_lt hlam)]; exact hsqrt lam hlam

theorem c16_nonneg {φ ε κ β τ : Type} (hsq : ∀ x : K, 0 ≤ x → 0 ≤ F.sqrt x)
    (Kn : Orch.Kern φ K ε κ β τ (Vec K)) (c : Orch.Cfg) (s : SVD.St φ K ε κ) :
    ∀ σ ∈ @singular_values φ K ε κ β τ (scOfField F) Kn c s, 0 ≤ σ := by
  intro σ hσ
  unfold singular_values at hσ
  obtain ⟨x, _, rfl⟩ := List.mem_map.mp hσ
  show 0 ≤ F.sqrt (@clamp0 K (scOfField F) x)
  rw [clamp0_eq]; exact hsq _ (le_max_right x 0)

/-- **the column for a zero singular value** (`σ_j ≤ 0`, i.e. `σ_j = 0` by `c16_nonneg`) of the computed factor is the zero vector:
    finite, and it satisfies `A v_j = σ_j u_j` trivially when `A v_j = 0` -/
theorem c16_zero_column (A : Mat K) (sv : List K) (E : List (Vec K)) (k r j : Nat) (hj : j < min k r) (hσ : ¬ 0 < sv.getD j 0) :
    toVec F A.rows ((@specComputed K _ (scOfField F) (@Mat.mulVec K _ _ (scOfField F) A) sv E k r).getD j #[]) = 0 := by
  rw [specComputed_getD F _ sv E k r j hj]; exact computed_col_zero F A _ _ hσ

/-- `Real.sqrt` satisfies the square-root hypotheses -/
example : (∀ x : ℝ, 0 < x → 0 < Real.sqrt x ∧ Real.sqrt x * Real.sqrt x = x) ∧ (∀ x : ℝ, 0 ≤ x → 0 ≤ Real.sqrt x) :=
  ⟨fun x hx => ⟨Real.sqrt_pos.mpr hx, Real.mul_self_sqrt (le_of_lt hx)⟩, fun x _ => Real.sqrt_nonneg x⟩

end bridge

/-! ### non-vacuity, and the refuted full-strength statement -/

section toy
open SVD Lin

/-- a toy scalar instance (only used to run the state machine in the examples; no arithmetic is performed on the cached side) -/
local instance : Sc Int where
  abs x := x.natAbs
  sqrt x := x
  pow x _ := x
  ofInt x := x
  lit m _ := m
  lt a b := decide (a < b)
  le a b := decide (a ≤ b)
  eq a b := decide (a = b)
  eps := 0
  minPos := 0
  cabs z := z.1

/-- toy inner solver: the "factorization" is the number of `init()` calls so far; run number `f` finds Ritz values `[10 f, f]`
    with eigenvectors `[#[f], #[f+100]]`; the second pair passes the convergence test only from the second run on -/
def toyK : Orch.Kern Nat Int Nat (Vec Int) Unit Unit (Vec Int) :=
  { zeroρ := 0, zeroε := 0, zeroκ := #[],
    facInit := fun _ f => ⟨f + 1, 1, none⟩, facDim := fun _ => 1, factorize := fun _ _ f => ⟨f, 1, none⟩,
    eig := fun f => .ok ([10 * (f : Int), (f : Int)], [1, 2], [#[(f : Int)], #[(f : Int) + 100]]),
    select := fun _ _ n => .ok (List.range n),
    convTest := fun _ f _ est => decide (est ≤ f), nevAdj := fun c _ _ _ => c.nev, restartFac := fun _ _ f => ⟨f, 1, none⟩,
    backTransform := id, sortIdx := fun _ _ n => .ok (List.range n), assemble := fun _ k => k }
def toyC1 : Orch.Cfg := ⟨3, 1, 2⟩
def toyC2 : Orch.Cfg := ⟨3, 2, 3⟩
/-- a wide 2 × 3 matrix: `matrix_U` is the cached side -/
def toyA : Mat Int := ⟨2, 3, #[1, 0, 0, 1, 1, 1]⟩

/-- the hypotheses of `c16_counts` / `c16_latest` / `c16_order` are satisfiable -/
example : C05.SortPerm toyK toyC1 ∧ SortDesc toyK toyC1 ∧ toyC1.nev ≤ toyC1.ncv ∧
    (compute toyK toyC1 () 5 () (construct 0 7)).2 = .ok 1 ∧
    (matrix_U toyK toyC1 toyA 3 (compute toyK toyC1 () 5 () (construct 0 7)).1).2 = .ok [#[1]] := by
  refine ⟨?_, ?_, by decide, rfl, rfl⟩
  · intro rule vals ind h
    simp only [toyK, Except.ok.injEq] at h
    subst h; exact List.Perm.refl _
  · intro vals ind h i j hij hj
    simp only [toyC1] at hj; omega

/-- **the F4 history on the repaired model**: `compute(); matrix_U(1); compute(); matrix_U(1)` — the second `matrix_U` returns the
    eigenvector of the SECOND run (`#[2]`), the same as a fresh object.  (Before d08c57f this was the theorem
    `c16_latest_counterexample`: the second call returned `#[1]`, the vector of the first run.)  The same history is replayed on
    the real class by the harness on every run. -/
example :
    let s1 := (compute toyK toyC1 () 5 () (construct 0 0)).1
    let s2 := (matrix_U toyK toyC1 toyA 1 s1).1
    let s3 := (compute toyK toyC1 () 5 () s2).1
    (matrix_U toyK toyC1 toyA 1 s1).2 = .ok [#[1]] ∧
    (matrix_U toyK toyC1 toyA 1 s3).2 = .ok [#[2]] ∧
    Orch.eigenvectors toyK toyC1 toyC1.nev s3.eigs = [#[2]] ∧
    (matrix_U toyK toyC1 toyA 1 (compute toyK toyC1 () 5 () (compute toyK toyC1 () 5 () (construct 0 0)).1).1).2 = .ok [#[2]] :=
  ⟨rfl, rfl, rfl, rfl⟩

/-- **the count-mismatch history on the repaired model**: the first run converges 1 of 2 values and `matrix_U` caches 1 column; the
    second run converges 2; `matrix_U(2)` now returns the 2 columns of the second run.  (Before d08c57f this was the theorem
    `c16_latest_assert_counterexample`: `leftCols(2)` of a 1-column matrix, an Eigen assertion / undefined behaviour.) -/
example :
    let s1 := (compute toyK toyC2 () 1 () (construct 0 0)).1
    let s2 := (matrix_U toyK toyC2 toyA 2 s1).1
    let s3 := (compute toyK toyC2 () 1 () s2).1
    (compute toyK toyC2 () 1 () (construct 0 0)).2 = .ok 1 ∧ (compute toyK toyC2 () 1 () s2).2 = .ok 2 ∧
    (matrix_U toyK toyC2 toyA 2 s3).2 = .ok [#[2], #[102]] :=
  ⟨rfl, rfl, rfl⟩

end toy

/-- `x ↦ Real.sqrt (max x 0)` is monotone: the `hmono` hypothesis of `c16_order` holds for the exact-arithmetic instance -/
theorem c16_order_sqrt_mono (a b : ℝ) (h : a ≤ b) : Real.sqrt (max a 0) ≤ Real.sqrt (max b 0) :=
  Real.sqrt_le_sqrt (max_le_max h (le_refl 0))

/-! ### object model: regenerated from the clang AST on every run (`Gen.SVDMem`, xlate/tgt_c16.py), decided by the kernel -/

section objectmodel
open C16Mem

/-- **What the objects keep of the caller's arguments** (blind spot "values and objects of the caller change or die between
    construction and later calls").  Of ALL data members of PartialSVDSolver, SVDTallMatOp, SVDWideMatOp (SVDMatOp has none), the
    only ones not held by value are
      * the three `m_mat`: `const Eigen::Ref<const MatrixType>` handles to the USER's matrix — allowed by the property (the matrix
        must outlive the solver and is read at every `compute()` / computed-side accessor call; the harness checks that the handle
        points INTO the user's storage for every view it passes), initialised from the constructor parameter `mat` and never
        written again (they are `const`);
      * `m_op`, `m_eigs`: raw pointers that are OWNING — every value they are ever given is a `new` expression in the constructor
        (`*m_op` is only handed to the inner solver's constructor, the `catch` handler deletes `m_op`), the destructor deletes both,
        and nothing else touches them except `m_eigs->init()` / `m_eigs->compute(…)` in `compute()`.
    `ncomp`, `ncv`, `maxit`, `tol`, `nu`, `nv`, `k` are taken by value; the only reference parameters are the constructors' `mat`
    (plus `perform_op`'s raw in/out arrays, used only during the call); the sizes `m_m`, `m_n`, `m_dim`, and the length of `m_cache`
    are copied out of `mat` at construction.  A new reference / pointer member, a parameter kept by reference or a handle
    re-seated later changes the regenerated table. -/
theorem c16_members_nonowning :
    ((members.filter (fun m => m.kind != "value")).map (fun m => (m.cls, m.name, m.type, m.kind, m.isConst)) =
      [("SVDTallMatOp", "m_mat", "const Eigen::Ref<const MatrixType>", "handle", true),
       ("SVDWideMatOp", "m_mat", "const Eigen::Ref<const MatrixType>", "handle", true),
       ("PartialSVDSolver", "m_mat", "const Eigen::Ref<const MatrixType>", "handle", true),
       ("PartialSVDSolver", "m_op", "SVDMatOp<typename MatrixType::Scalar> *", "pointer", false),
       ("PartialSVDSolver", "m_eigs", "SymEigsSolver<SVDMatOp<typename MatrixType::Scalar>> *", "pointer", false)]) ∧
    writesTo "SVDTallMatOp" "m_mat" = [("SVDTallMatOp(ConstGenericMatrix &)", "init", "mat", "", false)] ∧
    writesTo "SVDWideMatOp" "m_mat" = [("SVDWideMatOp(ConstGenericMatrix &)", "init", "mat", "", false)] ∧
    writesTo "PartialSVDSolver" "m_mat" = [("PartialSVDSolver(ConstGenericMatrix &, Index, Index)", "init", "mat", "", false)] ∧
    writesTo "PartialSVDSolver" "m_op" =
      [("PartialSVDSolver(ConstGenericMatrix &, Index, Index)", "=", "new SVDTallMatOp<Scalar, MatrixType>(mat)", "(m_m > m_n)", false),
       ("PartialSVDSolver(ConstGenericMatrix &, Index, Index)", "=", "new SVDWideMatOp<Scalar, MatrixType>(mat)", "not (m_m > m_n)", false),
       ("PartialSVDSolver(ConstGenericMatrix &, Index, Index)", "*", "new SymEigsSolver<SVDMatOp<Scalar>>(*m_op, ncomp, ncv)", "", false),
       ("PartialSVDSolver(ConstGenericMatrix &, Index, Index)", "delete", "", "catch", false),
       ("~PartialSVDSolver()", "delete", "", "", false)] ∧
    writesTo "PartialSVDSolver" "m_eigs" =
      [("PartialSVDSolver(ConstGenericMatrix &, Index, Index)", "=", "new SymEigsSolver<SVDMatOp<Scalar>>(*m_op, ncomp, ncv)", "", false),
       ("~PartialSVDSolver()", "delete", "", "", false),
       ("compute(Index, Scalar)", "->init", "", "", false),
       ("compute(Index, Scalar)", "->compute", "SortRule::LargestAlge, maxit, tol", "", false)] ∧
    nonValueParams =
      [("SVDMatOp", "perform_op(const Scalar *, Scalar *) const", "x_in", "pointer"), ("SVDMatOp", "perform_op(const Scalar *, Scalar *) const", "y_out", "pointer"),
       ("SVDTallMatOp", "SVDTallMatOp(ConstGenericMatrix &)", "mat", "reference"),
       ("SVDTallMatOp", "perform_op(const Scalar *, Scalar *) const", "x_in", "pointer"), ("SVDTallMatOp", "perform_op(const Scalar *, Scalar *) const", "y_out", "pointer"),
       ("SVDWideMatOp", "SVDWideMatOp(ConstGenericMatrix &)", "mat", "reference"),
       ("SVDWideMatOp", "perform_op(const Scalar *, Scalar *) const", "x_in", "pointer"), ("SVDWideMatOp", "perform_op(const Scalar *, Scalar *) const", "y_out", "pointer"),
       ("PartialSVDSolver", "PartialSVDSolver(ConstGenericMatrix &, Index, Index)", "mat", "reference")] ∧
    ((uses.filter (fun u => u.use == "init" && u.member != "m_mat" && u.member != "m_evecs")).map (fun u => (u.cls, u.member, u.args)) =
      [("SVDTallMatOp", "m_dim", "(std::min)(mat.rows(), mat.cols())"), ("SVDTallMatOp", "m_cache", "mat.rows()"),
       ("SVDWideMatOp", "m_dim", "(std::min)(mat.rows(), mat.cols())"), ("SVDWideMatOp", "m_cache", "mat.cols()"),
       ("PartialSVDSolver", "m_m", "mat.rows()"), ("PartialSVDSolver", "m_n", "mat.cols()")]) := by
  repeat' apply And.intro
  all_goals decide

/-- **Accessors write only the documented cache.**  `singular_values()` and `scaled_evecs()` are `const` and write nothing (the class
    has no `mutable` member); `matrix_U` / `matrix_V` write exactly one member, the eigenvector cache `m_evecs`, by the single
    assignment `m_evecs = m_eigs->eigenvectors()` under the single condition `m_evecs.cols() < 1` — so the cache is keyed on "empty
    or not" alone (not on `k`, not on which accessor filled it), `m_nconv` is not touched, and what one accessor call returns
    cannot depend on the arguments of earlier accessor calls (the model's `fillCache`; checked on the real class by the
    accessor-sequence stream).  The operator classes' only mutable member is the scratch vector `m_cache`, fully overwritten by
    `perform_op` (`noalias() =`) before it is read. -/
theorem c16_accessor_writes :
    methodsOf "PartialSVDSolver" =
      [("scaled_evecs(Index) const", true, "body"), ("PartialSVDSolver(ConstGenericMatrix &, Index, Index)", false, "body"),
       ("~PartialSVDSolver()", false, "body"), ("compute(Index, Scalar)", false, "body"), ("singular_values() const", true, "body"),
       ("matrix_U(Index)", false, "body"), ("matrix_V(Index)", false, "body")] ∧
    (members.filter (fun m => m.isMutable)).map (fun m => (m.cls, m.name)) = [("SVDTallMatOp", "m_cache"), ("SVDWideMatOp", "m_cache")] ∧
    writesOf "PartialSVDSolver" "singular_values() const" = [] ∧
    writesOf "PartialSVDSolver" "scaled_evecs(Index) const" = [] ∧
    writesOf "PartialSVDSolver" "matrix_U(Index)" = [("m_evecs", "=", "m_eigs->eigenvectors()", "(m_evecs.cols() < 1)", false)] ∧
    writesOf "PartialSVDSolver" "matrix_V(Index)" = [("m_evecs", "=", "m_eigs->eigenvectors()", "(m_evecs.cols() < 1)", false)] ∧
    (∀ c ∈ ["SVDTallMatOp", "SVDWideMatOp"], writesOf c "rows() const" = [] ∧ writesOf c "cols() const" = []) ∧
    writesOf "SVDTallMatOp" "perform_op(const Scalar *, Scalar *) const" = [("m_cache", "noalias=", "m_mat * x", "", false)] ∧
    writesOf "SVDWideMatOp" "perform_op(const Scalar *, Scalar *) const" = [("m_cache", "noalias=", "m_mat.transpose() * x", "", false)] := by
  repeat' apply And.intro
  all_goals decide

/-- **`compute()` resets the cache — the F4 repair d08c57f, pinned.**  The member uses of `compute()` in source order: FIRST the
    unconditional `m_evecs.resize(0, 0)` (under no `if`, in no loop, before anything that can throw), then `m_eigs->init()`,
    `m_nconv = m_eigs->compute(SortRule::LargestAlge, maxit, tol)`, `return m_nconv` — exactly `SVD.compute` of the model.  The
    cache is written nowhere else than: the constructor (`m_evecs(0, 0)`), this reset, and the guarded refill of `matrix_U/V`;
    `m_nconv` is written by `compute()` only.  Dropping the reset, moving it behind a condition or after `m_eigs->compute`, or
    refilling under another condition (seed C16-cache-reset-dropped-refetch-on-count) breaks this theorem. -/
theorem c16_compute_resets_cache :
    (usesOf "PartialSVDSolver" "compute(Index, Scalar)").map (fun u => (u.member, u.use, u.args, u.guards, u.inLoop)) =
      [("m_evecs", ".resize", "0, 0", "", false), ("m_eigs", "->init", "", "", false),
       ("m_nconv", "=", "m_eigs->compute(SortRule::LargestAlge, maxit, tol)", "", false),
       ("m_eigs", "->compute", "SortRule::LargestAlge, maxit, tol", "", false), ("m_nconv", "read", "return m_nconv", "", false)] ∧
    writesTo "PartialSVDSolver" "m_evecs" =
      [("PartialSVDSolver(ConstGenericMatrix &, Index, Index)", "init", "0, 0", "", false),
       ("compute(Index, Scalar)", ".resize", "0, 0", "", false),
       ("matrix_U(Index)", "=", "m_eigs->eigenvectors()", "(m_evecs.cols() < 1)", false),
       ("matrix_V(Index)", "=", "m_eigs->eigenvectors()", "(m_evecs.cols() < 1)", false)] ∧
    writesTo "PartialSVDSolver" "m_nconv" = [("compute(Index, Scalar)", "=", "m_eigs->compute(SortRule::LargestAlge, maxit, tol)", "", false)] := by
  repeat' apply And.intro
  all_goals decide

/-- PartialSVDSolver declares a destructor (it deletes the two owning pointers) and — on the unchanged tree — NO copy operations, so
    the implicit member-wise copy constructor is still generated: `PartialSVDSolver<> b = a;` compiles and both destructors delete the
    same operator and inner solver (finding C16-copy, reported with demo and patch: delete the copy operations).  The statement
    admits exactly the two states "none declared" and "both deleted". -/
theorem c16_copy_operations :
    Gen.SVDMem.specialMembers.filter (fun s => s.1 == "PartialSVDSolver" && s.2.1 == "destructor") = [("PartialSVDSolver", "destructor", "body")] ∧
    (copyOps "PartialSVDSolver" = [] ∨ copyOps "PartialSVDSolver" = [("copy-constructor", "deleted"), ("copy-assignment", "deleted")]) := by
  decide

end objectmodel

end C16
