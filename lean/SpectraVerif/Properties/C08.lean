/-
  C08 — shifted QR helpers (UpperHessenbergQR, TridiagQR, DoubleShiftQR): orthogonal Q, exact similarity, structure preserved.

  What is proved here (for EVERY input, size, shift, and every value of the machine parameters eps / min / series cutoff):
  the exact-arithmetic and discrete content of the property, about
    * `Gen.Givens.*`  — regenerated from UpperHessenbergQR.h on every run by the translator, and
    * the executable models `QRModel.UpperHessenbergQR / TridiagQR / DoubleShiftQR` (Model/*.lean), which call the generated
      kernels and are tied bit-exactly to the real classes by the correspondence check.
  "Exact arithmetic" = any linearly ordered field `K` with a function `sqrt` such that `sqrt x * sqrt x = x ∧ 0 ≤ sqrt x` for
  `0 ≤ x` (`ℝ` with `Real.sqrt` is one instance); `F.pow`, `F.eps`, `F.minPos` are arbitrary.

  What is NOT proved (rounding): the clause "all identities hold to a small multiple of n·eps·(‖H‖+|s|)" in floating point.
  The full-strength statement is
      ∀ H s, ‖QᵀQ − I‖, ‖QR − (H − sI)‖, ‖QtHQ − QᵀHQ‖, ‖apply_*(Y) − Q·Y‖ ≤ c·n·eps·(‖H‖ + |s|)   in IEEE arithmetic;
  the theorems below give the `eps = 0` case (exact identities, ideal rotations) and the only non-rounding source of
  non-orthogonality, the series branch (defect ≤ (5/8)·t⁶ with t < cutoff), and are therefore the exact-arithmetic part; the
  floating-point clause is evaluated on the real classes in long double by the oracle of harness/c08.cpp.
-/
import SpectraVerif.Proofs.C08Givens
import SpectraVerif.Proofs.C08Local
import SpectraVerif.Proofs.C08Nr
import SpectraVerif.Proofs.C08Tridiag
import SpectraVerif.Proofs.C08Hess
import SpectraVerif.Proofs.C08Refl
import SpectraVerif.Proofs.C08Finding
import SpectraVerif.Proofs.C08HessMatrix
import SpectraVerif.Proofs.C08TridiagQ
import SpectraVerif.Proofs.C08TridiagMatrix
import SpectraVerif.Proofs.C08DsqrQ
import SpectraVerif.Proofs.C08DsqrMatrix
import SpectraVerif.Proofs.C08DsqrSimF
import SpectraVerif.Proofs.C08DsqrSimG
import SpectraVerif.Proofs.C08Buf
import SpectraVerif.Proofs.C08Reuse
import SpectraVerif.Proofs.C08ReuseDs
import Mathlib.Analysis.Real.Sqrt
import Mathlib.LinearAlgebra.Matrix.Charpoly.Basic

set_option linter.unusedSectionVars false

namespace C08
open QRModel

variable {K : Type} [Field K] [LinearOrder K] [IsStrictOrderedRing K] (F : FieldFns K)

/-- the translated `compute_rotation` at the exact-arithmetic instance; result is `(r, c, s)` -/
abbrev givens (x y : K) : K × K × K := @Gen.Givens.compute_rotation K _ _ _ _ _ (scOfField F) x y
/-- the series cutoff `0.1 * pow(eps, 0.25)` as the generated code computes it: an arbitrary element of `K` -/
abbrev cutoff : K := C08Givens.cutoff F

/-! ### (1) the stable Givens rotation -/

/-- all sign/zero cases, both branches: `r ≥ 0` and the rotation annihilates EXACTLY: `s·x + c·y = 0` -/
theorem c08_givens (hsq : ∀ x : K, 0 ≤ x → F.sqrt x * F.sqrt x = x ∧ 0 ≤ F.sqrt x) (x y r c s : K)
    (h : givens F x y = (r, c, s)) : 0 ≤ r ∧ s * x + c * y = 0 :=
  C08Givens.rot_spec F hsq x y r c s h

/-- outside the series branch (`x = 0`, `y = 0`, or ratio ≥ cutoff) the rotation is ideal:
    `c² + s² = 1`, `c·x − s·y = r`, `r² = x² + y²` -/
theorem c08_givens_standard (hsq : ∀ x : K, 0 ≤ x → F.sqrt x * F.sqrt x = x ∧ 0 ≤ F.sqrt x) (x y r c s : K)
    (hcase : x = 0 ∨ y = 0 ∨ cutoff F ≤ min |x| |y| / max |x| |y|) (h : givens F x y = (r, c, s)) :
    c * c + s * s = 1 ∧ c * x - s * y = r ∧ r * r = x * x + y * y ∧ 0 ≤ r ∧ s * x + c * y = 0 :=
  C08Givens.rot_std F hsq x y hcase r c s h

/-- series branch (`t = min/max < cutoff`): orthogonality defect `≤ (5/8) t⁶`, `r` is the degree-6 Taylor polynomial of
    `max·√(1+t²)` with `|r² − (x²+y²)| ≤ (5/64)·max²·t⁸`, and the annihilation is still exact -/
theorem c08_givens_series (x y r c s : K) (hx : x ≠ 0) (hy : y ≠ 0)
    (hcut : min |x| |y| / max |x| |y| < cutoff F) (h : givens F x y = (r, c, s)) :
    |c * c + s * s - 1| ≤ 5 / 8 * (min |x| |y| / max |x| |y|) ^ 6 ∧ 0 < r ∧
    |r * r - (x * x + y * y)| ≤ 5 / 64 * (max |x| |y| * max |x| |y|) * (min |x| |y| / max |x| |y|) ^ 8 ∧
    s * x + c * y = 0 := by
  have := C08Givens.rot_taylor F x y hx hy hcut r c s h
  exact ⟨this.1, this.2.1, this.2.2.2.2.1, this.2.2.2.2.2.2⟩

/-- `c08_zero_subdiag`, rotation part: a zero subdiagonal entry gives `(c, s) = (±1, 0)`, i.e. `Gᵢ = ±I` on that plane, `r = |x|` -/
theorem c08_zero_subdiag_rotation (x : K) :
    givens F x 0 = (|x|, (if x = 0 then 1 else if 0 < x then 1 else -1), 0) :=
  C08Givens.rot_zero_y F x

/-! ### (2) one rotation step: inner products, inverse, the closed formulas of TridiagQR, first column of the double shift -/

/-- applying `Gᵢ'` (as every loop of the classes writes it) to two pairs multiplies their inner product by `c² + s²`;
    with `c² + s² = 1` inner products of rows/columns are preserved (the local step behind `QᵀQ = I`) -/
theorem c08_rotation_inner (c s x y u v : K) (h : c * c + s * s = 1) :
    (rotT c s x y).1 * (rotT c s u v).1 + (rotT c s x y).2 * (rotT c s u v).2 = x * u + y * v ∧
    (rotG c s x y).1 * (rotG c s u v).1 + (rotG c s x y).2 * (rotG c s u v).2 = x * u + y * v := by
  refine ⟨?_, ?_⟩
  · have := C08Local.rT_inner ⟨id, fun x _ => x, 0, 0⟩ c s x y u v; rw [h, one_mul] at this; exact this
  · have := C08Local.rG_inner ⟨id, fun x _ => x, 0, 0⟩ c s x y u v; rw [h, one_mul] at this; exact this

/-- `apply_QY` undoes `apply_QtY` on each plane: `Gᵢ (Gᵢ' p) = p = Gᵢ' (Gᵢ p)` when `c² + s² = 1` -/
theorem c08_rotation_inverse (c s x y : K) (h : c * c + s * s = 1) :
    rotG c s (rotT c s x y).1 (rotT c s x y).2 = (x, y) ∧ rotT c s (rotG c s x y).1 (rotG c s x y).2 = (x, y) := by
  refine ⟨?_, ?_⟩
  · have := C08Local.rG_rT ⟨id, fun x _ => x, 0, 0⟩ c s x y; rw [h, one_mul, one_mul] at this; exact this
  · have := C08Local.rT_rG ⟨id, fun x _ => x, 0, 0⟩ c s x y; rw [h, one_mul, one_mul] at this; exact this

/-- the rotation computed by `compute_rotation` maps `(x, y)` to `(r, 0)` (standard branch), which is what `compute` stores
    (`Rii[0] = r; Rii[1] = 0`) instead of computing -/
theorem c08_rotation_annihilates (hsq : ∀ x : K, 0 ≤ x → F.sqrt x * F.sqrt x = x ∧ 0 ≤ F.sqrt x) (x y r c s : K)
    (hcase : x = 0 ∨ y = 0 ∨ cutoff F ≤ min |x| |y| / max |x| |y|) (h : givens F x y = (r, c, s)) :
    rotT c s x y = (r, 0) := by
  have := C08Givens.rot_std F hsq x y hcase r c s h
  exact C08Local.rT_annihilate ⟨id, fun x _ => x, 0, 0⟩ c s x y r this.2.2.2.2 this.2.1

/-- TridiagQR `matrix_QtHQ`: the closed formulas `x', y', z', o' = −s·w, w' = c·w, u' = u` are the entries of `Gᵀ T G`
    on the 3x3 window `T = [x y 0; y z w; 0 w u]`, `G = [c s 0; −s c 0; 0 0 1]` (ring identity, all `c, s`) -/
theorem c08_tqr_qthq_local (c s x y z w u : K) :
    (C08Local.G3 c s).transpose * C08Local.T3 x y z w u * C08Local.G3 c s =
      !![(C08Local.qloc F c s x y z).1, (C08Local.qloc F c s x y z).2.1, -s * w;
         (C08Local.qloc F c s x y z).2.1, (C08Local.qloc F c s x y z).2.2, c * w;
         -s * w, c * w, u] :=
  C08Local.qthq_window F c s x y z w u

/-- DoubleShiftQR: for an upper Hessenberg `H` of any size `≥ 3`, `(m00, m10, m20, 0, …, 0)` as `update_block` computes it
    is the first column of `H² − sH + tI` -/
theorem c08_dsqr_first_col {n : Nat} (H : Matrix (Fin (n + 3)) (Fin (n + 3)) K)
    (hH : ∀ i j : Fin (n + 3), j.val + 1 < i.val → H i j = 0) (s t : K) (i : Fin (n + 3)) :
    (H * H - s • H + t • (1 : Matrix (Fin (n + 3)) (Fin (n + 3)) K)) i 0 =
      if i.val = 0 then DoubleShiftQR.firstCol0 (H 0 0) (H 0 1) (H 1 0) s t
      else if i.val = 1 then DoubleShiftQR.firstCol1 (H 0 0) (H 1 0) (H 1 1) s
      else if i.val = 2 then DoubleShiftQR.firstCol2 (H 2 1) (H 1 0) else 0 :=
  C08Local.first_col_hessenberg ⟨id, fun x _ => x, 0, 0⟩ H hH s t i

/-! ### (3) structural / discrete facts, for ALL sizes n and all inputs -/

section structural
open Lin

/-- the three models at the exact-arithmetic instance -/
abbrev tqr (mat : Mat K) (shift : K) : TridiagQR K := @TridiagQR.compute K _ _ _ _ _ (scOfField F) mat shift
abbrev dsqr (mat : Mat K) (s t : K) : DoubleShiftQR K := @DoubleShiftQR.compute K _ _ _ _ _ (scOfField F) mat s t
abbrev mget (m : Mat K) (i j : Nat) : K := @Mat.get K (scOfField F) m i j
abbrev vecget (v : Vec K) (i : Nat) : K := @vget K (scOfField F) v i

/-- TridiagQR `matrix_R` is upper triangular with upper bandwidth 2 (every n, every input, every shift) -/
theorem c08_tqr_band (mat : Mat K) (shift : K) (i j : Nat) (hi : i < mat.rows) (hj : j < mat.rows) :
    (j < i → mget F (@TridiagQR.matrix_R K (scOfField F) (tqr F mat shift)) i j = 0) ∧
    (i + 2 < j → mget F (@TridiagQR.matrix_R K (scOfField F) (tqr F mat shift)) i j = 0) :=
  C08Tridiag.tqr_R_band F mat shift i j hi hj

/-- `c08_shapes`, TridiagQR: `matrix_QtHQ` is tridiagonal and symmetric by construction — exactly, whatever the rotations are -/
theorem c08_tqr_shapes (q : TridiagQR K) (i j : Nat) (hi : i < q.n) (hj : j < q.n) :
    ((i + 1 < j ∨ j + 1 < i) → mget F (@TridiagQR.matrix_QtHQ K _ _ _ _ (scOfField F) q) i j = 0) ∧
    mget F (@TridiagQR.matrix_QtHQ K _ _ _ _ (scOfField F) q) i j = mget F (@TridiagQR.matrix_QtHQ K _ _ _ _ (scOfField F) q) j i :=
  ⟨C08Tridiag.tqr_qthq_tridiagonal F q i j hi hj, C08Tridiag.tqr_qthq_symmetric F q i j hi hj⟩

/-- both deflation passes of TridiagQR (on the input in `compute`, on the result in `matrix_QtHQ`) replace an entry by an exact
    `0` precisely when `|e| ≤ eps (|dᵢ| + |dᵢ₊₁|)`, and change nothing else -/
theorem c08_tqr_deflation (d e : Vec K) (n i : Nat) :
    vecget F (@TridiagQR.deflate K _ _ (scOfField F) d e n) i =
      if i < n - 1 ∧ |vecget F e i| ≤ F.eps * (|vecget F d i| + |vecget F d (i + 1)|) then 0 else vecget F e i :=
  C08Tridiag.deflate_get F d e n i

/-- TridiagQR reads only the diagonal and the first subdiagonal of its argument -/
theorem c08_tqr_reads_bands (m1 m2 : Mat K) (shift : K) (hr : m1.rows = m2.rows)
    (hd : ∀ i, i < m1.rows → mget F m1 i i = mget F m2 i i)
    (he : ∀ i, i < m1.rows - 1 → mget F m1 (i + 1) i = mget F m2 (i + 1) i) :
    tqr F m1 shift = tqr F m2 shift :=
  C08Tridiag.tqr_compute_reads_bands F m1 m2 shift hr hd he

/-- one step of TridiagQR's compact factorization loop is the plane rotation `Gᵢ'` applied to the full 2x3 window
    `[x a 0; y z w]` of `R`, given that the rotation annihilates (`s x + c y = 0`, `c x − s y = r`: `c08_givens_standard`) -/
theorem c08_tqr_step_is_rotation (n : Nat) (T : Vec K) (st : TridiagQR.FacSt K) (i : Nat) (r c s : K)
    (hrot : givens F (vecget F st.Rd i) (vecget F T i) = (r, c, s))
    (h0 : s * vecget F st.Rd i + c * vecget F T i = 0) (hr : c * vecget F st.Rd i - s * vecget F T i = r)
    (hRd : i + 1 < st.Rd.size) (hRs : i < st.Rs.size) :
    ((vecget F (@TridiagQR.facStep K _ _ _ _ _ (scOfField F) n T st i).Rd i, (0 : K)) = rotT c s (vecget F st.Rd i) (vecget F T i)) ∧
    ((vecget F (@TridiagQR.facStep K _ _ _ _ _ (scOfField F) n T st i).Rs i,
      vecget F (@TridiagQR.facStep K _ _ _ _ _ (scOfField F) n T st i).Rd (i + 1)) = rotT c s (vecget F st.Rs i) (vecget F st.Rd (i + 1))) ∧
    (i < n - 2 → i + 1 < st.Rs.size → i < st.Rs2.size →
      (vecget F (@TridiagQR.facStep K _ _ _ _ _ (scOfField F) n T st i).Rs2 i,
       vecget F (@TridiagQR.facStep K _ _ _ _ _ (scOfField F) n T st i).Rs (i + 1)) = rotT c s 0 (vecget F st.Rs (i + 1))) :=
  C08Tridiag.tqr_facStep_window F n T st i r c s hrot h0 hr hRd hRs

/-- `c08_dsqr_nr_safe`: for every size, every input matrix (hence EVERY deflation pattern and every block split), every
    double shift and every outcome of the floating comparisons inside `compute_reflector`:
    `m_ref_nr` has `n` entries in `{1,2,3}`; `nr[k] = 3 ⇒ k+2 ≤ n−1`, `nr[k] = 2 ⇒ k+1 ≤ n−1`, `nr[n−1] = 1`; so every raw
    access `x[0..nr−1]` of `apply_PX(Scalar*, k)` in `apply_QtY` and every column `k..k+nr−1` in `apply_YQ` is inside the data.
    Only hypothesis: `0 < min()` (so that the literal `x3 = 0` is `< near_0`) -/
theorem c08_dsqr_nr_safe (hmin : 0 < F.minPos) (mat : Mat K) (s t : K) (hn : 1 ≤ mat.rows) :
    (dsqr F mat s t).nr.size = mat.rows ∧
    (∀ k, k < mat.rows → ((dsqr F mat s t).nr.getD k 0 = 1 ∨ (dsqr F mat s t).nr.getD k 0 = 2 ∨ (dsqr F mat s t).nr.getD k 0 = 3)) ∧
    (∀ k, k < mat.rows → (dsqr F mat s t).nr.getD k 0 = 3 → k + 2 ≤ mat.rows - 1) ∧
    (∀ k, k < mat.rows → (dsqr F mat s t).nr.getD k 0 = 2 → k + 1 ≤ mat.rows - 1) ∧
    (dsqr F mat s t).nr.getD (mat.rows - 1) 0 = 1 :=
  C08Nr.compute_nr_safe F hmin mat s t hn

/-- per-block strengthening: the block boundaries `zero_ind` are strictly increasing from `0` to `n`, and inside each block
    `[il, iu]`: counts in `{1,2,3}`, `nr[k] = 3 ⇒ k+2 ≤ iu` (three live rows INSIDE the block), `nr[k] = 2 ⇒ k+1 ≤ iu`,
    `nr[iu] = 1` (`C08Nr.BlockOK`); blocks of size 1 and 2 (already-deflated input) are covered -/
theorem c08_dsqr_nr_blocks (hmin : 0 < F.minPos) (mat : Mat K) (s t : K) (hn : 1 ≤ mat.rows) :
    (C08Nr.zeroInd F mat).getD 0 0 = 0 ∧
    (C08Nr.zeroInd F mat).getD ((C08Nr.zeroInd F mat).size - 1) 0 = mat.rows ∧
    (∀ a, a + 1 < (C08Nr.zeroInd F mat).size → (C08Nr.zeroInd F mat).getD a 0 < (C08Nr.zeroInd F mat).getD (a + 1) 0) ∧
    (∀ i, i + 1 < (C08Nr.zeroInd F mat).size →
      C08Nr.BlockOK (dsqr F mat s t).nr ((C08Nr.zeroInd F mat).getD i 0) ((C08Nr.zeroInd F mat).getD (i + 1) 0 - 1)) := by
  obtain ⟨_, _, h2, h3, h4, h5⟩ := C08Nr.compute_nr_blocks F hmin mat s t hn
  exact ⟨h2, h3, h4, h5⟩

/-- `c08_zero_subdiag`, block part: `update_block(il, iu)` for EVERY block size (1, 2, ≥ 3) touches only `nr[il..iu]`, leaves
    counts in `{1,2,3}` with three/two live rows inside the block, and ends the block with the identity -/
theorem c08_zero_subdiag_blocks (hmin : 0 < F.minPos) (n : Nat) (s t : K) (H u : Mat K) (nr : Array Nat) (il iu : Nat)
    (hle : il ≤ iu) (hsz : iu < nr.size) :
    (C08Nr.ub F n s t (H, u, nr) il iu).2.2.size = nr.size ∧
    (∀ k, (k < il ∨ iu < k) → (C08Nr.ub F n s t (H, u, nr) il iu).2.2.getD k 0 = nr.getD k 0) ∧
    C08Nr.BlockOK (C08Nr.ub F n s t (H, u, nr) il iu).2.2 il iu :=
  C08Nr.update_block_nr_st F hmin n s t (H, u, nr) il iu hle hsz

end structural

/-! ### (4) whole-matrix statements for UpperHessenbergQR (all n, all H, all shifts), on the executable array model

  `C08Hess.hqr F mat shift` is `UpperHessenbergQR.compute mat shift` at the exact-arithmetic instance; `QtYm/QYm/YQm/QtYv/QYv`
  are `apply_QtY/apply_QY/apply_YQ` (matrix and vector overloads), `QtHQ` is `matrix_QtHQ`, `Hsh F mat shift` is the matrix
  `H − sI` the class factorizes (upper Hessenberg part of `mat`; entries below the subdiagonal are ignored).
  "Ideal rotations" = exact square root and series branch disabled (`cutoff ≤ 0`); the theorems named `…_partial` are the
  `eps = 0` case of the corresponding clause of the property (what is missing: the floating-point error bound
  `c·n·eps·(‖H‖+|s|)`, and the series branch whose orthogonality defect is bounded in `c08_givens_series`). -/

section hess
open Lin C08Hess

/-- `c08_shapes`, UpperHessenbergQR: `R` is upper triangular and `matrix_QtHQ` is upper Hessenberg with EXACT zeros, for every
    input and every outcome of the rotations (no hypothesis on `sqrt`, `pow`, `eps`); sizes are as allocated -/
theorem c08_hqr_shapes (mat : Mat K) (hw : C08Mat.WF mat) (hsq : mat.cols = mat.rows) (shift : K)
    (i j : Nat) (hi : i < mat.rows) (hj : j < mat.rows) :
    (j < i → C08Hess.mget F (hqr F mat shift).R i j = 0) ∧
    (j + 1 < i → C08Hess.mget F (QtHQ F (hqr F mat shift)) i j = 0) ∧
    (hqr F mat shift).cos.size = mat.rows - 1 ∧ (hqr F mat shift).sin.size = mat.rows - 1 :=
  ⟨fun h => hqr_R_upper F mat hw hsq shift i j hi hj h, fun h => hqr_qthq_hessenberg F mat hw hsq shift i j hi hj h,
   (hqr_sizes F mat hw hsq shift).2.2.2.2.1, (hqr_sizes F mat hw hsq shift).2.2.2.2.2⟩

/-- `c08_hqr_factor` (exact arithmetic): `Qᵀ (H − sI) = R` and `Q R = H − sI`, as equalities of matrices, where `Qᵀ·`/`Q·` are
    the class's own `apply_QtY` / `apply_QY`.
    Full-strength clause: `‖Q R − (H − sI)‖ ≤ c·n·eps·(‖H‖+|s|)` in IEEE arithmetic — not proved (rounding) -/
theorem c08_hqr_factor_partial (hsqrt : ∀ x : K, 0 ≤ x → F.sqrt x * F.sqrt x = x ∧ 0 ≤ F.sqrt x) (hcut : cutoff F ≤ 0)
    (mat : Mat K) (hw : C08Mat.WF mat) (hsq : mat.cols = mat.rows) (shift : K) :
    QtYm F (hqr F mat shift) (Hsh F mat shift) = (hqr F mat shift).R ∧
    QYm F (hqr F mat shift) (hqr F mat shift).R = Hsh F mat shift :=
  ⟨hqr_factor_eq F hsqrt hcut mat hw hsq shift, hqr_QR_eq F hsqrt hcut mat hw hsq shift⟩

/-- `Q` is orthogonal (exact arithmetic): `apply_QY ∘ apply_QtY = id = apply_QtY ∘ apply_QY` on every matrix with `n` rows
    (any number of columns), and every stored pair has `c² + s² = 1`.
    Full-strength clause: `‖QᵀQ − I‖ ≤ c·n·eps` in IEEE arithmetic — not proved (rounding; series-branch defect bounded separately) -/
theorem c08_hqr_orthogonal_partial (hsqrt : ∀ x : K, 0 ≤ x → F.sqrt x * F.sqrt x = x ∧ 0 ≤ F.sqrt x) (hcut : cutoff F ≤ 0)
    (mat : Mat K) (hw : C08Mat.WF mat) (hsq : mat.cols = mat.rows) (shift : K) :
    (∀ Y : Mat K, C08Mat.WF Y → Y.rows = mat.rows →
      QYm F (hqr F mat shift) (QtYm F (hqr F mat shift) Y) = Y ∧ QtYm F (hqr F mat shift) (QYm F (hqr F mat shift) Y) = Y) ∧
    (∀ i, i < mat.rows - 1 →
      vgt F (hqr F mat shift).cos i * vgt F (hqr F mat shift).cos i + vgt F (hqr F mat shift).sin i * vgt F (hqr F mat shift).sin i = 1) :=
  ⟨fun Y hY hYr => hqr_orth_eq F hsqrt hcut mat hw hsq shift Y hY hYr, fun i hi => hqr_rot_orth F hsqrt hcut mat hw hsq shift i hi⟩

/-- `c08_hqr_rq`: `matrix_QtHQ = R Q + s I` entrywise, where `·Q` is the class's own `apply_YQ` — for EVERY outcome of the
    rotations (the truncated row range `0..i+1` of the loop loses nothing because `R` is upper triangular) -/
theorem c08_hqr_rq (mat : Mat K) (hw : C08Mat.WF mat) (hsq : mat.cols = mat.rows) (shift : K)
    (i j : Nat) (hi : i < mat.rows) (hj : j < mat.rows) :
    C08Hess.mget F (QtHQ F (hqr F mat shift)) i j =
      C08Hess.mget F (YQm F (hqr F mat shift) (hqr F mat shift).R) i j + (if i = j then shift else 0) :=
  hqr_rq F mat hw hsq shift i j hi hj

/-- similarity (exact arithmetic): `matrix_QtHQ = Qᵀ (H − sI) Q + s I` entrywise, with `Qᵀ·` = `apply_QtY`, `·Q` = `apply_YQ`.
    Full-strength clause: `matrix_QtHQ = Qᵀ H Q` up to `c·n·eps·(‖H‖+|s|)`.  Missing for the exact version of that form: the
    (true, unproved here) linearity step `Qᵀ (sI) Q = s·QᵀQ = sI` for the array maps; missing for the clause: rounding -/
theorem c08_hqr_similarity_partial (hsqrt : ∀ x : K, 0 ≤ x → F.sqrt x * F.sqrt x = x ∧ 0 ≤ F.sqrt x) (hcut : cutoff F ≤ 0)
    (mat : Mat K) (hw : C08Mat.WF mat) (hsq : mat.cols = mat.rows) (shift : K)
    (i j : Nat) (hi : i < mat.rows) (hj : j < mat.rows) :
    C08Hess.mget F (QtHQ F (hqr F mat shift)) i j =
      C08Hess.mget F (YQm F (hqr F mat shift) (QtYm F (hqr F mat shift) (Hsh F mat shift))) i j + (if i = j then shift else 0) := by
  rw [hqr_factor_eq F hsqrt hcut mat hw hsq shift]
  exact hqr_rq F mat hw hsq shift i j hi hj

/-- `c08_hqr_apply`: the vector overloads of `apply_QY` / `apply_QtY` are the matrix overloads on the `n × 1` matrix with that
    column (for every outcome of the rotations): all apply methods multiply by the same `Q` -/
theorem c08_hqr_apply_overloads (mat : Mat K) (hw : C08Mat.WF mat) (hsq : mat.cols = mat.rows) (shift : K) (y : Vec K)
    (hy : y.size = mat.rows) (i : Nat) (hi : i < mat.rows) :
    vgt F (QYv F (hqr F mat shift) y) i = C08Hess.mget F (QYm F (hqr F mat shift) (colM F mat.rows y)) i 0 ∧
    vgt F (QtYv F (hqr F mat shift) y) i = C08Hess.mget F (QtYm F (hqr F mat shift) (colM F mat.rows y)) i 0 :=
  ⟨(hqr_apply_vec F mat hw hsq shift y hy).1.2 i hi, (hqr_apply_vec F mat hw hsq shift y hy).2.2 i hi⟩

end hess

/-! ### (5) DoubleShiftQR: the reflector kernel (`Refl.unit_spec`), reflector algebra, and the known finding -/

section refl
open Lin

/-- `stable_norm3` and the 3-vector `stable_scaling` (translated from DoubleShiftQR.h on every run), standard branch:
    `stable_norm3 = ‖x‖₂ ≥ 0` (when the largest component is ≥ near_0), `stable_scaling x = x / ‖x‖₂` (unit vector) -/
theorem c08_refl_kernels (hsq : ∀ x : K, 0 ≤ x → F.sqrt x * F.sqrt x = x ∧ 0 ≤ F.sqrt x) (hcut : cutoff F ≤ 0)
    (x1 x2 x3 : K) :
    (@near0 K _ (scOfField F) ≤ max |x1| (max |x2| |x3|) →
      0 ≤ @Gen.Refl.stable_norm3 K _ _ _ _ _ (scOfField F) x1 x2 x3 ∧
      @Gen.Refl.stable_norm3 K _ _ _ _ _ (scOfField F) x1 x2 x3 * @Gen.Refl.stable_norm3 K _ _ _ _ _ (scOfField F) x1 x2 x3
        = x1 * x1 + x2 * x2 + x3 * x3) ∧
    (x1 ≠ 0 → ∃ ν : K, 0 < ν ∧ ν * ν = x1 * x1 + x2 * x2 + x3 * x3 ∧
      (@Gen.Refl.stable_scaling K _ _ _ _ _ (scOfField F) x1 x2 x3).1 * ν = x1 ∧
      (@Gen.Refl.stable_scaling K _ _ _ _ _ (scOfField F) x1 x2 x3).2.1 * ν = x2 ∧
      (@Gen.Refl.stable_scaling K _ _ _ _ _ (scOfField F) x1 x2 x3).2.2 * ν = x3) := by
  refine ⟨fun h => C08Refl.norm3_spec_gen F hsq hcut x1 x2 x3 h, fun h => ?_⟩
  obtain ⟨ν, h1, h2, h3, h4, h5, _⟩ := C08Refl.scaling_spec_gen F hsq hcut x1 x2 x3 h
  exact ⟨ν, h1, h2, h3, h4, h5⟩

/-- series branch of the 3-vector `stable_scaling`: the result is `x/|x1|·(1 − ρ/2 + 3ρ²/8)` with `ρ = r2² + r3²`, and its
    unit-norm defect is `0 ≤ ‖y‖² − 1 ≤ (5/8) ρ³` (ρ ≤ 1): with ρ < 2·cutoff² this is far below eps -/
theorem c08_refl_series (x1 x2 x3 : K) (h1 : x1 ≠ 0)
    (hser : ¬ (cutoff F ≤ abs (x2 / |x1|) ∨ cutoff F ≤ abs (x3 / |x1|))) (y1 y2 y3 : K)
    (h : @Gen.Refl.stable_scaling K _ _ _ _ _ (scOfField F) x1 x2 x3 = (y1, y2, y3))
    (hρ1 : x2 / |x1| * (x2 / |x1|) + x3 / |x1| * (x3 / |x1|) ≤ 1) :
    0 ≤ y1 * y1 + y2 * y2 + y3 * y3 - 1 ∧
    y1 * y1 + y2 * y2 + y3 * y3 - 1 ≤ 5 / 8 * (x2 / |x1| * (x2 / |x1|) + x3 / |x1| * (x3 / |x1|)) ^ 3 := by
  obtain ⟨_, _, _, _, h5, h6⟩ := C08Refl.scaling_series F x1 x2 x3 h1 hser y1 y2 y3 h _ rfl
  exact ⟨(h5 (by linarith)).1, h6 hρ1⟩

/-- `Refl.unit_spec`, 3-row case: `compute_reflector(x1, x2, x3, ind)` with `|x3| ≥ near_0` stores `nr = 3` and a UNIT vector
    `u` with `(I − 2uuᵀ)x = ρ‖x‖e₁`, `ρ = −sign(x1)` (`+1` for `x1 = 0`): rows 2 and 3 are annihilated exactly -/
theorem c08_refl_unit3 (hsq : ∀ x : K, 0 ≤ x → F.sqrt x * F.sqrt x = x ∧ 0 ≤ F.sqrt x) (hcut : cutoff F ≤ 0)
    (hmin : 0 < F.minPos) (u : Mat K) (nr : Array Nat) (x1 x2 x3 : K) (ind : Nat)
    (hind : ind < nr.size) (hr : u.rows = 3) (hc : ind < u.cols) (hd : u.d.size = 3 * u.cols)
    (h3 : ¬ |x3| < C08Refl.nz F) (u0 u1 u2 : K)
    (h0 : u0 = C08Refl.mget F (C08Refl.cRef F u nr x1 x2 x3 ind).1 0 ind)
    (h1 : u1 = C08Refl.mget F (C08Refl.cRef F u nr x1 x2 x3 ind).1 1 ind)
    (h2 : u2 = C08Refl.mget F (C08Refl.cRef F u nr x1 x2 x3 ind).1 2 ind) :
    (C08Refl.cRef F u nr x1 x2 x3 ind).2.getD ind 0 = 3 ∧
    u0 * u0 + u1 * u1 + u2 * u2 = 1 ∧
    x2 - 2 * (u0 * x1 + u1 * x2 + u2 * x3) * u1 = 0 ∧
    x3 - 2 * (u0 * x1 + u1 * x2 + u2 * x3) * u2 = 0 ∧
    ∃ N : K, 0 < N ∧ N * N = x1 * x1 + x2 * x2 + x3 * x3 ∧
      x1 - 2 * (u0 * x1 + u1 * x2 + u2 * x3) * u0 = (if x1 ≤ 0 then 1 else -1) * N := by
  obtain ⟨a, b, c, d, _, e⟩ := C08Refl.reflector_unit F hsq hcut hmin u nr x1 x2 x3 ind hind hr hc hd h3 u0 u1 u2 h0 h1 h2
  exact ⟨a, b, c, d, e⟩

/-- `Refl.unit_spec`, 2-row case as `update_block` calls it (literal `x3 = 0`: first reflector of a 2x2 block, last reflector of
    every block): `nr = 2`, `u2 = 0`, `(u0, u1)` unit, `(I − 2uuᵀ)(x1, x2)ᵀ = ρ‖x‖e₁` -/
theorem c08_refl_unit2 (hsq : ∀ x : K, 0 ≤ x → F.sqrt x * F.sqrt x = x ∧ 0 ≤ F.sqrt x) (hcut : cutoff F ≤ 0)
    (hmin : 0 < F.minPos) (u : Mat K) (nr : Array Nat) (x1 x2 : K) (ind : Nat)
    (hind : ind < nr.size) (hr : u.rows = 3) (hc : ind < u.cols) (hd : u.d.size = 3 * u.cols)
    (hx2 : ¬ |x2| < C08Refl.nz F) (u0 u1 u2 : K)
    (h0 : u0 = C08Refl.mget F (C08Refl.cRef F u nr x1 x2 0 ind).1 0 ind)
    (h1 : u1 = C08Refl.mget F (C08Refl.cRef F u nr x1 x2 0 ind).1 1 ind)
    (h2 : u2 = C08Refl.mget F (C08Refl.cRef F u nr x1 x2 0 ind).1 2 ind) :
    (C08Refl.cRef F u nr x1 x2 0 ind).2.getD ind 0 = 2 ∧ u2 = 0 ∧ u0 * u0 + u1 * u1 = 1 ∧
    x2 - 2 * (u0 * x1 + u1 * x2) * u1 = 0 ∧
    ∃ N : K, 0 < N ∧ N * N = x1 * x1 + x2 * x2 ∧ x1 - 2 * (u0 * x1 + u1 * x2) * u0 = (if x1 ≤ 0 then 1 else -1) * N := by
  obtain ⟨a, b, c, d, _, e⟩ := C08Refl.reflector_unit2 F hsq hcut hmin u nr x1 x2 ind hind hr hc hd hx2 u0 u1 u2 h0 h1 h2
  exact ⟨a, b, c, d, e⟩

/-- a unit reflector `P = I − 2uuᵀ` is an involution and an isometry (any commutative ring), and the two expression forms the
    class uses for `P x` (`tmp = 2u₀x₀ + 2u₁x₁ + 2u₂x₂` in the matrix loops, `dot2 = 2(x₀u₀ + x₁u₁ + x₂u₂)` on vectors) agree -/
theorem c08_refl_orthogonal {R : Type} [CommRing R] (u0 u1 u2 x0 x1 x2 y0 y1 y2 : R) (hu : u0 * u0 + u1 * u1 + u2 * u2 = 1) :
    C08Refl.refl3 u0 u1 u2 (C08Refl.refl3 u0 u1 u2 x0 x1 x2).1 (C08Refl.refl3 u0 u1 u2 x0 x1 x2).2.1
      (C08Refl.refl3 u0 u1 u2 x0 x1 x2).2.2 = (x0, x1, x2) ∧
    (C08Refl.refl3 u0 u1 u2 x0 x1 x2).1 * (C08Refl.refl3 u0 u1 u2 y0 y1 y2).1 +
      (C08Refl.refl3 u0 u1 u2 x0 x1 x2).2.1 * (C08Refl.refl3 u0 u1 u2 y0 y1 y2).2.1 +
      (C08Refl.refl3 u0 u1 u2 x0 x1 x2).2.2 * (C08Refl.refl3 u0 u1 u2 y0 y1 y2).2.2 = x0 * y0 + x1 * y1 + x2 * y2 ∧
    (x0 - (2 * u0 * x0 + 2 * u1 * x1 + 2 * u2 * x2) * u0, x1 - (2 * u0 * x0 + 2 * u1 * x1 + 2 * u2 * x2) * u1,
      x2 - (2 * u0 * x0 + 2 * u1 * x1 + 2 * u2 * x2) * u2) =
    (x0 - 2 * (x0 * u0 + x1 * u1 + x2 * u2) * u0, x1 - 2 * (x0 * u0 + x1 * u1 + x2 * u2) * u1,
      x2 - 2 * (x0 * u0 + x1 * u1 + x2 * u2) * u2) := by
  refine ⟨C08Refl.reflector_involution u0 u1 u2 x0 x1 x2 hu, C08Refl.reflector_isometry u0 u1 u2 x0 x1 x2 y0 y1 y2 hu, ?_⟩
  rw [(C08Refl.reflector_apply_forms u0 u1 u2 x0 x1 x2).1, (C08Refl.reflector_apply_forms u0 u1 u2 x0 x1 x2).2]

/-
  KNOWN FINDING C08-F1 (known_findings/C08.json; witness replayed on the real class on every run by harness/c08.cpp, pattern
  `fixed-tiny-scale`).  Full-strength clause of the property for DoubleShiftQR:

      ∀ H (upper Hessenberg, finite), s, t :  ‖matrix_QtHQ − QᵀHQ‖ ≤ c·n·eps·(‖H‖ + |s|),
      "including matrices with zero or negligible subdiagonal entries … entries near overflow/underflow thresholds".

  It is FALSE of the unchanged tree for matrices whose subdiagonal entries are below `min()·10·n/eps` (≈ n·1e-291 for double,
  ≈ n·1e-30 for float) in absolute value: `compute` zeroes them whatever `‖H‖` is (the LAPACK `dlahqr` criterion), so for
  `H = 1e-295·[1 2 3; 4 5 6; 0 7 8]` the returned matrix is the upper triangle of `H`, at distance 7e-295 = O(‖H‖) from `QᵀHQ`.
  The theorem below is the mechanism, proved on the model for every `H`; the whole-matrix similarity theorem
  `c08_dsqr_similarity_partial` (section 7) makes the dropped entries explicit instead of excluding them:
  `matrix_QtHQ = Qᵀ (Hm − D₁) Q − D₂` with `D₁`, `D₂` supported on the subdiagonal entries that pass the (absolute or relative)
  deflation test; the oracle evaluates the clause on inputs with `‖H‖ ≥ 1e-140`.
-/
/-- the first pass of `DoubleShiftQR::compute` replaces a subdiagonal entry with `|h| ≤ eps_abs` by an exact zero and starts a
    new block there, for EVERY value of the neighbouring diagonal entries (an absolute, not a relative, test) -/
theorem c08_dsqr_abs_deflation (H : Mat K) (hw : C08Mat.WF H) (n : Nat) (hr : H.rows = n) (hc : H.cols = n) (zi : Array Nat)
    (epsAbs : K) (i : Nat) (hi : i + 1 < n) (hsmall : |mget F H (i + 1) i| ≤ epsAbs) :
    mget F (@DoubleShiftQR.splitStep K _ _ (scOfField F) n epsAbs (H, zi) i).1 (i + 1) i = 0 ∧
    (@DoubleShiftQR.splitStep K _ _ (scOfField F) n epsAbs (H, zi) i).2 = zi.push (i + 1) :=
  C08Finding.abs_deflation F H hw n hr hc zi epsAbs i hi hsmall

end refl

/-! ### (6) the property in Mathlib `Matrix` language (UpperHessenbergQR), TridiagQR whole-loop facts, DoubleShiftQR "same Q" -/

section matrix
open Lin C08Hess C08HessMatrix Matrix

/-- THE PROPERTY FOR UpperHessenbergQR IN EXACT ARITHMETIC, as statements about Mathlib matrices.  With
    `Q := G₀ G₁ ⋯ G_{n−2}` (`Gₖ` = the stored plane rotation `[c s; −s c]` at rows/columns `k, k+1`), `R := matrix_R`,
    `Hm` := the upper Hessenberg part of the input, `T := matrix_QtHQ`:
      `QᵀQ = 1 = QQᵀ`,  `Q R = Hm − s·1`,  `R` upper triangular,  `T = R Q + s·1`,  `T = Qᵀ Hm Q`,  `T` upper Hessenberg —
    for every size `n`, every input matrix, every shift.
    Full-strength clause: the same identities up to `c·n·eps·(‖H‖+|s|)` in IEEE arithmetic, including the series branch — not
    proved (rounding); hence `_partial` -/
theorem c08_hqr_matrix_partial (hsqrt : ∀ x : K, 0 ≤ x → F.sqrt x * F.sqrt x = x ∧ 0 ≤ F.sqrt x) (hcut : cutoff F ≤ 0)
    (mat : Mat K) (hw : C08Mat.WF mat) (hsq : mat.cols = mat.rows) (shift : K) :
    let n := mat.rows
    let Q : Matrix (Fin n) (Fin n) K := Qof F (hqr F mat shift)
    let R : Matrix (Fin n) (Fin n) K := toM F n n (hqr F mat shift).R
    let Hm : Matrix (Fin n) (Fin n) K := toM F n n (Mat.ofFn n n (fun i j => if i ≤ j + 1 then C08Hess.mget F mat i j else 0))
    let T : Matrix (Fin n) (Fin n) K := toM F n n (QtHQ F (hqr F mat shift))
    (Qᵀ * Q = 1 ∧ Q * Qᵀ = 1) ∧ Q * R = Hm - shift • (1 : Matrix (Fin n) (Fin n) K) ∧
    (∀ i j : Fin n, j < i → R i j = 0) ∧ T = R * Q + shift • (1 : Matrix (Fin n) (Fin n) K) ∧
    T = Qᵀ * Hm * Q ∧ (∀ i j : Fin n, j.val + 1 < i.val → T i j = 0) :=
  hqr_matrix F hsqrt hcut mat hw hsq shift

/-- `c08_hqr_apply`: EVERY apply method multiplies by exactly that `Q` / `Qᵀ` from the stated side — for every stored rotation
    table (no hypothesis at all on `cos`/`sin`: exact, unconditional), matrix and vector overloads -/
theorem c08_hqr_apply (q : UpperHessenbergQR K) {m : Nat} {Y Z : Mat K} (hw : C08Mat.WF Y) (hr : Y.rows = q.n) (hc : Y.cols = m)
    (hwz : C08Mat.WF Z) (hrz : Z.rows = m) (hcz : Z.cols = q.n) (y : Vec K) (hy : y.size = q.n) :
    toM F q.n m (QYm F q Y) = Qof F q * toM F q.n m Y ∧
    toM F q.n m (QtYm F q Y) = (Qof F q)ᵀ * toM F q.n m Y ∧
    toM F m q.n (YQm F q Z) = toM F m q.n Z * Qof F q ∧
    toM F m q.n (YQtm F q Z) = toM F m q.n Z * (Qof F q)ᵀ ∧
    (fun i : Fin q.n => vgt F (QYv F q y) i.val) = (Qof F q).mulVec (fun i : Fin q.n => vgt F y i.val) ∧
    (fun i : Fin q.n => vgt F (QtYv F q y) i.val) = (Qof F q)ᵀ.mulVec (fun i : Fin q.n => vgt F y i.val) :=
  ⟨apply_QY_mat_toM F q hw hr hc, apply_QtY_mat_toM F q hw hr hc, apply_YQ_toM F q hwz hrz hcz, apply_YQt_toM F q hwz hrz hcz,
   apply_QY_vec F q y hy, apply_QtY_vec F q y hy⟩

end matrix

section tridiag_whole
open Lin

/-- `c08_tqr_factor` (exact arithmetic, all n): with `T̃` the symmetric tridiagonal matrix of the stored diagonal and (deflated)
    subdiagonal, `Qᵀ (T̃ − sI) = R` and `Q R = T̃ − sI` as equalities of matrices (`Qᵀ·`, `Q·` = the inherited `apply_QtY`,
    `apply_QY`; `R = matrix_R` assembled from the three stored bands), and every stored rotation has `c² + s² = 1` -/
theorem c08_tqr_factor_partial (hsqrt : ∀ x : K, 0 ≤ x → F.sqrt x * F.sqrt x = x ∧ 0 ≤ F.sqrt x) (hcut : cutoff F ≤ 0)
    (mat : Mat K) (shift : K) :
    @UpperHessenbergQR.apply_QtY_mat K _ _ _ (scOfField F) (@TridiagQR.toHess K (scOfField F) (tqr F mat shift))
        (C08TridiagQ.Tshift F mat.rows (tqr F mat shift).T_diag (tqr F mat shift).T_subd shift) =
      @TridiagQR.matrix_R K (scOfField F) (tqr F mat shift) ∧
    @UpperHessenbergQR.apply_QY_mat K _ _ _ (scOfField F) (@TridiagQR.toHess K (scOfField F) (tqr F mat shift))
        (@TridiagQR.matrix_R K (scOfField F) (tqr F mat shift)) =
      C08TridiagQ.Tshift F mat.rows (tqr F mat shift).T_diag (tqr F mat shift).T_subd shift ∧
    (∀ i, i < mat.rows - 1 → vecget F (tqr F mat shift).cos i * vecget F (tqr F mat shift).cos i +
        vecget F (tqr F mat shift).sin i * vecget F (tqr F mat shift).sin i = 1) :=
  ⟨C08TridiagQ.tqr_factor_eq F hsqrt hcut mat shift, C08TridiagQ.tqr_QR_eq F hsqrt hcut mat shift,
   fun i hi => C08TridiagQ.tqr_rot_orth F hsqrt hcut mat shift i hi⟩

/-- the assumption hidden in TridiagQR::matrix_QtHQ ("o'' = 0") is a THEOREM for ideal rotations: the bulge
    `sin[i+1]·y' + cos[i+1]·o'` that step `i` drops is exactly zero, for every n, T, shift; and the subdiagonal the rotation loop
    produces is `−sᵢ · R(i+1,i+1)`, the `(i+1, i)` entry of `R Q` -/
theorem c08_tqr_bulge_zero_partial (hsqrt : ∀ x : K, 0 ≤ x → F.sqrt x * F.sqrt x = x ∧ 0 ≤ F.sqrt x) (hcut : cutoff F ≤ 0)
    (mat : Mat K) (shift : K) :
    (∀ i, i + 2 < mat.rows →
      vecget F (tqr F mat shift).sin (i + 1) *
        (C08Local.qloc F (vecget F (tqr F mat shift).cos i) (vecget F (tqr F mat shift).sin i)
          (vecget F (C08TridiagQ.qthqAt F (tqr F mat shift) i).1 i) (vecget F (C08TridiagQ.qthqAt F (tqr F mat shift) i).2 i)
          (vecget F (C08TridiagQ.qthqAt F (tqr F mat shift) i).1 (i + 1))).2.1 +
      vecget F (tqr F mat shift).cos (i + 1) * (-(vecget F (tqr F mat shift).sin i) * vecget F (tqr F mat shift).T_subd (i + 1)) = 0) ∧
    (∀ i, i < mat.rows - 1 → vecget F (C08Tridiag.qthqRaw F (tqr F mat shift)).2 i =
      -(vecget F (tqr F mat shift).sin i) * vecget F (tqr F mat shift).R_diag (i + 1)) :=
  ⟨fun i hi => C08TridiagQ.tqr_bulge_zero F hsqrt hcut mat shift i hi,
   fun i hi => C08TridiagQ.tqr_qthq_subdiag F hsqrt hcut mat shift i hi⟩

end tridiag_whole

section tridiag_matrix
open Lin C08HessMatrix C08TridiagMatrix Matrix

/-- THE PROPERTY FOR TridiagQR IN EXACT ARITHMETIC, as statements about Mathlib matrices.  With `q = compute mat shift`,
    `Q := G₀ ⋯ G_{n−2}` (stored rotations), `R := matrix_R`, `Tm` := the symmetric tridiagonal matrix of the stored diagonal and
    (deflated) subdiagonal, `T := matrix_QtHQ`, `B` := what `matrix_QtHQ` holds before its final deflation pass, `Δ` := the
    symmetric matrix of the sub/superdiagonal entries that pass drops (each with `|e| ≤ eps (|dᵢ| + |dᵢ₊₁|)`):
      `QᵀQ = 1 = QQᵀ`,  `Q R = Tm − s·1`,  `R` upper triangular with upper bandwidth 2,  `Qᵀ Tm Q = R Q + s·1`,
      `B = Qᵀ Tm Q`  (the closed formulas formed from `T` directly, with the bulge dropped, ARE the similarity transform),
      `T = Qᵀ Tm Q − Δ`,  `Δᵀ = Δ` — for every size, input, shift.
    Full-strength clause: the same up to `c·n·eps·(‖T‖+|s|)` in IEEE arithmetic — not proved (rounding); hence `_partial` -/
theorem c08_tqr_matrix_partial (hsqrt : ∀ x : K, 0 ≤ x → F.sqrt x * F.sqrt x = x ∧ 0 ≤ F.sqrt x) (hcut : cutoff F ≤ 0)
    (mat : Mat K) (shift : K) :
    let n := mat.rows
    let q := C08TridiagMatrix.tqr F mat shift
    let Q : Matrix (Fin n) (Fin n) K := Qof F (hessOf F q)
    let R : Matrix (Fin n) (Fin n) K := toM F n n (Rmat F q)
    let Tm : Matrix (Fin n) (Fin n) K := toM F n n (Mat.ofFn n n (fun i j =>
      if i = j then C08Hess.vgt F q.T_diag i else if i = j + 1 then C08Hess.vgt F q.T_subd j
      else if j = i + 1 then C08Hess.vgt F q.T_subd i else 0))
    let D := (C08Tridiag.qthqRaw F q).1
    let E := (C08Tridiag.qthqRaw F q).2
    let B : Matrix (Fin n) (Fin n) K :=
      toM F n n (@TridiagQR.bandMat K (scOfField F) n (C08Hess.vgt F E) (C08Hess.vgt F D) (C08Hess.vgt F E) (fun _ => 0))
    let T : Matrix (Fin n) (Fin n) K := toM F n n (TQtHQ F q)
    let Δ : Matrix (Fin n) (Fin n) K := dropMat F q
    (Qᵀ * Q = 1 ∧ Q * Qᵀ = 1) ∧
    Q * R = Tm - shift • (1 : Matrix (Fin n) (Fin n) K) ∧
    (∀ i j : Fin n, j < i → R i j = 0) ∧
    (∀ i j : Fin n, i.val + 2 < j.val → R i j = 0) ∧
    Qᵀ * Tm * Q = R * Q + shift • (1 : Matrix (Fin n) (Fin n) K) ∧
    B = Qᵀ * Tm * Q ∧
    (∀ i j : Fin n, T i j =
      if (i.val = j.val + 1 ∨ j.val = i.val + 1) ∧
          |C08Hess.vgt F E (min i.val j.val)| ≤
            F.eps * (|C08Hess.vgt F D (min i.val j.val)| + |C08Hess.vgt F D (min i.val j.val + 1)|) then 0
      else (Qᵀ * Tm * Q) i j) ∧
    (T = Qᵀ * Tm * Q - Δ ∧ Δᵀ = Δ) :=
  tqr_matrix F hsqrt hcut mat shift

/-- the six apply methods TridiagQR inherits multiply by exactly its `Q` / `Qᵀ` from the stated side, for every stored rotation
    table (unconditional) -/
theorem c08_tqr_apply (q : TridiagQR K) :
    (∀ y : Vec K, y.size = q.n →
      (fun i : Fin q.n => C08Hess.vgt F (@TridiagQR.apply_QY K _ _ _ (scOfField F) q y) i.val) =
        (TQ F q).mulVec (fun i : Fin q.n => C08Hess.vgt F y i.val)) ∧
    (∀ y : Vec K, y.size = q.n →
      (fun i : Fin q.n => C08Hess.vgt F (@TridiagQR.apply_QtY K _ _ _ (scOfField F) q y) i.val) =
        (TQ F q)ᵀ.mulVec (fun i : Fin q.n => C08Hess.vgt F y i.val)) ∧
    (∀ (m : Nat) (Y : Mat K), C08Mat.WF Y → Y.rows = q.n → Y.cols = m →
      toM F q.n m (@TridiagQR.apply_QY_mat K _ _ _ (scOfField F) q Y) = TQ F q * toM F q.n m Y) ∧
    (∀ (m : Nat) (Y : Mat K), C08Mat.WF Y → Y.rows = q.n → Y.cols = m →
      toM F q.n m (@TridiagQR.apply_QtY_mat K _ _ _ (scOfField F) q Y) = (TQ F q)ᵀ * toM F q.n m Y) ∧
    (∀ (m : Nat) (Y : Mat K), C08Mat.WF Y → Y.rows = m → Y.cols = q.n →
      toM F m q.n (@TridiagQR.apply_YQ K _ _ _ (scOfField F) q Y) = toM F m q.n Y * TQ F q) ∧
    (∀ (m : Nat) (Y : Mat K), C08Mat.WF Y → Y.rows = m → Y.cols = q.n →
      toM F m q.n (@TridiagQR.apply_YQt K _ _ _ (scOfField F) q Y) = toM F m q.n Y * (TQ F q)ᵀ) :=
  tqr_apply_matrix F q

end tridiag_matrix

section dsqr_whole
open Lin C08DsqrQ

/-- DoubleShiftQR applies the SAME `Q` from both sides, for every computed factorization (every n ≥ 2, H, s, t): row `a` of
    `apply_YQ(Y)` is `apply_QtY` of row `a` of `Y`, i.e. `Y Q` has rows `(Qᵀ yₐ)ᵀ`; and the first column of `Q`
    (`apply_YQ` of the identity) is the first column of the first reflector `P₀ = I − 2u₀u₀ᵀ` (`Q e₁ = P₀ e₁`) -/
theorem c08_dsqr_apply (hmin : 0 < F.minPos) (mat : Mat K) (s t : K) (hn : 2 ≤ mat.rows)
    {Y : Mat K} (hw : C08Mat.WF Y) (hc : Y.cols = mat.rows) (a b : Nat) (ha : a < Y.rows) (hb : b < mat.rows) :
    C08DsqrQ.mget F (aYQ F (comp F mat s t) Y) a b =
      C08DsqrQ.vgt F (aQtY F (comp F mat s t) (vofFn mat.rows (fun j => C08DsqrQ.mget F Y a j))) b :=
  compute_YQ_rows_eq_QtY F hmin mat s t hn hw hc a b ha hb

/-- `apply_QtY` is an isometry (sum of squares preserved) whenever the stored reflectors are unit vectors on their live rows
    (which `c08_refl_unit3` / `c08_refl_unit2` establish for each reflector `compute_reflector` stores in the standard branch) -/
theorem c08_dsqr_isometry_partial (hmin : 0 < F.minPos) (mat : Mat K) (s t : K) (hn : 1 ≤ mat.rows)
    (hunit : ∀ k, k < mat.rows - 1 →
      ((comp F mat s t).nr.getD k 0 = 2 →
        C08DsqrQ.mget F (comp F mat s t).u 0 k * C08DsqrQ.mget F (comp F mat s t).u 0 k +
        C08DsqrQ.mget F (comp F mat s t).u 1 k * C08DsqrQ.mget F (comp F mat s t).u 1 k = 1) ∧
      ((comp F mat s t).nr.getD k 0 = 3 →
        C08DsqrQ.mget F (comp F mat s t).u 0 k * C08DsqrQ.mget F (comp F mat s t).u 0 k +
        C08DsqrQ.mget F (comp F mat s t).u 1 k * C08DsqrQ.mget F (comp F mat s t).u 1 k +
        C08DsqrQ.mget F (comp F mat s t).u 2 k * C08DsqrQ.mget F (comp F mat s t).u 2 k = 1))
    (y : Vec K) (hy : y.size = mat.rows) :
    sqN F (aQtY F (comp F mat s t) y) = sqN F y :=
  compute_QtY_isometry F hmin mat s t hn hunit y hy

/-- if the unit reflector `P₀ = I − 2uuᵀ` maps `x = (m00, m10, m20)` to `κ e₁` (`c08_refl_unit3`) then `κ · P₀ e₁ = x`:
    together with `c08_dsqr_first_col` (x is the first column of `H² − sH + tI`) and `Q e₁ = P₀ e₁` this is
    "the first column of Q is parallel to (H² − sH + tI) e₁" -/
theorem c08_dsqr_first_col_parallel_local (u0 u1 u2 x1 x2 x3 κ : K) (hu : u0 * u0 + u1 * u1 + u2 * u2 = 1)
    (h1 : x1 - 2 * (u0 * x1 + u1 * x2 + u2 * x3) * u0 = κ)
    (h2 : x2 - 2 * (u0 * x1 + u1 * x2 + u2 * x3) * u1 = 0)
    (h3 : x3 - 2 * (u0 * x1 + u1 * x2 + u2 * x3) * u2 = 0) :
    κ * (1 - 2 * u0 * u0) = x1 ∧ κ * (-(2 * u0 * u1)) = x2 ∧ κ * (-(2 * u0 * u2)) = x3 :=
  C08Local.refl_first_col u0 u1 u2 x1 x2 x3 κ hu h1 h2 h3

end dsqr_whole

section dsqr_matrix
open Lin C08DsqrQ C08DsqrMatrix C08HessMatrix Matrix

/-- DoubleShiftQR in Mathlib `Matrix` language, for every computed factorization (every n ≥ 2, H, s, t; only `0 < min()`):
    with `Q := P₀ P₁ ⋯ P_{n−2}`, `Pₖ = I − 2uₖuₖᵀ` on the `nr[k]` live rows (`C08DsqrMatrix.Qdof`),
    `apply_YQ(Y) = Y·Q` and `apply_QtY(y) = Qᵀ·y` — the two apply methods multiply by exactly that `Q` / `Qᵀ` from the stated
    side; and `QᵀQ = 1 = QQᵀ` whenever every stored reflector is a unit vector on its live rows (which `c08_refl_unit3/2`
    prove for each reflector `compute_reflector` stores in the standard branch) -/
theorem c08_dsqr_matrix_apply (hmin : 0 < F.minPos) (mat : Mat K) (s t : K) (hn : 2 ≤ mat.rows) :
    (∀ (m : Nat) (Y : Mat K), C08Mat.WF Y → Y.rows = m → Y.cols = (comp F mat s t).n →
      toM F m (comp F mat s t).n (aYQ F (comp F mat s t) Y) = toM F m (comp F mat s t).n Y * Qdof F (comp F mat s t)) ∧
    (∀ y : Vec K, y.size = (comp F mat s t).n →
      (fun i : Fin (comp F mat s t).n => C08DsqrQ.vgt F (aQtY F (comp F mat s t) y) i.val) =
        (Qdof F (comp F mat s t))ᵀ.mulVec (fun i : Fin (comp F mat s t).n => C08DsqrQ.vgt F y i.val)) ∧
    ((∀ k, k < (comp F mat s t).n - 1 →
        ((comp F mat s t).nr.getD k 0 = 2 →
          C08DsqrQ.mget F (comp F mat s t).u 0 k * C08DsqrQ.mget F (comp F mat s t).u 0 k +
          C08DsqrQ.mget F (comp F mat s t).u 1 k * C08DsqrQ.mget F (comp F mat s t).u 1 k = 1) ∧
        ((comp F mat s t).nr.getD k 0 = 3 →
          C08DsqrQ.mget F (comp F mat s t).u 0 k * C08DsqrQ.mget F (comp F mat s t).u 0 k +
          C08DsqrQ.mget F (comp F mat s t).u 1 k * C08DsqrQ.mget F (comp F mat s t).u 1 k +
          C08DsqrQ.mget F (comp F mat s t).u 2 k * C08DsqrQ.mget F (comp F mat s t).u 2 k = 1)) →
      (Qdof F (comp F mat s t))ᵀ * Qdof F (comp F mat s t) = 1 ∧ Qdof F (comp F mat s t) * (Qdof F (comp F mat s t))ᵀ = 1) := by
  have hsafe := compute_safe F hmin mat s t (by omega)
  have hn' : 2 ≤ (comp F mat s t).n := hn
  exact ⟨fun m Y hw hr hc => C08DsqrMatrix.apply_YQ_toM F _ hn' hsafe hw hr hc,
         fun y hy => C08DsqrMatrix.apply_QtY_vec F _ hn' hsafe y hy,
         fun hunit => Qd_orth F _ hn' hsafe hunit⟩

/-- `c08_dsqr_first_col` for the COMPUTED factorization (exact arithmetic; every n ≥ 3, H, s, t with a first block of size ≥ 3,
    i.e. the first two subdiagonal entries are not deflated, and `|m20| ≥ near_0`): the matrix the class works on is upper
    Hessenberg, the first reflector has three rows, and the first column of `Q` is parallel to `(H² − sH + tI)e₁`:
    `κ · Q e₁ = (H² − sH + tI) e₁` with `κ ≠ 0`, `κ² = ‖(m00, m10, m20)‖²`.
    Full-strength clause: for every double shift, up to rounding, including 2x2 / 1x1 first blocks (the 2-row local statement is
    `C08DsqrMatrix.first_col_parallel2`; a 1x1 first block gives `Q e₁ = e₁` and `(H²−sH+tI)e₁ ∥ e₁` trivially) -/
theorem c08_dsqr_first_col_parallel_partial (hsq : ∀ x : K, 0 ≤ x → F.sqrt x * F.sqrt x = x ∧ 0 ≤ F.sqrt x)
    (hcut : cutoff F ≤ 0) (hmin : 0 < F.minPos) (mat : Mat K) (s t : K) {n' : Nat} (hrows : mat.rows = n' + 3)
    (hd0 : dfl F (epsA F mat) mat 0 = false) (hd1 : dfl F (epsA F mat) mat 1 = false)
    (hbig : ¬ |C08Local.fc2 F (C08DsqrQ.mget F mat 2 1) (C08DsqrQ.mget F mat 1 0)| < C08Refl.nz F) :
    (∀ i j : Fin (n' + 3), j.val + 1 < i.val → toM F (n' + 3) (n' + 3) (C08Nr.st0 F mat).1 i j = 0) ∧
    (comp F mat s t).nr.getD 0 0 = 3 ∧
    ∃ κ : K, κ ≠ 0 ∧
      ∀ i : Fin (comp F mat s t).n,
        κ * Qdof F (comp F mat s t) i ⟨0, by show 0 < mat.rows; omega⟩ =
          (toM F (n' + 3) (n' + 3) (C08Nr.st0 F mat).1 * toM F (n' + 3) (n' + 3) (C08Nr.st0 F mat).1 -
            s • toM F (n' + 3) (n' + 3) (C08Nr.st0 F mat).1 +
            t • (1 : Matrix (Fin (n' + 3)) (Fin (n' + 3)) K)) (Fin.cast hrows i) 0 := by
  obtain ⟨h1, h2, κ, hκ, _, h4⟩ := compute_first_col_parallel' F hsq hcut hmin mat s t hrows hd0 hd1 hbig
  exact ⟨h1, h2, κ, hκ, h4⟩

end dsqr_matrix

/-! ### (7) DoubleShiftQR: the similarity transform as a whole-matrix theorem -/

section dsqr_similarity
open Lin C08DsqrQ C08DsqrMatrix C08DsqrSim C08HessMatrix Matrix

/-
  THE SIMILARITY CLAUSE FOR DoubleShiftQR, full strength:

      ∀ n ≥ 3, ∀ H upper Hessenberg (finite), ∀ s t :   Q orthogonal,  ‖matrix_QtHQ − QᵀHQ‖ ≤ c·n·eps·(‖H‖ + |s|),
      matrix_QtHQ upper Hessenberg,   in IEEE arithmetic, including zero / negligible subdiagonal entries.

  What is proved below is its exact-arithmetic content for EVERY size n ≥ 1, every input matrix (hence every deflation pattern and
  block split: blocks of size 1, 2 and ≥ 3, the whole bulge chase), all shifts, with the entries `compute` drops made explicit:

      matrix_QtHQ = Qᵀ (Hm − D₁) Q − D₂,    QᵀQ = QQᵀ = 1,    Qᵀ (Hm − D₁) Q and matrix_QtHQ upper Hessenberg with EXACT zeros,

  `Q = P₀ P₁ ⋯ P_{n−2}` the SAME matrix `apply_YQ` / `apply_QtY` multiply by (`c08_dsqr_matrix_apply`), `Hm` the upper Hessenberg
  part of the argument (`compute` ignores the rest), `D₁` / `D₂` supported on the subdiagonal positions whose entry `h` of `Hm` /
  of `Qᵀ (Hm − D₁) Q` passes the deflation test `|h| ≤ eps_abs ∨ |h| ≤ eps (|d₀| + |d₁|)`, `eps_abs = m_near_0 · (n / eps)`.
  It is `_partial` because of three hypotheses:
    * `hsq`, `hcut` (exact square root, series branch of `stable_scaling` disabled): the rounding part of the clause is not proved;
    * `hex : RunExact F mat s t`: NO argument `x2` / `x3` of any `compute_reflector` call made by `compute` lies in the underflow
      window `0 < |x| < m_near_0 = 10·min()`.  Inside that window the real code (and the model) treats the argument as zero
      without making it zero: it stores a non-unit 2-row reflector or the identity and leaves a nonzero entry below the
      subdiagonal that later reflectors never see, so neither `QᵀQ = 1` nor the similarity nor the Hessenberg shape hold EXACTLY
      (the defect is `O(m_near_0)`, i.e. it belongs to the rounding part and to known finding C08-F1's regime `‖H‖ ≈ min()/eps`).
      For IEEE inputs with `‖H‖ ≥ 1e-140` the window is never entered except by exact zeros.
  The implicit-Q statement (first column of `Q` parallel to `(H² − sH + tI) e₁`) is `c08_dsqr_first_col_parallel_partial`.
-/

/-- whole-matrix similarity of `DoubleShiftQR::compute` (exact arithmetic, all n, all inputs, all shifts, all deflation patterns) -/
theorem c08_dsqr_similarity_partial (hsq : ∀ x : K, 0 ≤ x → F.sqrt x * F.sqrt x = x ∧ 0 ≤ F.sqrt x) (hcut : cutoff F ≤ 0)
    (hmin : 0 < F.minPos) (mat : Mat K) (s t : K) (hn : 1 ≤ mat.rows) (hex : RunExact F mat s t) :
    let n := mat.rows
    let q := comp F mat s t
    let Q : Matrix (Fin n) (Fin n) K := Qdof F q
    let e : K := epsA F mat
    let Hm : Matrix (Fin n) (Fin n) K := hessPart F mat
    let D₁ : Matrix (Fin n) (Fin n) K := dropOf F e Hm
    let B : Matrix (Fin n) (Fin n) K := Qᵀ * (Hm - D₁) * Q
    let D₂ : Matrix (Fin n) (Fin n) K := dropOf F e B
    let T : Matrix (Fin n) (Fin n) K := toM F n n (DoubleShiftQR.matrix_QtHQ q)
    (Qᵀ * Q = 1 ∧ Q * Qᵀ = 1) ∧
    T = B - D₂ ∧
    (∀ i j : Fin n, j.val + 1 < i.val → B i j = 0) ∧
    (∀ i j : Fin n, j.val + 1 < i.val → T i j = 0) ∧
    -- what `Hm`, `D₁`, `D₂` are
    (∀ i j : Fin n, Hm i j = if i.val ≤ j.val + 1 then C08DsqrQ.mget F mat i.val j.val else 0) ∧
    (∀ i j : Fin n, D₁ i j =
      if i.val = j.val + 1 ∧ (|Hm i j| ≤ e ∨ |Hm i j| ≤ F.eps * (|Hm j j| + |Hm i i|)) then Hm i j else 0) ∧
    (∀ i j : Fin n, D₂ i j =
      if i.val = j.val + 1 ∧ (|B i j| ≤ e ∨ |B i j| ≤ F.eps * (|B j j| + |B i i|)) then B i j else 0) := by
  intro n q Q e Hm D₁ B D₂ T
  obtain ⟨h1, h2, h3, h4⟩ := dsqr_similarity F hsq hcut hmin mat s t hn hex Q B rfl rfl
  exact ⟨h1, h2, h3, h4, fun _ _ => rfl, fun _ _ => rfl, fun _ _ => rfl⟩

/-- corollary: when neither pass drops an entry (`D₁ = 0`, `D₂ = 0`), `matrix_QtHQ = Qᵀ Hm Q` EXACTLY with `Q` orthogonal — an
    orthogonal similarity, so the characteristic polynomial (hence every eigenvalue with its multiplicity) is preserved — and the
    result is upper Hessenberg again -/
theorem c08_dsqr_similarity_nodrop_partial (hsq : ∀ x : K, 0 ≤ x → F.sqrt x * F.sqrt x = x ∧ 0 ≤ F.sqrt x)
    (hcut : cutoff F ≤ 0) (hmin : 0 < F.minPos) (mat : Mat K) (s t : K) (hn : 1 ≤ mat.rows) (hex : RunExact F mat s t)
    (hd1 : ∀ i j : Fin mat.rows, i.val = j.val + 1 →
      ¬ (|hessPart F mat i j| ≤ epsA F mat ∨
         |hessPart F mat i j| ≤ F.eps * (|hessPart F mat j j| + |hessPart F mat i i|)))
    (Q : Matrix (Fin mat.rows) (Fin mat.rows) K) (hQ : Q = Qdof F (comp F mat s t))
    (hd2 : ∀ i j : Fin mat.rows, i.val = j.val + 1 →
      ¬ (|(Qᵀ * hessPart F mat * Q) i j| ≤ epsA F mat ∨
         |(Qᵀ * hessPart F mat * Q) i j| ≤
           F.eps * (|(Qᵀ * hessPart F mat * Q) j j| + |(Qᵀ * hessPart F mat * Q) i i|))) :
    let n := mat.rows
    let Hm : Matrix (Fin n) (Fin n) K := hessPart F mat
    let T : Matrix (Fin n) (Fin n) K := toM F n n (DoubleShiftQR.matrix_QtHQ (comp F mat s t))
    (Qᵀ * Q = 1 ∧ Q * Qᵀ = 1) ∧ T = Qᵀ * Hm * Q ∧ T.charpoly = Hm.charpoly ∧
    (∀ i j : Fin n, j.val + 1 < i.val → T i j = 0) := by
  intro n Hm T
  have z1 : dropOf F (epsA F mat) Hm = 0 := by
    ext i j
    rw [dropOf_apply, Matrix.zero_apply]
    by_cases h : i.val = j.val + 1
    · rw [if_neg (fun hh => hd1 i j h hh.2)]
    · rw [if_neg (fun hh => h hh.1)]
  have z2 : dropOf F (epsA F mat) (Qᵀ * Hm * Q) = 0 := by
    ext i j
    rw [dropOf_apply, Matrix.zero_apply]
    by_cases h : i.val = j.val + 1
    · rw [if_neg (fun hh => hd2 i j h hh.2)]
    · rw [if_neg (fun hh => h hh.1)]
  obtain ⟨h1, h2, _, h4⟩ := dsqr_similarity F hsq hcut hmin mat s t hn hex Q _ hQ rfl
  rw [z1, sub_zero, z2, sub_zero] at h2
  refine ⟨h1, h2, ?_, h4⟩
  show (toM F n n (comp F mat s t).H).charpoly = Hm.charpoly
  rw [h2, Matrix.mul_assoc, Matrix.charpoly_mul_comm, Matrix.mul_assoc, h1.2, Matrix.mul_one]

/-- `RunExact` holds on runs that really store a reflector: for EVERY 2 × 2 input whose subdiagonal entry is not deflated and whose
    `m10 = h₁₀ (h₀₀ + h₁₁ − s)` is not below `m_near_0`, `compute` makes exactly one `compute_reflector(m00, m10, 0)` call -/
theorem c08_dsqr_runexact_two (hmin : 0 < F.minPos) (mat : Mat K) (s t : K) (h2 : mat.rows = 2)
    (hd : dfl F (epsA F mat) mat 0 = false)
    (hbig : ¬ |C08DsqrQ.mget F mat 1 0 * (C08DsqrQ.mget F mat 0 0 + C08DsqrQ.mget F mat 1 1 - s)| < C08Refl.nz F) :
    RunExact F mat s t :=
  runExact_two F hmin mat s t h2 hd hbig

end dsqr_similarity

/-! ### (8) argument buffers and object reuse: the helpers' answers do not depend on what their arguments / the object held before

  (a) closed facts about the footprint `Gen.QRBuf`, regenerated from the clang AST of the three classes on every run (how each
      method ADDRESSES its matrix / vector arguments), decided by the kernel;
  (b) for every scalar type and every `Sc` instance (so for `Float` and for exact arithmetic alike), every old object, every
      junk value and every input: `compute()` on an object that already holds a factorization builds the object a fresh
      `compute()` builds (UpperHessenbergQR, TridiagQR); for DoubleShiftQR, whose reflector store keeps stale columns, every
      query answers as on a fresh object.
  The real classes are checked bit for bit against these statements by harness/c08.cpp (destination states, views with an outer
  stride, reuse histories incl. `hqrh|tqrh|dsqrh` correspondence requests answered by the models' `recompute`). -/

section buffers
open Gen.QRBuf C08Buf

/-- `matrix_QtHQ(dest)` of every class (the only methods with an owning matrix output parameter: exactly these four) gives
    `dest` its size and EVERY entry a value, unconditionally, before anything else is done with it: the first use of `dest` is
    either the whole-object assignment `dest.noalias() = M` (Eigen resizes the destination) or `dest.resize(m_n, m_n)` followed
    at once by `dest.setZero()` / a whole-object assignment — under no `if`, in no loop.  So the band writes that follow cannot
    leave stale off-band entries, whatever size and contents the caller's matrix had. -/
theorem c08_dest_initialised :
    destMethods = [("UpperHessenbergQR", "matrix_QtHQ(Matrix &)"), ("TridiagQR", "matrix_QtHQ(Matrix &)"),
                   ("TridiagQR", "matrix_QtHQ(ComplexMatrix &)"), ("DoubleShiftQR", "matrix_QtHQ(Matrix &)")] ∧
    (∀ m ∈ destMethods, destInit (usesOf m.1 m.2) = true) := by
  decide

/-- every `apply_*` of UpperHessenbergQR (all six; TridiagQR declares none of its own: it inherits them) and
    `DoubleShiftQR::apply_YQ` address an `Eigen::Ref` argument ONLY through accessors that take its outer stride into account
    (`rows/cols/row/col/coeff/coeffRef/block`, or ask for the stride itself: `outerStride/innerStride`), never through `data()`; the only raw pointers taken in them are the column starts
    `&Y.coeffRef(0, i)`, `&Y.coeffRef(0, i + 1)` of `apply_YQ` (walked inside ONE column, where the inner stride is 1);
    `Vector&` arguments (owning, contiguous) are addressed by `[]` / `data()`.  The two private DoubleShiftQR helpers that do
    walk `X.data()` take the stride as an explicit argument: `c08_dsqr_stride_calls`. -/
theorem c08_apply_stride_aware :
    (∀ u ∈ uses, u.ptype = "GenericMatrix" → isStrideHelper u = false → strideAware u.member = true) ∧
    (∀ u ∈ uses, u.ptype = "Vector &" → u.member = "[]" ∨ u.member = "data") ∧
    ptrAssigns.filter (fun p => p.1 == "UpperHessenbergQR" && hqrApplySigs.contains p.2.1) =
      [("UpperHessenbergQR", "apply_YQ(GenericMatrix)", "Y_col_i", "&Y.coeffRef(0, i)"),
       ("UpperHessenbergQR", "apply_YQ(GenericMatrix)", "Y_col_i1", "&Y.coeffRef(0, i + 1)")] ∧
    (qrMethods.filter (fun m => m.1 == "UpperHessenbergQR" && (m.2.take 6).toString == "apply_")).map (·.2) = hqrApplySigs ∧
    qrMethods.filter (fun m => m.1 == "TridiagQR") =
      [("TridiagQR", "compute(ConstGenericMatrix &, const Scalar &)"), ("TridiagQR", "matrix_R()"),
       ("TridiagQR", "matrix_QtHQ(Matrix &)"), ("TridiagQR", "matrix_QtHQ(ComplexMatrix &)")] := by
  decide

/-- the pointer-walking helpers `DoubleShiftQR::apply_PX/apply_XP(X, stride, ind)` step from column to column by `stride` only,
    and at every call site the stride argument belongs to the matrix the block is taken from: `m_n` for blocks of the owning
    `m_n × m_n` member `m_mat_H` (eight calls in `update_block`); for the blocks of the caller's `Y` in `apply_YQ` either
    `Y.outerStride()` or `Y.rows()`.
    KNOWN FINDING C08-F2: the unchanged tree passes `Y.rows()`, which is the distance between columns only for a plain matrix;
    for a view with a larger outer stride (`B.topRows(k)`, a block of a workspace, a strided Map) `apply_YQ` computes a wrong
    product and writes outside the view (harness: `dsqr-view-apply_YQ`).  The one-line repair `Y.outerStride()` keeps this theorem. -/
theorem c08_dsqr_stride_calls :
    (∀ c ∈ strideCalls, (c.2.2.2.1 = "m_mat_H" ∧ c.2.2.2.2 = "m_n") ∨
       (c.2.1 = "apply_YQ(GenericMatrix)" ∧ c.2.2.2.1 = "Y" ∧ (c.2.2.2.2 = "Y.outerStride()" ∨ c.2.2.2.2 = "Y.rows()"))) ∧
    ptrAssigns.filter (fun p => p.1 == "DoubleShiftQR" && (p.2.1 == "apply_PX(GenericMatrix, Index, Index)" || p.2.1 == "apply_XP(GenericMatrix, Index, Index)")) =
      [("DoubleShiftQR", "apply_PX(GenericMatrix, Index, Index)", "xptr", "X.data()"),
       ("DoubleShiftQR", "apply_PX(GenericMatrix, Index, Index)", "xptr", "+=stride"),
       ("DoubleShiftQR", "apply_PX(GenericMatrix, Index, Index)", "xptr", "+=stride"),
       ("DoubleShiftQR", "apply_XP(GenericMatrix, Index, Index)", "X0", "X.data()"),
       ("DoubleShiftQR", "apply_XP(GenericMatrix, Index, Index)", "X1", "X0 + stride"),
       ("DoubleShiftQR", "apply_XP(GenericMatrix, Index, Index)", "X2", "X1 + stride")] := by
  decide

/-- `compute()` of each class (re)sizes every array member it writes and assigns the whole-object members UNCONDITIONALLY (under
    no `if`, in no loop), exactly as the models' `recompute` assume: a resize moved into an `if (size changed)` block, a dropped
    or added (re)initialisation changes this table. -/
theorem c08_compute_resets :
    (∀ r ∈ computeResets, r.2.2.2.2.2.1 = "" ∧ r.2.2.2.2.2.2 = false) ∧
    computeResets.map (fun r => (r.1, r.2.2.1, r.2.2.2.1, r.2.2.2.2.1)) =
      [("UpperHessenbergQR", "m_mat_R", "resize", "m_n, m_n"), ("UpperHessenbergQR", "m_rot_cos", "resize", "m_n - 1"),
       ("UpperHessenbergQR", "m_rot_sin", "resize", "m_n - 1"), ("UpperHessenbergQR", "m_mat_R", "noalias=", "mat"),
       ("TridiagQR", "m_rot_cos", "resize", "m_n - 1"), ("TridiagQR", "m_rot_sin", "resize", "m_n - 1"),
       ("TridiagQR", "m_T_diag", "resize", "m_n"), ("TridiagQR", "m_T_subd", "resize", "m_n - 1"),
       ("TridiagQR", "m_T_diag", "noalias=", "mat.diagonal()"), ("TridiagQR", "m_T_subd", "noalias=", "mat.diagonal(-1)"),
       ("TridiagQR", "m_R_diag", "resize", "m_n"), ("TridiagQR", "m_R_supd", "resize", "m_n - 1"),
       ("TridiagQR", "m_R_supd2", "resize", "m_n - 2"), ("TridiagQR", "m_R_supd", "noalias=", "m_T_subd"),
       ("DoubleShiftQR", "m_mat_H", "resize", "m_n, m_n"), ("DoubleShiftQR", "m_ref_u", "resize", "3, m_n"),
       ("DoubleShiftQR", "m_ref_nr", "resize", "m_n"), ("DoubleShiftQR", "m_mat_H", "noalias=", "mat")] := by
  decide

end buffers

section reuse
variable {α : Type} [Add α] [Sub α] [Mul α] [Div α] [Neg α] [Sc α]

/-- object reuse, UpperHessenbergQR: for EVERY object `old` (whatever factorization, of whatever size, it holds), every value
    `junk` of freshly reallocated storage, every input and shift — `old.compute(mat, shift)` leaves exactly the object
    `UpperHessenbergQR(mat, shift)` constructs: `m_mat_R` is assigned as a whole and each of the `n − 1` entries of the resized
    `m_rot_cos` / `m_rot_sin` is overwritten.  Every query (`matrix_R`, `matrix_QtHQ`, all `apply_*`) is a function of the object,
    hence history-independent.  Any scalar type, any `Sc` instance (`Float` included). -/
theorem c08_hqr_recompute (old : UpperHessenbergQR α) (junk : α) (mat : Lin.Mat α) (shift : α) :
    old.recompute junk mat shift = UpperHessenbergQR.compute mat shift :=
  C08Reuse.hqr_recompute old junk mat shift

/-- object reuse, TridiagQR (the Lanczos restart loop calls `compute` on ONE object for every shift): the same statement; of the
    resized-only members, `m_rot_cos`, `m_rot_sin` (`n − 1` entries) and `m_R_supd2` (`n − 2` entries) are overwritten entry by
    entry by the factorization loop, the others are assigned as a whole. -/
theorem c08_tqr_recompute (old : TridiagQR α) (junk : α) (mat : Lin.Mat α) (shift : α) :
    old.recompute junk mat shift = TridiagQR.compute mat shift :=
  C08Reuse.tqr_recompute old junk mat shift

/-- object reuse, DoubleShiftQR (`GenEigsBase::restart` calls `compute` on ONE object for every complex shift pair): the
    reflector store is NOT rebuilt completely — `m_ref_u` / `m_ref_nr` survive a `resize` to the same size and a column of `m_ref_u`
    is written only when its count is ≥ 2, so columns with `nr = 1` keep stale reflectors.  Nevertheless, for EVERY old object,
    every junk in reallocated storage, every input (n ≥ 1) and shifts: `n`, `matrix_QtHQ`, the shifts and `m_ref_nr` are those of a
    fresh object, the reflectors agree wherever the count is not 1 (`uLive`: the store with the dead columns cleared, what the
    harness and the driver print, is identical), and `apply_QtY`, `apply_YQ` give the same result on every argument.
    Any scalar type, any `Sc` instance (`Float` included). -/
theorem c08_dsqr_recompute (old : DoubleShiftQR α) (junk : α) (junkNr : Nat) (mat : Lin.Mat α) (s t : α) (hn : 1 ≤ mat.rows) :
    (old.recompute junk junkNr mat s t).n = (DoubleShiftQR.compute mat s t).n ∧
    (old.recompute junk junkNr mat s t).matrix_QtHQ = (DoubleShiftQR.compute mat s t).matrix_QtHQ ∧
    (old.recompute junk junkNr mat s t).s = (DoubleShiftQR.compute mat s t).s ∧
    (old.recompute junk junkNr mat s t).t = (DoubleShiftQR.compute mat s t).t ∧
    (old.recompute junk junkNr mat s t).nr = (DoubleShiftQR.compute mat s t).nr ∧
    (old.recompute junk junkNr mat s t).uLive = (DoubleShiftQR.compute mat s t).uLive ∧
    (∀ y, (old.recompute junk junkNr mat s t).apply_QtY y = (DoubleShiftQR.compute mat s t).apply_QtY y) ∧
    (∀ Y, (old.recompute junk junkNr mat s t).apply_YQ Y = (DoubleShiftQR.compute mat s t).apply_YQ Y) := by
  obtain ⟨h1, _, h3, h4, h5, _, h7, h8, h9⟩ := C08ReuseDs.dsqr_recompute old junk junkNr mat s t hn
  exact ⟨h1, h7, h3, h4, h5, C08ReuseDs.dsqr_recompute_uLive old junk junkNr mat s t hn, h8, h9⟩

end reuse

/-! ### hypotheses are satisfiable -/

/-- the upper Hessenberg hypothesis of `c08_dsqr_first_col` holds e.g. for the identity -/
example : ∀ i j : Fin (0 + 3), j.val + 1 < i.val → (1 : Matrix (Fin 3) (Fin 3) ℚ) i j = 0 := by
  intro i j h
  have : i ≠ j := by intro e; rw [e] at h; omega
  exact Matrix.one_apply_ne this

/-- the hypotheses "exact square root", "series branch disabled" (ideal rotations / reflectors) and `0 < min()` used by the
    `…_partial` theorems are simultaneously satisfiable: over ℝ with `Real.sqrt` and a `pow` that makes the cutoff 0 -/
example : ∃ F : FieldFns ℝ, (∀ x : ℝ, 0 ≤ x → F.sqrt x * F.sqrt x = x ∧ 0 ≤ F.sqrt x) ∧ C08Givens.cutoff F ≤ 0 ∧ 0 < F.minPos :=
  ⟨⟨Real.sqrt, fun _ _ => 0, 1, 1⟩, fun x hx => ⟨Real.mul_self_sqrt hx, Real.sqrt_nonneg x⟩, by simp [C08Givens.cutoff], by norm_num⟩

/-- the hypotheses of `c08_dsqr_similarity_partial` (exact square root, series branch disabled, `0 < min()`, `n ≥ 1`, and
    `RunExact`: no `compute_reflector` argument in the underflow window) hold SIMULTANEOUSLY on a run that stores a genuine
    reflector: over ℝ with `Real.sqrt`, `min() = 1`, `eps = 1`, `H = [1 0; 100 0]`, `s = t = 0` (subdiagonal entry not deflated,
    `m10 = 100 ≥ m_near_0 = 10`; `C08DsqrSim.ex_hyps`).  A concrete instance over ℚ is impossible because `hsq` asks for a
    square root of EVERY non-negative element; `c08_dsqr_runexact_two` gives `RunExact` for every such 2 × 2 input -/
example : ∃ (F : FieldFns ℝ) (mat : Lin.Mat ℝ) (s t : ℝ),
    (∀ x : ℝ, 0 ≤ x → F.sqrt x * F.sqrt x = x ∧ 0 ≤ F.sqrt x) ∧ C08Givens.cutoff F ≤ 0 ∧ 0 < F.minPos ∧ 1 ≤ mat.rows ∧
    C08DsqrSim.RunExact F mat s t ∧ C08DsqrMatrix.dfl F (C08DsqrMatrix.epsA F mat) mat 0 = false :=
  ⟨C08DsqrSim.exF, C08DsqrSim.exMat, 0, 0, C08DsqrSim.ex_hyps⟩

/-- `c² + s² = 1` is satisfiable with both entries nonzero (3-4-5) -/
example : ((3 : ℚ) / 5) * (3 / 5) + (4 / 5) * (4 / 5) = 1 := by norm_num

/-! ### not proved (gaps, stated at full strength)

  * Rounding.  `‖QᵀQ − I‖ ≤ c·n·eps`, `‖QR − (H − sI)‖, ‖QtHQ − QᵀHQ‖, ‖apply_*(Y) − Q·Y‖ ≤ c·n·eps·(‖H‖+|s|)` in IEEE arithmetic for
    float / double / long double: evaluated on the real classes in long double by harness/c08.cpp (c = 64), never proved.
    The series branches are covered only by their exact defect bounds (`c08_givens_series`, `c08_refl_series`).
  * DoubleShiftQR similarity / Hessenberg shape / orthogonality of `Q` as whole-matrix theorems ARE proved in exact arithmetic
    (`c08_dsqr_similarity_partial`, `c08_dsqr_similarity_nodrop_partial`) for every run none of whose `compute_reflector`
    arguments lies in the underflow window `0 < |x| < m_near_0` (`C08DsqrSim.RunExact`).  NOT proved: the same inside that window
    (there the identities are false exactly: the code treats the argument as zero without zeroing it; defect `O(m_near_0)`), and
    the first-column statement for 2x2 / 1x1 first blocks in instantiated form (local statement: `C08DsqrMatrix.first_col_parallel2`).
  * The clause fails near the underflow threshold for DoubleShiftQR: known finding C08-F1 above.
  * Views: the Lean models have no notion of an outer stride; that the real `apply_*` treat a strided view like an owning matrix
    is established structurally (`c08_apply_stride_aware`, `c08_dsqr_stride_calls`) and by the harness's view cases.
-/

end C08
