/-
  C19 — the internal random generator is the exact, seed-pure Park–Miller sequence.
  All theorems are about the definitions in `Gen/Rand.lean`, which are regenerated from
  /repo/include/Spectra/Util/SimpleRandom.h on every run.  Core Lean only.
-/
import SpectraVerif.Gen.Rand
import SpectraVerif.Gen.RandSites
import SpectraVerif.Proofs.RandLemmas

namespace C19
open Gen.Rand

/-- One step of the generator, for every non-degenerate state, is `16807·s mod (2^31-1)`. -/
theorem c19_step (s : Int) (h1 : 1 ≤ s) (h2 : s ≤ 2147483646) :
    next_long_rand s = (16807 * s) % 2147483647 := RandLemmas.step s h1 h2

/-- The state space `[1, 2^31-2]` is closed: the state never degenerates to 0 or 2^31-1. -/
theorem c19_closed (s : Int) (h1 : 1 ≤ s) (h2 : s ≤ 2147483646) :
    1 ≤ next_long_rand s ∧ next_long_rand s ≤ 2147483646 := by
  rw [c19_step s h1 h2]; omega

/-- No signed intermediate of the C++ leaves the range of `long` (no undefined behaviour), and the final
    conversion back to `long` is value-preserving.  `u64` reductions in `next_long_rand` are identities
    on this domain (consequence of `c19_step`, whose right-hand side has no reduction). -/
theorem c19_nowrap (s : Int) (h1 : 1 ≤ s) (h2 : s ≤ 2147483646) : next_long_rand_ub s = true := by
  have hc := c19_closed s h1 h2
  rw [RandLemmas.ub_shape]
  simp only [inS64, u64, Bool.and_eq_true, decide_eq_true_eq]
  refine ⟨⟨⟨⟨?_, ?_⟩, ?_, ?_⟩, ?_, ?_⟩, ?_, ?_⟩ <;> first | omega | (apply decide_eq_true; omega)

/-- iterating: every state reachable from a non-degenerate one is non-degenerate and is the
    Park–Miller orbit `16807^k · s mod (2^31-1)`. -/
def iter : Nat → Int → Int
  | 0, s => s
  | k + 1, s => iter k (next_long_rand s)

theorem c19_orbit_closed (k : Nat) (s : Int) (h1 : 1 ≤ s) (h2 : s ≤ 2147483646) :
    1 ≤ iter k s ∧ iter k s ≤ 2147483646 := by
  induction k generalizing s with
  | zero => exact ⟨h1, h2⟩
  | succ k ih =>
    have := c19_closed s h1 h2
    exact ih _ this.1 this.2

theorem c19_orbit (k : Nat) (s : Int) (h1 : 1 ≤ s) (h2 : s ≤ 2147483646) :
    iter k s = (16807 ^ k * s) % 2147483647 := by
  induction k generalizing s with
  | zero => simp only [iter, Int.pow_zero, Int.one_mul]; omega
  | succ k ih =>
    have hc := c19_closed s h1 h2
    simp only [iter]
    rw [ih _ hc.1 hc.2, c19_step s h1 h2, Int.pow_succ, Int.mul_assoc, Int.mul_emod, Int.emod_emod_of_dvd _ (Int.dvd_refl _), ← Int.mul_emod]

/-- Seeds the library generates: `0` (default start vector) and `2i + 123j` (`expand_basis`), `i < 2^20`, `j < 5`.
    After the constructor's normalisation the state is non-degenerate. -/
theorem c19_seeds_zero : seed_norm 0 = 1 := by simp [seed_norm]

theorem c19_seeds (i j : Int) (hi0 : 0 ≤ i) (hi : i < 1048576) (hj0 : 0 ≤ j) (hj : j < 5) :
    1 ≤ seed_norm (2 * i + 123 * j) ∧ seed_norm (2 * i + 123 * j) ≤ 2147483646 := by
  simp only [seed_norm]
  split <;> simp only [decide_eq_true_eq] at * <;> omega

/-- more generally every seed in `[0, 2^31-2]` is fine; the degenerate normalised states come only from
    nonzero seeds that are `0` or `2^31-1` modulo `2^31` -/
theorem c19_seeds_general (x : Int) (h0 : 0 ≤ x) (h : x ≤ 2147483646) :
    1 ≤ seed_norm x ∧ seed_norm x ≤ 2147483646 := by
  simp only [seed_norm]
  split <;> simp only [decide_eq_true_eq] at * <;> omega

theorem c19_degenerate_seed_example : seed_norm 2147483648 = 0 ∧ next_long_rand 0 = 0 := by decide

/-- a real draw advances the state by exactly one generator step, a complex draw by two (see `Gen.Rand.cdraw`) -/
theorem c19_draw_state {α : Type} [Add α] [Sub α] [Mul α] [Div α] [Neg α] [Sc α] (s : Int) :
    (draw (α := α) s).1 = next_long_rand s := rfl

theorem c19_draw_value {α : Type} [Add α] [Sub α] [Mul α] [Div α] [Neg α] [Sc α] (s : Int) :
    (draw (α := α) s).2 = Sc.ofInt (next_long_rand s) / Sc.ofInt 2147483647 - Sc.lit 5 (-1) := rfl

/-- **Where generators are created** (regenerated from the whole header tree on every run): exactly four sites, each a function-local
    object WITHOUT static/thread storage (so no state survives a call or is shared between solvers or threads), seeded with the
    constant `0` (default start vector, complex-shift probe) or with `seed + 123 * iter`, `iter < 5`, where `seed` is the `2 * i` passed
    by the two `factorize_from` loops — the seed forms `0` and `2*i + 123*j` of `c19_seeds`.  A generator made `static`, a new site,
    or a different seed expression changes the generated literal and breaks this theorem. -/
theorem c19_sites :
    Gen.RandSites.sites = [("Arnoldi::expand_basis", false, "seed + 123 * iter"), ("GenEigsBase::init", false, "0"),
      ("GenEigsComplexShiftSolver::sort_ritzpair", false, "0"), ("HermEigsBase::init", false, "0")] ∧
    Gen.RandSites.expandSeeds = [("Arnoldi::factorize_from", "2 * i"), ("Lanczos::factorize_from", "2 * i")] := by
  constructor <;> rfl

theorem c19_no_static_generator : ∀ s ∈ Gen.RandSites.sites, s.2.1 = false := by decide

-- non-vacuity: a concrete non-trivial state meets the hypotheses and the classic check value holds
example : next_long_rand 1 = 16807 := by decide
example : next_long_rand 1043618065 = (16807 * 1043618065) % 2147483647 := by decide
example : next_long_rand 2147483646 = 2147483647 - 16807 := by decide

end C19
