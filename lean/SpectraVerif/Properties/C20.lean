/-
  C20 — solvers are re-entrant: no hidden shared mutable state; concurrent independent runs are race-free and
  bit-identical to sequential runs.

  Two kinds of theorem:

  (A) structural facts about `Gen.Footprint`, a list literal regenerated on every run from the clang AST of the WHOLE
      include/Spectra tree (both with and without -DSPECTRA_VERIF) plus an independent token scan of the header text.
      They are closed facts about the source as it is now, proved by `decide`/`rfl`; editing the headers (a function-local
      `static`, a `mutable` cache in a product wrapper, a static RNG state, a call to `rand()`/`time()`) changes the literal
      and breaks the theorem.
  (B) non-interference in the model `Par` (any number of threads, any actions, any schedule, any length): if every action
      writes only its own thread's private part and reads only that part and a part nobody writes, then every
      interleaving ends in exactly the states of the solo (sequential) runs.  (A) is what makes the hypotheses of (B)
      true of the library: without static-storage variables and with read-only shared wrappers, every location a solver
      run writes lies inside the objects of that run.

  Not representable in the model, hence NOT proved (observed only, ThreadSanitizer harness `harness/c20.cpp`): data races
  below the granularity of one action — inside Eigen kernels, Eigen's own function-local statics (cache-size query),
  the allocator, libstdc++ — and the C++ memory model itself; `const_cast`-free code is checked (blacklist) but
  a C-style cast that removes constness is not detected.  Bit-identity of each solo run with itself is C06's determinism.
-/
import SpectraVerif.Gen.Footprint
import SpectraVerif.Proofs.C20Par

namespace C20
open Gen.Footprint

/-! ## (A) structural footprint of the source tree -/

/-- no variable with static storage duration (namespace scope, static data member, function-local static) that is
    not const/constexpr exists anywhere in include/Spectra, as shipped -/
theorem c20_no_statics : Gen.Footprint.statics = [] := by decide

/-- the same for the `-DSPECTRA_VERIF` build that every harness uses; its only addition is the per-thread observer slot
    of Util/VerifHooks.h, which is `thread_local` (one instance per thread, not shared); the library as shipped has no
    thread_local at all; nothing in the headers lives outside `namespace Spectra` (where the AST filter would not look) -/
theorem c20_no_statics_verif_build :
    statics_verif = [] ∧ thread_locals = [] ∧ thread_locals_verif.map (·.1) = ["verif::observer::ptr"] ∧
    outside_namespace = [] := by decide

/-- every `static` / `thread_local` / `mutable` / `extern` / `volatile` keyword of the comment-stripped header text is
    accounted for by a declaration the AST scan classified (nothing hidden in a macro or an unparsed construct) -/
theorem c20_keywords_accounted :
    keyword_text_counts = keyword_ast_counts ∧ static_sites_unaccounted = [] := by decide

/-- the six matrix-product wrappers are read-only objects: no `mutable` member, no reference/pointer/Ref/Map to
    non-const data, every member const-qualified, no base class, every operation method const-qualified; and the claim is
    not vacuous: each wrapper has a member and a `perform_op` in the list -/
theorem c20_wrappers_readonly :
    (∀ w ∈ wrappers, w.2.2.1 = false ∧ w.2.2.2.2.1 = false ∧ w.2.2.2.1 = true) ∧
    (∀ m ∈ wrapper_methods, m.2.2 = true) ∧ wrapper_bases = [] ∧
    (∀ n ∈ wrapper_names, wrappers.any (fun w => w.1 == n) = true ∧
        wrapper_methods.any (fun m => m.1 == n && m.2.1 == "perform_op") = true) := by decide

/-- exactly one data member each: the `const Ref<const Matrix>` handle -/
theorem c20_wrappers_shape : wrappers.map (fun w => (w.1, w.2.1)) =
    [("DenseSymMatProd", "m_mat"), ("DenseGenMatProd", "m_mat"), ("DenseHermMatProd", "m_mat"),
     ("SparseSymMatProd", "m_mat"), ("SparseGenMatProd", "m_mat"), ("SparseHermMatProd", "m_mat")] := by decide

/-- no reference to rand/srand/time/clock/getenv/new-handlers/..., to std::random_device / standard engines / chrono
    clocks / call_once, and no const_cast / reinterpret_cast, anywhere in the tree (AST and token scan) -/
theorem c20_no_global_facilities : blacklist_uses = [] := by decide

/-- classes that may own a `mutable` scratch member: the per-solver operator adaptors (created inside a solver's
    constructor, never handed to the user) -/
def adaptors : List String :=
  ["ArnoldiOp", "SVDTallMatOp", "SVDWideMatOp", "SymGEigsBucklingOp", "SymGEigsCayleyOp", "SymGEigsCholeskyOp",
   "SymGEigsRegInvOp", "SymGEigsShiftInvertOp"]

/-- user-facing operators with state of their own (a factorization that `set_shift` rebuilds, a CG solver): they are
    not matrix-product wrappers and are outside the property's sharing clause ("each with its own operator object") -/
def statefulUserOps : List String := ["DenseGenComplexShiftSolve", "SparseGenComplexShiftSolve", "SparseRegularInverse"]

/-- the `mutable` members of the tree are exactly the documented scratch vectors; each belongs to a per-solver adaptor or
    to a stateful user operator, none to a shareable product wrapper.  A new `mutable` cache anywhere breaks this. -/
theorem c20_scratch_private :
    mutable_members =
      [("ArnoldiOp", "m_cache"), ("DenseGenComplexShiftSolve", "m_x_cache"), ("SVDTallMatOp", "m_cache"),
       ("SVDWideMatOp", "m_cache"), ("SparseGenComplexShiftSolve", "m_x_cache"), ("SparseRegularInverse", "m_info"),
       ("SymGEigsBucklingOp", "m_cache"), ("SymGEigsCayleyOp", "m_cache"), ("SymGEigsCholeskyOp", "m_cache"),
       ("SymGEigsRegInvOp", "m_cache"), ("SymGEigsShiftInvertOp", "m_cache")] ∧
    (∀ m ∈ mutable_members, (m.1 ∈ adaptors ∨ m.1 ∈ statefulUserOps) ∧ m.1 ∉ wrapper_names) := by decide

/-- how the adaptors are held: always inside exactly the solver object that created them — by value (`m_fac` holds the
    `Arnoldi`/`Lanczos` object whose `m_op` member is the `ArnoldiOp` by value), as the operator type of the solver's
    base class (the composite op is constructed as a temporary and moved into `m_op_container`, held by value), or through
    the owning pointer of `PartialSVDSolver`; never through a reference member that could alias another solver's adaptor.
    The stateful user operators are held by nobody inside the library. -/
theorem c20_scratch_held_by_owner :
    holders =
      [("ArnoldiOp", "GenEigsBase", "m_fac", "value"), ("ArnoldiOp", "HermEigsBase", "m_fac", "value"),
       ("SVDTallMatOp", "PartialSVDSolver", "m_eigs", "ptr"), ("SVDTallMatOp", "PartialSVDSolver", "m_op", "ptr"),
       ("SVDWideMatOp", "PartialSVDSolver", "m_eigs", "ptr"), ("SVDWideMatOp", "PartialSVDSolver", "m_op", "ptr"),
       ("SymGEigsBucklingOp", "SymGEigsShiftSolver", "base:HermEigsBase", "base-argument"),
       ("SymGEigsCayleyOp", "SymGEigsShiftSolver", "base:HermEigsBase", "base-argument"),
       ("SymGEigsCholeskyOp", "SymGEigsSolver", "base:HermEigsBase", "base-argument"),
       ("SymGEigsRegInvOp", "SymGEigsSolver", "base:HermEigsBase", "base-argument"),
       ("SymGEigsShiftInvertOp", "SymGEigsShiftSolver", "base:HermEigsBase", "base-argument")] ∧
    (∀ h ∈ holders, h.1 ∈ adaptors ∧ h.2.2.2 ≠ "ref" ∧ h.2.2.2 ≠ "cref") ∧
    (∀ a ∈ adaptors, holders.any (fun h => h.1 == a) = true) ∧
    (∀ p ∈ [("HermEigsBase", "m_op_container", "value"), ("HermEigsBase", "m_fac", "value"), ("GenEigsBase", "m_fac", "value"),
            ("Arnoldi", "m_op", "value")], solver_members.any (fun s => (s.1, s.2.1, s.2.2.1) == p) = true) := by decide

/-! ## (B) non-interference: every interleaving equals the sequential runs -/

section typed
variable {ι : Type} [DecidableEq ι] {S : Type} {σ : ι → Type}

/-- **c20_interleave** (`Par.independent`).  `ι` indexes the threads (any number, finite or not), `σ i` is thread `i`'s
    private state (its solver object, operator, adaptors, workspace), `sh : S` the one shared immutable value (the const
    product wrapper and its matrix).  For arbitrary per-thread programs `progs` (lists of arbitrary actions
    `S → σ i → σ i`), EVERY interleaving `tr` of them (`Par.Merge`, all schedules, all lengths), started in any
    configuration `c`, ends in exactly the configuration in which each thread ran its program alone. -/
theorem c20_interleave (sh : S) (progs : (i : ι) → List (S → σ i → σ i)) (tr : List (Par.Act ι S σ))
    (h : Par.Merge progs tr) (c : (j : ι) → σ j) :
    Par.exec sh tr c = fun i => Par.runSeq sh (progs i) (c i) := by
  funext i; rw [Par.exec_proj, Par.merge_proj h]

/-- `Merge` is not a restricted class of schedules: every global trace whatsoever is an interleaving of its projections -/
theorem c20_every_trace_is_interleaving (tr : List (Par.Act ι S σ)) : Par.Merge (fun i => Par.proj i tr) tr :=
  Par.merge_of_trace tr

/-- corollary for results: whatever is read off the final private states (eigenvalues, eigenvectors, counters, status)
    is the same after any interleaving as after the solo run — and therefore the same for any two interleavings -/
theorem c20_interleave_results {ρ : ι → Type} (out : (i : ι) → σ i → ρ i) (sh : S)
    (progs : (i : ι) → List (S → σ i → σ i)) (tr tr' : List (Par.Act ι S σ))
    (h : Par.Merge progs tr) (h' : Par.Merge progs tr') (c : (j : ι) → σ j) (i : ι) :
    out i (Par.exec sh tr c i) = out i (Par.runSeq sh (progs i) (c i)) ∧
    out i (Par.exec sh tr c i) = out i (Par.exec sh tr' c i) := by
  rw [c20_interleave sh progs tr h, c20_interleave sh progs tr' h']; exact ⟨rfl, rfl⟩

/-- concurrent = sequential: running the threads one after another (in any duplicate-free order that contains every
    thread with a non-empty program) is one of the interleavings, so every interleaving gives the same final configuration
    as the sequential execution -/
theorem c20_concurrent_eq_sequential (sh : S) (progs : (i : ι) → List (S → σ i → σ i)) (tr : List (Par.Act ι S σ))
    (h : Par.Merge progs tr) (order : List ι) (hnd : order.Nodup) (hall : ∀ i, i ∈ order ∨ progs i = [])
    (c : (j : ι) → σ j) :
    Par.exec sh tr c = Par.exec sh (Par.seqTrace progs order) c := by
  funext i
  rw [Par.exec_proj, Par.exec_proj, Par.merge_proj h]
  cases hall i with
  | inl hi => rw [Par.proj_seqTrace progs order hnd i hi]
  | inr he =>
    by_cases hi : i ∈ order
    · rw [Par.proj_seqTrace progs order hnd i hi]
    · rw [Par.proj_seqTrace_notin progs order i hi, he]

end typed

section memory
variable {ι : Type} [DecidableEq ι] {Loc Val : Type}

/-- **c20_interleave_mem** — the same statement without building independence into the types: one global store, actions
    are arbitrary store transformers, and independence is the *hypothesis* `Par.Local` (frame + locality w.r.t. pairwise
    disjoint private sets and a shared set nobody owns).  After ANY trace of local actions: on `priv i` the store equals
    thread `i`'s solo run from the same initial store; the shared part and everything owned by no acting thread is unchanged. -/
theorem c20_interleave_mem (L : Par.Layout ι Loc) (tr : List (Par.MAct ι Loc Val)) (hloc : ∀ a ∈ tr, Par.Local L a)
    (m : Par.Mem Loc Val) :
    (∀ i l, L.priv i l → Par.mexec tr m l = Par.mexec (Par.mproj i tr) m l) ∧
    (∀ l, L.shared l → Par.mexec tr m l = m l) ∧
    (∀ l, (∀ a ∈ tr, ¬ L.priv a.tid l) → Par.mexec tr m l = m l) := by
  refine ⟨fun i l hl => ?_, fun l hs => ?_, fun l hl => Par.mexec_frame L tr hloc m l hl⟩
  · exact Par.agree_mexec L tr hloc i m m (fun _ _ => rfl) l (Or.inl hl)
  · exact Par.mexec_frame L tr hloc m l (fun a _ hp => L.disjS _ _ hp hs)

/-- two schedules of the same per-thread action sequences produce the same store on every private and shared location -/
theorem c20_interleave_mem_schedules (L : Par.Layout ι Loc) (tr tr' : List (Par.MAct ι Loc Val))
    (hloc : ∀ a ∈ tr, Par.Local L a) (hloc' : ∀ a ∈ tr', Par.Local L a)
    (hsame : ∀ i, Par.mproj i tr = Par.mproj i tr') (m : Par.Mem Loc Val) (l : Loc)
    (hl : (∃ i, L.priv i l) ∨ L.shared l) : Par.mexec tr m l = Par.mexec tr' m l := by
  cases hl with
  | inl h =>
    obtain ⟨i, hi⟩ := h
    rw [(c20_interleave_mem L tr hloc m).1 i l hi, (c20_interleave_mem L tr' hloc' m).1 i l hi, hsame i]
  | inr hs => rw [(c20_interleave_mem L tr hloc m).2.1 l hs, (c20_interleave_mem L tr' hloc' m).2.1 l hs]

end memory

/-- the executable schedule runner of the driver (`par_rng` requests): component `i` after any schedule is `count i`
    solo steps — all state counts, all schedules -/
theorem c20_schedule_exec (step : Int → Int → Int) (sh : Int) (sched : List Nat) (st : Array Int) (i : Nat) (hi : i < st.size) :
    (Par.runSchedule step sh sched st)[i]'(by rw [Par.runSchedule_size]; exact hi) =
      Par.runAlone step sh (sched.count i) st[i] :=
  Par.runSchedule_get step sh sched st i hi

/-! ## non-vacuity and necessity of the hypotheses -/

/-- a concrete layout: thread `i` owns location `i + 1`; location `0` is shared -/
def exLayout : Par.Layout Nat Nat where
  priv := fun i l => l = i + 1
  shared := fun l => l = 0
  disj := by intro i j l h h1 h2; omega
  disjS := by intro i l h1 h2; omega

/-- thread `t` adds the shared cell to its own cell: a local action -/
def exAdd (t : Nat) : Par.MAct Nat Nat Nat := ⟨t, fun m l => if l = t + 1 then m (t + 1) + m 0 else m l⟩

example (t : Nat) : Par.Local exLayout (exAdd t) where
  frame := by intro m l h; simp only [exAdd]; rw [if_neg]; exact h
  locality := by
    intro m m' h l hl
    have h0 := h 0 (Or.inr rfl); have h1 := h (t + 1) (Or.inl rfl)
    have hl' : l = t + 1 := hl
    simp only [exAdd]; rw [if_pos hl', if_pos hl', h0, h1]

example : Par.Merge (ι := Nat) (S := Unit) (σ := fun _ => Nat) (fun _ => []) [] := Par.Merge.nil

/-- necessity: if an action writes a cell that another thread reads (what a function-local `static` buffer or a shared
    RNG state would be), two schedules of the same programs give different private results — the frame hypothesis
    (i.e. `c20_no_statics`) cannot be dropped -/
def exBump (t : Nat) : Par.MAct Nat Nat Nat := ⟨t, fun m l => if l = 0 then m 0 + 1 else if l = t + 1 then m 0 else m l⟩

example : Par.mexec [exBump 0, exBump 1] (fun _ => 0) 1 ≠ Par.mexec [exBump 1, exBump 0] (fun _ => 0) 1 := by decide

end C20
