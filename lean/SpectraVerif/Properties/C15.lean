/-
  C15 — Davidson solver: `Successful` means true residuals below tol, never NaN.

  Objects: the kernel-generic model `Dav` (Model/Davidson.lean) of `SearchSpace`, `RitzPairs`, `JDSymEigsBase::compute_with_guess`
  and `DavidsonSymEigsSolver`; the size logic `Gen.JD.*` and the ordering primitive `Gen.Sort.argsort` are regenerated from the
  headers on every run.  "For ALL kernels" = for every function put in the places of Eigen's `SelfAdjointEigenSolver`
  (`K.eig`), `twice_is_enough_orthogonalisation`/`HouseholderQR` (`K.orth`), `argsort` (`K.argsort`), the CRTP correction
  (`corr`), and of `dot`, `norm`, `<`.  Exact arithmetic = a module `M` over any commutative ring `R` with a linear operator `A`
  (in particular `Matrix (Fin n) (Fin n) R` acting on `Fin n → R`), resp. any linearly ordered field for ordering.

  Clauses of the property that are FALSE of the code as it is (recorded in known_findings/C15.json, each with a witness
  below and a replay in the harness corpus):
    * "unit norm, mutually orthonormal" for a user-supplied non-orthonormal space                   -> `c15_unit_orth` needs the hypothesis; counter-model (F16)
  Repaired in /repo (known_findings/C15.json, status fixed) and now theorems about the repaired code:
    * "never NaN": the DPR correction used to divide by `θ - a_ii` unguarded (F11); it now applies the pseudo-inverse of the
      diagonal preconditioner (component 0 where `θ = a_ii`)                                        -> `c15_correction_defined`
    * "compute() returns nev": the sizes could be reset below `nev` and `nev` entries of shorter arrays were read (F18);
      `initialize()` now keeps `initial ≥ nev`, `check_convergence` requires `nev` pairs            -> `c15_sizes`, `c15_successful`
    * "a second compute() on the same object": `compute_with_guess` used to reset the search space and `niter_` only, so the
      Ritz pairs, flags and `info()` of the PREVIOUS call were handed out by a call with `maxit = 0` (F21), fed the restart of a
      first iteration with a too wide initial space (F21b) and survived a throwing call (F21c).  Since /repo 6587027 the prologue
      is `m_ritz_pairs = RitzPairs<Scalar>(); m_info = CompInfo::NotComputed; initialize_search_space(…); niter_ = 0;`
      — every result member is reset — and a call on a used object IS the call on a fresh one, for every state, `maxit`,
      initial space and kernel outcome                                       -> `c15_compute_resets`, `c15_recompute`, `c15_maxit0_not_computed`
  Not provable (rounding / convergence; oracle only): the strict inequality on the computed residual norm transfers to the
  true residual only up to rounding of the cached products (slack stated in harness/c15.cpp); orthonormality of the basis
  produced by the real `HouseholderQR` passes is a specification hypothesis here (`OrthSpec` in `c15_unit_orth_spec`); the real
  passes violate it in floating point when the block of corrections is numerically rank deficient after projection against
  the space (finding F19: Successful with vectors of norm 1e-15).
  What the real passes DO guarantee for every input — the appended block is the leading part of a Householder Q factor, orthonormal
  in itself, no zero column — is `OrthBlockSpec` (`c15_extension_block_orthonormal`); that the extension step really is the
  Householder-QR routine is read off the regenerated call footprint `Gen.JDOrth` (`c15_extension_uses_householder_qr`), and every
  recorded kernel output is checked against it in the step replay (field `blockok`) and by the harness oracle.
-/
import SpectraVerif.Proofs.C15Lemmas
import SpectraVerif.Proofs.C15Loop
import SpectraVerif.Proofs.C15Reuse
import SpectraVerif.Proofs.C15Gram
import SpectraVerif.Proofs.C15Order
import SpectraVerif.Proofs.C15Orth
import SpectraVerif.Proofs.C15Block
import SpectraVerif.Proofs.C15Sizes
import SpectraVerif.Proofs.C15Dpr
import SpectraVerif.Gen.Guard
import SpectraVerif.Gen.JDOrth
import SpectraVerif.Gen.JDMembers
import Mathlib.Data.Matrix.Mul
import Mathlib.Tactic.NormNum

namespace C15
open Dav C15L
set_option linter.unusedSectionVars false

/-! ### c15_cached_products -/
section ring
variable {R M : Type} [CommRing R] [AddCommGroup M] [Module R M] (K : Kern R M) (A : M →ₗ[R] M)

/-- `update_operator_basis_product` turns a valid partial cache into `op_basis_product = A · basis` (all columns) -/
theorem c15_cached_products_update (hL : Linear K A) (s : St R M)
    (h : s.opBasis = (s.basis.take s.opBasis.length).map A) :
    (updateOperatorBasisProduct K s).opBasis = (updateOperatorBasisProduct K s).basis.map A :=
  update_cachedFull hL h

/-- `restart` keeps `op_basis_product = A · basis`, provided the stored Ritz vectors are `V y` for the multiplied columns `V` -/
theorem c15_cached_products_restart (hL : Linear K A) (s : St R M) (size : Nat)
    (h : s.opBasis = (s.basis.take s.opBasis.length).map A)
    (hr : ∀ p ∈ s.pairs, p.vector = lincomb K p.small (s.basis.take s.opBasis.length)) :
    (restart K size s).opBasis = (restart K size s).basis.map A :=
  restart_cachedFull hL h hr size

/-- `extend_basis` keeps the cache valid on the columns already multiplied: it orthogonalises only the new columns
    (`OrthKeepsLeft`: the orthogonaliser does not write the first `left_cols_to_skip` columns) -/
theorem c15_cached_products_extend (hO : OrthKeepsLeft K) (s : St R M) (newv : List M) (h : s.opBasis = s.basis.map A) :
    (extendBasis K newv s).opBasis = ((extendBasis K newv s).basis.take (extendBasis K newv s).opBasis.length).map A :=
  extend_cached hO h newv

/-- **c15_cached_products.**  For every linear operator, every eigen-solver, orthogonaliser (that leaves the old columns
    alone), sort, correction function, dot, norm and comparison, every selection rule, tolerance, `maxit`, sizes and EVERY
    initial space (orthonormal or not, dependent or not), on a solver object in ANY state `s` (fresh or left behind by any
    history of earlier calls): after `compute_with_guess` the cached products are `A · basis` and every stored residue is the
    true residual `A x - θ x` of its Ritz pair. -/
theorem c15_cached_products (hL : Linear K A) (hO : OrthKeepsLeft K) (c : Cfg) (corr : List (Pair R M) → List M)
    (guess : List M) (sel : Int) (maxit : Nat) (tol : R) (s : St R M) :
    let r := (computeWithGuess K c corr guess sel maxit tol s).1
    r.opBasis = (r.basis.take r.opBasis.length).map A ∧ ∀ p ∈ r.pairs, p.residue = A p.vector - p.value • p.vector := by
  have h0 : Inv K A (start guess) := by
    refine ⟨by simp [Cached, start], ?_, ?_⟩
    · intro p hp; simp [start] at hp
    · intro p hp; simp [start] at hp
  have := loop_inv hL hO c corr sel tol maxit maxit _ h0
  exact ⟨this.1, this.2.2⟩

/-- the same for a matrix acting on coordinate vectors (Mathlib `Matrix.mulVec`) -/
theorem c15_cached_products_matrix {n : Nat} (Am : Matrix (Fin n) (Fin n) R) (K : Kern R (Fin n → R))
    (hz : K.zero = 0) (hadd : ∀ u v, K.add u v = u + v) (hsub : ∀ u v, K.sub u v = u - v)
    (hsmul : ∀ (a : R) v, K.smul a v = a • v) (happ : ∀ v, K.apply v = Am.mulVec v) (hO : OrthKeepsLeft K)
    (c : Cfg) (corr : List (Pair R (Fin n → R)) → List (Fin n → R)) (guess : List (Fin n → R)) (sel : Int) (maxit : Nat) (tol : R) :
    let r := (computeWithGuess K c corr guess sel maxit tol construct).1
    r.opBasis = (r.basis.take r.opBasis.length).map Am.mulVec ∧
    ∀ p ∈ r.pairs, p.residue = Am.mulVec p.vector - p.value • p.vector := by
  let L : (Fin n → R) →ₗ[R] (Fin n → R) :=
    { toFun := Am.mulVec, map_add' := Am.mulVec_add, map_smul' := fun a v => by simp [Matrix.mulVec_smul] }
  have hL : Linear K L := ⟨hz, hadd, hsub, hsmul, happ⟩
  exact c15_cached_products K L hL hO c corr guess sel maxit tol construct

/-- **the headline clause.**  `Successful` ⇒ the convergence test was passed BY THE TRUE RESIDUALS: for every linear operator
    and all kernels as above, fresh solver: if `info() == Successful` then for each of the first `nev` stored pairs
    `‖A x - θ x‖ < tol` holds (as evaluated by the model's `norm` and `<`), where `x`, `θ` are what `eigenvectors()`,
    `eigenvalues()` return — not merely for the cached products. -/
theorem c15_successful_true_residuals (hL : Linear K A) (hO : OrthKeepsLeft K) (c : Cfg) (corr : List (Pair R M) → List M)
    (guess : List M) (sel : Int) (maxit : Nat) (tol : R)
    (h : (computeWithGuess K c corr guess sel maxit tol construct).1.info = .successful) :
    ∀ p ∈ (computeWithGuess K c corr guess sel maxit tol construct).1.pairs.take c.nev,
      K.lt (K.norm (A p.vector - p.value • p.vector)) tol = true := by
  intro p hp
  have h1 := (c15_cached_products K A hL hO c corr guess sel maxit tol construct).2 p (List.mem_of_mem_take hp)
  have hp0 := loop_successful K c corr sel tol maxit maxit (start guess) (by simp [start]) h
  have h2 := (succPost_consequences K c tol _ hp0).1 p hp
  rw [← h1]; exact h2

end ring

/-! ### c15_successful -/
section anytype
variable {σ ν : Type} (K : Kern σ ν)

/-- **c15_successful.**  For ALL kernels and arbitrary scalar/vector types, a solver object in ANY state `s` (whatever `info()`
    it reported before the call: the prologue resets it to `NotComputed`), every `maxit` (0 included): if `compute_with_guess`
    ends with `info() == Successful`, then the search space holds at least `nev` Ritz pairs, the test `‖residue‖ < tol` of THIS
    call passed for each of the first `nev` of them, and `compute` returns `nev`. -/
theorem c15_successful (c : Cfg) (corr : List (Pair σ ν) → List ν) (guess : List ν) (sel : Int) (maxit : Nat) (tol : σ)
    (s : St σ ν)
    (h : (computeWithGuess K c corr guess sel maxit tol s).1.info = .successful) :
    let r := computeWithGuess K c corr guess sel maxit tol s
    (∀ p ∈ r.1.pairs.take c.nev, K.lt (K.norm p.residue) tol = true) ∧
    r.2 = c.nev ∧ c.nev ≤ r.1.pairs.length ∧ (eigenvalues c r.1).length = c.nev ∧ (eigenvectors c r.1).length = c.nev := by
  have hp := loop_successful K c corr sel tol maxit maxit (start guess) (by simp [start]) h
  have := succPost_consequences K c tol _ hp
  refine ⟨this.1, this.2.1, this.2.2, ?_, ?_⟩
  · simp only [eigenvalues, List.length_map, List.length_take]
    exact Nat.min_eq_left this.2.2
  · simp only [eigenvectors, List.length_map, List.length_take]
    exact Nat.min_eq_left this.2.2

/-- **c15_iterations.**  For ALL kernels, `maxit ≥ 1`: the loop stops with `num_iterations() < maxit`, performs exactly
    `num_iterations() + 1` Rayleigh–Ritz steps, every step (after the restart bookkeeping) sees a search space of at most
    `max_search_space_size` columns (given `initial ≤ max`), and the space at exit has at most that many columns. -/
theorem c15_iterations (c : Cfg) (corr : List (Pair σ ν) → List ν) (guess : List ν) (sel : Int) (maxit : Nat) (tol : σ)
    (s : St σ ν) (hm : 1 ≤ maxit) (hc : c.initSize ≤ c.maxSize) :
    let r := (computeWithGuess K c corr guess sel maxit tol s).1
    r.niter < maxit ∧ r.sizes.length = r.niter + 1 ∧ (∀ z ∈ r.sizes, z ≤ c.maxSize) ∧ r.basis.length ≤ c.maxSize := by
  have h1 := loop_niter K c corr sel tol maxit maxit (start guess) (by simp [start]) (by omega)
  have h2 := loop_sizes K c corr sel tol maxit maxit (start guess) hc (by simp [start])
  have h3 := loop_exit_size K c corr sel tol maxit maxit (start guess) hc (by omega) (by simp [start])
  refine ⟨h1.1, ?_, h2, h3⟩
  have := h1.2.1
  have e1 : (start guess : St σ ν).sizes.length = 0 := rfl
  have e2 : (start guess : St σ ν).niter = 0 := rfl
  rw [e1, e2] at this
  simp only [computeWithGuess_eq]
  omega

/-- **c15_iterations, restart bookkeeping.**  If the kernels keep lengths (`LenSpec`: the orthogonaliser returns as many
    columns as it was given, the correction has `correction_size` columns, the eigen-solver returns one pair per column of
    the small matrix, sorting keeps the number of pairs) and the initial space has between `initial` and `max` columns, then
    EVERY Rayleigh–Ritz step — whatever the convergence tests and the numbers — sees a search space of size in
    `[initial_search_space_size, max_search_space_size]`: growth by `correction_size`, reset to `initial` by `restart`. -/
theorem c15_iterations_bookkeeping (c : Cfg) (corr : List (Pair σ ν) → List ν) (guess : List ν)
    (sel : Int) (hS : LenSpec K c corr sel) (maxit : Nat) (tol : σ) (s : St σ ν) (hc : c.initSize ≤ c.maxSize)
    (hg1 : c.initSize ≤ guess.length) (hg2 : guess.length ≤ c.maxSize) :
    ∀ z ∈ (computeWithGuess K c corr guess sel maxit tol s).1.sizes, c.initSize ≤ z ∧ z ≤ c.maxSize := by
  apply loop_sizes_between K c corr sel hS tol maxit maxit (start guess) hc
  · refine ⟨⟨by simp [start], by simp [start]⟩, by simpa [start] using hg1, ?_⟩
    intro h; simp only [start] at h; omega
  · intro z hz; simp [start] at hz

end anytype

/-- the orthogonaliser of the EXECUTABLE model (the instance the correspondence check runs) meets the structural hypothesis
    `OrthKeepsLeft` of the theorems above: it never writes the first `left_cols_to_skip` columns -/
theorem c15_exec_orth_keeps_left {α : Type} [Add α] [Sub α] [Mul α] [Div α] [Neg α] [Sc α]
    (cols : List (Lin.Vec α)) (skip : Nat) : (Exec.orthTwice cols skip).take skip = cols.take skip :=
  orthTwice_keepsLeft cols skip

/-- sizes after the translated constructor initialisers and `initialize()`: `max ≤ n`, `initial + correction ≤ n` and
    (repair of F18) `nev ≤ initial`, for every requested size
    (part of **c15_iterations**: the guards the loop relies on, proved about the regenerated `Gen.JD`) -/
theorem c15_sizes (nev ni nm n : Int) (hn : 0 ≤ n) :
    let c := Gen.JD.jd_ctor_sizes nev ni nm n
    let i := Gen.JD.jd_initialize c.1 c.2.1 c.2.2 nev n
    i.1 ≤ n ∧ i.2.1 + i.2.2 ≤ n ∧ nev ≤ i.2.1 := by
  simp only [Gen.JD.jd_ctor_sizes, Gen.JD.jd_initialize]
  have e : Int.tdiv n 3 = n / 3 := Int.tdiv_eq_ediv_of_nonneg hn
  refine ⟨?_, ?_, ?_⟩
  · split <;> simp_all <;> omega
  · split <;> split <;> split <;> simp_all <;> omega
  · split <;> split <;> split <;> simp_all

/-- for the arguments `check_argument` admits (`1 ≤ nev ≤ n - 1`), no size is negative -/
theorem c15_sizes_nonneg (nev ni nm n : Int) (hnev : 1 ≤ nev) (hnev2 : nev ≤ n - 1) :
    let c := Gen.JD.jd_ctor_sizes nev ni nm n
    let i := Gen.JD.jd_initialize c.1 c.2.1 c.2.2 nev n
    0 ≤ i.2.1 ∧ 0 ≤ i.2.2 := by
  simp only [Gen.JD.jd_ctor_sizes, Gen.JD.jd_initialize]
  have hn : 0 ≤ n := by omega
  have e : Int.tdiv n 3 = n / 3 := Int.tdiv_eq_ediv_of_nonneg hn
  constructor <;> split <;> split <;> split <;> simp_all <;> omega

/-- the same on the configuration record the model uses -/
theorem c15_sizes_cfg (nev ni nm n : Int) (hnev : 1 ≤ nev) (hnev2 : nev ≤ n - 1) :
    ((cfgOf nev ni nm n).maxSize : Int) ≤ n ∧ ((cfgOf nev ni nm n).initSize : Int) + (cfgOf nev ni nm n).corrSize ≤ n ∧
    (cfgOf nev ni nm n).nev ≤ (cfgOf nev ni nm n).initSize := by
  have h1 := c15_sizes nev ni nm n (by omega)
  have h2 := c15_sizes_nonneg nev ni nm n hnev hnev2
  simp only at h1 h2
  simp only [cfgOf]
  omega

/-- the repaired behaviour on the former witness of F18: the library's own defaults for `n = 10`, `nev = 6` pass
    `check_argument` and now give an initial space of `6 = nev` columns and a correction of 3 (they used to give 3 and 3) -/
example :
    Gen.Guard.jd_check_argument 6 10 = Res.ok () ∧ cfgOf 6 12 60 10 = { nev := 6, maxSize := 10, initSize := 6, corrSize := 3 } := by
  decide

/-! ### c15_order -/
section order
variable {F : Type} [Field F] [LinearOrder F] [IsStrictOrderedRing F] (Fn : FieldFns F) {ν : Type}

/-- **c15_order.**  With the library's `argsort` (translated from SelectionRule.h) in the place of the sort kernel and every
    other kernel arbitrary: unless the small eigenproblem failed (`NumericalIssue`), the Ritz values stored at exit — hence
    `eigenvalues()`, their first `nev` — are ordered by the selection rule: descending `|x|` (LargestMagn 0), descending `x`
    (LargestAlge 3), ascending `|x|` (SmallestMagn 4), ascending `x` (SmallestAlge 7); ties allowed. -/
theorem c15_order (K : Kern F ν) (hK : K.argsort = @Exec.argsortList F _ _ _ _ _ (scOfField Fn))
    (sel : Int) (hsel : sel = 0 ∨ sel = 3 ∨ sel = 4 ∨ sel = 7)
    (c : Cfg) (corr : List (Pair F ν) → List ν) (guess : List ν) (maxit : Nat) (tol : F) (s : St F ν) (hm : 1 ≤ maxit) :
    let r := (computeWithGuess K c corr guess sel maxit tol s).1
    r.info = .numericalIssue ∨
    (r.pairs.map (fun p => p.value)).Pairwise (fun x y =>
      (sel = 0 → |y| ≤ |x|) ∧ (sel = 3 → y ≤ x) ∧ (sel = 4 → |x| ≤ |y|) ∧ (sel = 7 → x ≤ y)) := by
  exact loop_pairs_sorted K
    (fun ps => (ps.map (fun p => p.value)).Pairwise (fun x y =>
      (sel = 0 → |y| ≤ |x|) ∧ (sel = 3 → y ≤ x) ∧ (sel = 4 → |x| ≤ |y|) ∧ (sel = 7 → x ≤ y)))
    c corr sel tol (fun s' => sortPairs_ordered Fn K hK sel hsel s') maxit maxit
    (start guess) (by simp [start]) (by omega)

/-- the translated `argsort` meets the specifications assumed of the sort kernel elsewhere: it repeats no index
    (`ArgsortSpec` in `c15_unit_orth_spec`) and `RitzPairs::sort` keeps the number of pairs (`LenSpec.sort` in
    `c15_iterations_bookkeeping`), for the four rules of the symmetric solvers -/
theorem c15_argsort_spec (K : Kern F ν) (hK : K.argsort = @Exec.argsortList F _ _ _ _ _ (scOfField Fn))
    (sel : Int) (hsel : sel = 0 ∨ sel = 3 ∨ sel = 4 ∨ sel = 7) :
    (∀ vals : List F, (K.argsort sel vals).Nodup) ∧
    (∀ ps : List (Pair F ν), ((K.argsort sel (ps.map (fun p => p.value))).filterMap (fun i => ps[i]?)).length = ps.length) :=
  ⟨fun vals => by rw [hK]; exact argsortList_nodup Fn sel vals hsel, fun ps => sortPairs_length Fn K hK sel hsel ps⟩

/-- the length hypotheses of `c15_iterations_bookkeeping` are satisfiable with the library's own `argsort` as sort kernel -/
example (sel : Int) (hsel : sel = 0 ∨ sel = 3 ∨ sel = 4 ∨ sel = 7) (c : Cfg) :
    ∃ (K : Kern F F) (corr : List (Pair F F) → List F), LenSpec K c corr sel :=
  ⟨{ zero := 0, add := (· + ·), sub := (· - ·), smul := (· * ·), dot := (· * ·), norm := fun x => x * x, lt := fun x y => decide (x < y),
     apply := id, eig := fun G => (true, G.map (fun col => col.headD 0), G.map (fun _ => [1])), orth := fun l _ => l,
     argsort := @Exec.argsortList F _ _ _ _ _ (scOfField Fn) },
   fun _ => List.replicate c.corrSize 0,
   ⟨fun _ _ => rfl, fun _ => by simp, fun G => by simp, fun ps => (c15_argsort_spec Fn _ rfl sel hsel).2 ps⟩⟩

/-- `eigenvalues()` is a prefix of the stored values, so it inherits the order -/
theorem c15_order_eigenvalues (c : Cfg) (s : St F ν) (P : F → F → Prop)
    (h : (s.pairs.map (fun p => p.value)).Pairwise P) : (eigenvalues c s).Pairwise P := by
  unfold eigenvalues
  rw [List.map_take]
  exact h.sublist (List.take_sublist _ _)

end order

/-! ### c15_unit_orth -/
section gram
variable {R M : Type} [CommRing R] [AddCommGroup M] [Module R M] (K : Kern R M) (A : M →ₗ[R] M)

/-- **c15_unit_orth.**  For every symmetric bilinear form `ip` (the Euclidean dot product in the application), all kernels
    as in `c15_cached_products`, `maxit ≥ 1`, solver object in any state: IF the search-space basis at exit is orthonormal w.r.t. `ip`
    and the small eigenvectors have one coefficient per basis column, THEN the Gram matrix of the stored Ritz vectors equals
    the Gram matrix of the small eigenvectors: `⟨x_p, x_q⟩ = y_p · y_q`.  So orthonormal small eigenvectors (the
    specification of `SelfAdjointEigenSolver`) give `‖x‖ = 1` and mutual orthogonality.  The hypothesis on the basis is
    exactly what a non-orthonormal user space violates (counter-model below). -/
theorem c15_unit_orth (ip : M → M → R) (hip : IsSymBilin ip) (hL : Linear K A) (hO : OrthKeepsLeft K)
    (c : Cfg) (corr : List (Pair R M) → List M) (guess : List M) (sel : Int) (maxit : Nat) (tol : R) (s : St R M)
    (hm : 1 ≤ maxit) :
    let r := (computeWithGuess K c corr guess sel maxit tol s).1
    ON ip r.basis → (∀ p ∈ r.pairs, p.small.length = r.basis.length) →
    ∀ p ∈ r.pairs, ∀ q ∈ r.pairs, ip p.vector q.vector = sdot p.small q.small := by
  intro r hON hlen p hp q hq
  have h0 : Inv K A (start guess) := by
    refine ⟨by simp [Cached, start], ?_, ?_⟩
    · intro p hp; simp [start] at hp
    · intro p hp; simp [start] at hp
  have hI := loop_invFull hL hO c corr sel tol maxit maxit _ h0 (by simp [start]) (by omega)
  have hp' := hI.2.1 p hp
  have hq' := hI.2.1 q hq
  rw [hp', hq']
  exact gram ip hip hL _ hON _ _ (hlen p hp) (hlen q hq)

/-- unit norm and orthogonality spelled out -/
theorem c15_unit_orth_corollary (ip : M → M → R) (p q : Pair R M)
    (hg : ip p.vector q.vector = sdot p.small q.small) (hpp : ip p.vector p.vector = sdot p.small p.small) :
    (sdot p.small p.small = 1 → ip p.vector p.vector = 1) ∧ (sdot p.small q.small = 0 → ip p.vector q.vector = 0) :=
  ⟨fun h => hpp.trans h, fun h => hg.trans h⟩

/-- **c15_unit_orth, guaranteed case.**  If in addition the kernels meet their SPECIFICATION — the eigen-solver returns
    orthonormal eigenvector columns of the right length (`EigSpec`), the orthogonaliser returns an orthonormal list whenever
    the columns it must keep are orthonormal (`OrthSpec`), `argsort` repeats no index (`ArgsortSpec`) — and the initial space
    is orthonormal (the default one is: `c15_default_space_orthonormal`), then at exit the search-space basis is orthonormal
    and the stored Ritz vectors (hence `eigenvectors()`) have unit norm and are mutually orthogonal.  Restart, extension,
    sorting and every outcome of the convergence tests are covered. -/
theorem c15_unit_orth_spec (ip : M → M → R) (hip : IsSymBilin ip) (hL : Linear K A) (hO : OrthKeepsLeft K)
    (hQ : OrthSpec ip K) (hE : EigSpec K) (hS : ArgsortSpec K)
    (c : Cfg) (corr : List (Pair R M) → List M) (guess : List M) (sel : Int) (maxit : Nat) (tol : R) (s : St R M)
    (hm : 1 ≤ maxit) (hG : ON ip guess) :
    let r := (computeWithGuess K c corr guess sel maxit tol s).1
    ON ip r.basis ∧ r.pairs.Pairwise (fun p q => ip p.vector q.vector = 0) ∧ ∀ p ∈ r.pairs, ip p.vector p.vector = 1 := by
  have h0 : InvON ip K A (start guess) := by
    refine ⟨⟨by simp [Cached, start], ?_, ?_⟩, hG, ?_⟩
    · intro p hp; simp [start] at hp
    · intro p hp; simp [start] at hp
    · simp [PairsON, start]
  have hI := loop_invFullON ip hip hL hO hQ hE hS c corr sel tol maxit maxit _ h0 (by simp [start]) (by omega)
  exact ⟨hI.2.1, hI.2.2.1, hI.2.2.2⟩

end gram

/-- the Euclidean dot product of coordinate vectors is a symmetric bilinear form -/
theorem c15_dotProduct_symBilin {R : Type} [CommRing R] {n : Nat} :
    IsSymBilin (fun u v : Fin n → R => dotProduct u v) :=
  ⟨fun u v w => add_dotProduct u v w, fun a u w => by simp [smul_dotProduct], fun u v => dotProduct_comm u v⟩

/-- the default initial space of `DavidsonSymEigsSolver` — unit coordinate vectors at pairwise distinct rows (the first
    `initial_size` entries of an argsort permutation) — is orthonormal -/
theorem c15_default_space_orthonormal {R : Type} [CommRing R] {n : Nat} (rows : List (Fin n)) (h : rows.Nodup) :
    ON (fun u v : Fin n → R => dotProduct u v) (rows.map (fun i => Pi.single i (1 : R))) := by
  constructor
  · rw [List.pairwise_map]
    refine List.Pairwise.imp ?_ h
    intro i j hij
    simp [hij]
  · intro u hu
    obtain ⟨i, _, rfl⟩ := List.mem_map.mp hu
    simp


/-! ### the extension step: which orthogonaliser runs, and what it guarantees for every input -/

open Gen.JDOrth in
/-- **the extension step is project + Householder QR.**  Decided over the call footprint `Gen.JDOrth.orth_calls` (every free-function
    call, member call and class-typed local of every function template of `LinAlg/Orthogonalization.h` and of
    `SearchSpace::append_new_vectors_to_basis` / `extend_basis`, regenerated from the clang AST of the working tree on every run):
    (1) `extend_basis` calls `twice_is_enough_orthogonalisation(m_basis_vectors, left_cols_to_skip)` and no other free function;
    (2) that is two calls of `JensWehner_orthogonalisation(in_output, left_cols_to_skip)`;
    (3) which is `assert_left_cols_to_skip; subspace_orthogonalisation(in_output, left_cols_to_skip);` then
        `QR_orthogonalisation(right_cols)` on `right_cols = in_output.rightCols(right_cols_to_ortho)`;
    (4) `QR_orthogonalisation` builds an `Eigen::HouseholderQR<Matrix>` of the block and assigns `qr.householderQ() * I` to it;
    (5) no function on this path calls `MGS_orthogonalisation`, `GS_orthogonalisation`, `treat_first_col` or any `normalize` — the
        Gram–Schmidt routines of the same header, whose `normalize()` leaves a ZERO column when the new columns are linearly
        dependent — and the only free functions called on the path are the ones named here (+ `std::min`, `Identity`);
    (6) all of these are function templates of the header.
    So the kernel `K.orth` of the model stands for a Householder Q factor, whose specification `OrthBlockSpec`
    (`c15_extension_block_orthonormal`) the step replay checks on every recorded output. -/
theorem c15_extension_uses_householder_qr :
    (orth_calls.filter (fun c => c.fn = "SearchSpace::extend_basis" ∧ c.kind ≠ "member")).map (fun c => (c.kind, c.callee, c.args)) =
      [("call", "twice_is_enough_orthogonalisation", "m_basis_vectors, left_cols_to_skip")] ∧
    (orth_calls.filter (fun c => c.fn = "twice_is_enough_orthogonalisation")).map (fun c => (c.kind, c.callee, c.args)) =
      [("call", "JensWehner_orthogonalisation", "in_output, left_cols_to_skip"), ("call", "JensWehner_orthogonalisation", "in_output, left_cols_to_skip")] ∧
    (orth_calls.filter (fun c => c.fn = "JensWehner_orthogonalisation" ∧ c.kind ≠ "member")).map (fun c => (c.kind, c.callee, c.args)) =
      [("call", "assert_left_cols_to_skip", "in_output, left_cols_to_skip"),
       ("call", "subspace_orthogonalisation", "in_output, left_cols_to_skip"),
       ("local", "Eigen::Ref<Matrix>", "right_cols := in_output.rightCols(right_cols_to_ortho)"),
       ("call", "QR_orthogonalisation", "right_cols")] ∧
    (orth_calls.filter (fun c => c.fn = "QR_orthogonalisation" ∧ (c.kind = "local" ∨ c.callee = "householderQ" ∨ c.callee = "noalias"))).map
        (fun c => (c.kind, c.callee, c.args)) =
      [("local", "Eigen::HouseholderQR<Matrix>", "qr := (in_output)"), ("member", "noalias", "in_output.leftCols(ncols) | "), ("member", "householderQ", "qr | ")] ∧
    (∀ c ∈ orth_calls, c.fn ∈ ["SearchSpace::extend_basis", "SearchSpace::append_new_vectors_to_basis", "twice_is_enough_orthogonalisation",
        "JensWehner_orthogonalisation", "subspace_orthogonalisation", "QR_orthogonalisation", "assert_left_cols_to_skip"] →
      c.callee ∉ ["MGS_orthogonalisation", "GS_orthogonalisation", "treat_first_col", "normalize", "normalized", "stableNormalize"] ∧
      (c.kind = "call" → c.callee ∈ ["twice_is_enough_orthogonalisation", "JensWehner_orthogonalisation", "subspace_orthogonalisation",
        "QR_orthogonalisation", "assert_left_cols_to_skip", "min", "InternalMatrix::Identity"])) ∧
    (∀ f ∈ ["twice_is_enough_orthogonalisation", "JensWehner_orthogonalisation", "subspace_orthogonalisation", "QR_orthogonalisation",
        "assert_left_cols_to_skip"], f ∈ orth_functions) := by
  refine ⟨by decide, by decide, by decide, by decide, by decide, by decide⟩

section block
variable {R M : Type} [CommRing R] [AddCommGroup M] [Module R M] (K : Kern R M)

/-- **c15_extension_block_orthonormal.**  For every orthogonaliser that leaves the old columns alone and meets the Q-factor
    specification `OrthBlockSpec … d` in dimension `d` (as many columns out as in; the columns behind the first `left_cols_to_skip`
    orthonormal among themselves — what the leading columns of a Householder Q factor are for EVERY block of at most `d` columns,
    linearly dependent or not), every state (orthonormal basis or not) and every list of at most `d` corrections (dependent,
    repeated, zero; `correction_size ≤ n` by `c15_sizes`): `extend_basis` keeps the old columns,
    appends exactly as many columns as corrections, the appended block is orthonormal, and (in a non-trivial ring) NO appended
    column is the zero vector.  The harness checks `OrthBlockSpec` on every recorded kernel output (`blockok`). -/
theorem c15_extension_block_orthonormal (ip : M → M → R) (hip : IsSymBilin ip) {d : Nat} (hO : OrthKeepsLeft K)
    (hB : OrthBlockSpec ip K d) (s : St R M) (newv : List M) (hd : newv.length ≤ d) (h01 : (1 : R) ≠ 0) :
    let b := (extendBasis K newv s).basis
    b.take s.basis.length = s.basis ∧ b.length = s.basis.length + newv.length ∧
    ON ip (b.drop s.basis.length) ∧ ∀ v ∈ b.drop s.basis.length, ip v v = 1 ∧ v ≠ 0 := by
  intro b
  obtain ⟨h1, h2, h3⟩ := extend_block ip hO hB s newv hd
  refine ⟨?_, ?_, h3, ?_⟩
  · show (extendBasis K newv s).basis.take s.basis.length = s.basis
    rw [h1]; simp
  · show (extendBasis K newv s).basis.length = _
    rw [h1, List.length_append, h2]
  · intro v hv
    refine ⟨h3.2 v hv, ?_⟩
    intro hz
    have := h3.2 v hv
    rw [hz, hip.zero_left] at this
    exact h01 this.symm

end block

/-! ### c15_correction_defined -/
section dpr
variable {F : Type} [Field F]

/-- the raw DPR quotient `r_i / (θ - a_ii)` solves the DPR equation `(θ - a_ii) t_i = r_i` for every residue iff `θ ≠ a_ii`
    for all `i` — nothing in the solver establishes the right-hand side, which is why the quotient must be guarded -/
theorem c15_dpr_quotient_defined_iff (n : Nat) (d : Nat → F) (θ : F) :
    (∀ r : Nat → F, ∀ i < n, (θ - d i) * (r i / (θ - d i)) = r i) ↔ ∀ i < n, θ ≠ d i :=
  dpr_solves_iff n d θ

end dpr

section dprfix
variable {F : Type} [Field F] [LinearOrder F] [IsStrictOrderedRing F] (Fn : FieldFns F)
open Lin

/-- **c15_correction_defined** (repaired code).  `calculate_correction_vector` is `(tmp == 0).select(0, residue / tmp)` with
    `tmp = θ - diagonal`.  For EVERY `θ`, diagonal and residue:
    (1) the result does not depend on what a division by zero evaluates to — computed with any division function that agrees
        with the field's on non-zero denominators (IEEE: NaN, ±inf for `x/0`) it is the same vector, so no entry is ever the
        outcome of `0/0` or `x/0`: the correction is finite whenever its inputs are;
    (2) entry `i` is the DPR quotient `r_i / (θ - a_ii)`, i.e. solves `(θ - a_ii) t_i = r_i`, wherever `θ ≠ a_ii`;
    (3) entry `i` is `0` where `θ = a_ii` (pseudo-inverse of the singular diagonal preconditioner). -/
theorem c15_correction_defined (diag : Vec F) (θ : F) (r : Vec F) :
    (∀ dv : F → F → F, (∀ a b : F, b ≠ 0 → dv a b = a / b) →
      @Exec.dprColumn F _ ⟨dv⟩ (scOfField Fn) diag θ r = @Exec.dprColumn F _ _ (scOfField Fn) diag θ r) ∧
    (∀ i < diag.size, θ ≠ @vget F (scOfField Fn) diag i →
      (θ - @vget F (scOfField Fn) diag i) * @vget F (scOfField Fn) (@Exec.dprColumn F _ _ (scOfField Fn) diag θ r) i
        = @vget F (scOfField Fn) r i) ∧
    (∀ i < diag.size, θ = @vget F (scOfField Fn) diag i →
      @vget F (scOfField Fn) (@Exec.dprColumn F _ _ (scOfField Fn) diag θ r) i = 0) := by
  refine ⟨fun dv hdv => dprColumn_indep Fn dv hdv diag θ r, ?_, ?_⟩
  · intro i hi hne
    rw [dprColumn_entry Fn diag θ r i hi]
    have : θ - @vget F (scOfField Fn) diag i ≠ 0 := sub_ne_zero.mpr hne
    simp only [this, if_false]
    field_simp
  · intro i hi heq
    rw [dprColumn_entry Fn diag θ r i hi]
    simp [heq]

end dprfix

/-! ### ownership and reset footprint of the solver object (regenerated tables `Gen.JDMembers`) -/

/-- every `break` of a flattened body is directly preceded, in the same block, by an assignment to `m_info` -/
def breaksAfterInfo : List Gen.JDMembers.Stmt → Bool
  | a :: b :: rest => (b.kind != "break" || (a.kind == "assign" && a.target == "m_info" && a.depth == b.depth)) && breaksAfterInfo (b :: rest)
  | [b] => b.kind != "break"
  | [] => true

set_option maxRecDepth 8000 in
open Gen.JDMembers in
/-- **the object owns everything but the operator.**  Decided over `Gen.JDMembers.members` / `aliases` / `flow` (every data member and
    type alias of `JDSymEigsBase`, `DavidsonSymEigsSolver`, `SearchSpace`, `RitzPairs` and the flattened bodies of `compute`,
    `compute_with_guess`, the accessors and `initialize_search_space`, regenerated from the clang AST of the working tree on every run):
    (1) these are ALL the data members, with these declared types: no cache of earlier results, no copy of a caller's argument other than
        the ones below;
    (2) the only member that is a reference, a pointer or a non-owning handle (`Eigen::Ref` / `Map`, `reference_wrapper`, smart pointer,
        `std::function`) is `JDSymEigsBase::m_matrix_operator`; no member is `mutable`;
    (3) the aliases the members are declared with (`Matrix`, `Vector`, `Array`, `BoolArray`) are owning `Eigen::Matrix` / `Eigen::Array` types;
    (4) the caller's initial space reaches the object through `m_search_space.initialize_search_space(initial_space)` only, where it is
        COPIED into the owning `m_basis_vectors`; `compute()` builds its own `Matrix intial_space`; `selection`, `maxit`, `tol` are
        by-value parameters;
    (5) the accessors return by value (`CompInfo`, `Index`, `Vector`, `Matrix`) and are `const`.
    So destroying or overwriting the guess matrix, the rule, `maxit`, `tol` or the constructor's size arguments after the call cannot change
    what the accessors return; only the operator object must outlive the solver. -/
theorem c15_members_owning :
    members.map (fun m => (m.cls, m.name, m.type)) =
      [("JDSymEigsBase", "m_matrix_operator", "const OpType&"), ("JDSymEigsBase", "niter_", "Index"),
       ("JDSymEigsBase", "m_number_eigenvalues", "const Index"), ("JDSymEigsBase", "m_max_search_space_size", "Index"),
       ("JDSymEigsBase", "m_initial_search_space_size", "Index"), ("JDSymEigsBase", "m_correction_size", "Index"),
       ("JDSymEigsBase", "m_ritz_pairs", "RitzPairs<Scalar>"), ("JDSymEigsBase", "m_search_space", "SearchSpace<Scalar>"),
       ("JDSymEigsBase", "m_info", "CompInfo"), ("DavidsonSymEigsSolver", "m_diagonal", "Vector"),
       ("SearchSpace", "m_basis_vectors", "Matrix"), ("SearchSpace", "m_op_basis_product", "Matrix"),
       ("RitzPairs", "m_values", "Vector"), ("RitzPairs", "m_small_vectors", "Matrix"), ("RitzPairs", "m_vectors", "Matrix"),
       ("RitzPairs", "m_residues", "Matrix"), ("RitzPairs", "m_root_converged", "BoolArray")] ∧
    (members.filter (fun m => m.isRef || m.isPtr)).map (fun m => (m.cls, m.name)) = [("JDSymEigsBase", "m_matrix_operator")] ∧
    (∀ m ∈ members, m.isMutable = false) ∧
    (∀ a ∈ aliases, a.2.1 ∈ ["Matrix", "Vector", "Array", "BoolArray"] →
      a.2.2 ∈ ["Eigen::Matrix<Scalar, Eigen::Dynamic, Eigen::Dynamic>", "Eigen::Matrix<Scalar, Eigen::Dynamic, 1>",
               "Eigen::Array<Scalar, Eigen::Dynamic, 1>", "Eigen::Array<bool, Eigen::Dynamic, 1>"]) ∧
    (flow.filter (fun r => r.fn = "JDSymEigsBase::compute")).map (fun r => (r.kind, r.target, r.text)) =
      [("signature", "Index", "(Spectra::SortRule, Spectra::JDSymEigsBase::Index, Spectra::JDSymEigsBase::Scalar)"),
       ("decl", "derived", "Derived& := static_cast<Derived&>(*this)"),
       ("decl", "intial_space", "Matrix := derived.setup_initial_search_space(selection)"),
       ("return", "", "compute_with_guess(intial_space, selection, maxit, tol)")] ∧
    (flow.filter (fun r => r.fn = "JDSymEigsBase::compute_with_guess" ∧ (r.kind = "signature" ∨ r.text = "initial_space"))).map
        (fun r => (r.kind, r.target, r.text)) =
      [("signature", "Index", "(const Eigen::Ref<const Matrix> &, Spectra::SortRule, Spectra::JDSymEigsBase::Index, Spectra::JDSymEigsBase::Scalar)"),
       ("call", "m_search_space.initialize_search_space", "initial_space")] ∧
    (flow.filter (fun r => r.fn = "SearchSpace::initialize_search_space")).map (fun r => (r.depth, r.kind, r.target, r.text)) =
      [(0, "signature", "void", "(const Eigen::Ref<const Matrix> &)"), (0, "assign", "m_basis_vectors", "initial_vectors"),
       (0, "assign", "m_op_basis_product", "Matrix(initial_vectors.rows(), 0)")] ∧
    (flow.filter (fun r => r.fn ∈ ["JDSymEigsBase::info", "JDSymEigsBase::num_iterations", "JDSymEigsBase::eigenvalues",
        "JDSymEigsBase::eigenvectors"])).map (fun r => (r.fn, r.kind, r.target, r.text)) =
      [("JDSymEigsBase::info", "signature", "CompInfo", "() const"), ("JDSymEigsBase::info", "return", "", "m_info"),
       ("JDSymEigsBase::num_iterations", "signature", "Index", "() const"), ("JDSymEigsBase::num_iterations", "return", "", "niter_"),
       ("JDSymEigsBase::eigenvalues", "signature", "Vector", "() const"),
       ("JDSymEigsBase::eigenvalues", "return", "", "m_ritz_pairs.ritz_values().head((std::min)(m_number_eigenvalues, m_ritz_pairs.size()))"),
       ("JDSymEigsBase::eigenvectors", "signature", "Matrix", "() const"),
       ("JDSymEigsBase::eigenvectors", "return", "", "m_ritz_pairs.ritz_vectors().leftCols((std::min)(m_number_eigenvalues, m_ritz_pairs.size()))")] := by
  refine ⟨by decide, by decide, by decide, by decide, by decide, by decide, by decide, by decide⟩

set_option maxRecDepth 8000 in
open Gen.JDMembers in
/-- **what a second `compute` resets** — the full clause: "`compute_with_guess` begins by resetting every result member", true of the code
    since /repo 6587027 (before it the prologue was `initialize_search_space(…); niter_ = 0;` only: findings F21, F21b, F21c).  Proved by
    decision over the regenerated tables `Gen.JDMembers.flow` / `members` / `special_members`:
    (1) the body of `compute_with_guess` is exactly this statement sequence (nesting depth, kind, target, text);
    (2) the statements before the `for`, all at nesting depth 0 (unconditional), are, in this order,
        `m_ritz_pairs = RitzPairs<Scalar>(); m_info = CompInfo::NotComputed; m_search_space.initialize_search_space(initial_space); niter_ = 0;`;
    (3) `initialize_search_space` assigns, unconditionally and as a whole, EVERY data member of `SearchSpace`;
    (4) the data members of `JDSymEigsBase` are the configuration (operator reference, `nev`, the three sizes) and the four result members
        `niter_`, `m_ritz_pairs`, `m_search_space`, `m_info`; the prologue names EVERY ONE of them (none is left out), and
        `compute_with_guess` assigns no other member (the configuration is not touched);
    (5) `RitzPairs<Scalar>()` is the empty object: the only constructor `RitzPairs` declares is `RitzPairs() = default`, no data member of
        `RitzPairs` has a default member initialiser, and it declares no assignment operator (the assignment in (2) is the implicit
        member-wise one) — with (3) of `c15_members_owning` (the members are dynamic-size `Eigen::Matrix` / `Eigen::Array`) all five
        arrays have size 0 after the assignment: no Ritz pair, no flag;
    (6) inside the loop `compute_eigen_pairs` and `check_convergence` together assign, unconditionally and as a whole, EVERY data member of
        `RitzPairs` (`m_root_converged` is then filled entry by entry for all `j < norms.size()`);
    (7) every `break` of the loop is directly preceded by an assignment to `m_info`; the statements made ON `m_ritz_pairs` are the reset at
        depth 0 and `m_ritz_pairs.sort(selection)` inside the loop.
    With the model theorem `c15_recompute` (same statement order, all kernels): a call on a used object leaves the object a fresh one would
    be left in — for every `maxit`, initial space and kernel outcome. -/
theorem c15_compute_resets :
    (flow.filter (fun r => r.fn = "JDSymEigsBase::compute_with_guess" ∧ r.kind ≠ "signature")).map (fun r => (r.depth, r.kind, r.target, r.text)) =
      [(0, "assign", "m_ritz_pairs", "RitzPairs<Scalar>()"),
       (0, "assign", "m_info", "CompInfo::NotComputed"),
       (0, "call", "m_search_space.initialize_search_space", "initial_space"),
       (0, "assign", "niter_", "0"),
       (0, "for", "", "niter_ = 0; niter_ < maxit; niter_++"),
       (1, "decl", "do_restart", "bool := (m_search_space.size() > m_max_search_space_size)"),
       (1, "if", "", "do_restart"),
       (2, "call", "m_search_space.restart", "m_ritz_pairs, m_initial_search_space_size"),
       (1, "call", "m_search_space.update_operator_basis_product", "m_matrix_operator"),
       (1, "decl", "small_problem_info", "Eigen::ComputationInfo := m_ritz_pairs.compute_eigen_pairs(m_search_space)"),
       (1, "if", "", "small_problem_info != Eigen::ComputationInfo::Success"),
       (2, "assign", "m_info", "CompInfo::NumericalIssue"),
       (2, "break", "", ""),
       (1, "call", "m_ritz_pairs.sort", "selection"),
       (1, "decl", "converged", "bool := m_ritz_pairs.check_convergence(tol, m_number_eigenvalues)"),
       (1, "if", "", "converged"),
       (2, "assign", "m_info", "CompInfo::Successful"),
       (2, "break", "", ""),
       (1, "else", "", ""),
       (2, "if", "", "niter_ == maxit - 1"),
       (3, "assign", "m_info", "CompInfo::NotConverging"),
       (3, "break", "", ""),
       (1, "decl", "derived", "Derived& := static_cast<Derived&>(*this)"),
       (1, "decl", "corr_vect", "Matrix := derived.calculate_correction_vector()"),
       (1, "call", "m_search_space.extend_basis", "corr_vect"),
       (0, "return", "", "(m_ritz_pairs.converged_eigenvalues()).template cast<Index>().head((std::min)(m_number_eigenvalues, m_ritz_pairs.converged_eigenvalues().size())).sum()")] ∧
    ((flow.filter (fun r => r.fn = "JDSymEigsBase::compute_with_guess" ∧ r.kind ≠ "signature")).takeWhile (fun r => r.kind ≠ "for")).map
        (fun r => (r.depth, r.kind, r.target, r.text, r.root)) =
      [(0, "assign", "m_ritz_pairs", "RitzPairs<Scalar>()", "m_ritz_pairs"), (0, "assign", "m_info", "CompInfo::NotComputed", "m_info"),
       (0, "call", "m_search_space.initialize_search_space", "initial_space", "m_search_space"), (0, "assign", "niter_", "0", "niter_")] ∧
    (flow.filter (fun r => r.fn = "SearchSpace::initialize_search_space" ∧ r.kind = "assign" ∧ r.depth = 0)).map (fun r => r.target) =
      (members.filter (fun m => m.cls = "SearchSpace")).map (fun m => m.name) ∧
    (members.filter (fun m => m.cls = "JDSymEigsBase")).map (fun m => m.name) =
      ["m_matrix_operator", "niter_", "m_number_eigenvalues", "m_max_search_space_size", "m_initial_search_space_size", "m_correction_size",
       "m_ritz_pairs", "m_search_space", "m_info"] ∧
    (["niter_", "m_ritz_pairs", "m_search_space", "m_info"].filter (fun m =>
        ((flow.filter (fun r => r.fn = "JDSymEigsBase::compute_with_guess" ∧ r.kind ≠ "signature")).takeWhile (fun r => r.kind ≠ "for")).all
          (fun r => r.root ≠ m))) = [] ∧
    (∀ r ∈ flow, r.fn = "JDSymEigsBase::compute_with_guess" → r.kind = "assign" → r.root ∈ ["m_ritz_pairs", "m_info", "niter_"]) ∧
    special_members.filter (fun r => r.1 = "RitzPairs") = [("RitzPairs", "RitzPairs", "void ()", "default")] ∧
    (∀ m ∈ members, m.cls = "RitzPairs" → m.init = "") ∧
    (flow.filter (fun r => (r.fn = "RitzPairs::compute_eigen_pairs" ∨ r.fn = "RitzPairs::check_convergence") ∧ r.kind = "assign" ∧ r.depth = 0)).map
        (fun r => r.target) = (members.filter (fun m => m.cls = "RitzPairs")).map (fun m => m.name) ∧
    (flow.filter (fun r => r.fn = "RitzPairs::check_convergence" ∧ (r.kind = "for" ∨ r.target = "m_root_converged[j]"))).map
        (fun r => (r.depth, r.kind, r.target, r.text)) =
      [(0, "for", "", "Index j = 0; j < norms.size(); j++"), (1, "assign", "m_root_converged[j]", "(norms[j] < tol)")] ∧
    (flow.filter (fun r => r.fn = "JDSymEigsBase::compute_with_guess" ∧ r.root = "m_ritz_pairs")).map (fun r => (r.depth, r.target)) =
      [(0, "m_ritz_pairs"), (1, "m_ritz_pairs.sort")] ∧
    breaksAfterInfo (flow.filter (fun r => r.fn = "JDSymEigsBase::compute_with_guess")) = true := by
  refine ⟨by decide, by decide, by decide, by decide, by decide, by decide, by decide, by decide, by decide, by decide, by decide, by decide⟩

/-! ### object reuse: every history of calls on ONE solver object -/
section reuse
variable {σ ν : Type} (K : Kern σ ν)

/-- **c15_recompute.**  For ALL kernels, EVERY state `s` an earlier history of calls (successful, not converging, ended by
    `NumericalIssue`, with other rules / tolerances / initial spaces, …) can have left in the object, EVERY `maxit` (0 included),
    EVERY initial space (also one wider than `max_search_space_size`, which restarts in the first trip) and every outcome of the
    small eigenproblems: a call `compute_with_guess(guess, sel, maxit, tol)` leaves EXACTLY the object, and returns exactly the
    value, that the same call produces on a freshly constructed solver: search space, cached products, Ritz pairs, flags,
    `num_iterations()`, `info()`.  Hence `eigenvalues()` / `eigenvectors()` and every theorem of this file hold after any
    history.  (Before /repo 6587027 this needed `maxit ≥ 1`, at most `max` columns and a first small eigenproblem that
    succeeds; the exceptions were findings F21, F21b and the stale flags after `NumericalIssue`.) -/
theorem c15_recompute (c : Cfg) (corr : List (Pair σ ν) → List ν) (guess : List ν) (sel : Int) (maxit : Nat) (tol : σ)
    (s : St σ ν) :
    computeWithGuess K c corr guess sel maxit tol s = computeWithGuess K c corr guess sel maxit tol construct :=
  computeWithGuess_forgets K c corr guess sel maxit tol s construct

/-- the same for the accessors: what `info()`, `num_iterations()`, `eigenvalues()`, `eigenvectors()` return after the call does not
    depend on the object's past -/
theorem c15_recompute_accessors (c : Cfg) (corr : List (Pair σ ν) → List ν) (guess : List ν) (sel : Int) (maxit : Nat) (tol : σ)
    (s : St σ ν) :
    let r := (computeWithGuess K c corr guess sel maxit tol s).1
    let f := (computeWithGuess K c corr guess sel maxit tol (construct : St σ ν)).1
    r.info = f.info ∧ r.niter = f.niter ∧ eigenvalues c r = eigenvalues c f ∧ eigenvectors c r = eigenvectors c f := by
  rw [c15_recompute K c corr guess sel maxit tol s]
  exact ⟨rfl, rfl, rfl, rfl⟩

/-- **`maxit = 0` on ANY object** (the former blind side of the reset, finding F21): the loop body never runs, and whatever the object
    held — a `Successful` result of an earlier call included — it now reports `NotComputed`, `compute` returns 0,
    `num_iterations()` is 0, `eigenvalues()` / `eigenvectors()` are empty, no Ritz pair and no flag is stored, and the search
    space holds the new initial space with no cached product. -/
theorem c15_maxit0_not_computed (c : Cfg) (corr : List (Pair σ ν) → List ν) (guess : List ν) (sel : Int) (tol : σ) (s : St σ ν) :
    let r := computeWithGuess K c corr guess sel 0 tol s
    r.1.info = .notComputed ∧ r.2 = 0 ∧ r.1.niter = 0 ∧ eigenvalues c r.1 = [] ∧ eigenvectors c r.1 = [] ∧
    r.1.pairs = [] ∧ r.1.conv = [] ∧ r.1.basis = guess ∧ r.1.opBasis = [] := by
  simp only [computeWithGuess_eq, loop_zero]
  simp [start, returnValue, eigenvalues, eigenvectors]

/-- **the status is this call's own**: after `compute_with_guess` with `maxit ≥ 1` on ANY object `info()` is one of `Successful`,
    `NotConverging`, `NumericalIssue` — never `NotComputed` — and with `maxit = 0` it is `NotComputed`: `info()` never carries over
    from an earlier call. -/
theorem c15_info_of_this_call (c : Cfg) (corr : List (Pair σ ν) → List ν) (guess : List ν) (sel : Int) (maxit : Nat) (tol : σ)
    (s : St σ ν) :
    (maxit = 0 → (computeWithGuess K c corr guess sel maxit tol s).1.info = .notComputed) ∧
    (1 ≤ maxit → (computeWithGuess K c corr guess sel maxit tol s).1.info ≠ .notComputed) := by
  refine ⟨?_, ?_⟩
  · rintro rfl; exact (c15_maxit0_not_computed K c corr guess sel tol s).1
  · intro hm
    rw [computeWithGuess_eq]
    exact loop_info_written K c corr sel tol maxit maxit (start guess) (by simp [start]) (by omega)

/-- **c15_successful after ANY history** (the same statement as `c15_successful`, which since the repair needs no hypothesis on the
    object's state; kept under this name as the clause "a reused object"): whatever the object held before, every `maxit`, every
    initial space: `Successful` means the test `‖residue‖ < tol` of THIS call passed for each of the first `nev` pairs of THIS call,
    at least `nev` pairs exist and `compute` returns `nev`. -/
theorem c15_successful_reused (c : Cfg) (corr : List (Pair σ ν) → List ν) (guess : List ν) (sel : Int) (maxit : Nat) (tol : σ)
    (s : St σ ν)
    (h : (computeWithGuess K c corr guess sel maxit tol s).1.info = .successful) :
    let r := computeWithGuess K c corr guess sel maxit tol s
    (∀ p ∈ r.1.pairs.take c.nev, K.lt (K.norm p.residue) tol = true) ∧
    r.2 = c.nev ∧ c.nev ≤ r.1.pairs.length ∧ (eigenvalues c r.1).length = c.nev ∧ (eigenvectors c r.1).length = c.nev :=
  c15_successful K c corr guess sel maxit tol s h

end reuse

section reuse_ring
variable {R M : Type} [CommRing R] [AddCommGroup M] [Module R M] (K : Kern R M) (A : M →ₗ[R] M)

/-- **the headline clause after ANY history**: for every linear operator, all kernels, every state `s` of a used object, every
    `maxit` and every initial space: `info() == Successful` ⇒ `‖A x - θ x‖ < tol` for each of the first `nev` pairs
    `eigenvalues()` / `eigenvectors()` return, with THIS call's `tol`. -/
theorem c15_successful_true_residuals_reused (hL : Linear K A) (hO : OrthKeepsLeft K) (c : Cfg) (corr : List (Pair R M) → List M)
    (guess : List M) (sel : Int) (maxit : Nat) (tol : R) (s : St R M)
    (h : (computeWithGuess K c corr guess sel maxit tol s).1.info = .successful) :
    ∀ p ∈ (computeWithGuess K c corr guess sel maxit tol s).1.pairs.take c.nev,
      K.lt (K.norm (A p.vector - p.value • p.vector)) tol = true := by
  rw [c15_recompute K c corr guess sel maxit tol s] at h ⊢
  exact c15_successful_true_residuals K A hL hO c corr guess sel maxit tol h

end reuse_ring

/-! ### examples: hypotheses are satisfiable; witnesses for the clauses that fail -/

/-- 1-dimensional kernels over the commutative ring ℤ: `M = ℤ`, operator `x ↦ a x`, squared norm; the eigen-solver returns
    the (orthonormal) eigen-decomposition of a 1×1 small matrix `[g]`: value `g`, vector `[1]`. -/
def K1 (a : ℤ) : Kern ℤ ℤ :=
  { zero := 0, add := (· + ·), sub := (· - ·), smul := (· * ·), dot := (· * ·), norm := fun x => x * x, lt := fun x y => decide (x < y),
    apply := fun x => a * x,
    eig := fun G => (true, [(G.headD []).headD 0], [[1]]),
    orth := fun l _ => l, argsort := fun _ vs => List.range vs.length }

def A1 (a : ℤ) : ℤ →ₗ[ℤ] ℤ := a • LinearMap.id

theorem c15_example_K1_linear (a : ℤ) : Linear (K1 a) (A1 a) :=
  ⟨rfl, fun _ _ => rfl, fun _ _ => rfl, fun _ _ => rfl, fun v => by simp [K1, A1]⟩

theorem c15_example_K1_orth (a : ℤ) : OrthKeepsLeft (K1 a) := fun _ _ => rfl

/-- hypotheses of `c15_cached_products` / `c15_unit_orth` are satisfiable -/
example : ∃ (K : Kern ℤ ℤ) (A : ℤ →ₗ[ℤ] ℤ), Linear K A ∧ OrthKeepsLeft K := ⟨K1 3, A1 3, c15_example_K1_linear 3, c15_example_K1_orth 3⟩

/-- a kernel record that meets ALL specification hypotheses at once (so `c15_unit_orth_spec` is not vacuous): like `K1`, but
    the eigen-solver answers only 1×1 problems and the orthogonaliser keeps just the columns it must not touch -/
def K2 (a : ℤ) : Kern ℤ ℤ :=
  { K1 a with eig := fun G => if G.length = 1 then (true, [(G.headD []).headD 0], [[1]]) else (true, [], []),
              orth := fun l k => l.take k }

example (a : ℤ) : Linear (K2 a) (A1 a) ∧ OrthKeepsLeft (K2 a) ∧ EigSpec (K2 a) ∧ OrthSpec (fun x y : ℤ => x * y) (K2 a) ∧
    ArgsortSpec (K2 a) ∧ IsSymBilin (fun x y : ℤ => x * y) ∧ ON (fun x y : ℤ => x * y) [1] := by
  refine ⟨⟨rfl, fun _ _ => rfl, fun _ _ => rfl, fun _ _ => rfl, fun v => by simp [K2, K1, A1]⟩, ?_, ?_, ?_, ?_, ?_, ?_⟩
  · intro l k; simp [K2]
  · intro G
    by_cases h : G.length = 1
    · simp [K2, h, sdot]
    · simp [K2, h]
  · intro l k h; simpa [K2] using h
  · intro sel vals; simp only [K2, K1]; exact List.nodup_range
  · exact ⟨fun u v w => by ring, fun c u w => by simp [mul_assoc], fun u v => mul_comm u v⟩
  · simp [ON]

def cfg1 : Cfg := { nev := 1, maxSize := 1, initSize := 1, corrSize := 1 }

/-- counter-model for "Successful ⇒ unit norm" with a user-supplied NON-orthonormal space (finding F16): operator `3·`,
    initial space `[2]` (squared norm 4), all kernels meet their specification, yet `info = Successful`, `compute` returns
    `nev = 1`, the returned vector has `⟨x, x⟩ = 4`, and the returned value 12 is not the eigenvalue 3 -/
example :
    (computeWithGuess (K1 3) cfg1 (fun _ => [1]) [2] 7 5 1000 construct).1.info = .successful ∧
    (computeWithGuess (K1 3) cfg1 (fun _ => [1]) [2] 7 5 1000 construct).2 = 1 ∧
    (eigenvectors cfg1 (computeWithGuess (K1 3) cfg1 (fun _ => [1]) [2] 7 5 1000 construct).1).map (fun x => x * x) = [4] ∧
    eigenvalues cfg1 (computeWithGuess (K1 3) cfg1 (fun _ => [1]) [2] 7 5 1000 construct).1 = [12] := by
  decide

/-- with the orthonormal space `[1]` the same kernels return the eigenpair (3, 1) with unit norm -/
example :
    (computeWithGuess (K1 3) cfg1 (fun _ => [1]) [1] 7 5 1 construct).1.info = .successful ∧
    (eigenvectors cfg1 (computeWithGuess (K1 3) cfg1 (fun _ => [1]) [1] 7 5 1 construct).1).map (fun x => x * x) = [1] ∧
    eigenvalues cfg1 (computeWithGuess (K1 3) cfg1 (fun _ => [1]) [1] 7 5 1 construct).1 = [3] := by
  decide

/-- the situation that used to produce `0/0` (F11, repaired): the decoupled coordinate of `diag(2, …)`, i.e. the 1-dimensional
    run with `a = 2` from the unit vector `[1]`: the Ritz value equals the diagonal entry (`θ - a_00 = 0`) and the residue
    is exactly `0`; with `tol = 0` the pair does not count as converged (`0 < 0` is false) and the loop goes on to form the
    correction, whose entry in that row is now `0` by `c15_correction_defined` (3) instead of the quotient `0/0` -/
example :
    (computeWithGuess (K1 2) cfg1 (fun _ => [1]) [1] 7 1 0 construct).1.info = .notConverging ∧
    (computeWithGuess (K1 2) cfg1 (fun _ => [1]) [1] 7 1 0 construct).1.pairs.map (fun p => (p.value - 2, p.residue)) = [(0, 0)] := by
  decide

/-- 2-dimensional kernels for the operator `[[2,1],[1,2]]` (eigenvalues 1 and 3) on `ℤ × ℤ` whose orthogonaliser keeps the old
    columns and the column count but REPLACES THE NEW COLUMNS BY ZERO (what a Gram–Schmidt sweep with `normalize()` leaves of a
    column that depends on the others); the eigen-solver returns the exact decomposition of the small matrix `diag(2, 0)`. -/
def K3 : Kern ℤ (ℤ × ℤ) :=
  { zero := (0, 0), add := fun u v => (u.1 + v.1, u.2 + v.2), sub := fun u v => (u.1 - v.1, u.2 - v.2),
    smul := fun c v => (c * v.1, c * v.2), dot := fun u v => u.1 * v.1 + u.2 * v.2, norm := fun v => v.1 * v.1 + v.2 * v.2,
    lt := fun x y => decide (x < y), apply := fun v => (2 * v.1 + v.2, v.1 + 2 * v.2),
    eig := fun G => if G.length = 2 then (true, [0, 2], [[0, 1], [1, 0]]) else (true, [(G.headD []).headD 0], [[1]]),
    orth := fun l k => l.take k ++ (l.drop k).map (fun _ => (0, 0)), argsort := fun _ vs => List.range vs.length }

def cfg3 : Cfg := { nev := 1, maxSize := 2, initSize := 1, corrSize := 1 }

/-- counter-model showing that `OrthBlockSpec` is needed (and what replacing the Householder-QR kernel by a routine that can leave a
    zero column does): the orthogonaliser of `K3` keeps the old columns and the column count, the initial space `[(1,0)]` is
    orthonormal, yet after one expansion the basis is `[(1,0), (0,0)]`, `info = Successful`, `compute` returns `nev = 1`, the returned
    eigenvalue is `0` — not an eigenvalue: `A v = 0·v` only for `v = 0` — and the returned eigenvector is the zero vector. -/
example :
    (∀ (l : List (ℤ × ℤ)) (k : Nat), (K3.orth l k).take k = l.take k ∧ (K3.orth l k).length = l.length) ∧
    (computeWithGuess K3 cfg3 (fun _ => [(0, 1)]) [(1, 0)] 7 5 1 construct).1.info = .successful ∧
    (computeWithGuess K3 cfg3 (fun _ => [(0, 1)]) [(1, 0)] 7 5 1 construct).2 = 1 ∧
    (computeWithGuess K3 cfg3 (fun _ => [(0, 1)]) [(1, 0)] 7 5 1 construct).1.basis = [(1, 0), (0, 0)] ∧
    eigenvalues cfg3 (computeWithGuess K3 cfg3 (fun _ => [(0, 1)]) [(1, 0)] 7 5 1 construct).1 = [0] ∧
    eigenvectors cfg3 (computeWithGuess K3 cfg3 (fun _ => [(0, 1)]) [(1, 0)] 7 5 1 construct).1 = [(0, 0)] ∧
    (∀ v : ℤ × ℤ, K3.apply v = K3.smul 0 v → v = (0, 0)) := by
  refine ⟨?_, by decide, by decide, by decide, by decide, by decide, ?_⟩
  · intro l k
    constructor
    · simp only [K3]
      rw [List.take_append, List.take_take, Nat.min_self, List.length_take]
      have : k - min k l.length = 0 ∨ l.length - k = 0 := by omega
      rcases this with h | h
      · rw [h]; simp
      · simp [h]
    · simp [K3]; omega
  · intro v h
    simp [K3] at h
    obtain ⟨h1, h2⟩ := h
    ext <;> simp <;> omega

/-- like `K1`, with an orthogonaliser that keeps the old columns and overwrites every new column by the unit vector `1` of the
    1-dimensional space `ℤ` -/
def K4 (a : ℤ) : Kern ℤ ℤ := { K1 a with orth := fun l k => l.take k ++ (l.drop k).map (fun _ => 1) }

/-- the hypotheses of `c15_extension_block_orthonormal` are satisfiable (dimension `d = 1`) -/
example (a : ℤ) : OrthKeepsLeft (K4 a) ∧ OrthBlockSpec (fun x y : ℤ => x * y) (K4 a) 1 ∧ IsSymBilin (fun x y : ℤ => x * y) ∧ (1 : ℤ) ≠ 0 := by
  refine ⟨?_, ?_, ⟨fun u v w => by ring, fun c u w => by simp [mul_assoc], fun u v => mul_comm u v⟩, by decide⟩
  · intro l k
    simp only [K4, K1]
    rw [List.take_append, List.take_take, Nat.min_self, List.length_take]
    have : k - min k l.length = 0 ∨ l.length - k = 0 := by omega
    rcases this with h | h
    · rw [h]; simp
    · simp [h]
  · intro l k h
    constructor
    · simp [K4, K1]; omega
    · simp only [K4, K1]
      rw [List.drop_append, List.length_take]
      have h1 : List.drop k (List.take k l) = [] := by simp
      rw [h1, List.nil_append, ← List.map_drop]
      generalize hm : List.drop (k - min k l.length) (List.drop k l) = t
      have h2 : t.length ≤ 1 := by rw [← hm]; simp; omega
      match t, h2 with
      | [], _ => simp [ON]
      | [x], _ => simp [ON]

/-- object reuse on a concrete history (the former witness of F21): the used object `sUsed` — the state after
    `compute_with_guess([1], rule 7, maxit 5, tol 1)` with the operator `3·`: `Successful`, returned 1, eigenvalue 3 — is called again
    with tolerance 0, under which nothing converges.  With `maxit = 1` it reports `NotConverging` and returns 0; with `maxit = 0` it
    reports `NotComputed`, returns 0 and hands out NO eigenvalue (it used to report `Successful`, return 1 and hand out the pair of
    the previous call) — in both cases exactly what a fresh object does. -/
def sUsed : St ℤ ℤ := (computeWithGuess (K1 3) cfg1 (fun _ => [1]) [1] 7 5 1 construct).1

example :
    sUsed.info = .successful ∧ eigenvalues cfg1 sUsed = [3] ∧ returnValue cfg1 sUsed = 1 ∧
    (computeWithGuess (K1 3) cfg1 (fun _ => [1]) [1] 7 1 0 sUsed).1.info = .notConverging ∧
    (computeWithGuess (K1 3) cfg1 (fun _ => [1]) [1] 7 1 0 sUsed).2 = 0 ∧
    (computeWithGuess (K1 3) cfg1 (fun _ => [1]) [1] 7 0 0 sUsed).1.info = .notComputed ∧
    (computeWithGuess (K1 3) cfg1 (fun _ => [1]) [1] 7 0 0 sUsed).2 = 0 ∧
    eigenvalues cfg1 (computeWithGuess (K1 3) cfg1 (fun _ => [1]) [1] 7 0 0 sUsed).1 = [] ∧
    (computeWithGuess (K1 3) cfg1 (fun _ => [1]) [1] 7 0 0 construct).1.info = .notComputed ∧
    (computeWithGuess (K1 3) cfg1 (fun _ => [1]) [1] 7 0 0 construct).2 = 0 := by
  decide

/-- why the two reset statements are needed (the loop itself does not forget): entered with the state of the USED object and no
    iteration allowed — what the prologue `initialize_search_space(…); niter_ = 0;` alone amounted to — the loop hands the stale
    status and pair through; entered in the state the repaired prologue produces (`C15L.start`) it does not -/
example :
    (loop (K1 3) cfg1 (fun _ => [1]) 7 0 0 0 { initializeSearchSpace [1] sUsed with niter := 0, sizes := [] }).info = .successful ∧
    eigenvalues cfg1 (loop (K1 3) cfg1 (fun _ => [1]) 7 0 0 0 { initializeSearchSpace [1] sUsed with niter := 0, sizes := [] }) = [3] ∧
    (loop (K1 3) cfg1 (fun _ => [1]) 7 0 0 0 (start [1])).info = .notComputed ∧
    eigenvalues cfg1 (loop (K1 3) cfg1 (fun _ => [1]) 7 0 0 0 (start [1])) = [] := by
  decide

end C15
