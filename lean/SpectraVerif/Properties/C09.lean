/-
  C09 — small dense eigen-decompositions (TridiagEigen, UpperHessenbergSchur, UpperHessenbergEigen).

  The theorems are about the hand-written executable models `Model/TridiagEigen.lean`, `Model/HessSchur.lean`,
  `Model/HessEigen.lean` (the same text runs at `Float` in the driver and is compared bit-for-bit with the real classes).

  Proved here (all sizes, all inputs):
  * loop structure, with EVERY floating comparison an arbitrary boolean (any `Sc` instance, DESIGN §3.2):
    `c09_trideig_exit`, `c09_iteration_cap`, `c09_trideig_fuel`, `c09_schur_iteration_cap`, `c09_schur_exit`, `c09_schur_quasi_triangular`, `c09_hesseig_throw_iff`;
  * exact-arithmetic (ordered field) content of the pairing convention: `c09_conj_exact` (full strength: z > 0 for unsplit blocks), `c09_conj_blocks`, `c09_conj_unsplit_pos`, `c09_conj_kinds`,
    `c09_backsub_branch`, `c09_conj_scale`, `c09_conj_compute`, `c09_hesseig_zero`,
    `c09_cdiv_spec` (the `__divdc3` port is complex division), `c09_eigvec_unit` (normalisation is exact);
  * whole-run exact-arithmetic statement: `c09_trideig_orth` (ZᵀZ = I for ideal rotations, with `c09_givens_unit`),
    `c09_schur_orth` (UᵀU = I for ideal reflectors and rotations, with `c09_householder_ideal`);
  * ring identities: `c09_trideig_step`, `c09_trideig_step_GtTG`, `c09_trideig_step_Q`, `c09_rot_orth`,
    `c09_householder_apply_left/right`, `c09_householder_kernel`, `c09_wilkinson_shift`;
  * translator tie: `c09_wilkinson_gen` (hand model prologue = `Gen.Wilk.wilkinson_mu`, regenerated from the header every run).
  * whole-run similarity of `TridiagEigen::compute` in exact arithmetic (field instance, exact `sqrt`, all `n`, all inputs, every
    outcome of every comparison): `c09_trideig_decomp` / `c09_trideig_decomp_matrix`: `(T₀ − P) Z = Z diag(evals)` with `ZᵀZ = ZZᵀ = I`,
    `P` symmetric and `|Pᵢⱼ| ≤ 2·totalDrop` where `totalDrop` = `scale ·` Σ over all deflation passes of the magnitudes of the
    sub-diagonal entries the pass overwrote (`c09_trideig_deflate`: each was replaced by exactly `0` after passing the code's
    negligibility test on its current value); building blocks `c09_givens_annihilate`, `c09_trideig_qrstep_similarity` (one
    `tridiagonal_qr_step` is an orthogonal similarity that loses NO entry); corollaries `c09_trideig_exact` (`T₀ Z = Z D` exactly when
    the budget is `0`) and `c09_trideig_eigH_spec` (the `eig_spec` obligation of `C01E.ExactKernels` for `HermSolver.eigH`).
  * UpperHessenbergSchur, exact-arithmetic building blocks of the `U T Uᵀ` invariant (`c09_schur_similarity_partial_*`): the ideal
    reflector maps its defining vector to `β e₁` exactly (`c09_schur_similarity_partial_reflect`: the bulge entries zeroed by the
    clean-up loop are exact zeros), the standardisation rotation of `split_off_two_rows` annihilates `T(iu,iu−1)` exactly
    (`c09_schur_similarity_partial_standardise`: the explicit `= 0` overwrites an exact zero), and the exceptional shifts keep
    `T + ex_shift·I_{0..iu}` entrywise (`c09_schur_similarity_partial_shift`).
  NOT proved: the whole-run `c09_schur_similarity` (`U T Uᵀ = H − P`).  Missing: (i) the window argument — the left/right
  applications restricted to columns `≥ k` / rows `≤ min(iu,k+3)` equal the full products given the Hessenberg zero pattern;
  (ii) three further perturbation sources that are NOT explicit zeroings and make the similarity inexact EVEN IN EXACT ARITHMETIC:
  the negligible `T(il, il−1)` stays stored and column `il−1` is not transformed by the sweep, a sweep started at `im > il` only
  negates `T(im, im−1)` (Wilkinson's two-small-subdiagonals approximation), and `makeHouseholder`'s degenerate exit drops a tail
  with `t1² + t2² ≤ min`.  A whole-run statement therefore needs a `P` that collects these as well (same treatment as
  `c09_trideig_decomp`); it is not attempted here.

  NOT proved (stated at full strength here, out of reach of this method — rounding and convergence):
    "T Z = Z diag(d), ZᵀZ = I, U T Uᵀ = H, ‖Hx − λx‖ small, all within a modest multiple of n·eps·norm" IN FLOATING POINT
    (the exact-arithmetic statement above bounds the defect of `T Z = Z D` by the dropped entries only; that the dropped entries
    are `O(eps·‖T‖)` and that rounding adds `O(n·eps·‖T‖)` is not proved) and
    "the QR iterations converge within the iteration limit".
  These clauses are checked only by the long-double oracle of `harness/c09.cpp` on the real classes.
-/
import SpectraVerif.Proofs.C09Lemmas
import SpectraVerif.Proofs.C09Step
import SpectraVerif.Proofs.C09House
import SpectraVerif.Proofs.C09Schur
import SpectraVerif.Proofs.C09Orth
import SpectraVerif.Proofs.C09Hess
import SpectraVerif.Proofs.C09Cdiv
import SpectraVerif.Proofs.C09OrthU
import SpectraVerif.Proofs.C09SimEig
import SpectraVerif.Proofs.C09SimU
import SpectraVerif.Gen.Wilk

namespace C09
open Lin EigenPrims C09Lemmas

section loops
variable {α : Type} [Add α] [Sub α] [Mul α] [Div α] [Neg α] [Sc α]

/-- **Exit condition of `TridiagEigen::compute`.**  If the model returns normally then either the zero-matrix early exit was
    taken (`scale < near_0`: eigenvalues 0, eigenvectors I), or the main loop was left through `end <= 0` and in the final state
    EVERY sub-diagonal entry tests `== 0` (they were all explicitly set to 0 or found equal to 0), the returned eigenvalues are
    the final diagonal times `scale` and the eigenvectors the accumulated rotations. -/
theorem c09_trideig_exit (n : Nat) (d e : Vec α) (r : TridiagEigen.Decomp α)
    (h : TridiagEigen.compute n d e = Res.ok r) :
    (Sc.lt (TridiagEigen.scaleOf d e) (Sc.minPos * Sc.ofInt 10 : α) = true ∧ r.evals = vzero n ∧ r.evecs = Mat.identity n) ∨
    ((TridiagEigen.core n d e).exit = TridiagEigen.Exit.done ∧
      (∀ j, j < n - 1 → Sc.eq (vget (TridiagEigen.core n d e).sub j) (zero : α) = true) ∧
      r.evals = vscale (TridiagEigen.scaleOf d e) (TridiagEigen.core n d e).diag ∧
      r.evecs = (TridiagEigen.core n d e).q ∧ r.sub = (TridiagEigen.core n d e).sub) := by
  simp only [TridiagEigen.compute] at h
  split at h
  · rename_i hs
    left; cases h; exact ⟨hs, rfl, rfl⟩
  · split at h
    · rename_i hd
      right; cases h
      refine ⟨hd, ?_, rfl, rfl, rfl⟩
      simp only [TridiagEigen.core] at hd ⊢
      exact C09Loop.mainLoop_done n (n - 1) _ _ _ _ _ _ _ _ _ (fun j hj hb => by omega) hd
    · cases h

/-- the model's recursion budget is never the reason for leaving the loop (so `Exit.fuel` is unreachable and the model's
    `while` is the C++ `while`) -/
theorem c09_trideig_fuel (n : Nat) (d e : Vec α) : (TridiagEigen.core n d e).exit ≠ TridiagEigen.Exit.fuel := by
  simp only [TridiagEigen.core]
  exact C09Loop.mainLoop_fuel n _ _ _ _ _ _ _ _ _ (by omega) (by omega)

/-- **Iteration cap of `TridiagEigen::compute`.**  The model returns `throw runtime_error` if and only if the loop was left because
    `iter > 30 n` (and then indeed `30 n < iter`); in every other case it returns normally, and then `c09_trideig_exit` applies:
    wrong numbers are never returned *because the cap was hit*. -/
theorem c09_iteration_cap (n : Nat) (d e : Vec α) :
    ((∃ msg, TridiagEigen.compute n d e = Res.throw msg) ↔
      (Sc.lt (TridiagEigen.scaleOf d e) (Sc.minPos * Sc.ofInt 10 : α) = false ∧
       (TridiagEigen.core n d e).exit = TridiagEigen.Exit.capped)) ∧
    ((TridiagEigen.core n d e).exit = TridiagEigen.Exit.capped → 30 * n < (TridiagEigen.core n d e).iter) := by
  constructor
  · have hf := c09_trideig_fuel n d e
    simp only [TridiagEigen.compute]
    constructor
    · rintro ⟨msg, h⟩
      split at h
      · cases h
      · rename_i hs
        split at h
        · cases h
        · rename_i hd
          refine ⟨by simpa using hs, ?_⟩
          cases hx : (TridiagEigen.core n d e).exit <;> simp_all
    · rintro ⟨hs, hc⟩
      rw [if_neg (by simp [hs]), if_neg (by simp [hc])]
      exact ⟨_, rfl⟩
  · intro hc
    simp only [TridiagEigen.core] at hc ⊢
    exact C09Loop.mainLoop_capped n _ _ _ _ _ _ _ _ _ hc

/-- **Iteration cap of `UpperHessenbergSchur::compute`.**  The model returns normally iff the loop was left through `iu < 0`
    (or `norm == 0`), returns `throw` iff `total_iter > 40 n` stopped it, and its recursion budget is never exhausted. -/
theorem c09_schur_iteration_cap (n : Nat) (h : Mat α) :
    (HessSchur.core n h).exit ≠ HessSchur.Exit.fuel ∧
    ((∃ r, HessSchur.compute n h = Res.ok r) ↔ (HessSchur.core n h).exit = HessSchur.Exit.done) ∧
    ((∃ msg, HessSchur.compute n h = Res.throw msg) ↔ (HessSchur.core n h).exit = HessSchur.Exit.capped) ∧
    ((HessSchur.core n h).exit = HessSchur.Exit.capped → 40 * n < (HessSchur.core n h).total) := by
  have hf : (HessSchur.core n h).exit ≠ HessSchur.Exit.fuel := by
    simp only [HessSchur.core]
    split
    · exact C09LoopSchur.mainLoop_fuel n _ _ _ _ _ _ _ (by omega) (by omega)
    · simp
  refine ⟨hf, ?_, ?_, ?_⟩
  · simp only [HessSchur.compute]
    constructor
    · rintro ⟨r, hr⟩; split at hr
      · assumption
      · cases hr
    · intro hd; rw [if_pos hd]; exact ⟨_, rfl⟩
  · simp only [HessSchur.compute]
    constructor
    · rintro ⟨m, hm⟩; split at hm
      · cases hm
      · cases hx : (HessSchur.core n h).exit <;> simp_all
    · intro hc; rw [if_neg (by simp [hc])]; exact ⟨_, rfl⟩
  · intro hc
    simp only [HessSchur.core] at hc ⊢
    split at hc
    · rename_i hn; rw [if_pos hn]; exact C09LoopSchur.mainLoop_capped n _ _ _ _ _ _ _ hc
    · simp at hc

/-- **Exit condition of `UpperHessenbergSchur::compute`: block structure of the returned `T`.**  If the model returns normally on a
    well-formed `n × n` input then (unless `norm == 0`, where `T` is the untouched input) the returned `T` has NO TWO CONSECUTIVE
    non-zero sub-diagonal entries: for every `0 < i`, `i + 1 < n`, `T(i, i−1)` or `T(i+1, i)` is exactly the constant `0` the code
    assigned when it split off a 1x1 / 2x2 block — the sub-diagonal pattern of a quasi-upper-triangular matrix.  Proved for every
    scalar type and every outcome of every floating comparison (deflation tests, shift strategy, reflector guards are oracles):
    a loop invariant over the `while (iu >= 0)` loop plus the write footprint of every transformation (rows `> iu` are never
    written).  The entries BELOW the sub-diagonal are not covered: they stay 0 only up to the explicit clean-up of the Francis
    sweep and the Hessenberg shape of the input (checked by the oracle `schur-not-quasi-triangular`). -/
theorem c09_schur_exit (n : Nat) (h : Mat α) (hw : C09Mat.WF h) (hr : h.rows = n) (hc : h.cols = n) (r : HessSchur.Decomp α)
    (hok : HessSchur.compute n h = Res.ok r) :
    (Sc.ne (HessSchur.l1norm n h) (zero : α) = false ∧ r.t = h) ∨
    (∀ i, 0 < i → i + 1 < n → r.t.get i (i - 1) = (zero : α) ∨ r.t.get (i + 1) i = (zero : α)) :=
  C09Schur.compute_struct n h hw hr hc r hok

/-- **`UpperHessenbergSchur::compute` returns a quasi-upper-triangular `T`** (the discrete content of that clause of C09, at full
    strength): for every well-formed `n × n` upper Hessenberg input (entries strictly below the sub-diagonal exactly `0`), if the
    model returns normally then every entry of the returned `T` strictly below the sub-diagonal is exactly `0`, and (unless
    `norm == 0`, where `T` is the input) no two consecutive sub-diagonal entries are non-zero.  Every scalar type, every outcome
    of every floating comparison.  Proof: position-level write footprint of each reflector / rotation / shift (the only
    below-sub-diagonal positions a Francis sweep on the window `im..iu` writes are `(i, i−2)`, `(i, i−3)`, `im+2 ≤ i ≤ iu`) and the
    clean-up loop that zeroes exactly those positions.  That `U T Uᵀ = H` up to rounding is NOT proved (oracle `schur-residual`). -/
theorem c09_schur_quasi_triangular (n : Nat) (h : Mat α) (hw : C09Mat.WF h) (hr : h.rows = n) (hc : h.cols = n)
    (hH : C09Hess.Hess n h) (r : HessSchur.Decomp α) (hok : HessSchur.compute n h = Res.ok r) :
    C09Hess.Hess n r.t ∧
    ((Sc.ne (HessSchur.l1norm n h) (zero : α) = false ∧ r.t = h) ∨
     (∀ i, 0 < i → i + 1 < n → r.t.get i (i - 1) = (zero : α) ∨ r.t.get (i + 1) i = (zero : α))) :=
  C09Hess.compute_quasi n h hw hr hc hH r hok

/-- `UpperHessenbergEigen::compute` throws exactly when the input is not the zero matrix (`scale != 0`) and its Schur step throws
    (it adds no other non-normal exit). -/
theorem c09_hesseig_throw_iff (n : Nat) (h : Mat α) :
    (∃ msg, HessEigen.compute n h = Res.throw msg) ↔
    (Sc.eq (TridiagEigen.maxAbs1 h.d) (zero : α) = false ∧
     ∃ msg, HessSchur.compute n ⟨h.rows, h.cols, vdivs h.d (TridiagEigen.maxAbs1 h.d)⟩ = Res.throw msg) := by
  simp only [HessEigen.compute]
  by_cases hz : Sc.eq (TridiagEigen.maxAbs1 h.d) (zero : α) = true
  · rw [if_pos hz]
    constructor
    · rintro ⟨m, hm⟩; cases hm
    · rintro ⟨hf, _⟩; rw [hz] at hf; cases hf
  · rw [if_neg hz]
    constructor
    · rintro ⟨m, hm⟩
      refine ⟨by simpa using hz, ?_⟩
      split at hm
      · exact ⟨_, by assumption⟩
      · cases hm
    · rintro ⟨_, m, hm⟩; rw [hm]; exact ⟨_, rfl⟩

/-- **zero matrix (repair of F15)**: when `scale = max|a_ij|` tests `== 0`, `UpperHessenbergEigen::compute` returns normally with
    all eigenvalues `(0, 0)` and the identity as eigenvector storage — no division by `scale`, no Schur step (the unrepaired code
    divided by 0: `runtime_error` for `n ≥ 3`, NaN results for `n ≤ 2`). -/
theorem c09_hesseig_zero (n : Nat) (h : Mat α) (hz : Sc.eq (TridiagEigen.maxAbs1 h.d) (zero : α) = true) :
    HessEigen.compute n h = Res.ok ⟨n, Array.replicate n (zero, zero), Mat.identity n⟩ := by
  simp only [HessEigen.compute, if_pos hz]

end loops

section conj
variable {K : Type} [Field K] [LinearOrder K] [IsStrictOrderedRing K] (F : FieldFns K)

/-- **Exact pairing convention of the eigenvalue extraction, full strength** (UpperHessenbergEigen.h, after the repair of F20), exact
    arithmetic over any ordered field, `eps > 0`, `sqrt` ANY function: walking the block structure of `T` from row `i`, a row
    whose sub-diagonal entry below it is `0` (or the last row) emits `(T(i,i), 0)` — imaginary part exactly 0 — and a 2x2 block
    left UNSPLIT (`T(i+1,i) ≠ 0`) emits `(x, z)` then `(x, −z)` with `z > 0`: adjacent exact conjugates, STRICTLY positive
    imaginary part first.  Before the repair only `z ≥ 0` held and `z = 0` (scaled discriminant exactly 0) made both values look
    real while `T` kept its 2x2 block (finding F20). -/
theorem c09_conj_exact (heps : 0 < F.eps) (n : Nat) (t : Mat K) (fuel i : Nat) (hf : n ≤ i + fuel) :
    ConjBlocksAt F n t i (@HessEigen.extract K _ _ _ _ _ (scOfField F) n t fuel i) := extract_conjAt F heps n t fuel i hf

/-- the same without the structure: the list is a concatenation of `[(t, 0)]` and `[(x, z), (x, −z)]`, `z > 0`, for any fuel -/
theorem c09_conj_blocks (heps : 0 < F.eps) (n : Nat) (t : Mat K) (fuel i : Nat) :
    ConjBlocks (@HessEigen.extract K _ _ _ _ _ (scOfField F) n t fuel i) := extract_conj F heps n t fuel i

/-- **an unsplit block always yields a strictly positive imaginary part** (replaces `c09_conj_degenerate`): for `T(i+1,i) = c ≠ 0`
    and `eps > 0` the value `z` emitted by the repaired `compute()` is `> 0`, whatever the (scaled) discriminant and whatever
    `sqrt` returns: the guard `if (!(z > 0)) z = maxval * eps` decides, and `maxval ≥ |c| > 0`. -/
theorem c09_conj_unsplit_pos (heps : 0 < F.eps) (a b c d : K) (hc : c ≠ 0) :
    ∃ x z : K, 0 < z ∧ @HessEigen.block2 K _ _ _ _ _ (scOfField F) a b c d = ((x, z), (x, -z)) := block2_pos F heps a b c d hc

/-- **row kinds**: the sign of the emitted imaginary part is determined by the block structure of `T` alone — `= 0` exactly on the
    rows of 1x1 blocks, `> 0` on the first and `< 0` on the second row of every unsplit 2x2 block (`kinds` walks `T` only). -/
theorem c09_conj_kinds (heps : 0 < F.eps) (n : Nat) (t : Mat K) (fuel i : Nat) :
    List.Forall₂ kindSign (kinds F n t fuel i) (@HessEigen.extract K _ _ _ _ _ (scOfField F) n t fuel i) :=
  extract_kinds F heps n t fuel i

/-- **the back-substitution takes the complex branch for exactly the unsplit blocks**: at row `n` the loop of
    `doComputeEigenvectors` takes the real-eigenvalue branch iff the emitted imaginary part is `0`, the complex-pair branch
    (columns `n−1, n`) iff it is `< 0` (and `n > 0`), and skips the row iff it is `> 0`; by `c09_conj_kinds` these are exactly
    the rows of 1x1 blocks, the second rows and the first rows of the unsplit blocks. -/
theorem c09_backsub_branch (size : Nat) (norm : K) (ev : Vec (K × K)) (f n : Nat) (t : Mat K) :
    let _ : Sc K := scOfField F
    ((HessEigen.evGet ev n).2 = 0 →
      HessEigen.backSub size norm ev (f + 1) (n + 1) t =
        HessEigen.backSub size norm ev f n
          (HessEigen.realInner size n (HessEigen.evGet ev n).1 norm ev n ⟨zero, zero, n, t.set n n one⟩).t) ∧
    ((HessEigen.evGet ev n).2 < 0 → 0 < n → ∃ t', HessEigen.backSub size norm ev (f + 1) (n + 1) t =
        HessEigen.backSub size norm ev f (n - 1)
          (HessEigen.cplxInner size n (HessEigen.evGet ev n).1 (HessEigen.evGet ev n).2 norm ev (n - 1) ⟨zero, zero, zero, n - 1, t'⟩).t) ∧
    (0 < (HessEigen.evGet ev n).2 → HessEigen.backSub size norm ev (f + 1) (n + 1) t = HessEigen.backSub size norm ev f n t) :=
  backSub_dispatch F size norm ev f n t

/-- scaling back by a positive real (`m_eivalues *= scale`, performed as `complex * complex(scale, 0)`) keeps the exact zero,
    exact conjugacy and strict positivity — what `GenEigsBase::is_complex` / `is_conj` and the restart shift loop rely on -/
theorem c09_conj_scale (s : K) (hs : 0 < s) (l : List (K × K)) (h : ConjBlocks l) :
    ConjBlocks (l.map (fun z => @HessEigen.cmulReal K _ _ _ (scOfField F) z s)) := conj_scale F s hs l h

/-- hence the eigenvalues returned by the model of `UpperHessenbergEigen::compute` have the block shape with `z > 0`, for every
    input including the zero matrix (all `(0, 0)`) -/
theorem c09_conj_compute (heps : 0 < F.eps) (n : Nat) (h : Mat K) (r : HessEigen.Decomp K)
    (hr : @HessEigen.compute K _ _ _ _ _ (scOfField F) n h = Res.ok r) : ConjBlocks r.evals.toList :=
  compute_conj F heps n h r hr

/-- the hypotheses are satisfiable and the shape is not vacuous: a 1x1 block then a 2x2 block -/
example : ConjBlocks [((3 : ℚ), 0), (1, 2), (1, -2)] :=
  ConjBlocks.real 3 _ (ConjBlocks.pair 1 2 _ (by norm_num) ConjBlocks.nil)

/-- **the model's complex division (port of libgcc `__divdc3`) is complex division**: for `(c, d) ≠ (0, 0)` the returned `(x, y)`
    satisfies `(x + iy)(c + id) = a + ib`, in every scaling branch and for both orders of evaluation (field instance, `eps ≠ 0`).
    So the back-substitution of `doComputeEigenvectors` and `normalize()` divide by what the C++ text says they divide by. -/
theorem c09_cdiv_spec (heps : F.eps ≠ 0) (a b c d : K) (hcd : c ≠ 0 ∨ d ≠ 0) :
    let _ : Sc K := scOfField F
    (HessEigen.cdiv a b c d).1 * c - (HessEigen.cdiv a b c d).2 * d = a ∧
    (HessEigen.cdiv a b c d).1 * d + (HessEigen.cdiv a b c d).2 * c = b := C09Cdiv.cdiv_spec F heps a b c d hcd

/-- **unit norm is exact in exact arithmetic**: `col.normalize()` of `eigenvectors()` maps a complex column with squared norm
    `z > 0` (and `sqrt z · sqrt z = z`) to a column of squared norm exactly `1`.  (In floating point `|‖x‖ − 1| ≤ C n eps` is what
    the oracle `hesseig-unit` checks; the rounding bound is not proved.) -/
theorem c09_eigvec_unit (heps : F.eps ≠ 0) (c : Vec (K × K)) :
    let _ : Sc K := scOfField F
    0 < HessEigen.csqNorm c → F.sqrt (HessEigen.csqNorm c) * F.sqrt (HessEigen.csqNorm c) = HessEigen.csqNorm c →
      HessEigen.csqNorm (HessEigen.cnormalize c) = 1 := C09Cdiv.cnormalize_unit F heps c

end conj

section step
variable {K : Type} [Field K] [LinearOrder K] [IsStrictOrderedRing K] (F : FieldFns K)
open TridiagEigen C09Step

/-- **One Givens step of `tridiagonal_qr_step`, array level** (field instance; `c, s` = `makeGivens(x, z)`, any values).
    The model stores exactly: `diag[k], diag[k+1], subdiag[k]` = the 2x2 block of `GᵀTG`; `subdiag[k-1] = c·e − s·z` (when
    `k > start`); the new bulge `z' = −s·subdiag[k+1]` and `subdiag[k+1] = c·subdiag[k+1]` (when `k < end−1`); `x' = subdiag[k]`;
    every other entry of `diag`/`subdiag` is unchanged; `Q' = Q.applyOnTheRight(k, k+1, rot)`.
    `c09_trideig_step_GtTG` shows these are the entries of `GᵀTG`, `c09_trideig_step_Q` that `Q'` is `QG` entrywise. -/
theorem c09_trideig_step (n start end_ k : Nat) (st : QRSt K)
    (hd : k + 1 < st.diag.size) (hs : k < st.sub.size) (hs1 : k + 1 < end_ → k + 1 < st.sub.size) :
    let _ : Sc K := scOfField F
    let c := (makeGivens st.x st.z).c
    let s := (makeGivens st.x st.z).s
    let st' := qrBody n start end_ k st
    vget st'.diag k = c * c * vget st.diag k - 2 * c * s * vget st.sub k + s * s * vget st.diag (k + 1) ∧
    vget st'.diag (k + 1) = s * s * vget st.diag k + 2 * c * s * vget st.sub k + c * c * vget st.diag (k + 1) ∧
    vget st'.sub k = c * s * (vget st.diag k - vget st.diag (k + 1)) + (c * c - s * s) * vget st.sub k ∧
    (start < k → vget st'.sub (k - 1) = c * vget st.sub (k - 1) - s * st.z) ∧
    (k + 1 < end_ → st'.z = -(s * vget st.sub (k + 1)) ∧ vget st'.sub (k + 1) = c * vget st.sub (k + 1)) ∧
    (¬ k + 1 < end_ → st'.z = st.z) ∧
    st'.x = vget st'.sub k ∧
    (∀ j, j ≠ k → j ≠ k + 1 → vget st'.diag j = vget st.diag j) ∧
    (∀ j, j ≠ k → j + 1 ≠ k → j ≠ k + 1 → vget st'.sub j = vget st.sub j) ∧
    st'.q = applyOnTheRight st.q n k (k + 1) c s := qrBody_spec F n start end_ k st hd hs hs1

/-- the stored expressions ARE the entries of `GᵀTG` (any commutative ring, any `c, s`): `T` symmetric tridiagonal with diagonal
    `d`, sub-diagonal `e` and, after the first rotation, the bulge `z` at `(m+2, m)`; `G` the rotation in the plane `(k, k+1)`.
    The entry `(m+2, m) = s·e_m + c·z` is the one the code does not store: it is `0` for an ideal rotation (`makeGivens`
    annihilates it in exact arithmetic) — that, like `c² + s² = 1`, needs the exact `sqrt` and is not claimed here. -/
theorem c09_trideig_step_GtTG {R : Type} [CommRing R] (d e : Nat → R) (m : Nat) (z c s : R) :
    (conjG (bandT d e none 0) m c s m m = c * c * d m - 2 * c * s * e m + s * s * d (m + 1) ∧
     conjG (bandT d e none 0) m c s (m + 1) (m + 1) = s * s * d m + 2 * c * s * e m + c * c * d (m + 1) ∧
     conjG (bandT d e none 0) m c s (m + 1) m = c * s * (d m - d (m + 1)) + (c * c - s * s) * e m ∧
     conjG (bandT d e none 0) m c s (m + 2) m = -(s * e (m + 1)) ∧
     conjG (bandT d e none 0) m c s (m + 2) (m + 1) = c * e (m + 1)) ∧
    (conjG (bandT d e (some m) z) (m + 1) c s (m + 1) (m + 1) = c * c * d (m + 1) - 2 * c * s * e (m + 1) + s * s * d (m + 2) ∧
     conjG (bandT d e (some m) z) (m + 1) c s (m + 2) (m + 2) = s * s * d (m + 1) + 2 * c * s * e (m + 1) + c * c * d (m + 2) ∧
     conjG (bandT d e (some m) z) (m + 1) c s (m + 2) (m + 1) = c * s * (d (m + 1) - d (m + 2)) + (c * c - s * s) * e (m + 1) ∧
     conjG (bandT d e (some m) z) (m + 1) c s (m + 1) m = c * e m - s * z ∧
     conjG (bandT d e (some m) z) (m + 1) c s (m + 2) m = s * e m + c * z ∧
     conjG (bandT d e (some m) z) (m + 1) c s (m + 3) (m + 1) = -(s * e (m + 2)) ∧
     conjG (bandT d e (some m) z) (m + 1) c s (m + 3) (m + 2) = c * e (m + 2)) :=
  ⟨conjG_band_first d e m c s, conjG_band_next d e m z c s⟩

/-- `Q.applyOnTheRight(p, q, rot)` is `QG` entrywise on the first `nrow` rows (field instance, including Eigen's early exit
    for the identity rotation): column `p` ↦ `c·col_p − s·col_q`, column `q` ↦ `s·col_p + c·col_q`, all else unchanged. -/
theorem c09_trideig_step_Q (m : Mat K) (h : C09Mat.WF m) (nrow p q : Nat) (c s : K) (hpq : p ≠ q)
    (hpc : p < m.cols) (hqc : q < m.cols) (hn : nrow ≤ m.rows) (i j : Nat) (hi : i < m.rows) :
    let _ : Sc K := scOfField F
    (applyOnTheRight m nrow p q c s).get i j =
      if i < nrow then (if j = p then c * m.get i p - s * m.get i q else if j = q then s * m.get i p + c * m.get i q else m.get i j)
      else m.get i j := C09Mat.applyOnTheRight_get F m h nrow p q c s hpq hpc hqc hn i j hi

/-- a plane rotation with `c² + s² = 1` preserves orthonormality of the columns: if `QᵀQ = I` then `(QG)ᵀ(QG) = I`
    (any commutative ring, any number of rows `n`, `mulG Q k c s = QG`). -/
theorem c09_rot_orth {R : Type} [CommRing R] (n k : Nat) (Q : Nat → Nat → R) (c s : R) (hcs : c * c + s * s = 1)
    (horth : ∀ a b, (Finset.range n).sum (fun i => Q i a * Q i b) = if a = b then 1 else 0) (a b : Nat) :
    (Finset.range n).sum (fun i => mulG Q k c s i a * mulG Q k c s i b) = if a = b then 1 else 0 :=
  C09Gram.gram_rot n k Q c s hcs horth a b

/-- the hypothesis `c² + s² = 1` is satisfiable -/
example : ((3 : ℚ) / 5) * (3 / 5) + (4 / 5) * (4 / 5) = 1 := by norm_num

/-- **Wilkinson shift of `tridiagonal_qr_step`** (hand model `TridiagEigen.wilkinsonMu`, field instance): with `td = (a − b)/2`
    the guarded formula is `b − |e|` for `td = 0`, `b` for `e = 0`, and otherwise — in BOTH the `e² == 0` (underflow-safe) and the
    ordinary branch — equals `b − e² / (td + sign(td)·hypot(td, e))` whenever that denominator is non-zero. -/
theorem c09_wilkinson_shift (a b e : K) :
    let _ : Sc K := scOfField F
    let td := (a - b) * (TridiagEigen.half : K)
    let h := hypot td e
    let D := td + (if 0 < td then h else -h)
    (td = 0 → wilkinsonMu a b e = b - |e|) ∧
    (td ≠ 0 → e = 0 → wilkinsonMu a b e = b) ∧
    (td ≠ 0 → e ≠ 0 → D ≠ 0 → wilkinsonMu a b e = b - e * e / D) := wilkinson_spec F a b e

/-- an ideal rotation: with an exact square root (`sqrt x · sqrt x = x` for `x ≥ 0`) Eigen's `makeGivens` returns `c² + s² = 1`
    in all four branches (field instance) -/
theorem c09_givens_unit (hs : ∀ x : K, 0 ≤ x → F.sqrt x * F.sqrt x = x) (p q : K) :
    let _ : Sc K := scOfField F
    (makeGivens p q).c * (makeGivens p q).c + (makeGivens p q).s * (makeGivens p q).s = 1 := C09Orth.makeGivens_unit F hs p q

/-- **`ZᵀZ = I` for the whole run of the TridiagEigen model, in exact arithmetic**: for every size `n ≥ 1`, every input, and every
    outcome of the deflation / shift / loop tests, if the model returns normally then the returned eigenvector matrix is a
    well-formed `n × n` matrix with orthonormal columns (`Σ_i Z(i,a) Z(i,b) = δ_ab`).  This is the `ZᵀZ = I` clause of C09 for ideal
    rotations; in floating point the rotations are unit only up to rounding, and the accumulated defect (≤ C n eps) is what the
    oracle `trideig-orth` measures — the rounding bound itself is not proved. -/
theorem c09_trideig_orth (hs : ∀ x : K, 0 ≤ x → F.sqrt x * F.sqrt x = x) (n : Nat) (hn : 0 < n) (d e : Vec K)
    (r : TridiagEigen.Decomp K) (hok : @TridiagEigen.compute K _ _ _ _ _ (scOfField F) n d e = Res.ok r) :
    C09Orth.ColsOrth F n r.evecs :=
  C09Orth.compute_orth F (fun p q => C09Orth.makeGivens_unit F hs p q) n hn d e r hok

/-- the hypothesis on `sqrt` is satisfiable (e.g. by `Real.sqrt`; here: a function that is exact on the two values it is asked) -/
example : ∃ f : ℚ → ℚ, f 4 * f 4 = 4 ∧ f 0 * f 0 = 0 := ⟨fun x => x / 2, by norm_num, by norm_num⟩

/-- an ideal reflector: with an exact non-negative square root (and `minPos ≥ 0`) Eigen's `makeHouseholder` returns `τ = 0` or
    `τ (1 + v1² + v2²) = 2`, in one formula `τ (τ vᵀv − 2) = 0`: `P = I − τ v vᵀ` is orthogonal (field instance) -/
theorem c09_householder_ideal (hs : ∀ x : K, 0 ≤ x → F.sqrt x * F.sqrt x = x) (hs0 : ∀ x : K, 0 ≤ F.sqrt x) (hmin : 0 ≤ F.minPos)
    (c0 t1 t2 : K) :
    let _ : Sc K := scOfField F
    (HessSchur.makeHouseholder c0 t1 t2).tau * ((HessSchur.makeHouseholder c0 t1 t2).tau *
      (1 + (HessSchur.makeHouseholder c0 t1 t2).v1 * (HessSchur.makeHouseholder c0 t1 t2).v1 +
        (HessSchur.makeHouseholder c0 t1 t2).v2 * (HessSchur.makeHouseholder c0 t1 t2).v2) - 2) = 0 :=
  C09OrthU.makeHouseholder_ideal F hs hs0 hmin c0 t1 t2

/-- **`UᵀU = I` for the whole run of the UpperHessenbergSchur model, in exact arithmetic**: for every size, every input and every
    outcome of the deflation / shift / guard tests (including the exceptional shifts), if the model returns normally then the
    returned `U` is a well-formed `n × n` matrix with orthonormal columns.  (Rounding defect `≤ C n eps`: oracle `schur-orth`.) -/
theorem c09_schur_orth (hs : ∀ x : K, 0 ≤ x → F.sqrt x * F.sqrt x = x) (hs0 : ∀ x : K, 0 ≤ F.sqrt x) (hmin : 0 ≤ F.minPos)
    (n : Nat) (h : Mat K) (r : HessSchur.Decomp K) (hok : @HessSchur.compute K _ _ _ _ _ (scOfField F) n h = Res.ok r) :
    C09Orth.ColsOrth F n r.u :=
  C09OrthU.compute_orthU F (fun p q => C09Orth.makeGivens_unit F hs p q)
    (fun c0 t1 t2 => C09OrthU.makeHouseholder_ideal F hs hs0 hmin c0 t1 t2) n h r hok

end step

section similarity
variable {K : Type} [Field K] [LinearOrder K] [IsStrictOrderedRing K] (F : FieldFns K)
open TridiagEigen Finset
open scoped Matrix

/-- `makeGivens(p, q)` annihilates: `s·p + c·q = 0` in all four branches (field instance, ANY `sqrt`): the bulge entry
    `(m+2, m) = s·e_m + c·z` of `c09_trideig_step_GtTG`, which the code does not store, is exactly `0`. -/
theorem c09_givens_annihilate (p q : K) :
    let _ : Sc K := scOfField F
    (makeGivens p q).s * p + (makeGivens p q).c * q = 0 := C09Sim.makeGivens_annih F p q

/-- **One `tridiagonal_qr_step` is an orthogonal similarity that loses no entry** (exact arithmetic, exact `sqrt`).  `TInv F n X d s q`
    says: `d`, `s` have sizes `n`, `n−1`, `q` is a well-formed `n × n` matrix with orthonormal columns and
    `Qᵀ X Q = tridiag(d, s)` (Mathlib matrices, `C09Sim.mat n` = leading `n × n` block of an entry function).  If the window
    `[start, end]` is decoupled (`sub[start−1] = 0` unless `start = 0`, `sub[end] = 0`) the same holds after the step: each rotation's
    bulge is annihilated exactly by the next one (`c09_givens_annihilate`) and the last rotation creates none. -/
theorem c09_trideig_qrstep_similarity (hs : ∀ x : K, 0 ≤ x → F.sqrt x * F.sqrt x = x) (n start end_ : Nat)
    (X : Matrix (Fin n) (Fin n) K) (d s : Vec K) (q : Mat K) (h : C09Sim.TInv F n X d s q) (hse : start ≤ end_) (hend : end_ < n)
    (e1 : ∀ m, m + 1 = start → @vget K (scOfField F) s m = 0) (e2 : @vget K (scOfField F) s end_ = 0) :
    C09Sim.TInv F n X (@qrStep K _ _ _ _ _ (scOfField F) n start end_ d s q).diag
      (@qrStep K _ _ _ _ _ (scOfField F) n start end_ d s q).sub (@qrStep K _ _ _ _ _ (scOfField F) n start end_ d s q).q :=
  C09Sim.qrStep_sim F (fun p q => C09Orth.makeGivens_unit F hs p q) n start end_ X d s q h hse hend e1 e2

/-- **What a deflation pass drops** (field instance): every sub-diagonal entry is either unchanged or replaced by exactly `0`, and in
    the latter case its CURRENT value passed the code's test `|eⱼ| ≤ considerAsZero ∨ (precision_inv·eⱼ)² ≤ |dⱼ| + |dⱼ₊₁|`. -/
theorem c09_trideig_deflate (caz pinv : K) (start end_ : Nat) (d s : Vec K) (hsz : end_ ≤ s.size) (j : Nat) :
    let _ : Sc K := scOfField F
    vget (deflatePass caz pinv start end_ d s) j = vget s j ∨
      (vget (deflatePass caz pinv start end_ d s) j = 0 ∧ start ≤ j ∧ j < end_ ∧
        (|vget s j| ≤ caz ∨ (pinv * vget s j) * (pinv * vget s j) ≤ |vget d j| + |vget d (j + 1)|)) :=
  C09Sim.deflatePass_cases F caz pinv start end_ d s hsz j

/-- **`c09_trideig_decomp`: whole-run decomposition of `TridiagEigen::compute` in exact arithmetic** (field instance, exact `sqrt`,
    `min > 0`), for every `n ≥ 1`, every input `(d, e)` of the right sizes and EVERY outcome of the deflation / shift / loop tests.
    If the model returns normally with eigenvalues `λ` and eigenvectors `Z` then there is a SYMMETRIC perturbation `P` with
      `(T₀ − P) Z = Z diag(λ)`   (both orders of the right-hand product are given),
    `T₀ = tridiag(d, e)`, and `|Pᵢⱼ| ≤ 2 · totalDrop` where `C09Sim.totalDrop` is the run's perturbation budget: `scale ·` the sum, over
    all deflation passes of the run, of `Σₖ |old subₖ − new subₖ|` (ghost recursion `C09Sim.mainLoopDrop` mirroring the main loop; by
    `c09_trideig_deflate` each non-zero term is the magnitude of an entry that passed the negligibility test when it was dropped);
    in the tiny-matrix early exit (`scale < 10·min`, result `λ = 0`, `Z = I`) the budget is `Σ|dₖ| + Σ|eₖ|`.
    Together with `c09_trideig_orth` (`ZᵀZ = I`) this is `T₀ = Z D Zᵀ + P`: the columns of `Z` are EXACT orthonormal eigenvectors of
    a matrix within `2·totalDrop` (entrywise) of the input.  Not proved: that `totalDrop = O(eps·‖T₀‖)`, and rounding. -/
theorem c09_trideig_decomp (hs : ∀ x : K, 0 ≤ x → F.sqrt x * F.sqrt x = x) (hmin : 0 < F.minPos) (n : Nat) (hn : 0 < n)
    (d e : Vec K) (hd : d.size = n) (he : e.size = n - 1) (r : TridiagEigen.Decomp K)
    (hok : @TridiagEigen.compute K _ _ _ _ _ (scOfField F) n d e = Res.ok r) :
    let _ : Sc K := scOfField F
    ∃ P : ℕ → ℕ → K, (∀ i j, P i j = P j i) ∧ (∀ i j, i < n → j < n → |P i j| ≤ 2 * C09Sim.totalDrop F n d e) ∧
      (∀ i j, i < n → j < n →
        ∑ a ∈ range n, (C09Sim.tridiag (vget d) (vget e) i a - P i a) * r.evecs.get a j = r.evecs.get i j * vget r.evals j) ∧
      (∀ i j, i < n → j < n →
        ∑ a ∈ range n, (C09Sim.tridiag (vget d) (vget e) i a - P i a) * r.evecs.get a j = vget r.evals j * r.evecs.get i j) :=
  C09Sim.compute_decomp F (fun p q => C09Orth.makeGivens_unit F hs p q) hmin n hn d e hd he r hok

/-- the same as Mathlib matrices, with both orthogonality statements: `(T₀ − P) Z = Z D`, `ZᵀZ = 1`, `ZZᵀ = 1`, `Pᵀ = P` -/
theorem c09_trideig_decomp_matrix (hs : ∀ x : K, 0 ≤ x → F.sqrt x * F.sqrt x = x) (hmin : 0 < F.minPos) (n : Nat) (hn : 0 < n)
    (d e : Vec K) (hd : d.size = n) (he : e.size = n - 1) (r : TridiagEigen.Decomp K)
    (hok : @TridiagEigen.compute K _ _ _ _ _ (scOfField F) n d e = Res.ok r) :
    ∃ P : Matrix (Fin n) (Fin n) K, Pᵀ = P ∧ (∀ i j, |P i j| ≤ 2 * C09Sim.totalDrop F n d e) ∧
      (C09Sim.mat n (C09Sim.band (@vget K (scOfField F) d) (@vget K (scOfField F) e) 0 0) - P) *
          C09Sim.mat n (fun i j => @Mat.get K (scOfField F) r.evecs i j) =
        C09Sim.mat n (fun i j => @Mat.get K (scOfField F) r.evecs i j) *
          Matrix.diagonal (fun i : Fin n => @vget K (scOfField F) r.evals i.val) ∧
      (C09Sim.mat n (fun i j => @Mat.get K (scOfField F) r.evecs i j))ᵀ * C09Sim.mat n (fun i j => @Mat.get K (scOfField F) r.evecs i j) = 1 ∧
      C09Sim.mat n (fun i j => @Mat.get K (scOfField F) r.evecs i j) * (C09Sim.mat n (fun i j => @Mat.get K (scOfField F) r.evecs i j))ᵀ = 1 :=
  C09Sim.compute_sim F (fun p q => C09Orth.makeGivens_unit F hs p q) hmin n hn d e hd he r hok

/-- the perturbation budget is a sum of magnitudes -/
theorem c09_trideig_drop_nonneg (n : Nat) (caz pinv : K) (f end_ start iter : Nat) (d s : Vec K) (q : Mat K) :
    0 ≤ C09Sim.mainLoopDrop F n caz pinv f end_ start iter d s q := C09Sim.mainLoopDrop_nonneg F n caz pinv f end_ start iter d s q

/-- **exact corollary**: when the budget is `0` (every deflation only overwrote entries that already were `0`, and the tiny-matrix
    exit was not taken on a non-zero input) `T₀ Z = Z D` EXACTLY: column `j` of `Z` is an eigenvector of `T₀` for `λⱼ`. -/
theorem c09_trideig_exact (hs : ∀ x : K, 0 ≤ x → F.sqrt x * F.sqrt x = x) (hmin : 0 < F.minPos) (n : Nat) (hn : 0 < n)
    (d e : Vec K) (hd : d.size = n) (he : e.size = n - 1) (r : TridiagEigen.Decomp K)
    (hok : @TridiagEigen.compute K _ _ _ _ _ (scOfField F) n d e = Res.ok r) (h0 : C09Sim.totalDrop F n d e = 0) :
    let _ : Sc K := scOfField F
    ∀ i j, i < n → j < n →
      ∑ a ∈ range n, C09Sim.tridiag (vget d) (vget e) i a * r.evecs.get a j = vget r.evals j * r.evecs.get i j :=
  C09Sim.compute_exact F (fun p q => C09Orth.makeGivens_unit F hs p q) hmin n hn d e hd he r hok h0

/-- the zero-budget hypothesis of `c09_trideig_exact` is satisfiable: for `n = 1` (no sub-diagonal) the budget is `0` whenever the
    tiny-matrix exit is not taken -/
example (d e : Vec K)
    (h : @Sc.lt K (scOfField F) (@TridiagEigen.scaleOf K (scOfField F) d e) (@Sc.minPos K (scOfField F) * @Sc.ofInt K (scOfField F) 10) = false) :
    C09Sim.totalDrop F 1 d e = 0 := by
  simp only [C09Sim.totalDrop, h, C09Sim.coreDrop]
  simp [C09Sim.mainLoopDrop]

/-- **the `eig_spec` obligation of `C01E.ExactKernels` (Proofs/C01Exact.lean) discharged for `HermSolver.eigH`** under the exact
    idealisation (exact `sqrt`, zero perturbation budget): for every returned column `y = cols[j]`, `H y = θ y` with `H` the symmetric
    tridiagonal matrix read from the factorization (`H(i,i)`, `H(i+1,i)`), `θ = evals[j]`, and `lastRow[j]` is the last coordinate of
    `y` — with `vec y a := vget y a`, `val := id`, `est := id`, `(abs fac).H := tridiag …` this is the field `eig_spec` verbatim. -/
theorem c09_trideig_eigH_spec (hs : ∀ x : K, 0 ≤ x → F.sqrt x * F.sqrt x = x) (hmin : 0 < F.minPos) (ncv : Nat) (hn : 0 < ncv)
    (st : Arnoldi.State K) (evals lastRow : List K) (cols : List (Vec K))
    (h : @HermSolver.eigH K _ _ _ _ _ (scOfField F) ncv st = .ok (evals, lastRow, cols))
    (h0 : C09Sim.totalDrop F ncv (vofFn ncv (fun i => @Mat.get K (scOfField F) st.H i i))
      (vofFn (ncv - 1) (fun i => @Mat.get K (scOfField F) st.H (i + 1) i)) = 0) :
    let _ : Sc K := scOfField F
    ∀ j, j < ncv →
      (∀ i, i < ncv → ∑ a ∈ range ncv, C09Sim.tridiag (fun i => st.H.get i i) (fun i => st.H.get (i + 1) i) i a *
            vget (cols.getD j (vzero ncv)) a = evals.getD j zero * vget (cols.getD j (vzero ncv)) i) ∧
      lastRow.getD j zero = vget (cols.getD j (vzero ncv)) (ncv - 1) :=
  C09Sim.eigH_spec F (fun p q => C09Orth.makeGivens_unit F hs p q) hmin ncv hn st evals lastRow cols h h0

end similarity

section schur_similarity
variable {K : Type} [Field K] [LinearOrder K] [IsStrictOrderedRing K] (F : FieldFns K)
open HessSchur

/-- **`c09_schur_similarity`, partial (1/3): an ideal reflector reflects.**  With an exact non-negative `sqrt`, either
    `makeHouseholder(c0, t1, t2)` took its degenerate exit (`t1² + t2² ≤ min`: `τ = 0`, `β = c0`, the tail is treated as `0` — a
    dropped quantity), or `P (c0, t1, t2)ᵀ = (β, 0, 0)ᵀ` EXACTLY for `P = I − τ v vᵀ`: after `T(k, k−1) = β` the two entries below it,
    which `perform_francis_qr_step` leaves in place and zeroes in its clean-up loop, are exact zeros of `Pᵀ T P`.
    (The whole-run `U T Uᵀ` statement is NOT proved: see the header.) -/
theorem c09_schur_similarity_partial_reflect (hs : ∀ x : K, 0 ≤ x → F.sqrt x * F.sqrt x = x) (hs0 : ∀ x : K, 0 ≤ F.sqrt x)
    (hmin : 0 ≤ F.minPos) (c0 t1 t2 : K) :
    let _ : Sc K := scOfField F
    (t1 * t1 + t2 * t2 ≤ F.minPos ∧ (makeHouseholder c0 t1 t2).tau = 0 ∧ (makeHouseholder c0 t1 t2).beta = c0) ∨
    hhKernel (makeHouseholder c0 t1 t2).v1 (makeHouseholder c0 t1 t2).v2 (makeHouseholder c0 t1 t2).tau c0 t1 t2 =
      ((makeHouseholder c0 t1 t2).beta, 0, 0) := C09SimU.makeHouseholder_reflects F hs hs0 hmin c0 t1 t2

/-- **partial (2/3): the standardisation rotation of `split_off_two_rows` annihilates `T(iu, iu−1)` exactly.**  For the trailing
    2x2 block `[[a, b], [y, d]]` with `p = (a − d)/2`, `q = p² + y·b ≥ 0`, the rotation `makeGivens(p ± √|q|, y)` applied as the code
    applies it (`applyOnTheLeft(adjoint)` on the rows, `applyOnTheRight` on the columns) produces the `(2,1)` entry
    `c·(s·a + c·y) − s·(s·b + c·d) = 0`: the explicit `T(iu, iu−1) = 0` overwrites an exact zero. -/
theorem c09_schur_similarity_partial_standardise (hs : ∀ x : K, 0 ≤ x → F.sqrt x * F.sqrt x = x) (hs0 : ∀ x : K, 0 ≤ F.sqrt x)
    (a b y d : K) (hq : 0 ≤ (1 / 2 * (a - d)) * (1 / 2 * (a - d)) + y * b) :
    let _ : Sc K := scOfField F
    let p : K := 1 / 2 * (a - d)
    let z := F.sqrt |p * p + y * b|
    let rot := makeGivens (if 0 ≤ p then p + z else p - z) y
    rot.c * (rot.s * a + rot.c * y) - rot.s * (rot.s * b + rot.c * d) = 0 := C09SimU.standardise_zero F hs hs0 a b y d hq

/-- `RealScalar(0.5)` of the model is `1/2` in the field instance (ties `p` above to the model's `half * (…)`) -/
theorem c09_half (F : FieldFns K) : (@TridiagEigen.half K (scOfField F)) = 1 / 2 := C09SimU.half_eq F

/-- **partial (3/3): the exceptional shifts are consistent.**  `compute_shift(iu, iter, ex_shift)` returns `(T', ex')` with
    `T' + ex'·D = T + ex·D` ENTRYWISE, `D` = identity on the active rows `0..iu`, whichever exceptional shift (iteration 10, 30)
    fired: what is subtracted from the diagonal of the active window is added to `ex_shift` (and added back by the deflation
    branches `T(iu,iu) += ex_shift`). -/
theorem c09_schur_similarity_partial_shift (t : Mat K) (h : @C09Mat.WF K t) (iu iter : Nat) (ex : K) (hr : iu < t.rows) (hc : iu < t.cols) :
    let _ : Sc K := scOfField F
    ∀ i j, i < t.rows →
      (computeShift iu iter ex t).1.get i j + (if i = j ∧ i ≤ iu then (computeShift iu iter ex t).2.1 else 0) =
        t.get i j + (if i = j ∧ i ≤ iu then ex else 0) := (C09SimU.computeShift_shifted F t h iu iter ex hr hc).2.2.2

end schur_similarity

section householder
variable {R : Type} [CommRing R] [Div R] [Sc R]
open HessSchur

/-- **`apply_householder_right(_simd)` computes `X P`** for `P = I − τ v vᵀ`, `v = (1, v1, v2)` on the `nrow × 3` block starting at
    column `k` (entry `(i, k+a)` of `X P` is `x_{i,a} − τ (x_i · v) v_a`) and touches nothing else.  Any commutative ring, any
    well-formed matrix; with `EIGEN_DONT_VECTORIZE` the SIMD variant has packet size 1 and is element-wise this loop. -/
theorem c09_householder_apply_right (m : Mat R) (h : C09Mat.WF m) (v1 v2 tau : R) (k nrow : Nat)
    (hk : k + 2 < m.cols) (hn : nrow ≤ m.rows) (i j : Nat) (hi : i < m.rows) :
    (applyHouseholderRight m v1 v2 tau k nrow).get i j =
      if i < nrow then
        (if j = k then m.get i k - tau * (m.get i k + v1 * m.get i (k + 1) + v2 * m.get i (k + 2))
         else if j = k + 1 then m.get i (k + 1) - tau * (m.get i k + v1 * m.get i (k + 1) + v2 * m.get i (k + 2)) * v1
         else if j = k + 2 then m.get i (k + 2) - tau * (m.get i k + v1 * m.get i (k + 1) + v2 * m.get i (k + 2)) * v2
         else m.get i j)
      else m.get i j := C09HH.applyHouseholderRight_get m h v1 v2 tau k nrow hk hn i j hi

/-- **`apply_householder_left` computes `P X`** on the `3 × ncol` block with rows `k, k+1, k+2` and columns `c0 .. c0+ncol−1`
    (entry `(k+a, j)` of `P X` is `x_{a,j} − τ v_a (v · x_j)`) and touches nothing else. -/
theorem c09_householder_apply_left (m : Mat R) (h : C09Mat.WF m) (v1 v2 tau : R) (k c0 ncol : Nat)
    (hk : k + 2 < m.rows) (hn : c0 + ncol ≤ m.cols) (i j : Nat) (hi : i < m.rows) :
    (applyHouseholderLeft m v1 v2 tau k c0 ncol).get i j =
      if c0 ≤ j ∧ j < c0 + ncol then
        (if i = k then m.get k j - tau * (m.get k j + v1 * m.get (k + 1) j + v2 * m.get (k + 2) j)
         else if i = k + 1 then m.get (k + 1) j - tau * (m.get k j + v1 * m.get (k + 1) j + v2 * m.get (k + 2) j) * v1
         else if i = k + 2 then m.get (k + 2) j - tau * (m.get k j + v1 * m.get (k + 1) j + v2 * m.get (k + 2) j) * v2
         else m.get i j)
      else m.get i j := C09HH.applyHouseholderLeft_get m h v1 v2 tau k c0 ncol hk hn i j hi

end householder

/-- **The hand model's Wilkinson-shift prologue IS the C++ source.**  `Gen.Wilk.wilkinson_mu` is regenerated by the translator from
    `TridiagEigen.h: tridiagonal_qr_step` (statements up to the guarded `mu -= …` chain) on every run; the hand-written
    `TridiagEigen.wilkinsonMu` used by `qrStep` equals it definitionally, for every scalar type and every `Sc` instance.
    An edit of the C++ prologue therefore breaks this obligation (and, through `c09_wilkinson_shift`, what is proved about it). -/
theorem c09_wilkinson_gen {α : Type} [Add α] [Sub α] [Mul α] [Div α] [Neg α] [Sc α] (diag subdiag : Int → α) (start end_ n : Int) :
    Gen.Wilk.wilkinson_mu diag subdiag start end_ n =
      TridiagEigen.wilkinsonMu (diag (end_ - 1)) (diag end_) (subdiag (end_ - 1)) := rfl

/-- `apply_householder_left/right(_simd)`: the scalar kernel maps `x = (x0,x1,x2)` to `P x`, `P = I − τ v vᵀ`, `v = (1, v1, v2)`
    (any commutative ring; row `i` of `P x` is `xᵢ − τ vᵢ (vᵀx)`). -/
theorem c09_householder_kernel {R : Type} [CommRing R] (v1 v2 tau x0 x1 x2 : R) :
    @HessSchur.hhKernel R _ _ _ v1 v2 tau x0 x1 x2 =
      (x0 - tau * 1 * (1 * x0 + v1 * x1 + v2 * x2),
       x1 - tau * v1 * (1 * x0 + v1 * x1 + v2 * x2),
       x2 - tau * v2 * (1 * x0 + v1 * x1 + v2 * x2)) := hhKernel_spec v1 v2 tau x0 x1 x2

end C09
